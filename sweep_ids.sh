#!/bin/bash
# sweep_ids.sh <tier> <seed> <ID>...
tier=$1; seed=$2; shift 2
for id in "$@"; do
  s=$(date +%s)
  out=$(VERIF_SEED=$seed /verif/check $id $tier 2>&1); rc=$?
  echo "$(date +%H:%M:%S) $id $tier seed=$seed rc=$rc wall=$(( $(date +%s) - s ))s $(echo "$out" | grep -a -E '^(VIOLATION|ERROR)' | head -2 | tr '\n' ' ')"
done
