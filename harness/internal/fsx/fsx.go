// Package fsx holds the disk-side instruments shared by the monitors:
// G2 (random disk trees and edit scripts), G3 (independent lstat/readlink/
// sha1 walker producing the expected core.Entry tree) and thin helpers around
// the real core.Scan.
package fsx

import (
	"context"
	"crypto/sha1"
	"fmt"
	"math/rand"
	"os"
	"path/filepath"
	"sort"
	"strings"
	"sync/atomic"
	"syscall"
	"time"
	"unicode/utf8"

	"github.com/mutagen-io/mutagen/pkg/filesystem/behavior"
	"github.com/mutagen-io/mutagen/pkg/synchronization/core"
	"github.com/mutagen-io/mutagen/pkg/synchronization/core/ignore"
	dockerignore "github.com/mutagen-io/mutagen/pkg/synchronization/core/ignore/docker"
	mutagenignore "github.com/mutagen-io/mutagen/pkg/synchronization/core/ignore/mutagen"
)

// NodeKind is the kind of a generated disk object.
type NodeKind int

const (
	KFile NodeKind = iota
	KDir
	KLink
	KFifo
)

// Node describes one disk object to create.
type Node struct {
	Kind    NodeKind
	Content []byte      // files
	Mode    os.FileMode // permission bits
	Target  string      // links
}

// Tree maps root-relative slash paths to nodes; parents are implied and
// created as directories with mode 0755 unless listed.
type Tree map[string]*Node

// TreeConfig controls RandomTree.
type TreeConfig struct {
	MaxEntries  int
	MaxDepth    int
	MaxFileSize int
	Links       bool
	Fifos       bool
	NonUTF8     bool
	Temporaries bool // .mutagen-temporary-* names
	ExtraNames  []string
}

var baseNames = []string{"a", "b", "c", "dir", "file.txt", "x.o", "sub", "data", "keep", "build", "node_modules", ".git", "README", "é", "with space"}

// UniqueToken returns content that is unique within the process.
var tokenCounter atomic.Int64

func UniqueToken(r *rand.Rand, size int) []byte {
	head := []byte(fmt.Sprintf("token-%d-%d|", tokenCounter.Add(1), r.Int63()))
	if size <= len(head) {
		return head
	}
	out := make([]byte, size)
	copy(out, head)
	for i := len(head); i < size; i++ {
		out[i] = byte('a' + r.Intn(26))
	}
	return out
}

func randSize(r *rand.Rand, max int) int {
	if max <= 0 {
		max = 4096
	}
	switch r.Intn(8) {
	case 0:
		return 0
	case 1:
		return 1 + r.Intn(16)
	case 2:
		// around typical rsync block boundaries
		b := []int{1024, 2048, 4096, 8192, 65536}[r.Intn(5)]
		v := b - 2 + r.Intn(5)
		if v > max {
			v = max
		}
		return v
	case 3:
		return r.Intn(max + 1)
	default:
		return 20 + r.Intn(600)
	}
}

// RandomTree generates a random tree.
func RandomTree(r *rand.Rand, c TreeConfig) Tree {
	t := Tree{}
	dirs := []string{""}
	names := append(append([]string{}, baseNames...), c.ExtraNames...)
	n := 1 + r.Intn(c.MaxEntries)
	for i := 0; i < n; i++ {
		parent := dirs[r.Intn(len(dirs))]
		name := names[r.Intn(len(names))]
		if r.Intn(4) == 0 {
			name = fmt.Sprintf("%s%d", name, r.Intn(50))
		}
		if c.NonUTF8 && r.Intn(25) == 0 {
			name = "bad\xff\xfename" + fmt.Sprint(r.Intn(9))
		}
		if c.Temporaries && r.Intn(25) == 0 {
			name = ".mutagen-temporary-" + fmt.Sprint(r.Intn(999))
		}
		p := name
		if parent != "" {
			p = parent + "/" + name
		}
		if _, exists := t[p]; exists {
			continue
		}
		depth := strings.Count(p, "/")
		roll := r.Intn(100)
		switch {
		case roll < 30 && depth < c.MaxDepth && utf8.ValidString(name) && !strings.HasPrefix(name, ".mutagen-temporary-"):
			t[p] = &Node{Kind: KDir, Mode: 0o755}
			dirs = append(dirs, p)
		case roll < 40 && c.Links:
			t[p] = &Node{Kind: KLink, Target: randomTarget(r, depth)}
		case roll < 44 && c.Fifos:
			t[p] = &Node{Kind: KFifo, Mode: 0o644}
		default:
			mode := []os.FileMode{0o644, 0o600, 0o755, 0o700, 0o640, 0o751}[r.Intn(6)]
			t[p] = &Node{Kind: KFile, Content: UniqueToken(r, randSize(r, c.MaxFileSize)), Mode: mode}
		}
	}
	return t
}

func randomTarget(r *rand.Rand, depth int) string {
	opts := []string{"a", "file.txt", "../a", "./b", "sub/x", "/etc/passwd", "../../outside", "..", ".", "a//b", "a/../..", "c:d", "e\\f", strings.Repeat("n/", 130)}
	t := opts[r.Intn(len(opts))]
	if r.Intn(3) == 0 {
		t = strings.Repeat("../", r.Intn(depth+2)) + "n"
	}
	return t
}

// SortedPaths returns tree paths parent-first.
func (t Tree) SortedPaths() []string {
	ps := make([]string, 0, len(t))
	for p := range t {
		ps = append(ps, p)
	}
	sort.Strings(ps)
	return ps
}

// Materialize creates the tree under root (root itself is created as a directory).
func Materialize(root string, t Tree) error {
	if err := os.MkdirAll(root, 0o755); err != nil {
		return err
	}
	for _, p := range t.SortedPaths() {
		n := t[p]
		full := filepath.Join(root, filepath.FromSlash(p))
		if err := os.MkdirAll(filepath.Dir(full), 0o755); err != nil {
			return err
		}
		switch n.Kind {
		case KDir:
			if err := os.Mkdir(full, 0o755); err != nil && !os.IsExist(err) {
				return err
			}
		case KFile:
			if err := os.WriteFile(full, n.Content, 0o600); err != nil {
				return err
			}
			if err := os.Chmod(full, n.Mode); err != nil {
				return err
			}
		case KLink:
			if err := os.Symlink(n.Target, full); err != nil {
				return err
			}
		case KFifo:
			if err := syscall.Mkfifo(full, 0o644); err != nil {
				return err
			}
		}
	}
	return nil
}

// ---------------------------------------------------------------- G3 walker

// WalkOptions configure the independent walker's expectations.
type WalkOptions struct {
	SymbolicLinkMode core.SymbolicLinkMode
	PermissionsMode  core.PermissionsMode
	// Ignored reports whether a root-relative path is ignored (nil = nothing).
	// An ignored path becomes one untracked entry and is not descended.
	Ignored func(path string, dir bool) bool
}

// Stats are the counters a snapshot reports.
type Stats struct {
	Directories, Files, SymbolicLinks, TotalFileSize uint64
}

// PortableOK is the reference predicate for portable symbolic links.
func PortableOK(linkPath, target string) bool {
	if target == "" || len(target) > 247 || strings.ContainsAny(target, ":\\") || target[0] == '/' {
		return false
	}
	depth := strings.Count(linkPath, "/")
	for _, comp := range strings.Split(target, "/") {
		switch comp {
		case "", ".":
		case "..":
			depth--
			if depth < 0 {
				return false
			}
		default:
			depth++
		}
	}
	return true
}

// EscapeName is the documented name for non-UTF-8 entries.
func EscapeName(name string) string {
	return strings.ToValidUTF8(name, "�") + " (non-UTF-8)"
}

// Walk builds the expected entry tree for root using only lstat, readdir,
// readlink and sha1. Problem messages are set to "*" (compare with EqualLoose).
// A missing root yields nil.
func Walk(root string, o WalkOptions) (*core.Entry, Stats, error) {
	var st Stats
	e, err := walk(root, "", o, &st)
	return e, st, err
}

func walk(full, rel string, o WalkOptions, st *Stats) (*core.Entry, error) {
	fi, err := os.Lstat(full)
	if err != nil {
		if os.IsNotExist(err) {
			return nil, nil
		}
		return nil, err
	}
	mode := fi.Mode()
	switch {
	case mode.IsDir():
		f, err := os.Open(full)
		if err != nil {
			return &core.Entry{Kind: core.EntryKind_Problematic, Problem: "*"}, nil
		}
		names, err := f.Readdirnames(-1)
		f.Close()
		if err != nil {
			return &core.Entry{Kind: core.EntryKind_Problematic, Problem: "*"}, nil
		}
		st.Directories++
		out := &core.Entry{Kind: core.EntryKind_Directory}
		if len(names) > 0 {
			out.Contents = map[string]*core.Entry{}
		}
		for _, name := range names {
			if strings.HasPrefix(name, ".mutagen-temporary-") {
				continue
			}
			if !utf8.ValidString(name) {
				out.Contents[EscapeName(name)] = &core.Entry{Kind: core.EntryKind_Problematic, Problem: "*"}
				continue
			}
			crel := name
			if rel != "" {
				crel = rel + "/" + name
			}
			cfull := filepath.Join(full, name)
			cfi, err := os.Lstat(cfull)
			if err != nil {
				continue
			}
			cm := cfi.Mode()
			if !(cm.IsDir() || cm.IsRegular() || cm&os.ModeSymlink != 0) {
				out.Contents[name] = &core.Entry{Kind: core.EntryKind_Untracked}
				continue
			}
			if o.Ignored != nil && o.Ignored(crel, cm.IsDir()) {
				out.Contents[name] = &core.Entry{Kind: core.EntryKind_Untracked}
				continue
			}
			c, err := walk(cfull, crel, o, st)
			if err != nil {
				return nil, err
			}
			if c != nil {
				out.Contents[name] = c
			}
		}
		if len(out.Contents) == 0 {
			out.Contents = nil
		}
		return out, nil
	case mode.IsRegular():
		data, err := os.ReadFile(full)
		if err != nil {
			return &core.Entry{Kind: core.EntryKind_Problematic, Problem: "*"}, nil
		}
		sum := sha1.Sum(data)
		st.Files++
		st.TotalFileSize += uint64(len(data))
		exec := false
		if o.PermissionsMode == core.PermissionsMode_PermissionsModePortable {
			exec = mode.Perm()&0o111 != 0
		}
		return &core.Entry{Kind: core.EntryKind_File, Digest: sum[:], Executable: exec}, nil
	case mode&os.ModeSymlink != 0:
		switch o.SymbolicLinkMode {
		case core.SymbolicLinkMode_SymbolicLinkModeIgnore:
			return &core.Entry{Kind: core.EntryKind_Untracked}, nil
		case core.SymbolicLinkMode_SymbolicLinkModePOSIXRaw:
			target, err := os.Readlink(full)
			if err != nil || target == "" {
				return &core.Entry{Kind: core.EntryKind_Problematic, Problem: "*"}, nil
			}
			st.SymbolicLinks++
			return &core.Entry{Kind: core.EntryKind_SymbolicLink, Target: target}, nil
		default:
			target, err := os.Readlink(full)
			if err != nil || !PortableOK(rel, target) {
				return &core.Entry{Kind: core.EntryKind_Problematic, Problem: "*"}, nil
			}
			st.SymbolicLinks++
			return &core.Entry{Kind: core.EntryKind_SymbolicLink, Target: target}, nil
		}
	default:
		return &core.Entry{Kind: core.EntryKind_Untracked}, nil
	}
}

// EqualLoose compares entry trees deeply, treating any two problem messages
// as equal (the walker cannot predict message texts). It returns the first
// differing path.
func EqualLoose(a, b *core.Entry) (bool, string) {
	return equalLoose("", a, b)
}

func equalLoose(p string, a, b *core.Entry) (bool, string) {
	if a == nil || b == nil {
		return a == nil && b == nil, p
	}
	if a.Kind != b.Kind || a.Executable != b.Executable || string(a.Digest) != string(b.Digest) || a.Target != b.Target {
		return false, p
	}
	if a.Kind == core.EntryKind_Problematic && (a.Problem == "") != (b.Problem == "") {
		return false, p
	}
	if len(a.Contents) != len(b.Contents) {
		return false, p
	}
	for n, c := range a.Contents {
		q := n
		if p != "" {
			q = p + "/" + n
		}
		d, ok := b.Contents[n]
		if !ok {
			return false, q
		}
		if ok2, where := equalLoose(q, c, d); !ok2 {
			return false, where
		}
	}
	return true, ""
}

// ---------------------------------------------------------------- scanning

// ScanConfig selects the scan behaviour.
type ScanConfig struct {
	Patterns         []string
	Docker           bool // docker ignore syntax instead of mutagen syntax
	IgnoreVCS        bool
	ProbeMode        behavior.ProbeMode
	SymbolicLinkMode core.SymbolicLinkMode
	PermissionsMode  core.PermissionsMode
}

// DefaultScanConfig is portable links, portable permissions, probing.
func DefaultScanConfig() ScanConfig {
	return ScanConfig{
		ProbeMode:        behavior.ProbeMode_ProbeModeProbe,
		SymbolicLinkMode: core.SymbolicLinkMode_SymbolicLinkModePortable,
		PermissionsMode:  core.PermissionsMode_PermissionsModePortable,
	}
}

// NewIgnorer builds the real ignorer for the config.
func (c ScanConfig) NewIgnorer() (ignore.Ignorer, error) {
	var ig ignore.Ignorer
	var err error
	if c.Docker {
		ig, err = dockerignore.NewIgnorer(c.Patterns)
	} else {
		ig, err = mutagenignore.NewIgnorer(c.Patterns)
	}
	if err != nil {
		return nil, err
	}
	if c.IgnoreVCS {
		ig = ignore.IgnoreVCS(ig)
	}
	return ig, nil
}

// ScanState carries acceleration state between scans.
type ScanState struct {
	Snapshot    *core.Snapshot
	Cache       *core.Cache
	IgnoreCache ignore.IgnoreCache
}

// Cold performs a full real scan.
func Cold(root string, c ScanConfig) (*ScanState, error) {
	return Accelerated(root, c, nil, nil)
}

// Accelerated performs a real scan re-using prev and rechecking the given paths.
func Accelerated(root string, c ScanConfig, prev *ScanState, recheck map[string]bool) (*ScanState, error) {
	ig, err := c.NewIgnorer()
	if err != nil {
		return nil, err
	}
	var baseline *core.Snapshot
	var cache *core.Cache
	var icache ignore.IgnoreCache
	if prev != nil {
		baseline, cache, icache = prev.Snapshot, prev.Cache, prev.IgnoreCache
	}
	ctx, cancel := context.WithTimeout(context.Background(), 5*time.Minute)
	defer cancel()
	snap, newCache, newIgnore, err := core.Scan(ctx, root, baseline, recheck, sha1.New(), cache, ig, icache, c.ProbeMode, c.SymbolicLinkMode, c.PermissionsMode)
	if err != nil {
		return nil, err
	}
	return &ScanState{Snapshot: snap, Cache: newCache, IgnoreCache: newIgnore}, nil
}

// Sha1 returns the sha1 digest of data.
func Sha1(data []byte) []byte {
	s := sha1.Sum(data)
	return s[:]
}

// ---------------------------------------------------------------- edits

// Edit is one applied disk edit.
type Edit struct {
	Op    string
	Path  string
	Path2 string
}

// BumpMtime moves a path's mtime forward by at least one second relative to
// its current value (no-follow).
func BumpMtime(full string) error {
	fi, err := os.Lstat(full)
	if err != nil {
		return err
	}
	t := fi.ModTime().Add(time.Duration(1+rand.Intn(3)) * time.Second)
	ts := []syscall.Timespec{syscall.NsecToTimespec(t.UnixNano()), syscall.NsecToTimespec(t.UnixNano())}
	return utimesNoFollow(full, ts)
}

// Inode returns the inode number of a path (no-follow).
func Inode(full string) uint64 {
	var st syscall.Stat_t
	if syscall.Lstat(full, &st) != nil {
		return 0
	}
	return st.Ino
}

func listDisk(root string) (files, dirs, links, all []string) {
	filepath.Walk(root, func(p string, fi os.FileInfo, err error) error {
		if err != nil || p == root {
			return nil
		}
		rel, _ := filepath.Rel(root, p)
		rel = filepath.ToSlash(rel)
		all = append(all, rel)
		switch {
		case fi.IsDir():
			dirs = append(dirs, rel)
		case fi.Mode().IsRegular():
			files = append(files, rel)
		case fi.Mode()&os.ModeSymlink != 0:
			links = append(links, rel)
		}
		return nil
	})
	return
}

// Parents returns the path and all its ancestors ("" excluded) — the set a
// watcher would report for a change at path.
func Parents(p string) []string {
	var out []string
	for p != "" && p != "." {
		out = append(out, p)
		i := strings.LastIndex(p, "/")
		if i < 0 {
			break
		}
		p = p[:i]
	}
	return out
}

// RandomEdit applies one random edit under root and returns it together with
// the set of paths that changed (the path itself and, for creations,
// deletions and renames, both names). Content edits always write a unique
// token and bump mtime by >= 1s; replacement always yields a new inode.
func RandomEdit(r *rand.Rand, root string) (Edit, []string, error) {
	files, dirs, links, all := listDisk(root)
	pickDir := func() string {
		if len(dirs) == 0 || r.Intn(3) == 0 {
			return ""
		}
		return dirs[r.Intn(len(dirs))]
	}
	join := func(d, n string) string {
		if d == "" {
			return n
		}
		return d + "/" + n
	}
	newName := func() string { return fmt.Sprintf("%s%d", baseNames[r.Intn(len(baseNames))], r.Intn(30)) }
	full := func(rel string) string { return filepath.Join(root, filepath.FromSlash(rel)) }
	for attempt := 0; attempt < 20; attempt++ {
		switch r.Intn(11) {
		case 0: // create file
			p := join(pickDir(), newName())
			if _, err := os.Lstat(full(p)); err == nil {
				continue
			}
			if err := os.WriteFile(full(p), UniqueToken(r, randSize(r, 8192)), []os.FileMode{0o644, 0o755}[r.Intn(2)]); err != nil {
				continue
			}
			return Edit{Op: "create-file", Path: p}, []string{p}, nil
		case 1: // mkdir
			p := join(pickDir(), newName())
			if err := os.Mkdir(full(p), 0o755); err != nil {
				continue
			}
			return Edit{Op: "mkdir", Path: p}, []string{p}, nil
		case 2: // in-place content edit
			if len(files) == 0 {
				continue
			}
			p := files[r.Intn(len(files))]
			os.Chmod(full(p), 0o644|os.FileMode(0o111*r.Intn(2)))
			if err := os.WriteFile(full(p), UniqueToken(r, randSize(r, 8192)), 0o644); err != nil {
				continue
			}
			if err := BumpMtime(full(p)); err != nil {
				return Edit{}, nil, err
			}
			return Edit{Op: "edit", Path: p}, []string{p}, nil
		case 3: // chmod
			if len(files) == 0 {
				continue
			}
			p := files[r.Intn(len(files))]
			fi, err := os.Lstat(full(p))
			if err != nil {
				continue
			}
			if err := os.Chmod(full(p), fi.Mode().Perm()^0o100); err != nil {
				continue
			}
			return Edit{Op: "chmod", Path: p}, []string{p}, nil
		case 4: // delete anything
			if len(all) == 0 {
				continue
			}
			p := all[r.Intn(len(all))]
			if err := os.RemoveAll(full(p)); err != nil {
				continue
			}
			return Edit{Op: "delete", Path: p}, []string{p}, nil
		case 5: // rename
			if len(all) == 0 {
				continue
			}
			p := all[r.Intn(len(all))]
			q := join(pickDir(), newName())
			if strings.HasPrefix(q+"/", p+"/") {
				continue
			}
			if _, err := os.Lstat(full(q)); err == nil {
				continue
			}
			if err := os.Rename(full(p), full(q)); err != nil {
				continue
			}
			return Edit{Op: "rename", Path: p, Path2: q}, []string{p, q}, nil
		case 6: // replace file by new inode
			if len(files) == 0 {
				continue
			}
			p := files[r.Intn(len(files))]
			tmp := full(p) + ".verif-new"
			old := Inode(full(p))
			if err := os.WriteFile(tmp, UniqueToken(r, randSize(r, 8192)), 0o644); err != nil {
				continue
			}
			if Inode(tmp) == old {
				os.Remove(tmp)
				continue
			}
			if err := os.Rename(tmp, full(p)); err != nil {
				os.Remove(tmp)
				continue
			}
			BumpMtime(full(p))
			return Edit{Op: "replace", Path: p}, []string{p}, nil
		case 7: // type change: file <-> directory
			if len(all) == 0 {
				continue
			}
			p := all[r.Intn(len(all))]
			fi, err := os.Lstat(full(p))
			if err != nil {
				continue
			}
			if err := os.RemoveAll(full(p)); err != nil {
				continue
			}
			if fi.IsDir() {
				os.WriteFile(full(p), UniqueToken(r, 64), 0o644)
				BumpMtime(full(p))
			} else {
				os.Mkdir(full(p), 0o755)
				os.WriteFile(filepath.Join(full(p), "inner"), UniqueToken(r, 64), 0o644)
			}
			return Edit{Op: "retype", Path: p}, []string{p, p + "/inner"}, nil
		case 8: // symlink create / retarget
			if len(links) > 0 && r.Intn(2) == 0 {
				p := links[r.Intn(len(links))]
				os.Remove(full(p))
				if err := os.Symlink(fmt.Sprintf("retarget%d", r.Intn(1000)), full(p)); err != nil {
					continue
				}
				return Edit{Op: "retarget", Path: p}, []string{p}, nil
			}
			p := join(pickDir(), newName())
			if err := os.Symlink(randomTarget(r, strings.Count(p, "/")), full(p)); err != nil {
				continue
			}
			return Edit{Op: "symlink", Path: p}, []string{p}, nil
		case 9: // empty-directory replacement: remove empty dir, rename a populated one into place
			var empties []string
			for _, d := range dirs {
				if ents, err := os.ReadDir(full(d)); err == nil && len(ents) == 0 {
					empties = append(empties, d)
				}
			}
			if len(empties) == 0 {
				continue
			}
			p := empties[r.Intn(len(empties))]
			tmp := full(p) + ".verif-dir"
			if err := os.Mkdir(tmp, 0o755); err != nil {
				continue
			}
			os.WriteFile(filepath.Join(tmp, "moved-in"), UniqueToken(r, 100), 0o644)
			os.Remove(full(p))
			if err := os.Rename(tmp, full(p)); err != nil {
				os.RemoveAll(tmp)
				continue
			}
			// a watcher reports only the parent-visible name here
			return Edit{Op: "swap-empty-dir", Path: p}, []string{p}, nil
		default: // add child into an existing directory
			if len(dirs) == 0 {
				continue
			}
			d := dirs[r.Intn(len(dirs))]
			p := join(d, newName())
			if _, err := os.Lstat(full(p)); err == nil {
				continue
			}
			if err := os.WriteFile(full(p), UniqueToken(r, randSize(r, 2048)), 0o644); err != nil {
				continue
			}
			return Edit{Op: "add-child", Path: p}, []string{p}, nil
		}
	}
	return Edit{Op: "none"}, nil, nil
}
