package fsx

import (
	"syscall"
	"unsafe"
)

const atSymlinkNoFollow = 0x100
const atFdCwd = -100

func utimesNoFollow(path string, ts []syscall.Timespec) error {
	p, err := syscall.BytePtrFromString(path)
	if err != nil {
		return err
	}
	_, _, e := syscall.Syscall6(syscall.SYS_UTIMENSAT, uintptr(atFdCwd&0xffffffff|0xffffffff00000000), uintptr(unsafe.Pointer(p)), uintptr(unsafe.Pointer(&ts[0])), atSymlinkNoFollow, 0, 0)
	if e != 0 {
		return e
	}
	return nil
}
