package l3

import (
	"crypto/sha1"
	"encoding/hex"
	"fmt"
	"os"
	"path/filepath"
	"sort"
	"strconv"
	"strings"
	"syscall"
	"unicode/utf8"

	"verif/internal/fsx"
)

// Obj is what the independent walker records about one disk object. It is
// built from lstat/readdir/readlink/sha1 only.
type Obj struct {
	Kind   byte   // 'd' directory, 'f' regular file, 'l' symbolic link, 'p' FIFO, 'o' other
	Digest string // sha1 (hex) of files
	Size   int64
	Perm   uint32
	Ino    uint64
	Mtime  int64 // ns
	Target string
}

// Snap maps root-relative slash paths ("" = the root itself) to objects.
type Snap map[string]*Obj

func (o *Obj) exec() bool { return o.Perm&0o111 != 0 }

func (o *Obj) String() string {
	if o == nil {
		return "absent"
	}
	switch o.Kind {
	case 'd':
		return fmt.Sprintf("dir(ino=%d)", o.Ino)
	case 'f':
		return fmt.Sprintf("file(sha1=%s size=%d perm=%o ino=%d mtime=%d)", o.Digest[:10], o.Size, o.Perm, o.Ino, o.Mtime)
	case 'l':
		return fmt.Sprintf("link(%s ino=%d)", quote(o.Target), o.Ino)
	case 'p':
		return fmt.Sprintf("fifo(ino=%d)", o.Ino)
	}
	return fmt.Sprintf("other(ino=%d)", o.Ino)
}

// quote renders a path for logs and witnesses without losing non-UTF-8 bytes.
func quote(p string) string {
	if utf8.ValidString(p) && !strings.ContainsAny(p, "\"\n") {
		return p
	}
	return strconv.QuoteToASCII(p)
}

// takeSnap walks root. Names starting with mutagen's temporary prefix are
// skipped (probe files and in-flight atomic writes are transient by contract).
func takeSnap(root string) (Snap, error) {
	s := Snap{}
	err := snapWalk(root, "", s)
	return s, err
}

func snapWalk(full, rel string, s Snap) error {
	var st syscall.Stat_t
	if err := syscall.Lstat(full, &st); err != nil {
		if os.IsNotExist(err) || err == syscall.ENOENT {
			return nil
		}
		return fmt.Errorf("lstat %s: %w", quote(full), err)
	}
	o := &Obj{Perm: uint32(st.Mode & 0o7777), Ino: st.Ino, Mtime: st.Mtim.Sec*1e9 + st.Mtim.Nsec, Size: st.Size}
	s[rel] = o
	switch st.Mode & syscall.S_IFMT {
	case syscall.S_IFDIR:
		o.Kind = 'd'
		f, err := os.Open(full)
		if err != nil {
			return fmt.Errorf("open %s: %w", quote(full), err)
		}
		names, err := f.Readdirnames(-1)
		f.Close()
		if err != nil {
			return fmt.Errorf("readdir %s: %w", quote(full), err)
		}
		sort.Strings(names)
		for _, n := range names {
			if strings.HasPrefix(n, ".mutagen-temporary-") {
				continue
			}
			crel := n
			if rel != "" {
				crel = rel + "/" + n
			}
			if err := snapWalk(filepath.Join(full, n), crel, s); err != nil {
				return err
			}
		}
	case syscall.S_IFREG:
		o.Kind = 'f'
		data, err := os.ReadFile(full)
		if err != nil {
			return fmt.Errorf("read %s: %w", quote(full), err)
		}
		sum := sha1.Sum(data)
		o.Digest = hex.EncodeToString(sum[:])
	case syscall.S_IFLNK:
		o.Kind = 'l'
		t, err := os.Readlink(full)
		if err != nil {
			return fmt.Errorf("readlink %s: %w", quote(full), err)
		}
		o.Target = t
	case syscall.S_IFIFO:
		o.Kind = 'p'
	default:
		o.Kind = 'o'
	}
	return nil
}

// contentEq is equality of synchronizable content at one path (shallow for
// directories): kind, digest and executability of files (portable permission
// mode propagates executability only), target of links, identity for objects
// that have no synchronizable content.
func contentEq(a, b *Obj) bool {
	if a == nil || b == nil {
		return a == nil && b == nil
	}
	if a.Kind != b.Kind {
		return false
	}
	switch a.Kind {
	case 'd':
		return true
	case 'f':
		return a.Digest == b.Digest && a.exec() == b.exec()
	case 'l':
		return a.Target == b.Target
	default:
		return a.Ino == b.Ino
	}
}

// exactEq is byte-and-identity equality: kind, content, permission bits,
// inode; mtime for files and links (directory mtimes move when mutagen probes
// the root with temporary files, which is not a modification of content).
func exactEq(a, b *Obj) bool {
	if a == nil || b == nil {
		return a == nil && b == nil
	}
	if a.Kind != b.Kind || a.Perm != b.Perm || a.Ino != b.Ino || a.Digest != b.Digest || a.Target != b.Target {
		return false
	}
	if a.Kind != 'd' && a.Mtime != b.Mtime {
		return false
	}
	return true
}

// identityEq: same object with the same content (C03: "same inode and content").
func identityEq(a, b *Obj) bool {
	if a == nil || b == nil {
		return a == nil && b == nil
	}
	return a.Kind == b.Kind && a.Ino == b.Ino && a.Digest == b.Digest && a.Target == b.Target
}

func (s Snap) paths() []string {
	ps := make([]string, 0, len(s))
	for p := range s {
		ps = append(ps, p)
	}
	sort.Strings(ps)
	return ps
}

// firstExactDiff returns the first path (sorted) where two snapshots differ.
func firstExactDiff(a, b Snap) (string, bool) {
	seen := map[string]bool{}
	var all []string
	for p := range a {
		seen[p] = true
		all = append(all, p)
	}
	for p := range b {
		if !seen[p] {
			all = append(all, p)
		}
	}
	sort.Strings(all)
	for _, p := range all {
		if !exactEq(a[p], b[p]) {
			return p, true
		}
	}
	return "", false
}

// ---------------------------------------------------------------- classes

// Session ignore patterns and the harness's own, independent reading of them:
// a pattern without a slash matches the base name at any depth, and nothing
// below an ignored directory is visited.
var ignorePatterns = []string{"*.ign", "igndir"}

func nameIgnored(name string) bool { return strings.HasSuffix(name, ".ign") || name == "igndir" }

func pathIgnored(p string) bool {
	if p == "" {
		return false
	}
	for _, c := range strings.Split(p, "/") {
		if nameIgnored(c) {
			return true
		}
	}
	return false
}

func pathNonUTF8(p string) bool { return !utf8.ValidString(p) }

func parentOf(p string) string {
	i := strings.LastIndex(p, "/")
	if i < 0 {
		return ""
	}
	return p[:i]
}

// under reports whether p is root or lies below it.
func under(p, root string) bool {
	return root == "" || p == root || strings.HasPrefix(p, root+"/")
}

// protectedClass classifies an object as content the session does not track
// ("" = tracked): ignored by the session's patterns, special file, entry with
// a non-UTF-8 name (or anything below one), symbolic link that portable mode
// must refuse.
func protectedClass(p string, o *Obj) string {
	switch {
	case p == "":
		return ""
	case pathNonUTF8(p):
		return "nonutf8"
	case pathIgnored(p):
		return "ignored"
	case o.Kind == 'p' || o.Kind == 'o':
		return "fifo"
	case o.Kind == 'l' && !fsx.PortableOK(p, o.Target):
		return "badlink"
	}
	return ""
}

// tracked: synchronizable kind at a path the session tracks.
func tracked(p string, o *Obj) bool {
	return o != nil && protectedClass(p, o) == "" && (o.Kind == 'd' || o.Kind == 'f' || o.Kind == 'l')
}
