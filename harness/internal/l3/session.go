package l3

import (
	"context"
	"errors"
	"fmt"
	"io"
	"path/filepath"
	"sync/atomic"
	"time"

	"github.com/mutagen-io/mutagen/pkg/encoding"
	"github.com/mutagen-io/mutagen/pkg/filesystem"
	"github.com/mutagen-io/mutagen/pkg/logging"
	"github.com/mutagen-io/mutagen/pkg/selection"
	"github.com/mutagen-io/mutagen/pkg/synchronization"
	"github.com/mutagen-io/mutagen/pkg/synchronization/core"
	"github.com/mutagen-io/mutagen/pkg/url"

	// Registers the handler for local endpoints.
	_ "github.com/mutagen-io/mutagen/pkg/synchronization/protocols/local"
)

// Generous bounds on waits for the real session (nominal: milliseconds). A
// wait that exceeds them makes the history inconclusive, never a violation.
const (
	createBound = 2 * time.Minute
	flushBound  = 2 * time.Minute
)

var errWait = errors.New("wait bound exceeded")

// errRescanLoop: the session fell into its scan-retry loop; no cycle completed.
var errRescanLoop = errors.New("session is waiting to rescan after repeated scan errors")

// session is one real synchronization session inside one real Manager.
type session struct {
	mgr         *synchronization.Manager
	id          string
	sel         *selection.Selection
	archivePath string
}

var modeNames = map[string]core.SynchronizationMode{
	"two-way-safe":     core.SynchronizationMode_SynchronizationModeTwoWaySafe,
	"two-way-resolved": core.SynchronizationMode_SynchronizationModeTwoWayResolved,
	"one-way-safe":     core.SynchronizationMode_SynchronizationModeOneWaySafe,
	"one-way-replica":  core.SynchronizationMode_SynchronizationModeOneWayReplica,
}

// openSession creates a manager (its data directory is taken from
// MUTAGEN_DATA_DIRECTORY, which the child process owns) and one session
// between two local roots in no-watch mode.
func openSession(alphaRoot, betaRoot, mode string, betaCap uint64, logw io.Writer) (*session, error) {
	logger := logging.NewLogger(logging.LevelTrace, logw)
	mgr, err := synchronization.NewManager(logger)
	if err != nil {
		return nil, fmt.Errorf("NewManager: %w", err)
	}
	alphaURL, err := url.Parse(alphaRoot, url.Kind_Synchronization, true)
	if err != nil {
		return nil, err
	}
	betaURL, err := url.Parse(betaRoot, url.Kind_Synchronization, false)
	if err != nil {
		return nil, err
	}
	cfg := &synchronization.Configuration{
		SynchronizationMode: modeNames[mode],
		WatchMode:           synchronization.WatchMode_WatchModeNoWatch,
		Ignores:             append([]string{}, ignorePatterns...),
	}
	if err := cfg.EnsureValid(false); err != nil {
		return nil, fmt.Errorf("configuration rejected: %w", err)
	}
	ctx, cancel := context.WithTimeout(context.Background(), createBound)
	defer cancel()
	// endpoint-specific configuration: an entry-count limit on beta only
	cfgBeta := &synchronization.Configuration{MaximumEntryCount: betaCap}
	if err := cfgBeta.EnsureValid(true); err != nil {
		return nil, fmt.Errorf("beta configuration rejected: %w", err)
	}
	id, err := mgr.Create(ctx, alphaURL, betaURL, cfg, &synchronization.Configuration{}, cfgBeta, "l3", nil, false, "")
	if err != nil {
		mgr.Shutdown()
		return nil, fmt.Errorf("Create: %w", err)
	}
	archives, err := filesystem.Mutagen(false, filesystem.MutagenSynchronizationArchivesDirectoryName)
	if err != nil {
		mgr.Shutdown()
		return nil, err
	}
	s := &session{mgr: mgr, id: id, sel: &selection.Selection{Specifications: []string{id}}, archivePath: filepath.Join(archives, id)}
	if _, err := s.settle(createBound); err != nil {
		mgr.Shutdown()
		return nil, fmt.Errorf("session never became ready: %w", err)
	}
	return s, nil
}

func halted(st *synchronization.State) bool {
	switch st.Status {
	case synchronization.Status_HaltedOnRootEmptied, synchronization.Status_HaltedOnRootDeletion, synchronization.Status_HaltedOnRootTypeChange:
		return true
	}
	return false
}

// settle waits (long-polling the real List) until the session is idle: waiting
// for a trigger, halted, or fallen out of its synchronization loop with an
// error. It returns the state seen then.
func (s *session) settle(bound time.Duration) (*synchronization.State, error) {
	ctx, cancel := context.WithTimeout(context.Background(), bound)
	defer cancel()
	var idx uint64
	for {
		next, states, err := s.mgr.List(ctx, s.sel, idx)
		if err != nil {
			if ctx.Err() != nil {
				return nil, errWait
			}
			return nil, err
		}
		if len(states) != 1 {
			return nil, fmt.Errorf("List returned %d states", len(states))
		}
		st := states[0]
		if st.Status == synchronization.Status_Watching || halted(st) || (st.Status == synchronization.Status_Disconnected && st.LastError != "") {
			return st, nil
		}
		idx = next
	}
}

// flush forces exactly one full cycle and waits for it (skipWait=false), then
// waits until the session is idle again (a cycle that saw missing staged files
// is followed by another one on its own).
func (s *session) flush() (*synchronization.State, error, error) {
	ctx, cancel := context.WithTimeout(context.Background(), flushBound)
	// A scan that keeps failing (for instance a root holding more entries than
	// its endpoint's limit) makes the session retry every few seconds and the
	// flush wait for ever; a watcher gives the flush up as soon as the session
	// reports that state.
	var rescanLoop atomic.Bool
	var rescanState atomic.Pointer[synchronization.State]
	watchCtx, stopWatch := context.WithCancel(ctx)
	watchDone := make(chan struct{})
	go func() {
		defer close(watchDone)
		var idx uint64
		for {
			next, states, err := s.mgr.List(watchCtx, s.sel, idx)
			if err != nil || len(states) != 1 {
				return
			}
			if states[0].Status == synchronization.Status_WaitingForRescan {
				rescanState.Store(states[0])
				rescanLoop.Store(true)
				cancel()
				return
			}
			if idx = next; idx == 0 {
				idx = 1
			}
		}
	}()
	flushErr := s.mgr.Flush(ctx, s.sel, "", false)
	timedOut := ctx.Err() != nil && !rescanLoop.Load()
	stopWatch()
	<-watchDone
	cancel()
	if rescanLoop.Load() {
		return rescanState.Load(), errRescanLoop, nil
	}
	if timedOut {
		return nil, flushErr, errWait
	}
	st, err := s.settle(flushBound)
	return st, flushErr, err
}

// restart pauses and resumes the session: the loop ends, endpoints are shut
// down, and the next loop reloads the archive and the caches from disk.
func (s *session) restart() error {
	ctx, cancel := context.WithTimeout(context.Background(), createBound)
	defer cancel()
	if err := s.mgr.Pause(ctx, s.sel, ""); err != nil {
		return fmt.Errorf("Pause: %w", err)
	}
	if err := s.mgr.Resume(ctx, s.sel, ""); err != nil {
		return fmt.Errorf("Resume: %w", err)
	}
	_, err := s.settle(createBound)
	return err
}

func (s *session) archive() (*core.Archive, error) {
	a := &core.Archive{}
	if err := encoding.LoadAndUnmarshalProtobuf(s.archivePath, a); err != nil {
		return nil, err
	}
	return a, nil
}

func (s *session) close() {
	ctx, cancel := context.WithTimeout(context.Background(), createBound)
	s.mgr.Terminate(ctx, s.sel, "")
	cancel()
	s.mgr.Shutdown()
}
