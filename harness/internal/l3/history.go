package l3

import (
	"fmt"
	"io"
	"math/rand"
	"os"
	"path/filepath"
	"sort"
	"strings"
	"syscall"

	"google.golang.org/protobuf/proto"

	"github.com/mutagen-io/mutagen/pkg/synchronization"
	"github.com/mutagen-io/mutagen/pkg/synchronization/core"

	"verif/internal/fsx"
)

// Spec describes one history; it is a pure function of (property, seed, index).
type Spec struct {
	Prop  string `json:"prop"`
	Index int    `json:"index"`
	Seed  int64  `json:"seed"`
	Mode  string `json:"mode"`
	Dir   string `json:"dir"` // scratch directory of this history
	// Variants.
	DataDir string `json:"data_dir"`           // MUTAGEN_DATA_DIRECTORY of the child (tmpfs in the cross-device variant)
	Shm     bool   `json:"shm,omitempty"`      // data directory (staging) on another device than the roots
	BetaCap uint64 `json:"beta_cap,omitempty"` // MaximumEntryCount configured on the beta endpoint only
}

// Viol is a violation found by a child, reported by the parent through vk.
type Viol struct {
	Sig     map[string]string `json:"sig"`
	What    string            `json:"what"`
	Witness map[string]any    `json:"witness"`
}

// Result is what a child hands back.
type Result struct {
	Spec         Spec             `json:"spec"`
	Evals        int              `json:"evals"`
	Distinct     []string         `json:"distinct"`
	Counts       map[string]int64 `json:"counts"`
	Samples      []any            `json:"samples"`
	Violations   []Viol           `json:"violations"`
	Inconclusive []string         `json:"inconclusive"`
	HarnessError string           `json:"harness_error,omitempty"`
	Panic        string           `json:"panic,omitempty"`
	Completed    bool             `json:"completed"`
}

type roundRecord struct {
	Round     int      `json:"round"`
	Restarted bool     `json:"restarted,omitempty"`
	Edits     []string `json:"edits"`
}

// history is the state of one running history.
type history struct {
	spec    Spec
	rng     *rand.Rand
	roots   roots
	res     *Result
	logw    io.Writer
	sess    *session
	shadow  map[string]*Obj // last content both roots agreed on, per path
	rounds  []roundRecord
	seeding string
	stuck   bool
	tpSig   string   // "listed" if the quiescent flushes reported transition problems
	tpList  []string
}

func (h *history) logf(format string, a ...any) {
	fmt.Fprintf(h.logw, "[l3] "+format+"\n", a...)
}

func (h *history) count(key string, n int64) { h.res.Counts[key] += n }

func (h *history) violation(rule string, extraSig map[string]string, what string, witness map[string]any) {
	sig := map[string]string{"rule": rule, "mode": h.spec.Mode}
	for k, v := range extraSig {
		sig[k] = v
	}
	if witness == nil {
		witness = map[string]any{}
	}
	witness["history"] = map[string]any{"prop": h.spec.Prop, "index": h.spec.Index, "history_seed": h.spec.Seed, "mode": h.spec.Mode, "seeding": h.seeding, "rounds": h.rounds}
	h.logf("VIOLATION %s: %s", rule, what)
	h.res.Violations = append(h.res.Violations, Viol{Sig: sig, What: what, Witness: witness})
}

func twoWay(mode string) bool { return strings.HasPrefix(mode, "two-way") }
func oneWay(mode string) bool { return strings.HasPrefix(mode, "one-way") }

// conflictRoots lists the roots of the conflicts the session reports.
func conflictRoots(st *synchronization.State) []string {
	var out []string
	for _, c := range st.Conflicts {
		out = append(out, c.Root)
	}
	return out
}

func coveredBy(p string, rootsList []string) bool {
	for _, r := range rootsList {
		if under(p, r) {
			return true
		}
	}
	return false
}

func problemsOf(st *synchronization.State) (scan, transition []string) {
	for _, p := range st.AlphaState.GetScanProblems() {
		scan = append(scan, "alpha:"+quote(p.Path)+": "+p.Error)
	}
	for _, p := range st.BetaState.GetScanProblems() {
		scan = append(scan, "beta:"+quote(p.Path)+": "+p.Error)
	}
	for _, p := range st.AlphaState.GetTransitionProblems() {
		transition = append(transition, "alpha:"+quote(p.Path)+": "+p.Error)
	}
	for _, p := range st.BetaState.GetTransitionProblems() {
		transition = append(transition, "beta:"+quote(p.Path)+": "+p.Error)
	}
	return
}

// updateShadow folds the post-flush snapshots into the shadow: a path both
// roots agree on takes that content; a path absent on both is forgotten; a
// path they disagree on keeps what it last agreed on.
func (h *history) updateShadow(a, b Snap) {
	for p, oa := range a {
		if ob := b[p]; ob != nil && contentEq(oa, ob) {
			h.shadow[p] = oa
		}
	}
	for p := range h.shadow {
		if a[p] == nil && b[p] == nil {
			delete(h.shadow, p)
		}
	}
}

// changeKind is a short letter code for what happened to a path during a flush.
func changeKind(pre, post *Obj) string {
	k := func(o *Obj) string {
		if o == nil {
			return "-"
		}
		return string(o.Kind)
	}
	return k(pre) + ">" + k(post)
}

type flushView struct {
	preA, preB, postA, postB Snap
	state                    *synchronization.State
	flushErr                 error
	preArchive               *core.Entry // the session's own record before the flush (cross-check only)
	haveArchive              bool
}

func entryAt(e *core.Entry, p string) *core.Entry {
	if p == "" {
		return e
	}
	for _, c := range strings.Split(p, "/") {
		if e == nil {
			return nil
		}
		e = e.Contents[c]
	}
	return e
}

// entryMatches compares the session's record of a path with a disk object.
func entryMatches(e *core.Entry, o *Obj) bool {
	if e == nil || o == nil {
		return e == nil && o == nil
	}
	switch o.Kind {
	case 'd':
		return e.Kind == core.EntryKind_Directory
	case 'f':
		return e.Kind == core.EntryKind_File && fmt.Sprintf("%x", e.Digest) == o.Digest && e.Executable == o.exec()
	case 'l':
		return e.Kind == core.EntryKind_SymbolicLink && e.Target == o.Target
	}
	return false
}

// lostContent applies the statement "a cycle never deletes or overwrites
// content unless it is unchanged since the last successful synchronization" to
// one root: every path whose content changed during the flush must have held,
// before the flush, exactly the shadow content.
func (h *history) lostContent(side string, pre, post Snap, rule string, v *flushView) {
	for _, p := range pre.paths() {
		if p == "" {
			continue
		}
		o := pre[p]
		if contentEq(o, post[p]) {
			continue
		}
		h.count("l3_paths_removed_or_replaced_by_flush", 1)
		sh := h.shadow[p]
		if contentEq(o, sh) {
			// cross-check (not a verdict): mutagen's own record of the last
			// synchronization should say the same as the shadow here
			if v.haveArchive {
				if entryMatches(entryAt(v.preArchive, p), o) {
					h.count("l3_archive_crosscheck_agrees", 1)
				} else {
					h.count("l3_archive_crosscheck_disagrees", 1)
					h.logf("cross-check: archive holds %s at %s, shadow and root held %v", describeEntry(entryAt(v.preArchive, p)), quote(p), o)
				}
			}
			continue
		}
		cls := protectedClass(p, o)
		if cls == "" {
			cls = "tracked"
		}
		h.violation(rule, map[string]string{"side": side, "class": cls, "change": changeKind(o, post[p])},
			fmt.Sprintf("%s: flush removed or replaced %s content at %s that was created or modified since the roots last agreed there (before flush %v, after flush %v, last agreed %v)",
				h.spec.Mode, side, quote(p), o, post[p], sh),
			map[string]any{"side": side, "path": quote(p), "before_flush": o.String(), "after_flush": post[p].String(), "last_agreed": sh.String(),
				"conflicts": conflictRoots(v.state), "flush_error": fmt.Sprint(v.flushErr)})
	}
}

// bothModified applies the second sentence of C01 at every path where both
// sides hold tracked content that differs from the shadow and from each other.
func (h *history) bothModified(v *flushView) {
	listed := conflictRoots(v.state)
	for _, p := range v.preA.paths() {
		if p == "" {
			continue
		}
		a, b := v.preA[p], v.preB[p]
		if !tracked(p, a) || !tracked(p, b) || contentEq(a, b) {
			continue
		}
		sh := h.shadow[p]
		if contentEq(a, sh) || contentEq(b, sh) {
			continue
		}
		// every ancestor must be a tracked directory on both sides, otherwise the
		// disagreement belongs to the ancestor
		ok := true
		for d := parentOf(p); d != ""; d = parentOf(d) {
			if !(tracked(d, v.preA[d]) && tracked(d, v.preB[d]) && v.preA[d].Kind == 'd' && v.preB[d].Kind == 'd') {
				ok = false
			}
		}
		if !ok {
			continue
		}
		h.count("l3_both_modified_paths", 1)
		if !contentEq(a, v.postA[p]) || !contentEq(b, v.postB[p]) {
			// also reported by lostContent; this one names the situation
			h.violation("l3-both-modified-version-lost", map[string]string{"kinds": string(a.Kind) + string(b.Kind)},
				fmt.Sprintf("two-way-safe: both sides changed %s differently since they last agreed, but after the flush alpha holds %v (was %v) and beta holds %v (was %v)", quote(p), v.postA[p], a, v.postB[p], b),
				map[string]any{"path": quote(p), "alpha_before": a.String(), "beta_before": b.String(), "alpha_after": v.postA[p].String(), "beta_after": v.postB[p].String(), "last_agreed": sh.String(), "conflicts": listed})
			continue
		}
		if v.flushErr != nil || v.state == nil {
			continue
		}
		if coveredBy(p, listed) {
			h.count("l3_both_modified_conflict_listed", 1)
			continue
		}
		if v.state.ExcludedConflicts > 0 {
			h.count("l3_conflict_list_truncated", 1)
			continue
		}
		h.violation("l3-both-modified-no-conflict", map[string]string{"kinds": string(a.Kind) + string(b.Kind)},
			fmt.Sprintf("two-way-safe: both sides changed %s differently since they last agreed (alpha %v, beta %v, last agreed %v) but no listed conflict covers the path (listed: %q)", quote(p), a, b, sh, listed),
			map[string]any{"path": quote(p), "alpha": a.String(), "beta": b.String(), "last_agreed": sh.String(), "conflicts": listed})
	}
}

// alphaUntouched: one-way modes never modify the source.
func (h *history) alphaUntouched(v *flushView) {
	if p, diff := firstExactDiff(v.preA, v.postA); diff {
		h.violation("l3-alpha-modified", map[string]string{"change": changeKind(v.preA[p], v.postA[p])},
			fmt.Sprintf("%s: the alpha root changed during a flush at %s: before %v, after %v", h.spec.Mode, quote(p), v.preA[p], v.postA[p]),
			map[string]any{"path": quote(p), "before_flush": v.preA[p].String(), "after_flush": v.postA[p].String()})
	}
	h.count("l3_alpha_objects_compared", int64(len(v.preA)))
}

// protectedSurvive: untracked content survives every flush as the same object.
func (h *history) protectedSurvive(side string, pre, post Snap, attacked bool) {
	for _, p := range pre.paths() {
		o := pre[p]
		cls := protectedClass(p, o)
		if cls == "" {
			continue
		}
		h.count("l3_untracked_objects_checked", 1)
		h.count("l3_untracked_"+cls, 1)
		if identityEq(o, post[p]) {
			continue
		}
		h.violation("l3-untracked-content-touched", map[string]string{"side": side, "class": cls, "change": changeKind(o, post[p])},
			fmt.Sprintf("%s: %s content the session does not track (%s) at %s was removed, replaced or moved by a flush: before %v, after %v", h.spec.Mode, side, cls, quote(p), o, post[p]),
			map[string]any{"side": side, "path": quote(p), "class": cls, "before_flush": o.String(), "after_flush": post[p].String(), "parent_attacked_this_round": attacked})
	}
}

// run drives the whole history. Errors are harness errors (not verdicts).
func (h *history) run() error {
	rng := h.rng
	prop, mode := h.spec.Prop, h.spec.Mode
	h.roots = roots{alpha: filepath.Join(h.spec.Dir, "alpha"), beta: filepath.Join(h.spec.Dir, "beta")}
	shape, err := seedRoots(rng, h.roots)
	if err != nil {
		return err
	}
	h.seeding = shape
	h.logf("history %s #%d mode=%s seed=%d seeding=%s shm=%v betaCap=%d", prop, h.spec.Index, mode, h.spec.Seed, shape, h.spec.Shm, h.spec.BetaCap)
	h.seeding = fmt.Sprintf("%s shm=%v betaCap=%d", shape, h.spec.Shm, h.spec.BetaCap)
	if h.spec.Shm {
		// the variant is only what it claims if staging really is on another device
		os.MkdirAll(h.spec.DataDir, 0o700)
		var a, b syscall.Stat_t
		if syscall.Stat(h.spec.DataDir, &a) == nil && syscall.Stat(h.roots.alpha, &b) == nil && a.Dev != b.Dev {
			h.count("l3_histories_staging_on_other_device", 1)
		} else {
			h.count("l3_histories_shm_same_device", 1)
		}
	}

	sess, err := openSession(h.roots.alpha, h.roots.beta, mode, h.spec.BetaCap, h.logw)
	if err != nil {
		if strings.Contains(err.Error(), errWait.Error()) {
			h.res.Inconclusive = append(h.res.Inconclusive, "l3-session-not-ready")
			return nil
		}
		return err
	}
	h.sess = sess
	defer func() {
		// a session that exceeded a wait bound is stuck somewhere inside a cycle;
		// terminating it would wait for that cycle too
		if !h.stuck {
			sess.close()
		}
	}()

	ed := &editor{rng: rng, roots: h.roots, log: h.logf}
	nRounds := 3 + rng.Intn(10)
	// One history in ten ends with an attack on a root itself (C11 L3; the
	// outcome is counted, not judged, by this check).
	rootAttackAt := -1
	if rng.Intn(10) == 0 {
		rootAttackAt = nRounds
	}
	// Scripted rounds. (a) agreement-only cycle, then pause/resume, then a
	// one-sided delete of what was agreed: always in C04, sometimes elsewhere.
	agreeAt := -1
	if prop == "C04" || rng.Intn(3) == 0 {
		agreeAt = 1 + rng.Intn(nRounds-1)
		if agreeAt+1 >= nRounds {
			agreeAt = nRounds - 2
		}
	}
	var agreed []string
	// (b) entry-count limit on beta: alpha creates more directories than beta accepts
	massAt := -1
	if h.spec.BetaCap > 0 {
		if nRounds > 8 {
			nRounds = 8
		}
		massAt = 1 + rng.Intn(2)
		if agreeAt == massAt || agreeAt+1 == massAt {
			agreeAt = -1
		}
	}
	ended := ""
	for round := 0; round <= nRounds && ended == ""; round++ {
		rec := roundRecord{Round: round}
		attacked := false
		opset := map[string]bool{}
		if round > 0 {
			if rng.Intn(7) == 0 || (agreeAt >= 0 && round == agreeAt+1) {
				h.logf("round %d: pause/resume", round)
				if err := sess.restart(); err != nil {
					if err == errWait {
						h.stuck = true
						h.res.Inconclusive = append(h.res.Inconclusive, "l3-restart-wait")
						return nil
					}
					return fmt.Errorf("restart: %w", err)
				}
				rec.Restarted = true
				h.count("l3_restarts", 1)
			}
			h.logf("round %d: edits", round)
			ed.rootAttack = round == rootAttackAt
			ed.script, ed.prefix = nil, nil
			nEdits := 1 + rng.Intn(15)
			if h.spec.BetaCap > 0 {
				nEdits = 1 + rng.Intn(6)
			}
			switch {
			case round == agreeAt:
				ed.script = func() ([]Applied, error) {
					var all []Applied
					for i, k := 0, 1+rng.Intn(3); i < k; i++ {
						a, err := ed.bothIdentical(0)
						if err != nil {
							return all, err
						}
						for _, x := range a {
							agreed = append(agreed, x.Path)
						}
						all = append(all, a...)
					}
					return all, nil
				}
			case agreeAt >= 0 && round == agreeAt+1 && len(agreed) > 0:
				ed.prefix = func() ([]Applied, error) {
					p := agreed[rng.Intn(len(agreed))]
					side := []string{"alpha", "beta"}[rng.Intn(2)]
					if err := os.Remove(fullPath(h.roots.of(side), p)); err != nil {
						return nil, nil
					}
					return []Applied{{Side: side, Op: "delete-agreed", Path: p}}, nil
				}
			case round == massAt:
				ed.prefix = func() ([]Applied, error) { return ed.massCreate(int(h.spec.BetaCap) + 100) }
			}
			applied, err := ed.round(nEdits)
			if err != nil {
				return fmt.Errorf("edits: %w", err)
			}
			for _, a := range applied {
				rec.Edits = append(rec.Edits, a.String())
				opset[a.Op] = true
				if strings.HasPrefix(a.Op, "hostile-") {
					attacked = true
				}
			}
			h.count("l3_edits", int64(len(applied)))
			for _, a := range applied {
				switch a.Op {
				case "edit-content-and-x", "both-create-identical", "both-modify-identical", "both-delete", "delete-agreed", "mass-create":
					h.count("l3_edits:"+a.Op, 1)
				}
			}
		} else {
			h.logf("round 0: initial flush over the seeded roots")
			opset["seed:"+shape] = true
		}
		h.rounds = append(h.rounds, rec)

		v := &flushView{}
		if v.preA, err = takeSnap(h.roots.alpha); err != nil {
			return err
		}
		if v.preB, err = takeSnap(h.roots.beta); err != nil {
			return err
		}
		if arch, err := sess.archive(); err == nil {
			v.preArchive, v.haveArchive = arch.Content, true
		}
		h.logf("round %d: flush (alpha %d objects, beta %d objects)", round, len(v.preA), len(v.preB))
		st, flushErr, waitErr := sess.flush()
		if waitErr != nil {
			if waitErr == errWait {
				h.stuck = true
				h.logf("round %d: flush did not come back within %v: inconclusive", round, flushBound)
				h.res.Inconclusive = append(h.res.Inconclusive, "l3-flush-wait")
				return nil
			}
			h.stuck = true
			return fmt.Errorf("waiting after flush: %w", waitErr)
		}
		v.state, v.flushErr = st, flushErr
		if v.postA, err = takeSnap(h.roots.alpha); err != nil {
			return err
		}
		if v.postB, err = takeSnap(h.roots.beta); err != nil {
			return err
		}
		h.res.Evals++
		h.count("l3_flushes", 1)
		scanProblems, transitionProblems := problemsOf(st)
		h.count("l3_conflicts_listed", int64(len(st.Conflicts)))
		h.count("l3_scan_problems_listed", int64(len(scanProblems)))
		h.count("l3_transition_problems_listed", int64(len(transitionProblems)))
		for _, tp := range transitionProblems {
			if strings.Contains(tp, "entry count") {
				h.count("l3_beta_refused_over_limit", 1)
				break
			}
		}
		h.logf("round %d: status=%v flushErr=%v lastError=%q conflicts=%q scanProblems=%d transitionProblems=%q", round, st.Status, flushErr, st.LastError, conflictRoots(st), len(scanProblems), transitionProblems)
		if flushErr != nil {
			switch {
			case flushErr == errRescanLoop:
				h.count("l3_scan_retry_loops", 1)
				ended = "scan-retry-loop"
			case halted(st):
				h.count("l3_halted:"+st.Status.String(), 1)
				// C11 (not a verdict here): both roots across the halting flush
				if _, d := firstExactDiff(v.preA, v.postA); d {
					h.count("l3_c11_root_changed_in_halting_flush", 1)
				}
				if _, d := firstExactDiff(v.preB, v.postB); d {
					h.count("l3_c11_root_changed_in_halting_flush", 1)
				}
				ended = "halted"
			default:
				h.count("l3_flush_errors", 1)
				ended = "flush-error"
			}
		}

		// what the flush did (for the distinct signature)
		kinds := map[string]bool{}
		for side, pair := range map[string][2]Snap{"a": {v.preA, v.postA}, "b": {v.preB, v.postB}} {
			for p, o := range pair[0] {
				if !contentEq(o, pair[1][p]) {
					kinds[side+":"+changeKind(o, pair[1][p])] = true
				}
			}
			for p, o := range pair[1] {
				if pair[0][p] == nil {
					kinds[side+":"+changeKind(nil, o)] = true
				}
			}
		}
		if len(st.Conflicts) > 0 {
			kinds["conflicts"] = true
		}
		if len(transitionProblems) > 0 {
			kinds["transition-problems"] = true
		}

		// ---- oracles of the property under check
		switch prop {
		case "C01":
			h.lostContent("alpha", v.preA, v.postA, "l3-lost-modification", v)
			h.lostContent("beta", v.preB, v.postB, "l3-lost-modification", v)
			h.bothModified(v)
		case "C02":
			if oneWay(mode) {
				h.alphaUntouched(v)
			}
			if mode == "one-way-safe" {
				h.lostContent("beta", v.preB, v.postB, "l3-beta-modification-lost", v)
			}
			if mode == "two-way-resolved" {
				h.lostContent("alpha", v.preA, v.postA, "l3-alpha-modification-lost", v)
			}
		case "C04":
			// the cycle that just ended applied everything it planned: the state it
			// recorded on disk must already be a fixpoint for the roots as they are
			if flushErr == nil && len(transitionProblems) == 0 && st.Status == synchronization.Status_Watching {
				arch, err := sess.archive()
				if err != nil {
					return fmt.Errorf("reading archive: %w", err)
				}
				if _, err := h.fixpoint("after-cycle", arch, "none", nil); err != nil {
					return err
				}
				if round == agreeAt {
					h.count("l3_agreement_only_cycles_checked", 1)
				}
			}
		case "C03":
			h.protectedSurvive("alpha", v.preA, v.postA, attacked)
			h.protectedSurvive("beta", v.preB, v.postB, attacked)
			if attacked {
				h.count("l3_rounds_with_parent_attacked", 1)
				kinds["parent-attacked"] = true
			}
		}
		h.updateShadow(v.postA, v.postB)
		if round == rootAttackAt {
			h.count("l3_c11_root_attacks", 1)
			attack := ""
			for op := range opset {
				if strings.HasPrefix(op, "root-") {
					attack = op
				}
			}
			if halted(st) {
				h.count("l3_c11_halted_after:"+attack, 1)
			} else {
				h.count("l3_c11_not_halted_after:"+attack, 1)
			}
			// what C11 forbids is propagation: the attacked root's fate reaching
			// the other root (counted only; C11 has its own check)
			for _, pair := range [][4]Snap{{v.preA, v.postA, v.preB, v.postB}, {v.preB, v.postB, v.preA, v.postA}} {
				attackedPre, otherPre, otherPost := pair[0], pair[2], pair[3]
				if r := attackedPre[""]; r != nil && r.Kind == 'd' && len(attackedPre) > 1 {
					continue // this is not the attacked side
				}
				if o := otherPost[""]; otherPre[""] != nil && (o == nil || o.Kind != otherPre[""].Kind) {
					h.count("l3_c11_root_fate_propagated", 1)
				} else if len(otherPre) > 2 && len(otherPost) == 1 {
					h.count("l3_c11_root_emptying_propagated", 1)
				}
			}
			if ended == "" {
				ended = "root-attacked"
			}
		}

		if len(kinds) > 0 {
			h.res.Distinct = append(h.res.Distinct, fmt.Sprintf("l3|%s|%s|%s|%s", prop, mode, setString(opset), setString(kinds)))
			if len(h.res.Samples) < 1 && round > 0 {
				h.res.Samples = append(h.res.Samples, map[string]any{"l3_history": h.spec.Index, "mode": mode, "round": round, "edits": rec.Edits, "flush_did": setString(kinds), "conflicts": conflictRoots(st)})
			}
		}
	}
	if ended == "" {
		ended = "complete"
	}
	h.count("l3_histories_ended:"+ended, 1)

	if prop == "C04" && ended == "complete" {
		if err := h.quiescent(); err != nil {
			return err
		}
	}
	return nil
}

func setString(m map[string]bool) string {
	var ks []string
	for k := range m {
		ks = append(ks, k)
	}
	sort.Strings(ks)
	return strings.Join(ks, ",")
}

// quiescent performs the C04 part: two further flushes with no edits.
func (h *history) quiescent() error {
	mode := h.spec.Mode
	st1, ferr1, werr := h.sess.flush()
	if werr != nil {
		h.stuck = true
		h.res.Inconclusive = append(h.res.Inconclusive, "l3-flush-wait")
		return nil
	}
	a1, err := takeSnap(h.roots.alpha)
	if err != nil {
		return err
	}
	b1, err := takeSnap(h.roots.beta)
	if err != nil {
		return err
	}
	arch1, err := h.sess.archive()
	if err != nil {
		return fmt.Errorf("reading archive: %w", err)
	}
	archObj1, _ := takeSnap(h.sess.archivePath)
	st2, ferr2, werr := h.sess.flush()
	if werr != nil {
		h.stuck = true
		h.res.Inconclusive = append(h.res.Inconclusive, "l3-flush-wait")
		return nil
	}
	a2, err := takeSnap(h.roots.alpha)
	if err != nil {
		return err
	}
	b2, err := takeSnap(h.roots.beta)
	if err != nil {
		return err
	}
	arch2, err := h.sess.archive()
	if err != nil {
		return fmt.Errorf("reading archive: %w", err)
	}
	archObj2, _ := takeSnap(h.sess.archivePath)
	h.res.Evals += 2
	h.count("l3_quiescent_flush_pairs", 1)
	h.logf("quiescent flushes: err1=%v err2=%v conflicts=%q", ferr1, ferr2, conflictRoots(st2))
	if ferr1 != nil || ferr2 != nil {
		h.count("l3_quiescent_flush_errors", 1)
		return nil
	}
	// C04 is conditioned on every planned change having been applied. In these
	// histories nothing interferes with a cycle and the process may do anything
	// to both roots, so a change mutagen planned and then could not apply is its
	// own doing; it does not excuse what follows, but it is made part of the
	// violation signature so that such a case can be told apart.
	_, tp1 := problemsOf(st1)
	_, tp2 := problemsOf(st2)
	tpSig := "none"
	if len(tp1)+len(tp2) > 0 {
		tpSig = "listed"
		h.count("l3_quiescent_with_transition_problems", 1)
		h.logf("quiescent: transition problems %q %q", tp1, tp2)
	}
	h.tpSig, h.tpList = tpSig, append(tp1, tp2...)
	sigParts := []string{"quiescent", mode}

	// (1) the second quiescent flush leaves both roots untouched
	for side, pair := range map[string][2]Snap{"alpha": {a1, a2}, "beta": {b1, b2}} {
		if p, d := firstExactDiff(pair[0], pair[1]); d {
			h.violation("l3-quiescent-flush-changed-root", map[string]string{"side": side, "change": changeKind(pair[0][p], pair[1][p])},
				fmt.Sprintf("%s: a second flush without any edit changed the %s root at %s: before %v, after %v", mode, side, quote(p), pair[0][p], pair[1][p]),
				map[string]any{"side": side, "path": quote(p), "before": pair[0][p].String(), "after": pair[1][p].String()})
		}
	}
	h.count("l3_quiescent_objects_compared", int64(len(a1)+len(b1)))

	// (2) ... and the recorded last-synchronized state
	if !proto.Equal(arch1, arch2) {
		h.violation("l3-quiescent-flush-changed-archive", map[string]string{"transition_problems": tpSig},
			fmt.Sprintf("%s: a second flush without any edit changed the session archive (%d -> %d entries)", mode, arch1.Content.Count(), arch2.Content.Count()),
			map[string]any{"archive_before": describeEntry(arch1.Content), "archive_after": describeEntry(arch2.Content)})
	}
	if !exactEq(archObj1[""], archObj2[""]) {
		h.count("l3_archive_file_rewritten_by_quiescent_flush", 1)
	}
	h.count("l3_archive_entries", int64(arch2.Content.Count()))

	// (3) the recorded state is a fixpoint for the roots as they are
	conflicts, err := h.fixpoint("quiescent", arch2, tpSig, h.tpList)
	if err != nil {
		return err
	}
	if conflicts > 0 {
		sigParts = append(sigParts, "conflicts")
	}

	// (4) convergence in two-way modes
	if twoWay(mode) {
		if st2.ExcludedConflicts > 0 {
			h.count("l3_conflict_list_truncated", 1)
		} else {
			ig := func(p string, dir bool) bool { return pathIgnored(p) }
			ea, _, errA := fsx.Walk(h.roots.alpha, fsx.WalkOptions{SymbolicLinkMode: core.SymbolicLinkMode_SymbolicLinkModePortable, PermissionsMode: core.PermissionsMode_PermissionsModePortable, Ignored: ig})
			eb, _, errB := fsx.Walk(h.roots.beta, fsx.WalkOptions{SymbolicLinkMode: core.SymbolicLinkMode_SymbolicLinkModePortable, PermissionsMode: core.PermissionsMode_PermissionsModePortable, Ignored: ig})
			if errA != nil || errB != nil {
				return fmt.Errorf("walks: %v / %v", errA, errB)
			}
			listed := conflictRoots(st2)
			n := 0
			h.converged("", ea, eb, listed, &n)
			h.count("l3_convergence_paths_compared", int64(n))
			sigParts = append(sigParts, fmt.Sprintf("converged-%d", bucket(n)))
		}
	}
	sigParts = append(sigParts, fmt.Sprintf("objects-%d", bucket(len(a1)+len(b1))))
	h.res.Distinct = append(h.res.Distinct, "l3|C04|"+strings.Join(sigParts, "|"))
	return nil
}

// fixpoint: the real reconciliation over (archive read from disk, real cold
// scans of both roots as they are now) must plan nothing for either endpoint
// and nothing for the ancestor. Returns the number of conflicts it found.
func (h *history) fixpoint(when string, arch *core.Archive, tpSig string, tpList []string) (int, error) {
	mode := h.spec.Mode
	sc := fsx.DefaultScanConfig()
	sc.Patterns = ignorePatterns
	sa, errA := fsx.Cold(h.roots.alpha, sc)
	sb, errB := fsx.Cold(h.roots.beta, sc)
	if errA != nil || errB != nil {
		return 0, fmt.Errorf("cold scans: %v / %v", errA, errB)
	}
	ancCh, aCh, bCh, conflicts := core.Reconcile(arch.Content, sa.Snapshot.Content, sb.Snapshot.Content, modeNames[mode])
	if len(ancCh)+len(aCh)+len(bCh) > 0 {
		var d []string
		for _, c := range ancCh {
			d = append(d, "ancestor:"+quote(c.Path))
		}
		for _, c := range aCh {
			d = append(d, "alpha:"+quote(c.Path))
		}
		for _, c := range bCh {
			d = append(d, "beta:"+quote(c.Path))
		}
		sort.Strings(d)
		which := "endpoint"
		if len(aCh)+len(bCh) == 0 {
			which = "ancestor-only"
		}
		what := "after two quiescent flushes"
		if when == "after-cycle" {
			what = "right after a cycle that reported no transition problem"
		}
		h.violation("l3-recorded-state-not-fixpoint", map[string]string{"plans": which, "transition_problems": tpSig, "when": when},
			fmt.Sprintf("%s: %s, reconciling the archive on disk with fresh scans of both roots still plans %d ancestor, %d alpha and %d beta changes: %q", mode, what, len(ancCh), len(aCh), len(bCh), d),
			map[string]any{"planned": d, "archive": describeEntry(arch.Content), "transition_problems": tpList})
	}
	h.count("l3_fixpoint_reconciliations", 1)
	h.count("l3_fixpoint_reconciliations:"+when, 1)
	return len(conflicts), nil
}

func bucket(n int) int {
	b := 0
	for n > 0 {
		n >>= 1
		b++
	}
	return b
}

func unsync(e *core.Entry) bool {
	return e != nil && (e.Kind == core.EntryKind_Untracked || e.Kind == core.EntryKind_Problematic)
}

// converged walks both expected entry trees together: every path where the
// synchronizable content differs must be covered by a listed conflict or lie
// at/below a path that is untracked or problematic on a side.
func (h *history) converged(p string, a, b *core.Entry, listed []string, n *int) {
	if unsync(a) || unsync(b) {
		return
	}
	if coveredBy(p, listed) {
		return
	}
	*n++
	if a == nil || b == nil {
		if a == nil && b == nil {
			return
		}
		h.violation("l3-not-converged", map[string]string{"difference": "presence", "transition_problems": h.tpSig},
			fmt.Sprintf("%s: after quiescent flushes %s exists on one side only (alpha %s, beta %s) and no listed conflict covers it (listed %q)", h.spec.Mode, quote(p), describeEntry(a), describeEntry(b), listed),
			map[string]any{"path": quote(p), "alpha": describeEntry(a), "beta": describeEntry(b), "conflicts": listed, "transition_problems": h.tpList})
		return
	}
	if a.Kind != b.Kind || a.Executable != b.Executable || string(a.Digest) != string(b.Digest) || a.Target != b.Target {
		h.violation("l3-not-converged", map[string]string{"difference": "content", "transition_problems": h.tpSig},
			fmt.Sprintf("%s: after quiescent flushes the roots differ at %s (alpha %s, beta %s) and no listed conflict covers it (listed %q)", h.spec.Mode, quote(p), describeEntry(a), describeEntry(b), listed),
			map[string]any{"path": quote(p), "alpha": describeEntry(a), "beta": describeEntry(b), "conflicts": listed, "transition_problems": h.tpList})
		return
	}
	names := map[string]bool{}
	for k := range a.Contents {
		names[k] = true
	}
	for k := range b.Contents {
		names[k] = true
	}
	var sorted []string
	for k := range names {
		sorted = append(sorted, k)
	}
	sort.Strings(sorted)
	for _, k := range sorted {
		h.converged(join(p, k), a.Contents[k], b.Contents[k], listed, n)
	}
}

func describeEntry(e *core.Entry) string {
	if e == nil {
		return "absent"
	}
	switch e.Kind {
	case core.EntryKind_Directory:
		var names []string
		for k := range e.Contents {
			names = append(names, k)
		}
		sort.Strings(names)
		var parts []string
		for i, k := range names {
			if i >= 12 {
				parts = append(parts, "…")
				break
			}
			parts = append(parts, quote(k)+":"+describeEntry(e.Contents[k]))
		}
		return "dir{" + strings.Join(parts, " ") + "}"
	case core.EntryKind_File:
		x := ""
		if e.Executable {
			x = "+x"
		}
		return fmt.Sprintf("file(%x%s)", e.Digest[:min(5, len(e.Digest))], x)
	case core.EntryKind_SymbolicLink:
		return "link(" + quote(e.Target) + ")"
	case core.EntryKind_Untracked:
		return "untracked"
	case core.EntryKind_Problematic:
		return "problematic"
	}
	return e.Kind.String()
}

// runChild is the body of the child process.
func runChild(spec Spec) *Result {
	res := &Result{Spec: spec, Counts: map[string]int64{}}
	logFile, err := os.Create(filepath.Join(spec.Dir, "log.txt"))
	if err != nil {
		res.HarnessError = err.Error()
		return res
	}
	defer logFile.Close()
	h := &history{spec: spec, rng: rand.New(rand.NewSource(spec.Seed)), res: res, logw: logFile, shadow: map[string]*Obj{}}
	func() {
		defer func() {
			if p := recover(); p != nil {
				res.Panic = fmt.Sprintf("%v\n%s", p, stack())
			}
		}()
		if err := h.run(); err != nil {
			res.HarnessError = err.Error()
			h.logf("HARNESS ERROR: %v", err)
		} else {
			res.Completed = true
		}
	}()
	return res
}
