package l3

import (
	"bufio"
	"context"
	"encoding/json"
	"fmt"
	"os"
	"os/exec"
	"path/filepath"
	"runtime"
	"runtime/debug"
	"strings"
	"sync"
	"time"

	"verif/internal/vk"
)

// Every history runs in its own child process (a re-exec of the monitor
// binary in the role below): the data directory of a Manager is resolved from
// the process environment, so this gives every history a fresh one, and a
// crash or hang inside the real code cannot take the judge down.
const childEnv = "VERIF_L3_CHILD"

// childBound is the watchdog on one child (nominal: one to three seconds; a
// child gives up on its own when a single wait exceeds flushBound).
const childBound = 6 * time.Minute

func init() {
	specFile := os.Getenv(childEnv)
	if specFile == "" {
		return
	}
	os.Unsetenv(childEnv)
	data, err := os.ReadFile(specFile)
	var spec Spec
	if err == nil {
		err = json.Unmarshal(data, &spec)
	}
	if err != nil {
		fmt.Println("l3 child: bad spec:", err)
		os.Exit(4)
	}
	res := runChild(spec)
	out, err := json.Marshal(res)
	if err != nil {
		fmt.Println("l3 child: result does not marshal:", err)
		os.Exit(4)
	}
	tmp := filepath.Join(spec.Dir, "result.json.tmp")
	if err := os.WriteFile(tmp, out, 0o644); err == nil {
		err = os.Rename(tmp, filepath.Join(spec.Dir, "result.json"))
	}
	if err != nil {
		fmt.Println("l3 child: cannot write result:", err)
		os.Exit(4)
	}
	os.Exit(0)
}

func stack() string { return string(debug.Stack()) }

func modesFor(prop string) []string {
	switch prop {
	case "C01":
		return []string{"two-way-safe"}
	case "C02":
		return []string{"one-way-safe", "one-way-replica", "two-way-resolved"}
	default:
		return []string{"two-way-safe", "one-way-safe", "two-way-resolved", "one-way-replica"}
	}
}

type childOutcome struct {
	spec     Spec
	res      *Result
	exitErr  error
	timedOut bool
	stdio    string
}

func runOne(spec Spec) childOutcome {
	out := childOutcome{spec: spec}
	os.MkdirAll(spec.Dir, 0o755)
	specFile := filepath.Join(spec.Dir, "spec.json")
	data, _ := json.Marshal(spec)
	if err := os.WriteFile(specFile, data, 0o644); err != nil {
		out.exitErr = err
		return out
	}
	exe := os.Getenv("VERIF_BIN")
	if exe == "" {
		exe, _ = os.Executable()
	}
	ctx, cancel := context.WithTimeout(context.Background(), childBound)
	defer cancel()
	cmd := exec.CommandContext(ctx, exe)
	var env []string
	for _, e := range os.Environ() {
		if strings.HasPrefix(e, "MUTAGEN_DATA_DIRECTORY=") || strings.HasPrefix(e, childEnv+"=") {
			continue
		}
		env = append(env, e)
	}
	cmd.Env = append(env, childEnv+"="+specFile, "MUTAGEN_DATA_DIRECTORY="+spec.DataDir)
	if spec.Shm {
		defer os.RemoveAll(filepath.Dir(spec.DataDir))
	}
	stdioPath := filepath.Join(spec.Dir, "stdio.txt")
	stdio, err := os.Create(stdioPath)
	if err != nil {
		out.exitErr = err
		return out
	}
	cmd.Stdout, cmd.Stderr = stdio, stdio
	out.exitErr = cmd.Run()
	stdio.Close()
	out.timedOut = ctx.Err() != nil
	if b, err := os.ReadFile(stdioPath); err == nil {
		out.stdio = string(b)
	}
	if b, err := os.ReadFile(filepath.Join(spec.Dir, "result.json")); err == nil {
		var res Result
		if json.Unmarshal(b, &res) == nil {
			out.res = &res
		}
	}
	return out
}

// harnessLog returns the harness's own lines of a child's log (the real
// session's trace output is in the same file, between them).
func harnessLog(dir string, max int) []string {
	f, err := os.Open(filepath.Join(dir, "log.txt"))
	if err != nil {
		return nil
	}
	defer f.Close()
	var lines []string
	sc := bufio.NewScanner(f)
	sc.Buffer(make([]byte, 1<<20), 1<<20)
	for sc.Scan() {
		if strings.HasPrefix(sc.Text(), "[l3]") {
			lines = append(lines, sc.Text())
		}
	}
	if len(lines) > max {
		lines = lines[len(lines)-max:]
	}
	return lines
}

func tail(s string, n int) string {
	if len(s) > n {
		return s[len(s)-n:]
	}
	return s
}

// histories is the L3 workload for one of C01–C04.
func histories(r *vk.Run, prop string) {
	began := time.Now()
	n := r.Pick(6, 200)
	if (prop == "C03" || prop == "C04") && r.Quick() {
		n = 8 // two histories per mode
	}
	modes := modesFor(prop)
	base := filepath.Join(r.Scratch(), "l3")
	specs := make([]Spec, n)
	shm := os.Getenv("VERIF_SHM")
	for i := range specs {
		sp := Spec{Prop: prop, Index: i, Mode: modes[i%len(modes)], Seed: r.Rand(fmt.Sprintf("l3-history-%d", i)).Int63(), Dir: filepath.Join(base, fmt.Sprintf("h%03d", i))}
		sp.DataDir = filepath.Join(sp.Dir, "data")
		// Variants, a pure function of (property, index):
		//  - staging on another device (data directory on tmpfs, roots on ext4): C01, C03
		//  - entry-count limit on the beta endpoint only: C01, and the two-way-resolved histories of C02
		switch prop {
		case "C01":
			sp.Shm = i%8 == 2 || i%8 == 5
			if i%8 == 4 {
				sp.BetaCap = 400
			}
		case "C02":
			if i%6 == 5 {
				sp.BetaCap = 400
			}
		case "C03":
			sp.Shm = i%8 == 1 || i%8 == 6
		}
		if sp.Shm {
			if shm == "" {
				sp.Shm = false
			} else {
				sp.DataDir = filepath.Join(shm, fmt.Sprintf("l3-%s-h%03d", prop, i), "data")
			}
		}
		specs[i] = sp
	}
	workers := runtime.NumCPU() / 2
	if workers > 8 {
		workers = 8
	}
	if workers < 1 {
		workers = 1
	}
	outcomes := make([]childOutcome, n)
	var wg sync.WaitGroup
	jobs := make(chan int)
	var printMu sync.Mutex
	for w := 0; w < workers; w++ {
		wg.Add(1)
		go func() {
			defer wg.Done()
			for i := range jobs {
				printMu.Lock()
				fmt.Printf("l3: history %d of %s: mode=%s history_seed=%d dir=%s\n", i, prop, specs[i].Mode, specs[i].Seed, specs[i].Dir)
				printMu.Unlock()
				outcomes[i] = runOne(specs[i])
			}
		}()
	}
	for i := range specs {
		jobs <- i
	}
	close(jobs)
	wg.Wait()

	completed := 0
	for _, o := range outcomes {
		id := fmt.Sprintf("history %d (mode %s, history_seed %d)", o.spec.Index, o.spec.Mode, o.spec.Seed)
		if o.res == nil {
			switch {
			case o.timedOut:
				fmt.Printf("l3: %s: child exceeded %v, killed\n", id, childBound)
				r.Inconclusive("l3-child-watchdog")
			case strings.Contains(o.stdio, "github.com/mutagen-io/mutagen/pkg") && (strings.Contains(o.stdio, "panic:") || strings.Contains(o.stdio, "fatal error:")):
				r.Violation(map[string]string{"rule": "l3-crash", "mode": o.spec.Mode},
					"the process running a real synchronization session crashed inside mutagen code during "+id,
					map[string]any{"spec": o.spec, "output_tail": tail(o.stdio, 6000), "harness_log": harnessLog(o.spec.Dir, 80)})
			default:
				fmt.Printf("ERROR: l3: %s: child ended without a result (%v): %s\n", id, o.exitErr, tail(o.stdio, 2000))
				r.Inconclusive("l3-child-failed")
			}
			continue
		}
		res := o.res
		r.Eval(res.Evals)
		for _, d := range res.Distinct {
			r.Distinct(d)
		}
		for k, v := range res.Counts {
			r.Count(k, v)
		}
		for _, s := range res.Samples {
			r.Sample(s)
		}
		for _, reason := range res.Inconclusive {
			r.Inconclusive(reason)
		}
		for _, v := range res.Violations {
			if v.Witness == nil {
				v.Witness = map[string]any{}
			}
			v.Witness["harness_log"] = harnessLog(o.spec.Dir, 120)
			r.Violation(v.Sig, v.What, v.Witness)
		}
		switch {
		case res.Panic != "" && strings.Contains(res.Panic, "github.com/mutagen-io/mutagen/pkg"):
			r.Violation(map[string]string{"rule": "l3-panic", "mode": o.spec.Mode}, "panic inside mutagen code during "+id,
				map[string]any{"spec": o.spec, "panic": res.Panic, "harness_log": harnessLog(o.spec.Dir, 80)})
		case res.Panic != "":
			fmt.Printf("ERROR: l3: %s: harness panic: %s\n", id, res.Panic)
			r.Inconclusive("l3-harness-panic")
		case res.HarnessError != "":
			fmt.Printf("ERROR: l3: %s: harness error: %s\n", id, res.HarnessError)
			r.Inconclusive("l3-harness-error")
		case res.Completed:
			completed++
		}
	}
	// liveness of the sensors: what each oracle judges must have occurred
	need := map[string][]string{
		"C01": {"l3_paths_removed_or_replaced_by_flush", "l3_both_modified_paths", "l3_both_modified_conflict_listed", "l3_beta_refused_over_limit"},
		"C02": {"l3_alpha_objects_compared", "l3_paths_removed_or_replaced_by_flush", "l3_beta_refused_over_limit"},
		"C03": {"l3_untracked_objects_checked", "l3_rounds_with_parent_attacked"},
		"C04": {"l3_quiescent_flush_pairs", "l3_fixpoint_reconciliations:after-cycle", "l3_convergence_paths_compared", "l3_edits:edit-content-and-x", "l3_agreement_only_cycles_checked"},
	}
	if shm != "" && (prop == "C01" || prop == "C03") {
		need[prop] = append(need[prop], "l3_histories_staging_on_other_device")
	}
	for _, k := range need[prop] {
		if r.Counter(k) == 0 {
			fmt.Printf("l3: sensor %s never fired\n", k)
			r.Inconclusive("l3-sensor-dead:" + k)
		}
	}
	r.Note("l3_wall_s", time.Since(began).Seconds())
	r.Count("l3_histories", int64(n))
	r.Count("l3_histories_completed", int64(completed))
	r.Assume("L3: real synchronization.Manager, real local endpoints, two real ext4 roots, watch mode no-watch (cycles only on Flush, edits never race a cycle); one child process and one fresh data directory per history; ignore patterns " + strings.Join(ignorePatterns, " ") + "; shadow of last agreement kept from the harness's own lstat/sha1 snapshots")
	if os.Getenv("VERIF_KEEP") == "" {
		os.RemoveAll(base)
	}
}
