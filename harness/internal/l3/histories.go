package l3

import "verif/internal/vk"

func histories(r *vk.Run, prop string) {}
