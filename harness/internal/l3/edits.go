package l3

import (
	"fmt"
	"math/rand"
	"os"
	"path/filepath"
	"sort"
	"strings"
	"syscall"

	"verif/internal/fsx"
)

// Applied is one edit the harness performed between two flushes.
type Applied struct {
	Side  string `json:"side"` // "alpha" / "beta" / "both"
	Op    string `json:"op"`
	Path  string `json:"path"`
	Path2 string `json:"path2,omitempty"`
}

func (a Applied) String() string {
	if a.Path2 != "" {
		return fmt.Sprintf("%s:%s %s -> %s", a.Side, a.Op, quote(a.Path), quote(a.Path2))
	}
	return fmt.Sprintf("%s:%s %s", a.Side, a.Op, quote(a.Path))
}

type roots struct {
	alpha, beta string
}

func (r roots) of(side string) string {
	if side == "alpha" {
		return r.alpha
	}
	return r.beta
}

func other(side string) string {
	if side == "alpha" {
		return "beta"
	}
	return "alpha"
}

func fullPath(root, rel string) string { return filepath.Join(root, filepath.FromSlash(rel)) }

// writeNew puts fresh unique content at full through create-then-rename, so
// the path always ends up on a new inode (ext4 hands a just-freed inode number
// straight back; delete-then-create could be indistinguishable from no change).
func writeNew(rng *rand.Rand, full string, size int, perm os.FileMode) error {
	tmp := full + ".verif-new"
	old := fsx.Inode(full)
	if err := os.WriteFile(tmp, fsx.UniqueToken(rng, size), 0o600); err != nil {
		return err
	}
	if err := os.Chmod(tmp, perm); err != nil {
		os.Remove(tmp)
		return err
	}
	if old != 0 && fsx.Inode(tmp) == old {
		os.Remove(tmp)
		return fmt.Errorf("inode reuse at %s", quote(full))
	}
	if fi, err := os.Lstat(full); err == nil && fi.IsDir() {
		os.Remove(tmp)
		return fmt.Errorf("is a directory: %s", quote(full))
	}
	if err := os.Rename(tmp, full); err != nil {
		os.Remove(tmp)
		return err
	}
	if old != 0 {
		return fsx.BumpMtime(full)
	}
	return nil
}

func randSize(rng *rand.Rand) int {
	switch rng.Intn(6) {
	case 0:
		return 0
	case 1:
		return 4090 + rng.Intn(12)
	case 2:
		return 20000 + rng.Intn(60000)
	default:
		return 30 + rng.Intn(900)
	}
}

var freshCounter int

func freshName(rng *rand.Rand, stem string) string {
	freshCounter++
	return fmt.Sprintf("%s%d_%d", stem, freshCounter, rng.Intn(100))
}

// dirsOf lists the tracked directories of a snapshot ("" included).
func dirsOf(s Snap) []string {
	var out []string
	for _, p := range s.paths() {
		if o := s[p]; o.Kind == 'd' && protectedClass(p, o) == "" {
			out = append(out, p)
		}
	}
	return out
}

func join(d, n string) string {
	if d == "" {
		return n
	}
	return d + "/" + n
}

// editor applies the edits of one round.
type editor struct {
	rng   *rand.Rand
	roots roots
	log   func(format string, a ...any)
	// rootAttack makes the round end with a deletion, type change or emptying
	// of one root (C11's subject; only counted here) and disables the guard.
	rootAttack bool
	// script, when non-nil, replaces the random edits of the round.
	script func() ([]Applied, error)
	// prefix, when non-nil, runs before the random edits of the round.
	prefix func() ([]Applied, error)
}

// attackRoot deletes a root, replaces it by a file, or empties it.
func (e *editor) attackRoot() Applied {
	side := []string{"alpha", "beta"}[e.rng.Intn(2)]
	root := e.roots.of(side)
	switch e.rng.Intn(3) {
	case 0:
		os.RemoveAll(root)
		return Applied{Side: side, Op: "root-delete", Path: ""}
	case 1:
		os.RemoveAll(root)
		os.WriteFile(root, fsx.UniqueToken(e.rng, 50), 0o644)
		return Applied{Side: side, Op: "root-retype-file", Path: ""}
	default:
		ents, _ := os.ReadDir(root)
		for _, ent := range ents {
			os.RemoveAll(filepath.Join(root, ent.Name()))
		}
		return Applied{Side: side, Op: "root-empty", Path: ""}
	}
}

// round applies n random edits and returns what was done. Snapshots are
// re-taken as needed (the trees are small).
func (e *editor) round(n int) ([]Applied, error) {
	var done []Applied
	record := func(a []Applied) {
		for _, x := range a {
			if x.Op != "none" {
				e.log("  edit %s", x)
				done = append(done, x)
			}
		}
	}
	if e.script != nil {
		a, err := e.script()
		if err != nil {
			return done, err
		}
		record(a)
		n = 0
	}
	if e.prefix != nil {
		a, err := e.prefix()
		if err != nil {
			return done, err
		}
		record(a)
	}
	for i := 0; i < n; i++ {
		a, err := e.one()
		if err != nil {
			return done, err
		}
		for _, x := range a {
			if x.Op != "none" {
				e.log("  edit %s", x)
				done = append(done, x)
			}
		}
	}
	if e.rootAttack {
		a := e.attackRoot()
		e.log("  edit %s", a)
		return append(done, a), nil
	}
	// Never leave a root empty (one-sided emptying halts the session, which is
	// another property's subject) and never remove a root.
	for _, side := range []string{"alpha", "beta"} {
		root := e.roots.of(side)
		os.MkdirAll(root, 0o755)
		ents, err := os.ReadDir(root)
		if err != nil {
			return done, err
		}
		if len(ents) == 0 {
			p := freshName(e.rng, "refill")
			if err := os.WriteFile(fullPath(root, p), fsx.UniqueToken(e.rng, 40), 0o644); err != nil {
				return done, err
			}
			a := Applied{Side: side, Op: "refill", Path: p}
			e.log("  edit %s", a)
			done = append(done, a)
		}
	}
	return done, nil
}

func (e *editor) one() ([]Applied, error) {
	rng := e.rng
	side := []string{"alpha", "beta"}[rng.Intn(2)]
	root := e.roots.of(side)
	roll := rng.Intn(100)
	switch {
	case roll < 38:
		ed, _, err := fsx.RandomEdit(rng, root)
		if err != nil {
			return nil, err
		}
		return []Applied{{Side: side, Op: ed.Op, Path: ed.Path, Path2: ed.Path2}}, nil
	case roll < 44:
		return e.contentAndExec()
	case roll < 47:
		return e.bothIdentical(-1)
	case roll < 58:
		return e.conflictPair()
	case roll < 62:
		return e.resolveConflict()
	case roll < 67:
		return e.deleteVersusModify()
	case roll < 79:
		return e.makeProtected(side)
	case roll < 91:
		return e.hostileParent()
	case roll < 95:
		return e.deepNest(side)
	default:
		return e.kindChange(side)
	}
}

// shared returns paths that exist on both sides with equal content.
func shared(a, b Snap, kind byte) []string {
	var out []string
	for _, p := range a.paths() {
		if p == "" {
			continue
		}
		oa, ob := a[p], b[p]
		if ob != nil && oa.Kind == kind && tracked(p, oa) && tracked(p, ob) && contentEq(oa, ob) {
			out = append(out, p)
		}
	}
	return out
}

func (e *editor) snaps() (Snap, Snap, error) {
	a, err := takeSnap(e.roots.alpha)
	if err != nil {
		return nil, nil, err
	}
	b, err := takeSnap(e.roots.beta)
	return a, b, err
}

// conflictPair modifies or creates the same path differently on both sides.
func (e *editor) conflictPair() ([]Applied, error) {
	rng := e.rng
	sa, sb, err := e.snaps()
	if err != nil {
		return nil, err
	}
	files := shared(sa, sb, 'f')
	dirs := shared(sa, sb, 'd')
	dirs = append(dirs, "")
	switch v := rng.Intn(6); {
	case v < 2 && len(files) > 0: // both modify an agreed file
		p := files[rng.Intn(len(files))]
		if err := writeNew(rng, fullPath(e.roots.alpha, p), randSize(rng), 0o644); err != nil {
			return nil, nil
		}
		if err := writeNew(rng, fullPath(e.roots.beta, p), randSize(rng), 0o644); err != nil {
			return nil, nil
		}
		return []Applied{{Side: "both", Op: "both-modify", Path: p}}, nil
	case v < 4: // both create a file under a shared directory
		p := join(dirs[rng.Intn(len(dirs))], freshName(rng, "cf"))
		if err := writeNew(rng, fullPath(e.roots.alpha, p), randSize(rng), 0o644); err != nil {
			return nil, nil
		}
		if err := writeNew(rng, fullPath(e.roots.beta, p), randSize(rng), 0o755); err != nil {
			return nil, nil
		}
		return []Applied{{Side: "both", Op: "both-create", Path: p}}, nil
	case v == 4: // file on one side, directory with a child on the other
		p := join(dirs[rng.Intn(len(dirs))], freshName(rng, "ck"))
		fileSide := []string{"alpha", "beta"}[rng.Intn(2)]
		if err := writeNew(rng, fullPath(e.roots.of(fileSide), p), randSize(rng), 0o644); err != nil {
			return nil, nil
		}
		d := fullPath(e.roots.of(other(fileSide)), p)
		if err := os.Mkdir(d, 0o755); err != nil {
			return nil, nil
		}
		os.WriteFile(filepath.Join(d, "inner"), fsx.UniqueToken(rng, 50), 0o644)
		return []Applied{{Side: "both", Op: "both-create-kinds", Path: p, Path2: fileSide + "=file"}}, nil
	default: // modify on one side, chmod +x (a real change on ext4) on the other
		if len(files) == 0 {
			return nil, nil
		}
		p := files[rng.Intn(len(files))]
		modSide := []string{"alpha", "beta"}[rng.Intn(2)]
		if err := writeNew(rng, fullPath(e.roots.of(modSide), p), randSize(rng), os.FileMode(sa[p].Perm&0o777)); err != nil {
			return nil, nil
		}
		perm := os.FileMode(sa[p].Perm & 0o777)
		if perm&0o111 != 0 {
			perm &^= 0o111
		} else {
			perm |= 0o100
		}
		if err := os.Chmod(fullPath(e.roots.of(other(modSide)), p), perm); err != nil {
			return nil, nil
		}
		return []Applied{{Side: "both", Op: "modify-vs-chmod", Path: p, Path2: modSide + "=content"}}, nil
	}
}

// deleteVersusModify deletes an agreed path on one side and changes content at
// or below it on the other.
func (e *editor) deleteVersusModify() ([]Applied, error) {
	rng := e.rng
	sa, sb, err := e.snaps()
	if err != nil {
		return nil, err
	}
	files := shared(sa, sb, 'f')
	if len(files) == 0 {
		return nil, nil
	}
	p := files[rng.Intn(len(files))]
	delSide := []string{"alpha", "beta"}[rng.Intn(2)]
	target := p
	if rng.Intn(2) == 0 && parentOf(p) != "" {
		target = parentOf(p) // delete the whole directory
	}
	if err := os.RemoveAll(fullPath(e.roots.of(delSide), target)); err != nil {
		return nil, nil
	}
	if err := writeNew(rng, fullPath(e.roots.of(other(delSide)), p), randSize(rng), 0o644); err != nil {
		return nil, nil
	}
	return []Applied{{Side: "both", Op: "delete-vs-modify", Path: p, Path2: delSide + " deleted " + target}}, nil
}

// contentAndExec changes, on ONE side, both the content and the executable
// bit of a file the two roots agree on.
func (e *editor) contentAndExec() ([]Applied, error) {
	rng := e.rng
	sa, sb, err := e.snaps()
	if err != nil {
		return nil, err
	}
	files := shared(sa, sb, 'f')
	if len(files) == 0 {
		return nil, nil
	}
	p := files[rng.Intn(len(files))]
	side := []string{"alpha", "beta"}[rng.Intn(2)]
	perm := os.FileMode(sa[p].Perm & 0o777)
	if perm&0o111 != 0 {
		perm &^= 0o111
	} else {
		perm |= []os.FileMode{0o100, 0o111, 0o110}[rng.Intn(3)]
	}
	full := fullPath(e.roots.of(side), p)
	if rng.Intn(2) == 0 {
		// in place: same inode, new bytes, new mode, mtime moved
		if err := os.WriteFile(full, fsx.UniqueToken(rng, randSize(rng)), 0o644); err != nil {
			return nil, nil
		}
		if err := os.Chmod(full, perm); err != nil {
			return nil, err
		}
		if err := fsx.BumpMtime(full); err != nil {
			return nil, err
		}
	} else if err := writeNew(rng, full, randSize(rng), perm); err != nil {
		return nil, nil
	}
	return []Applied{{Side: side, Op: "edit-content-and-x", Path: p}}, nil
}

// bothIdentical makes the same change on both sides, so that a cycle has
// nothing to propagate and only records the agreement: both create a file with
// the same bytes (which 0), both rewrite an agreed file with the same new
// bytes (1), both delete an agreed file (2). which < 0 picks one.
func (e *editor) bothIdentical(which int) ([]Applied, error) {
	rng := e.rng
	sa, sb, err := e.snaps()
	if err != nil {
		return nil, err
	}
	files := shared(sa, sb, 'f')
	dirs := append(shared(sa, sb, 'd'), "")
	if which < 0 {
		which = rng.Intn(3)
	}
	if which > 0 && len(files) == 0 {
		which = 0
	}
	switch which {
	case 0:
		p := join(dirs[rng.Intn(len(dirs))], freshName(rng, "same"))
		data := fsx.UniqueToken(rng, randSize(rng))
		perm := []os.FileMode{0o644, 0o755}[rng.Intn(2)]
		for _, root := range []string{e.roots.alpha, e.roots.beta} {
			if err := os.WriteFile(fullPath(root, p), data, perm); err != nil {
				return nil, nil
			}
			os.Chmod(fullPath(root, p), perm)
		}
		return []Applied{{Side: "both", Op: "both-create-identical", Path: p}}, nil
	case 1:
		p := files[rng.Intn(len(files))]
		data := fsx.UniqueToken(rng, randSize(rng))
		for _, root := range []string{e.roots.alpha, e.roots.beta} {
			if err := os.WriteFile(fullPath(root, p), data, 0o644); err != nil {
				return nil, nil
			}
			if err := fsx.BumpMtime(fullPath(root, p)); err != nil {
				return nil, err
			}
		}
		return []Applied{{Side: "both", Op: "both-modify-identical", Path: p}}, nil
	default:
		p := files[rng.Intn(len(files))]
		os.Remove(fullPath(e.roots.alpha, p))
		os.Remove(fullPath(e.roots.beta, p))
		return []Applied{{Side: "both", Op: "both-delete", Path: p}}, nil
	}
}

// massCreate creates, on alpha, one new subtree holding n directories (chains
// and fans) and a few files.
func (e *editor) massCreate(n int) ([]Applied, error) {
	rng := e.rng
	top := freshName(rng, "mass")
	base := fullPath(e.roots.alpha, top)
	if err := os.Mkdir(base, 0o755); err != nil {
		return nil, err
	}
	made := 1
	cur := base
	for made < n {
		switch rng.Intn(4) {
		case 0:
			cur = base
		}
		d := filepath.Join(cur, fmt.Sprintf("d%d", made))
		if err := os.Mkdir(d, 0o755); err != nil {
			return nil, err
		}
		made++
		if rng.Intn(3) > 0 && strings.Count(d, "/") < strings.Count(base, "/")+12 {
			cur = d
		}
	}
	for i := 0; i < 4; i++ {
		os.WriteFile(filepath.Join(base, fmt.Sprintf("file%d", i)), fsx.UniqueToken(rng, 100+rng.Intn(400)), 0o644)
	}
	return []Applied{{Side: "alpha", Op: "mass-create", Path: top, Path2: fmt.Sprintf("%d directories, 4 files", n)}}, nil
}

// resolveConflict performs the documented manual resolution of a conflict:
// where both sides hold different tracked content at a path, delete one
// side's version.
func (e *editor) resolveConflict() ([]Applied, error) {
	rng := e.rng
	sa, sb, err := e.snaps()
	if err != nil {
		return nil, err
	}
	var ps []string
	for _, p := range sa.paths() {
		if p != "" && tracked(p, sa[p]) && tracked(p, sb[p]) && !contentEq(sa[p], sb[p]) {
			ps = append(ps, p)
		}
	}
	if len(ps) == 0 {
		return nil, nil
	}
	p := ps[rng.Intn(len(ps))]
	side := []string{"alpha", "beta"}[rng.Intn(2)]
	if err := os.RemoveAll(fullPath(e.roots.of(side), p)); err != nil {
		return nil, nil
	}
	return []Applied{{Side: side, Op: "resolve-by-delete", Path: p}}, nil
}

// makeProtected creates content the session does not track.
func (e *editor) makeProtected(side string) ([]Applied, error) {
	rng := e.rng
	root := e.roots.of(side)
	s, err := takeSnap(root)
	if err != nil {
		return nil, err
	}
	dirs := dirsOf(s)
	d := dirs[rng.Intn(len(dirs))]
	if d == "" && len(dirs) > 1 && rng.Intn(3) > 0 {
		d = dirs[1+rng.Intn(len(dirs)-1)]
	}
	if rng.Intn(4) == 0 { // a new tracked directory holding it
		nd := join(d, freshName(rng, "pd"))
		if err := os.Mkdir(fullPath(root, nd), 0o755); err == nil {
			os.WriteFile(fullPath(root, nd+"/tracked"), fsx.UniqueToken(rng, 60), 0o644)
			d = nd
		}
	}
	switch rng.Intn(6) {
	case 0:
		p := join(d, freshName(rng, "f")+".ign")
		if err := os.WriteFile(fullPath(root, p), fsx.UniqueToken(rng, randSize(rng)), 0o644); err != nil {
			return nil, nil
		}
		return []Applied{{Side: side, Op: "mk-ignored-file", Path: p}}, nil
	case 1:
		p := join(d, "igndir")
		if err := os.Mkdir(fullPath(root, p), 0o755); err != nil {
			return nil, nil
		}
		os.WriteFile(fullPath(root, p+"/inside"), fsx.UniqueToken(rng, 80), 0o644)
		os.Mkdir(fullPath(root, p+"/sub"), 0o755)
		os.WriteFile(fullPath(root, p+"/sub/deeper"), fsx.UniqueToken(rng, 80), 0o755)
		return []Applied{{Side: side, Op: "mk-ignored-dir", Path: p}}, nil
	case 2:
		p := join(d, freshName(rng, "fifo"))
		if err := syscall.Mkfifo(fullPath(root, p), 0o644); err != nil {
			return nil, nil
		}
		return []Applied{{Side: side, Op: "mkfifo", Path: p}}, nil
	case 3:
		p := join(d, freshName(rng, "bad\xff\xfe"))
		if err := os.WriteFile(fullPath(root, p), fsx.UniqueToken(rng, 70), 0o644); err != nil {
			return nil, nil
		}
		return []Applied{{Side: side, Op: "mk-nonutf8-file", Path: p}}, nil
	case 4:
		p := join(d, freshName(rng, "bd\xc0\xaf"))
		if err := os.Mkdir(fullPath(root, p), 0o755); err != nil {
			return nil, nil
		}
		os.WriteFile(fullPath(root, p+"/child"), fsx.UniqueToken(rng, 70), 0o644)
		return []Applied{{Side: side, Op: "mk-nonutf8-dir", Path: p}}, nil
	default:
		p := join(d, freshName(rng, "esc"))
		t := []string{"/etc/passwd", strings.Repeat("../", strings.Count(p, "/")+1) + "out", "a:b", "c\\d", strings.Repeat("n/", 130)}[rng.Intn(5)]
		if err := os.Symlink(t, fullPath(root, p)); err != nil {
			return nil, nil
		}
		return []Applied{{Side: side, Op: "mk-unportable-link", Path: p, Path2: t}}, nil
	}
}

// hostileParent finds untracked content on one side and, on the OTHER side,
// deletes or retypes one of its ancestors directories.
func (e *editor) hostileParent() ([]Applied, error) {
	rng := e.rng
	sa, sb, err := e.snaps()
	if err != nil {
		return nil, err
	}
	type cand struct{ victimSide, dir, obj string }
	var cands []cand
	collect := func(victimSide string, victim, attacker Snap) {
		for _, p := range victim.paths() {
			if p == "" || protectedClass(p, victim[p]) == "" {
				continue
			}
			// the topmost tracked ancestors that also exist as directories on the attacker's side
			for d := parentOf(p); d != ""; d = parentOf(d) {
				if o := attacker[d]; o != nil && o.Kind == 'd' && protectedClass(d, o) == "" && protectedClass(d, victim[d]) == "" {
					cands = append(cands, cand{victimSide, d, p})
				}
			}
		}
	}
	collect("alpha", sa, sb)
	collect("beta", sb, sa)
	if len(cands) == 0 {
		// nothing to attack yet: plant something for a later round
		return e.makeProtected([]string{"alpha", "beta"}[rng.Intn(2)])
	}
	sort.Slice(cands, func(i, j int) bool {
		if cands[i].victimSide != cands[j].victimSide {
			return cands[i].victimSide < cands[j].victimSide
		}
		if cands[i].dir != cands[j].dir {
			return cands[i].dir < cands[j].dir
		}
		return cands[i].obj < cands[j].obj
	})
	c := cands[rng.Intn(len(cands))]
	attacker := other(c.victimSide)
	full := fullPath(e.roots.of(attacker), c.dir)
	if err := os.RemoveAll(full); err != nil {
		return nil, nil
	}
	op := "hostile-delete-parent"
	switch rng.Intn(3) {
	case 0:
		op = "hostile-retype-parent-file"
		os.WriteFile(full, fsx.UniqueToken(rng, 64), 0o644)
	case 1:
		op = "hostile-retype-parent-link"
		os.Symlink("elsewhere", full)
	}
	return []Applied{{Side: attacker, Op: op, Path: c.dir, Path2: c.victimSide + " holds " + quote(c.obj)}}, nil
}

func (e *editor) deepNest(side string) ([]Applied, error) {
	rng := e.rng
	root := e.roots.of(side)
	p := ""
	for i, n := 0, 4+rng.Intn(5); i < n; i++ {
		p = join(p, []string{"deep", "n", "lvl", "a", "sub"}[rng.Intn(5)])
	}
	if err := os.MkdirAll(fullPath(root, p), 0o755); err != nil {
		return nil, nil
	}
	f := join(p, freshName(rng, "leaf"))
	if err := os.WriteFile(fullPath(root, f), fsx.UniqueToken(rng, randSize(rng)), 0o644); err != nil {
		return nil, nil
	}
	return []Applied{{Side: side, Op: "deep-nest", Path: f}}, nil
}

// kindChange replaces an existing object by one of another kind.
func (e *editor) kindChange(side string) ([]Applied, error) {
	rng := e.rng
	root := e.roots.of(side)
	s, err := takeSnap(root)
	if err != nil {
		return nil, err
	}
	var ps []string
	for _, p := range s.paths() {
		if p != "" && !strings.Contains(p, ".verif-") {
			ps = append(ps, p)
		}
	}
	if len(ps) == 0 {
		return nil, nil
	}
	p := ps[rng.Intn(len(ps))]
	from := s[p].Kind
	full := fullPath(root, p)
	if err := os.RemoveAll(full); err != nil {
		return nil, nil
	}
	to := []byte{'f', 'd', 'l', 'p'}[rng.Intn(4)]
	if to == from {
		to = map[byte]byte{'f': 'l', 'd': 'f', 'l': 'd', 'p': 'f', 'o': 'f'}[from]
	}
	switch to {
	case 'f':
		// the name is free now, but route through a temporary anyway so the
		// inode differs from the one just released
		if err := writeNew(rng, full, randSize(rng), 0o644); err != nil {
			return nil, nil
		}
	case 'd':
		os.Mkdir(full, 0o755)
		os.WriteFile(filepath.Join(full, "inner"), fsx.UniqueToken(rng, 64), 0o644)
	case 'l':
		os.Symlink([]string{"inner", "../x", "./y/z", "t"}[rng.Intn(4)], full)
	case 'p':
		syscall.Mkfifo(full, 0o644)
	}
	return []Applied{{Side: side, Op: fmt.Sprintf("kind-%c>%c", from, to), Path: p}}, nil
}

// seedRoots materializes the initial trees. Returns a description.
func seedRoots(rng *rand.Rand, r roots) (string, error) {
	cfg := fsx.TreeConfig{MaxEntries: 14, MaxDepth: 3, MaxFileSize: 30000, Links: true, Fifos: true, NonUTF8: true,
		ExtraNames: []string{"x.ign", "y.ign", "igndir"}}
	ta := fsx.RandomTree(rng, cfg)
	shape := []string{"identical", "different", "alpha-only", "beta-only", "overlapping", "both-empty"}[rng.Intn(6)]
	var tb fsx.Tree
	switch shape {
	case "identical":
		tb = ta
	case "different":
		tb = fsx.RandomTree(rng, cfg)
	case "alpha-only":
		tb = fsx.Tree{}
	case "beta-only":
		tb, ta = ta, fsx.Tree{}
	case "overlapping":
		tb = fsx.Tree{}
		for p, n := range ta {
			switch rng.Intn(4) {
			case 0: // missing on beta
			case 1: // different content at the same path
				c := *n
				if c.Kind == fsx.KFile {
					c.Content = fsx.UniqueToken(rng, 100+rng.Intn(400))
				}
				tb[p] = &c
			default:
				tb[p] = n
			}
		}
	default:
		ta, tb = fsx.Tree{}, fsx.Tree{}
	}
	if err := fsx.Materialize(r.alpha, ta); err != nil {
		return shape, fmt.Errorf("materialize alpha: %w", err)
	}
	if err := fsx.Materialize(r.beta, tb); err != nil {
		return shape, fmt.Errorf("materialize beta: %w", err)
	}
	return shape, nil
}
