// Package l3 drives real synchronization sessions (real Manager, real local
// endpoints, real roots on disk) through random edit histories.
package l3

import "verif/internal/vk"

// Histories runs the L3 workload for one of C01–C04.
func Histories(r *vk.Run, prop string) {
	histories(r, prop)
}
