// Package vk is the shared verdict kit used by every monitor: deterministic
// seeded randomness, evidence accounting, known-finding matching, replay
// witness files and the output contract (exit 0 / exit 1 + VIOLATION line).
package vk

import (
	"encoding/json"
	"fmt"
	"hash/fnv"
	"math/rand"
	"os"
	"path/filepath"
	"runtime/debug"
	"sort"
	"strconv"
	"strings"
	"sync"
	"time"
)

// Root is the verification root.
const Root = "/verif"

// outDir returns the directory for evidence/replays: under /verif normally,
// under $VERIF_OUT when a check is run against a scratch copy of the
// repository (development only), so that such runs never overwrite evidence.
func outDir(kind string) string {
	if d := os.Getenv("VERIF_OUT"); d != "" {
		return filepath.Join(d, kind)
	}
	return filepath.Join(Root, kind)
}

// Finding is one entry of known_findings.json.
type Finding struct {
	Property    string            `json:"property"`
	Status      string            `json:"status"` // "known" or "fixed"
	ID          string            `json:"id"`
	Match       map[string]string `json:"match,omitempty"`
	Commit      string            `json:"commit,omitempty"`
	Description string            `json:"description"`
}

// Run is the state of one check run for one property.
type Run struct {
	Prop  string
	Level string
	Tier  string
	Seed  int64

	mu           sync.Mutex
	start        time.Time
	evals        int64
	distinct     map[uint64]struct{}
	samples      []any
	maxSamples   int
	counters     map[string]int64
	notes        map[string]any
	assumptions  []string
	violations   int
	sigCount     map[string]int
	known        []Finding
	knownHit     map[string]int
	inconclusive int64
	scratch      string
	replayIdx    int
}

// Start begins a run. Level is "exploration" or "fault_enumeration".
func Start(prop, level string) *Run {
	r := &Run{
		Prop: prop, Level: level,
		Tier:       os.Getenv("VERIF_TIER"),
		start:      time.Now(),
		distinct:   map[uint64]struct{}{},
		counters:   map[string]int64{},
		notes:      map[string]any{},
		sigCount:   map[string]int{},
		knownHit:   map[string]int{},
		maxSamples: 5,
	}
	if r.Tier != "thorough" {
		r.Tier = "quick"
	}
	r.Seed = 1
	if s := os.Getenv("VERIF_SEED"); s != "" {
		if v, err := strconv.ParseInt(s, 10, 64); err == nil {
			r.Seed = v
		}
	}
	if data, err := os.ReadFile(filepath.Join(Root, "known_findings.json")); err == nil {
		var all struct {
			Findings []Finding `json:"findings"`
		}
		if err := json.Unmarshal(data, &all); err != nil {
			fmt.Printf("ERROR: known_findings.json does not parse: %v\n", err)
			os.Exit(3)
		}
		for _, f := range all.Findings {
			if f.Property == prop && f.Status == "known" {
				r.known = append(r.known, f)
			}
		}
	}
	return r
}

// Quick reports whether this is the quick tier.
func (r *Run) Quick() bool { return r.Tier == "quick" }

// Pick returns q in the quick tier and t in the thorough tier.
func (r *Run) Pick(q, t int) int {
	if r.Quick() {
		return q
	}
	return t
}

// Rand returns a PRNG that is a pure function of (seed, stream).
func (r *Run) Rand(stream string) *rand.Rand {
	h := fnv.New64a()
	fmt.Fprintf(h, "%s|%d|%s", r.Prop, r.Seed, stream)
	return rand.New(rand.NewSource(int64(h.Sum64())))
}

// Scratch returns (creating on first use) a scratch directory outside /repo
// and /verif. base may be "" (ext4 under /var/tmp) or "shm" (/dev/shm).
func (r *Run) Scratch() string {
	r.mu.Lock()
	defer r.mu.Unlock()
	if r.scratch == "" {
		d := os.Getenv("VERIF_SCRATCH")
		if d == "" {
			d = fmt.Sprintf("/var/tmp/verif-%d", os.Getpid())
		}
		d = filepath.Join(d, r.Prop)
		os.MkdirAll(d, 0o755)
		r.scratch = d
	}
	return r.scratch
}

// Eval counts n executed cases.
func (r *Run) Eval(n int) {
	r.mu.Lock()
	r.evals += int64(n)
	r.mu.Unlock()
}

// Distinct records the signature of a non-trivial case; distinct signatures
// are what the evidence reports as distinct_nontrivial.
func (r *Run) Distinct(sig string) {
	h := fnv.New64a()
	h.Write([]byte(sig))
	v := h.Sum64()
	r.mu.Lock()
	r.distinct[v] = struct{}{}
	r.mu.Unlock()
}

// DistinctCount returns the number of distinct signatures so far.
func (r *Run) DistinctCount() int {
	r.mu.Lock()
	defer r.mu.Unlock()
	return len(r.distinct)
}

// Sample keeps a few concrete cases for the evidence file.
func (r *Run) Sample(v any) {
	r.mu.Lock()
	if len(r.samples) < r.maxSamples {
		r.samples = append(r.samples, v)
	}
	r.mu.Unlock()
}

// Count adds n to a named counter reported in the evidence.
func (r *Run) Count(key string, n int64) {
	r.mu.Lock()
	r.counters[key] += n
	r.mu.Unlock()
}

// Counter reads a named counter.
func (r *Run) Counter(key string) int64 {
	r.mu.Lock()
	defer r.mu.Unlock()
	return r.counters[key]
}

// Note stores an arbitrary value in the evidence coverage object.
func (r *Run) Note(key string, v any) {
	r.mu.Lock()
	r.notes[key] = v
	r.mu.Unlock()
}

// Assume records an assumption for the evidence file.
func (r *Run) Assume(s string) {
	r.mu.Lock()
	for _, a := range r.assumptions {
		if a == s {
			r.mu.Unlock()
			return
		}
	}
	r.assumptions = append(r.assumptions, s)
	r.mu.Unlock()
}

// Inconclusive counts a case that could be judged neither way.
func (r *Run) Inconclusive(reason string) {
	r.mu.Lock()
	r.inconclusive++
	r.counters["inconclusive:"+reason]++
	r.mu.Unlock()
}

func matches(f Finding, sig map[string]string) bool {
	if len(f.Match) == 0 {
		return false
	}
	for k, v := range f.Match {
		if sig[k] != v {
			return false
		}
	}
	return true
}

// Violation reports a refuting observation. sig identifies the *kind* of
// failure (used for known-finding matching and de-duplication); witness is
// the concrete case written to a replay file. Returns true if it counted as a
// new (unlisted) violation.
func (r *Run) Violation(sig map[string]string, what string, witness any) bool {
	r.mu.Lock()
	defer r.mu.Unlock()
	for _, f := range r.known {
		if matches(f, sig) {
			r.knownHit[f.ID]++
			if r.knownHit[f.ID] == 1 {
				fmt.Printf("KNOWN-FINDING: property=%s %s (%s)\n", r.Prop, f.ID, f.Description)
			}
			return false
		}
	}
	keys := make([]string, 0, len(sig))
	for k := range sig {
		keys = append(keys, k)
	}
	sort.Strings(keys)
	var sb strings.Builder
	for _, k := range keys {
		fmt.Fprintf(&sb, "%s=%s;", k, sig[k])
	}
	key := sb.String()
	r.violations++
	r.sigCount[key]++
	if r.sigCount[key] > 3 || len(r.sigCount) > 60 {
		return true
	}
	r.replayIdx++
	dir := filepath.Join(outDir("replays"), r.Prop)
	os.MkdirAll(dir, 0o755)
	path := filepath.Join(dir, fmt.Sprintf("%s-seed%d-%03d.json", r.Tier, r.Seed, r.replayIdx))
	doc := map[string]any{
		"property": r.Prop, "tier": r.Tier, "seed": r.Seed,
		"signature": sig, "what": what, "witness": witness,
	}
	data, err := json.MarshalIndent(doc, "", " ")
	if err != nil {
		data = []byte(fmt.Sprintf("{\"property\":%q,\"tier\":%q,\"seed\":%d,\"what\":%q,\"witness\":%q}", r.Prop, r.Tier, r.Seed, what, fmt.Sprintf("%+v", witness)))
	}
	os.WriteFile(path, data, 0o644)
	fmt.Printf("VIOLATION property=%s replay=%s\n", r.Prop, path)
	fmt.Printf("  what: %s\n  signature: %s\n", what, key)
	return true
}

// Violations returns the number of unlisted violations so far.
func (r *Run) Violations() int {
	r.mu.Lock()
	defer r.mu.Unlock()
	return r.violations
}

// Guard runs f and converts a panic in the code under test into a violation.
func (r *Run) Guard(caseDesc any, f func()) {
	defer func() {
		if p := recover(); p != nil {
			r.Violation(map[string]string{"kind": "panic", "panic": fmt.Sprint(p)},
				fmt.Sprintf("panic in code under test: %v", p),
				map[string]any{"case": caseDesc, "stack": string(debug.Stack())})
		}
	}()
	f()
}

// Finish writes the evidence file and exits. rule explains how cases are
// generated and what makes one distinct/non-trivial; floor is the minimum
// number of distinct non-trivial observations below which the run counts as
// having observed nothing (exit 3, no verdict).
func (r *Run) Finish(rule string, floor int) {
	r.mu.Lock()
	cov := map[string]any{
		"evaluations":         r.evals,
		"distinct_nontrivial": len(r.distinct),
		"rule":                rule,
		"samples":             r.samples,
		"inconclusive":        r.inconclusive,
	}
	for k, v := range r.counters {
		cov[k] = v
	}
	for k, v := range r.notes {
		cov[k] = v
	}
	if len(r.knownHit) > 0 {
		cov["known_findings_observed"] = r.knownHit
	}
	if len(r.samples) == 0 {
		cov["samples"] = []any{"(none recorded)"}
	}
	ev := map[string]any{
		"property_id": r.Prop,
		"tier":        r.Tier,
		"seed":        r.Seed,
		"level":       r.Level,
		"coverage":    cov,
		"assumptions": r.assumptions,
		"wall_s":      time.Since(r.start).Seconds(),
		"violations":  r.violations,
	}
	if r.assumptions == nil {
		ev["assumptions"] = []string{}
	}
	viol := r.violations
	nd := len(r.distinct)
	evals := r.evals
	scratch := r.scratch
	r.mu.Unlock()

	data, err := json.MarshalIndent(ev, "", " ")
	if err != nil {
		fmt.Printf("ERROR: evidence does not marshal: %v\n", err)
		os.Exit(3)
	}
	evDir := outDir("evidence")
	os.MkdirAll(evDir, 0o755)
	if err := os.WriteFile(filepath.Join(evDir, r.Prop+".json"), data, 0o644); err != nil {
		fmt.Printf("ERROR: cannot write evidence: %v\n", err)
		os.Exit(3)
	}
	if scratch != "" && os.Getenv("VERIF_KEEP") == "" {
		os.RemoveAll(scratch)
	}
	fmt.Printf("%s %s seed=%d: evaluations=%d distinct_nontrivial=%d inconclusive=%d violations=%d wall=%.1fs\n",
		r.Prop, r.Tier, r.Seed, evals, nd, r.inconclusive, viol, time.Since(r.start).Seconds())
	if viol > 0 {
		os.Exit(1)
	}
	if r.inconclusive > 20 && r.inconclusive > evals {
		fmt.Printf("ERROR: property=%s most cases were inconclusive (%d inconclusive vs %d judged): no verdict\n", r.Prop, r.inconclusive, evals)
		os.Exit(3)
	}
	if nd < floor || evals == 0 {
		fmt.Printf("ERROR: property=%s observed too little (distinct=%d < floor=%d): no verdict\n", r.Prop, nd, floor)
		os.Exit(3)
	}
	os.Exit(0)
}

// JSON renders v compactly for samples and signatures.
func JSON(v any) string {
	b, err := json.Marshal(v)
	if err != nil {
		return fmt.Sprintf("%+v", v)
	}
	return string(b)
}

// Main dispatches on -prop among the given per-property functions.
func Main(group string, props map[string]func()) {
	prop := ""
	args := os.Args[1:]
	for i := 0; i < len(args); i++ {
		if args[i] == "-prop" && i+1 < len(args) {
			prop = args[i+1]
		}
	}
	f, ok := props[prop]
	if !ok {
		fmt.Printf("ERROR: monitor group %s has no property %q\n", group, prop)
		os.Exit(3)
	}
	f()
	fmt.Printf("ERROR: monitor for %s returned without Finish\n", prop)
	os.Exit(3)
}
