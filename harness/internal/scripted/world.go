package scripted

import (
	"context"
	"errors"
	"fmt"
	"sync"
	"sync/atomic"
	"time"

	"github.com/mutagen-io/mutagen/pkg/logging"
	"github.com/mutagen-io/mutagen/pkg/synchronization"
	"github.com/mutagen-io/mutagen/pkg/synchronization/core"
	"github.com/mutagen-io/mutagen/pkg/synchronization/rsync"
	urlpkg "github.com/mutagen-io/mutagen/pkg/url"

	// The real local protocol handler registers itself in its init; ours then
	// replaces it and keeps it as the fallback for paths that are not scripted
	// roots (so real local roots stay usable in the same process).
	_ "github.com/mutagen-io/mutagen/pkg/synchronization/protocols/local"

	"verif/internal/gen"
)

// World is the registry of scripted roots, addressed by URL path.
type World struct {
	mu       sync.Mutex
	roots    map[string]*Root
	fallback synchronization.ProtocolHandler
}

var theWorld = &World{roots: map[string]*Root{}}

var instanceCounter atomic.Int64

func init() {
	// ProtocolHandlers "should only be modified during init()": this package's
	// init runs after that of protocols/local (a dependency), so the scripted
	// handler replaces the local one before any goroutine exists.
	theWorld.fallback = synchronization.ProtocolHandlers[urlpkg.Protocol_Local]
	synchronization.ProtocolHandlers[urlpkg.Protocol_Local] = &handler{w: theWorld}
}

// TheWorld returns the process-wide registry (the handler is installed at init).
func TheWorld() *World { return theWorld }

// Options configures a scripted root. All functions may be called from several
// goroutines and must be safe for that.
type Options struct {
	// Journal receives every call on endpoints of this root (required).
	Journal *Journal
	// Content is the initial simulated content of the root.
	Content *core.Entry
	// PreservesExecutability is reported in snapshots.
	PreservesExecutability bool
	// Delay returns the latency to add to a call of the given operation. It is
	// slept cancellably for Connect/Poll/Scan/Transition and non-cancellably
	// for Stage/Supply/Shutdown (like the real endpoints, whose staging calls
	// take no context).
	Delay func(op string) time.Duration
	// Poll replaces the default poll behaviour (return nil when kicked or
	// "always changed", or when ctx ends).
	Poll func(ctx context.Context, r *Root) error
	// ScanNotPreemptable makes Scan sleep its latency without watching the
	// context (a slow scan that cannot be interrupted, which the Endpoint
	// contract allows: local endpoints are not preempted by Shutdown either).
	ScanNotPreemptable bool
}

// Root is one scripted synchronization root. Endpoints connected to it answer
// from its simulated content; Transition applies the reported results to it.
type Root struct {
	Path string
	J    *Journal

	opts Options

	mu            sync.Mutex
	content       *core.Entry
	preservesExec bool
	alwaysChanged bool
	kick          chan struct{}
	outcome       func(i int, c *core.Change) *core.Entry
	problems      func(ts []*core.Change) []*core.Problem
	transitionErr error
	missingFiles  bool
	scanErr       error
	scanRetry     bool
	connectErr    error
	gate          func(scanCtx context.Context)
}

// NewRoot registers a scripted root under the URL path.
func (w *World) NewRoot(path string, o Options) *Root {
	if o.Journal == nil {
		panic("scripted: root without journal")
	}
	r := &Root{Path: path, J: o.Journal, opts: o, content: gen.Clone(o.Content),
		preservesExec: o.PreservesExecutability, kick: make(chan struct{}, 1)}
	w.mu.Lock()
	w.roots[path] = r
	w.mu.Unlock()
	return r
}

// Remove unregisters a root.
func (w *World) Remove(path string) {
	w.mu.Lock()
	delete(w.roots, path)
	w.mu.Unlock()
}

func (w *World) lookup(path string) *Root {
	w.mu.Lock()
	defer w.mu.Unlock()
	return w.roots[path]
}

// Content returns a copy of the simulated content.
func (r *Root) Content() *core.Entry {
	r.mu.Lock()
	defer r.mu.Unlock()
	return gen.Clone(r.content)
}

// SetContent replaces the simulated content (what the next Scan reports).
func (r *Root) SetContent(e *core.Entry) {
	r.mu.Lock()
	r.content = gen.Clone(e)
	r.mu.Unlock()
}

// Update replaces the content by f(content) atomically.
func (r *Root) Update(f func(*core.Entry) *core.Entry) {
	r.mu.Lock()
	r.content = gen.Clone(f(gen.Clone(r.content)))
	r.mu.Unlock()
}

// SetPreservesExecutability sets the flag reported by later snapshots.
func (r *Root) SetPreservesExecutability(v bool) {
	r.mu.Lock()
	r.preservesExec = v
	r.mu.Unlock()
}

// SetAlwaysChanged makes every (default) Poll answer "changed" right away.
func (r *Root) SetAlwaysChanged(v bool) {
	r.mu.Lock()
	r.alwaysChanged = v
	r.mu.Unlock()
	if v {
		r.Kick()
	}
}

// Kick makes the current (or next) default Poll answer "changed" once.
func (r *Root) Kick() {
	select {
	case r.kick <- struct{}{}:
	default:
	}
}

// SetOutcome scripts the result reported for the i-th change of the next
// Transition calls (nil function: the ideal result c.New).
func (r *Root) SetOutcome(f func(i int, c *core.Change) *core.Entry) {
	r.mu.Lock()
	r.outcome = f
	r.mu.Unlock()
}

// SetProblems scripts the transition problems reported by Transition.
func (r *Root) SetProblems(f func(ts []*core.Change) []*core.Problem) {
	r.mu.Lock()
	r.problems = f
	r.mu.Unlock()
}

// SetTransitionGate installs a function that every Transition call on this
// root runs before it computes its results. The function receives the context
// the endpoint was given in its latest Scan call, which is the context of the
// controller's synchronization loop: a gate can therefore hold the Transition
// until that loop has been cancelled (Pause, Shutdown). While a gate is
// installed, Transition reports its scripted results (nil error) even though
// its own context has been cancelled - the outcome of transitions that were
// applied, fully or partly, before the cancellation was noticed.
func (r *Root) SetTransitionGate(f func(scanCtx context.Context)) {
	r.mu.Lock()
	r.gate = f
	r.mu.Unlock()
}

// SetTransitionError makes Transition fail with err (nil: succeed).
func (r *Root) SetTransitionError(err error) {
	r.mu.Lock()
	r.transitionErr = err
	r.mu.Unlock()
}

// SetMissingFiles scripts the "stager was missing files" flag of Transition.
func (r *Root) SetMissingFiles(v bool) {
	r.mu.Lock()
	r.missingFiles = v
	r.mu.Unlock()
}

// SetScanError makes Scan fail (retry = the try-again recommendation).
func (r *Root) SetScanError(err error, retry bool) {
	r.mu.Lock()
	r.scanErr, r.scanRetry = err, retry
	r.mu.Unlock()
}

// SetConnectError makes Connect fail.
func (r *Root) SetConnectError(err error) {
	r.mu.Lock()
	r.connectErr = err
	r.mu.Unlock()
}

func (r *Root) delay(op string) time.Duration {
	if r.opts.Delay == nil {
		return 0
	}
	return r.opts.Delay(op)
}

// sleepCtx sleeps d unless ctx ends first; it reports whether ctx ended.
func sleepCtx(ctx context.Context, d time.Duration) bool {
	if d <= 0 {
		select {
		case <-ctx.Done():
			return true
		default:
			return false
		}
	}
	t := time.NewTimer(d)
	defer t.Stop()
	select {
	case <-ctx.Done():
		return true
	case <-t.C:
		return false
	}
}

// handler is the protocol handler installed for Protocol_Local.
type handler struct{ w *World }

func (h *handler) Connect(ctx context.Context, logger *logging.Logger, url *urlpkg.URL, prompter string,
	session string, version synchronization.Version, configuration *synchronization.Configuration, alpha bool,
) (synchronization.Endpoint, error) {
	r := h.w.lookup(url.Path)
	if r == nil {
		if h.w.fallback == nil {
			return nil, fmt.Errorf("scripted: no root registered for %q", url.Path)
		}
		return h.w.fallback.Connect(ctx, logger, url, prompter, session, version, configuration, alpha)
	}
	inst := int(instanceCounter.Add(1))
	ev := r.J.Begin(Event{Op: OpConnect, Session: session, Root: r.Path, Alpha: alpha, Instance: inst})
	cancelled := sleepCtx(ctx, r.delay(OpConnect))
	r.mu.Lock()
	cerr := r.connectErr
	r.mu.Unlock()
	if cancelled {
		cerr = ctx.Err()
	}
	if cerr != nil {
		r.J.Finish(ev, func(e *Event) { e.Err = cerr.Error(); e.Cancelled = cancelled })
		return nil, cerr
	}
	ep := &Endpoint{root: r, session: session, alpha: alpha, inst: inst}
	r.J.Finish(ev, nil)
	return ep, nil
}

// Endpoint is a scripted synchronization.Endpoint.
type Endpoint struct {
	root    *Root
	session string
	alpha   bool
	inst    int
	cycle   atomic.Int64

	ctxMu   sync.Mutex
	scanCtx context.Context // context of the latest Scan call
}

func (e *Endpoint) begin(op string) *Event {
	return e.root.J.Begin(Event{Op: op, Session: e.session, Root: e.root.Path, Alpha: e.alpha, Instance: e.inst, Cycle: int(e.cycle.Load())})
}

// Poll implements synchronization.Endpoint.
func (e *Endpoint) Poll(ctx context.Context) error {
	ev := e.begin(OpPoll)
	var err error
	cancelled := false
	if e.root.opts.Poll != nil {
		err = e.root.opts.Poll(ctx, e.root)
	} else {
		cancelled = sleepCtx(ctx, e.root.delay(OpPoll))
		if !cancelled {
			e.root.mu.Lock()
			always := e.root.alwaysChanged
			e.root.mu.Unlock()
			if !always {
				select {
				case <-e.root.kick:
				case <-ctx.Done():
					cancelled = true
				}
			}
		}
	}
	e.root.J.Finish(ev, func(x *Event) {
		x.Cancelled = cancelled || ctx.Err() != nil
		if err != nil {
			x.Err = err.Error()
		}
	})
	return err
}

func count(e *core.Entry, s *core.Snapshot) {
	if e == nil {
		return
	}
	switch e.Kind {
	case core.EntryKind_Directory:
		s.Directories++
		for _, c := range e.Contents {
			count(c, s)
		}
	case core.EntryKind_File:
		s.Files++
	case core.EntryKind_SymbolicLink:
		s.SymbolicLinks++
	}
}

// Scan implements synchronization.Endpoint.
func (e *Endpoint) Scan(ctx context.Context, ancestor *core.Entry, full bool) (*core.Snapshot, error, bool) {
	cyc := int(e.cycle.Add(1))
	e.ctxMu.Lock()
	e.scanCtx = ctx
	e.ctxMu.Unlock()
	ev := e.root.J.Begin(Event{Op: OpScan, Session: e.session, Root: e.root.Path, Alpha: e.alpha, Instance: e.inst, Cycle: cyc,
		Full: full, AncestorNil: ancestor == nil, Ancestor: gen.Describe(ancestor)})
	if e.root.opts.ScanNotPreemptable {
		time.Sleep(e.root.delay(OpScan))
	} else if sleepCtx(ctx, e.root.delay(OpScan)) {
		err := ctx.Err()
		e.root.J.Finish(ev, func(x *Event) { x.Cancelled = true; x.Err = err.Error() })
		return nil, err, false
	}
	e.root.mu.Lock()
	serr, retry := e.root.scanErr, e.root.scanRetry
	snap := &core.Snapshot{Content: gen.Clone(e.root.content), PreservesExecutability: e.root.preservesExec}
	e.root.mu.Unlock()
	if serr != nil {
		e.root.J.Finish(ev, func(x *Event) { x.Err = serr.Error() })
		return nil, serr, retry
	}
	count(snap.Content, snap)
	e.root.J.Finish(ev, func(x *Event) { x.Note = gen.Describe(snap.Content) })
	return snap, nil, false
}

// recorder is the rsync.Encoder behind the receiver handed out by Stage.
type recorder struct {
	mu        sync.Mutex
	received  int
	finalized bool
}

func (r *recorder) Encode(t *rsync.Transmission) error {
	r.mu.Lock()
	r.received++
	r.mu.Unlock()
	return nil
}

func (r *recorder) Finalize() error {
	r.mu.Lock()
	r.finalized = true
	r.mu.Unlock()
	return nil
}

// Stage implements synchronization.Endpoint. Every requested path is reported
// as "needs transfer" so that the controller calls Supply on the other side.
func (e *Endpoint) Stage(paths []string, digests [][]byte) ([]string, []*rsync.Signature, rsync.Receiver, error) {
	ev := e.begin(OpStage)
	time.Sleep(e.root.delay(OpStage))
	if len(paths) != len(digests) {
		err := errors.New("scripted: path and digest counts differ")
		e.root.J.Finish(ev, func(x *Event) { x.Err = err.Error() })
		return nil, nil, nil, err
	}
	filtered := append([]string(nil), paths...)
	sigs := make([]*rsync.Signature, len(filtered))
	for i := range sigs {
		sigs[i] = &rsync.Signature{}
	}
	var receiver rsync.Receiver
	if len(filtered) > 0 {
		receiver = rsync.NewEncodingReceiver(&recorder{})
	}
	e.root.J.Finish(ev, func(x *Event) { x.Paths = append([]string(nil), paths...) })
	return filtered, sigs, receiver, nil
}

// Supply implements synchronization.Endpoint: it runs the real rsync.Transmit
// against a root that does not exist, which sends one "done, with error"
// transmission per path and finalizes the receiver (the only exported way to
// do so).
func (e *Endpoint) Supply(paths []string, signatures []*rsync.Signature, receiver rsync.Receiver) error {
	ev := e.begin(OpSupply)
	time.Sleep(e.root.delay(OpSupply))
	err := rsync.Transmit("/nonexistent-scripted-root"+e.root.Path, paths, signatures, receiver)
	e.root.J.Finish(ev, func(x *Event) {
		x.Paths = append([]string(nil), paths...)
		if err != nil {
			x.Err = err.Error()
		}
	})
	return err
}

// Transition implements synchronization.Endpoint.
func (e *Endpoint) Transition(ctx context.Context, transitions []*core.Change) ([]*core.Entry, []*core.Problem, bool, error) {
	ev := e.root.J.Begin(Event{Op: OpTransition, Session: e.session, Root: e.root.Path, Alpha: e.alpha, Instance: e.inst,
		Cycle: int(e.cycle.Load()), Changes: transitions, ChangeDesc: gen.DescribeChanges(transitions)})
	cancelled := sleepCtx(ctx, e.root.delay(OpTransition))
	e.root.mu.Lock()
	gate := e.root.gate
	e.root.mu.Unlock()
	gated := false
	if gate != nil {
		e.ctxMu.Lock()
		sc := e.scanCtx
		e.ctxMu.Unlock()
		if sc == nil {
			sc = ctx
		}
		gate(sc)
		// The scripted results stand: they were "applied" before the
		// cancellation could be noticed.
		cancelled, gated = false, true
	}
	results := make([]*core.Entry, len(transitions))
	var problems []*core.Problem
	e.root.mu.Lock()
	terr := e.root.transitionErr
	missing := e.root.missingFiles
	if terr == nil {
		for i, c := range transitions {
			switch {
			case cancelled:
				// Like the real transitioner: nothing is applied any more.
				results[i] = gen.Clone(c.Old)
				problems = append(problems, &core.Problem{Path: c.Path, Error: "cancelled"})
			case e.root.outcome != nil:
				results[i] = gen.Clone(e.root.outcome(i, c))
			default:
				results[i] = gen.Clone(c.New)
			}
			if !cancelled {
				if next, ok := gen.Set(e.root.content, c.Path, results[i]); ok {
					e.root.content = next
				}
			}
		}
		if !cancelled && e.root.problems != nil {
			problems = e.root.problems(transitions)
		}
	}
	e.root.mu.Unlock()
	e.root.J.Finish(ev, func(x *Event) {
		x.Cancelled = cancelled
		if gated {
			x.Note = "gated"
		}
		x.Results = results
		if terr != nil {
			x.Err = terr.Error()
		}
	})
	if terr != nil {
		return nil, nil, false, terr
	}
	return results, problems, missing, nil
}

// Shutdown implements synchronization.Endpoint.
func (e *Endpoint) Shutdown() error {
	ev := e.begin(OpShutdown)
	e.root.J.Finish(ev, nil)
	return nil
}
