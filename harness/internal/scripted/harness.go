package scripted

import (
	"context"
	"errors"
	"fmt"
	"io"
	"os"
	"path/filepath"
	"sync"
	"sync/atomic"
	"time"

	"google.golang.org/protobuf/proto"

	"github.com/mutagen-io/mutagen/pkg/logging"
	"github.com/mutagen-io/mutagen/pkg/selection"
	"github.com/mutagen-io/mutagen/pkg/synchronization"
	"github.com/mutagen-io/mutagen/pkg/synchronization/core"
	urlpkg "github.com/mutagen-io/mutagen/pkg/url"

	"verif/internal/gen"
)

// Harness owns the REAL synchronization.Manager of this process (there can be
// only one at a time: the data directory is taken from the process-wide
// MUTAGEN_DATA_DIRECTORY) and supports restarting it on the same directory.
type Harness struct {
	World *World

	mu     sync.RWMutex // held for writing during a restart
	mgr    *synchronization.Manager
	logger *logging.Logger
}

// NewHarness creates a Manager on $MUTAGEN_DATA_DIRECTORY. log may be nil
// (logging goes nowhere).
func NewHarness(log io.Writer) (*Harness, error) {
	dir := os.Getenv("MUTAGEN_DATA_DIRECTORY")
	if dir == "" || !filepath.IsAbs(dir) {
		return nil, errors.New("scripted: MUTAGEN_DATA_DIRECTORY must be an absolute path")
	}
	if err := os.MkdirAll(dir, 0o700); err != nil {
		return nil, err
	}
	level := logging.LevelInfo
	if log == nil {
		log = io.Discard
		level = logging.LevelError
	}
	h := &Harness{World: theWorld, logger: logging.NewLogger(level, log)}
	m, err := synchronization.NewManager(h.logger.Sublogger("sync"))
	if err != nil {
		return nil, err
	}
	h.mgr = m
	return h, nil
}

// Manager returns the current manager. Callers that may run concurrently with
// Restart should bracket their use with RLock/RUnlock.
func (h *Harness) Manager() *synchronization.Manager {
	return h.mgr
}

// RLock / RUnlock bracket a command so that no restart happens during it.
func (h *Harness) RLock()   { h.mu.RLock() }
func (h *Harness) RUnlock() { h.mu.RUnlock() }

// Restart shuts the manager down and creates a new one on the same data
// directory, with no command in flight (write lock). before/after (optional)
// run inside the lock with the old / new manager.
func (h *Harness) Restart(before, after func(m *synchronization.Manager)) error {
	h.mu.Lock()
	defer h.mu.Unlock()
	if before != nil {
		before(h.mgr)
	}
	h.mgr.Shutdown()
	m, err := synchronization.NewManager(h.logger.Sublogger("sync"))
	if err != nil {
		return err
	}
	h.mgr = m
	if after != nil {
		after(m)
	}
	return nil
}

// RestartBetween shuts the manager down, runs mid (with no manager alive: the
// place to edit the persisted session files) and creates a new manager on the
// same data directory, with no command in flight.
func (h *Harness) RestartBetween(mid func()) error {
	h.mu.Lock()
	defer h.mu.Unlock()
	h.mgr.Shutdown()
	if mid != nil {
		mid()
	}
	m, err := synchronization.NewManager(h.logger.Sublogger("sync"))
	if err != nil {
		return err
	}
	h.mgr = m
	return nil
}

// SaveSession overwrites the persisted session record (only while no manager
// is using it, e.g. inside RestartBetween).
func SaveSession(s *synchronization.Session) error {
	data, err := proto.Marshal(s)
	if err != nil {
		return err
	}
	p, _ := SessionFiles(s.Identifier)
	return os.WriteFile(p, data, 0o600)
}

// Close shuts the manager down.
func (h *Harness) Close() {
	h.mu.Lock()
	h.mgr.Shutdown()
	h.mu.Unlock()
}

// LocalURL builds a synchronization URL of the local protocol.
func LocalURL(path string) *urlpkg.URL {
	return &urlpkg.URL{Kind: urlpkg.Kind_Synchronization, Protocol: urlpkg.Protocol_Local, Path: path}
}

// ByID selects one session by identifier.
func ByID(id string) *selection.Selection {
	return &selection.Selection{Specifications: []string{id}}
}

// SessionFiles returns the paths of the persisted session and archive.
func SessionFiles(id string) (session, archive string) {
	dir := os.Getenv("MUTAGEN_DATA_DIRECTORY")
	return filepath.Join(dir, "sessions", id), filepath.Join(dir, "archives", id)
}

// LoadArchive reads the persisted archive of a session from disk.
func LoadArchive(id string) (*core.Archive, error) {
	_, p := SessionFiles(id)
	data, err := os.ReadFile(p)
	if err != nil {
		return nil, err
	}
	a := &core.Archive{}
	if err := proto.Unmarshal(data, a); err != nil {
		return nil, err
	}
	return a, nil
}

// LoadSession reads the persisted session record from disk.
func LoadSession(id string) (*synchronization.Session, error) {
	p, _ := SessionFiles(id)
	data, err := os.ReadFile(p)
	if err != nil {
		return nil, err
	}
	s := &synchronization.Session{}
	if err := proto.Unmarshal(data, s); err != nil {
		return nil, err
	}
	return s, nil
}

var pairCounter atomic.Int64

// Pair is one session of the real manager over two scripted roots, driven one
// cycle at a time: polls block until Cycle kicks them.
type Pair struct {
	H    *Harness
	ID   string
	A, B *Root
	J    *Journal
	// PresetArchive renders the archive found on disk after the first cycle;
	// PresetOK tells whether it equals the requested ancestor.
	PresetArchive string
	PresetOK      bool
}

// PairOptions configures NewPair.
type PairOptions struct {
	Mode     core.SynchronizationMode
	Ancestor *core.Entry // preset by a first cycle whose snapshots are identical on both sides
	Name     string
	Labels   map[string]string
	Delay    func(op string) time.Duration
	// Configuration, if non-nil, is used instead of {SynchronizationMode: Mode}.
	Configuration *synchronization.Configuration
	// TolerateArchiveMismatch keeps the pair (PresetOK=false) when the archive
	// on disk after the completed first cycle is not the requested ancestor.
	TolerateArchiveMismatch bool
}

func endedOn(evs []Event, root string, after uint64) bool {
	// The cycle that follows `after` is over on a root once a Poll or Shutdown
	// call started there after a Scan that started after `after` returned.
	var scanEnd uint64
	for _, e := range evs {
		if e.Root != root || e.Start <= after {
			continue
		}
		if e.Op == OpScan && e.End != 0 && scanEnd == 0 {
			scanEnd = e.End
		}
		if scanEnd != 0 && (e.Op == OpPoll || e.Op == OpShutdown) && e.Start > scanEnd {
			return true
		}
		if e.Op == OpShutdown {
			return true
		}
	}
	return false
}

// NewPair creates two scripted roots holding o.Ancestor, creates a running
// session over them and waits until the first cycle has made that content the
// saved ancestor.
func (h *Harness) NewPair(ctx context.Context, o PairOptions) (*Pair, error) {
	n := pairCounter.Add(1)
	j := NewJournal()
	p := &Pair{H: h, J: j}
	p.A = h.World.NewRoot(fmt.Sprintf("/scripted/p%d/alpha", n), Options{Journal: j, Content: o.Ancestor, PreservesExecutability: true, Delay: o.Delay})
	p.B = h.World.NewRoot(fmt.Sprintf("/scripted/p%d/beta", n), Options{Journal: j, Content: o.Ancestor, PreservesExecutability: true, Delay: o.Delay})
	cfg := o.Configuration
	if cfg == nil {
		cfg = &synchronization.Configuration{SynchronizationMode: o.Mode}
	}
	mark := Seq()
	h.RLock()
	id, err := h.Manager().Create(ctx, LocalURL(p.A.Path), LocalURL(p.B.Path), cfg,
		&synchronization.Configuration{}, &synchronization.Configuration{}, o.Name, o.Labels, false, "")
	h.RUnlock()
	if err != nil {
		h.World.Remove(p.A.Path)
		h.World.Remove(p.B.Path)
		return nil, fmt.Errorf("create: %w", err)
	}
	p.ID = id
	if !p.waitCycle(ctx, mark) {
		p.Close(context.Background())
		return nil, errors.New("first cycle did not complete")
	}
	a, err := LoadArchive(id)
	if err != nil {
		p.PresetArchive = "unreadable: " + err.Error()
	} else {
		p.PresetArchive = gen.Describe(a.Content)
		p.PresetOK = p.PresetArchive == gen.Describe(o.Ancestor)
	}
	if !p.PresetOK && !o.TolerateArchiveMismatch {
		p.Close(context.Background())
		return nil, fmt.Errorf("preset ancestor differs: have %s want %s", p.PresetArchive, gen.Describe(o.Ancestor))
	}
	return p, nil
}

func (p *Pair) waitCycle(ctx context.Context, after uint64) bool {
	return p.J.WaitFor(ctx, func(evs []Event) bool {
		return endedOn(evs, p.A.Path, after) && endedOn(evs, p.B.Path, after)
	})
}

// Cycle sets the contents both endpoints will report, triggers one cycle
// through a poll event and waits until that cycle is over (the controller is
// polling again or has shut the endpoints down). It returns the journal of the
// cycle (events that started after the trigger).
func (p *Pair) Cycle(ctx context.Context, alpha, beta *core.Entry) ([]Event, bool) {
	p.A.SetContent(alpha)
	p.B.SetContent(beta)
	return p.Trigger(ctx)
}

// Trigger runs one cycle with the roots' current contents.
func (p *Pair) Trigger(ctx context.Context) ([]Event, bool) {
	mark := Seq()
	p.A.Kick()
	ok := p.waitCycle(ctx, mark)
	return p.J.Since(mark), ok
}

// Archive loads the saved archive from disk.
func (p *Pair) Archive() (*core.Archive, error) { return LoadArchive(p.ID) }

// State lists the session.
func (p *Pair) State(ctx context.Context) (*synchronization.State, error) {
	p.H.RLock()
	defer p.H.RUnlock()
	_, states, err := p.H.Manager().List(ctx, ByID(p.ID), 0)
	if err != nil {
		return nil, err
	}
	if len(states) != 1 {
		return nil, fmt.Errorf("%d states listed for one identifier", len(states))
	}
	return states[0], nil
}

// Close terminates the session and unregisters the roots.
func (p *Pair) Close(ctx context.Context) error {
	p.H.RLock()
	err := p.H.Manager().Terminate(ctx, ByID(p.ID), "")
	p.H.RUnlock()
	p.H.World.Remove(p.A.Path)
	p.H.World.Remove(p.B.Path)
	return err
}

// CycleSpec describes one real controller cycle for the L2 parts of C04/C05/C18.
type CycleSpec struct {
	Ancestor, Alpha, Beta *core.Entry
	Mode                  core.SynchronizationMode
	// Executability flags reported by the two snapshots of the cycle under test.
	AlphaPreservesExecutability, BetaPreservesExecutability bool
	// Outcome gives the result an endpoint reports for the i-th change of its
	// Transition call (nil: the ideal result, change.New).
	Outcome func(alpha bool, i int, c *core.Change) *core.Entry
	// AlphaTransitionError / BetaTransitionError make the Transition call fail.
	AlphaTransitionError, BetaTransitionError error
	// FollowUp runs one more cycle over the contents the transitions left
	// behind (or over NextAlpha/NextBeta of them) to check for a fixpoint.
	FollowUp            bool
	NextAlpha, NextBeta func(current *core.Entry) *core.Entry
	// HaltAlpha / HaltBeta select the cycle kind "halt-during-transition": the
	// Transition call of that side starts Pause(session) through the real
	// Manager (once per cycle), blocks until the synchronization loop's context
	// (the one handed to the latest Scan) is done, and only then returns its
	// scripted results with a nil error. HaltTimeout bounds that wait (default
	// 20 s); when it expires the cancellation counts as not observed. After the
	// cycle RunCycle waits for Pause to return before it reads the archive.
	// FollowUp is ignored for such cycles.
	HaltAlpha, HaltBeta bool
	HaltTimeout         time.Duration
}

// CycleResult is what RunCycle observed.
type CycleResult struct {
	Session     string
	Cycle       []Event       // journal of the cycle under test
	Archive     *core.Archive // archive loaded from disk after the cycle
	AlphaAfter  *core.Entry   // simulated endpoint contents after the cycle
	BetaAfter   *core.Entry
	State       *synchronization.State
	Next        []Event       // journal of the follow-up cycle
	NextArchive *core.Archive // archive on disk after the follow-up cycle
	NextState   *synchronization.State

	// Halt-during-transition cycles only.
	HaltStarted           bool  // a gated Transition call happened and started Pause
	GatedTransitions      int   // Transition calls that were held
	CancellationsObserved int   // ... of which saw the loop's context done before returning
	PauseErr              error // what Pause returned
}

// RunCycle presets the ancestor (first cycle with identical snapshots), runs
// exactly one real controller cycle over (Alpha, Beta) with scripted transition
// outcomes, and returns the journal and the archive as saved on disk.
func (h *Harness) RunCycle(ctx context.Context, s CycleSpec) (*CycleResult, error) {
	p, err := h.NewPair(ctx, PairOptions{Mode: s.Mode, Ancestor: s.Ancestor})
	if err != nil {
		return nil, err
	}
	defer p.Close(context.Background())
	res := &CycleResult{Session: p.ID}
	p.A.SetPreservesExecutability(s.AlphaPreservesExecutability)
	p.B.SetPreservesExecutability(s.BetaPreservesExecutability)
	if s.Outcome != nil {
		p.A.SetOutcome(func(i int, c *core.Change) *core.Entry { return s.Outcome(true, i, c) })
		p.B.SetOutcome(func(i int, c *core.Change) *core.Entry { return s.Outcome(false, i, c) })
	}
	p.A.SetTransitionError(s.AlphaTransitionError)
	p.B.SetTransitionError(s.BetaTransitionError)
	var haltMu sync.Mutex
	var pauseOnce sync.Once
	pauseDone := make(chan struct{})
	if s.HaltAlpha || s.HaltBeta {
		timeout := s.HaltTimeout
		if timeout <= 0 {
			timeout = 20 * time.Second
		}
		gate := func(scanCtx context.Context) {
			haltMu.Lock()
			res.HaltStarted = true
			res.GatedTransitions++
			haltMu.Unlock()
			pauseOnce.Do(func() {
				go func() {
					defer close(pauseDone)
					h.RLock()
					perr := h.Manager().Pause(context.Background(), ByID(p.ID), "")
					h.RUnlock()
					haltMu.Lock()
					res.PauseErr = perr
					haltMu.Unlock()
				}()
			})
			t := time.NewTimer(timeout)
			defer t.Stop()
			select {
			case <-scanCtx.Done():
				haltMu.Lock()
				res.CancellationsObserved++
				haltMu.Unlock()
			case <-t.C:
			}
		}
		if s.HaltAlpha {
			p.A.SetTransitionGate(gate)
		}
		if s.HaltBeta {
			p.B.SetTransitionGate(gate)
		}
	}
	var ok bool
	if res.Cycle, ok = p.Cycle(ctx, s.Alpha, s.Beta); !ok {
		return res, errors.New("cycle under test did not complete")
	}
	haltMu.Lock()
	halted := res.HaltStarted
	haltMu.Unlock()
	if halted {
		// The archive is read only after Pause has returned.
		select {
		case <-pauseDone:
		case <-ctx.Done():
			return res, errors.New("pause did not return")
		}
	}
	p.A.SetTransitionGate(nil)
	p.B.SetTransitionGate(nil)
	if res.Archive, err = p.Archive(); err != nil {
		return res, err
	}
	res.AlphaAfter, res.BetaAfter = p.A.Content(), p.B.Content()
	res.State, _ = p.State(ctx)
	if !s.FollowUp || halted {
		return res, nil
	}
	p.A.SetOutcome(nil)
	p.B.SetOutcome(nil)
	p.A.SetTransitionError(nil)
	p.B.SetTransitionError(nil)
	na, nb := res.AlphaAfter, res.BetaAfter
	if s.NextAlpha != nil {
		na = s.NextAlpha(na)
	}
	if s.NextBeta != nil {
		nb = s.NextBeta(nb)
	}
	if res.Next, ok = p.Cycle(ctx, na, nb); !ok {
		return res, errors.New("follow-up cycle did not complete")
	}
	if res.NextArchive, err = p.Archive(); err != nil {
		return res, err
	}
	res.NextState, _ = p.State(ctx)
	return res, nil
}
