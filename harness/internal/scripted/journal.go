// Package scripted is instrument I1 of DESIGN.md: scripted, journaling
// implementations of synchronization.Endpoint that are registered by replacing
// the handler of url.Protocol_Local in synchronization.ProtocolHandlers, plus a
// thin harness around the REAL synchronization.Manager (create / restart /
// archive access / single-cycle driver). Nothing here judges anything; the
// monitors decide over the journal.
package scripted

import (
	"context"
	"sync"
	"sync/atomic"
	"time"

	"github.com/mutagen-io/mutagen/pkg/synchronization/core"
)

// One logical clock and one monotonic time base for every journal of the
// process, so that events of different journals are comparable.
var (
	seqCounter atomic.Uint64
	timeBase   = time.Now()
)

// Seq takes a point of the process-wide logical clock. If Seq() returned s1
// before an action began and an event carries Start > s1, the event began after
// that point; the counter is a single atomic, hence consistent with
// happens-before.
func Seq() uint64 { return seqCounter.Add(1) }

// Now is the monotonic time since process start.
func Now() time.Duration { return time.Since(timeBase) }

// Operation names used in Event.Op.
const (
	OpConnect    = "Connect"
	OpPoll       = "Poll"
	OpScan       = "Scan"
	OpStage      = "Stage"
	OpSupply     = "Supply"
	OpTransition = "Transition"
	OpShutdown   = "Shutdown"
)

// Event is one journaled call: an endpoint call (Op is one of the Op*
// constants) or a harness-level command (Op prefixed "cmd."). Start/End are
// points of the logical clock taken immediately after entry and immediately
// before return; End == 0 means the call had not returned when the journal was
// read.
type Event struct {
	Op       string        `json:"op"`
	Session  string        `json:"session,omitempty"`
	Root     string        `json:"root,omitempty"`
	Alpha    bool          `json:"alpha,omitempty"`
	Instance int           `json:"instance,omitempty"` // endpoint instance (one per Connect), unique per process
	Cycle    int           `json:"cycle,omitempty"`    // number of Scan calls on the instance up to and including this call
	Start    uint64        `json:"start"`
	End      uint64        `json:"end"`
	T0       time.Duration `json:"t0_ns"`
	T1       time.Duration `json:"t1_ns"`

	Full        bool           `json:"full,omitempty"`         // Scan: full flag
	AncestorNil bool           `json:"ancestor_nil,omitempty"` // Scan: ancestor argument was nil
	Ancestor    string         `json:"ancestor,omitempty"`     // Scan: rendering of the ancestor argument
	Changes     []*core.Change `json:"-"`                      // Transition: the transitions as passed
	ChangeDesc  []string       `json:"changes,omitempty"`      // Transition: rendering of Changes
	Results     []*core.Entry  `json:"-"`                      // Transition: results returned
	Paths       []string       `json:"paths,omitempty"`        // Stage / Supply: paths
	Cancelled   bool           `json:"cancelled,omitempty"`    // the call observed context cancellation
	Err         string         `json:"err,omitempty"`
	Note        string         `json:"note,omitempty"`
}

// Done reports whether the call had returned.
func (e *Event) Done() bool { return e.End != 0 }

// Journal is an append-only list of events with change notification.
type Journal struct {
	mu      sync.Mutex
	events  []*Event
	changed chan struct{}
}

// NewJournal returns an empty journal.
func NewJournal() *Journal { return &Journal{changed: make(chan struct{})} }

func (j *Journal) notifyLocked() {
	close(j.changed)
	j.changed = make(chan struct{})
}

// Begin appends e (Start/T0 are set here) and returns a handle for Finish.
func (j *Journal) Begin(e Event) *Event {
	ev := &e
	j.mu.Lock()
	ev.Start = Seq()
	ev.T0 = Now()
	j.events = append(j.events, ev)
	j.notifyLocked()
	j.mu.Unlock()
	return ev
}

// Finish marks the call as returned; f (optional) may fill result fields.
func (j *Journal) Finish(ev *Event, f func(*Event)) {
	j.mu.Lock()
	if f != nil {
		f(ev)
	}
	ev.T1 = Now()
	ev.End = Seq()
	j.notifyLocked()
	j.mu.Unlock()
}

// Snapshot returns copies of all events (in order of Start).
func (j *Journal) Snapshot() []Event {
	j.mu.Lock()
	out := make([]Event, len(j.events))
	for i, e := range j.events {
		out[i] = *e
	}
	j.mu.Unlock()
	return out
}

// Since returns copies of the events whose Start is greater than mark.
func (j *Journal) Since(mark uint64) []Event {
	all := j.Snapshot()
	i := 0
	for i < len(all) && all[i].Start <= mark {
		i++
	}
	return all[i:]
}

// WaitFor blocks until pred holds on a snapshot or ctx ends.
func (j *Journal) WaitFor(ctx context.Context, pred func([]Event) bool) bool {
	for {
		j.mu.Lock()
		ch := j.changed
		snap := make([]Event, len(j.events))
		for i, e := range j.events {
			snap[i] = *e
		}
		j.mu.Unlock()
		if pred(snap) {
			return true
		}
		select {
		case <-ch:
		case <-ctx.Done():
			return false
		}
	}
}

// Heartbeat is the control of DESIGN.md §1: a goroutine that ticks with a fixed
// period next to the code under test. Quiet periods are measured in its ticks,
// and its largest gap tells whether the scheduler was healthy.
type Heartbeat struct {
	period time.Duration
	ticks  atomic.Int64
	maxGap atomic.Int64
	stop   chan struct{}
	done   chan struct{}
}

// StartHeartbeat starts a heartbeat with the given period.
func StartHeartbeat(period time.Duration) *Heartbeat {
	h := &Heartbeat{period: period, stop: make(chan struct{}), done: make(chan struct{})}
	go func() {
		defer close(h.done)
		last := time.Now()
		t := time.NewTicker(period)
		defer t.Stop()
		for {
			select {
			case <-h.stop:
				return
			case <-t.C:
				now := time.Now()
				if g := int64(now.Sub(last)); g > h.maxGap.Load() {
					h.maxGap.Store(g)
				}
				last = now
				h.ticks.Add(1)
			}
		}
	}()
	return h
}

// Ticks returns the number of ticks so far.
func (h *Heartbeat) Ticks() int64 { return h.ticks.Load() }

// MaxGap returns the largest observed distance between two ticks.
func (h *Heartbeat) MaxGap() time.Duration { return time.Duration(h.maxGap.Load()) }

// Healthy reports whether no gap reached one second.
func (h *Heartbeat) Healthy() bool { return h.MaxGap() < time.Second }

// WaitTicks blocks until the heartbeat advanced by n ticks (or ctx ends).
func (h *Heartbeat) WaitTicks(ctx context.Context, n int64) bool {
	target := h.Ticks() + n
	for h.Ticks() < target {
		select {
		case <-ctx.Done():
			return false
		case <-time.After(h.period):
		}
	}
	return true
}

// Stop ends the heartbeat.
func (h *Heartbeat) Stop() { close(h.stop); <-h.done }
