// Package laws holds the reconciliation oracles of C01–C06: deterministic
// checks over one real plan (the output of core.Reconcile) and its inputs.
// Nothing here reimplements reconciliation; the oracles are statements about
// inputs and outputs only.
package laws

import (
	"fmt"
	"sort"
	"strings"

	"github.com/mutagen-io/mutagen/pkg/synchronization/core"

	"verif/internal/gen"
)

// Mode aliases.
const (
	TwoWaySafe     = core.SynchronizationMode_SynchronizationModeTwoWaySafe
	TwoWayResolved = core.SynchronizationMode_SynchronizationModeTwoWayResolved
	OneWaySafe     = core.SynchronizationMode_SynchronizationModeOneWaySafe
	OneWayReplica  = core.SynchronizationMode_SynchronizationModeOneWayReplica
)

var Modes = []core.SynchronizationMode{TwoWaySafe, TwoWayResolved, OneWaySafe, OneWayReplica}

// Plan is one real reconciliation result with its inputs (post-reification,
// post-executability-propagation, i.e. exactly what Reconcile was given).
type Plan struct {
	Mode                 core.SynchronizationMode
	A, Alpha, Beta       *core.Entry
	Anc, AlphaCh, BetaCh []*core.Change
	Conflicts            []*core.Conflict
}

// Compute runs the real reconciliation.
func Compute(a, alpha, beta *core.Entry, mode core.SynchronizationMode) *Plan {
	anc, ac, bc, cf := core.Reconcile(a, alpha, beta, mode)
	return &Plan{Mode: mode, A: a, Alpha: alpha, Beta: beta, Anc: anc, AlphaCh: ac, BetaCh: bc, Conflicts: cf}
}

// Failure is one oracle failure.
type Failure struct {
	Prop string
	Rule string
	Path string
	Msg  string
}

func (f Failure) String() string {
	return fmt.Sprintf("%s/%s at %q: %s", f.Prop, f.Rule, f.Path, f.Msg)
}

func isDirKind(e *core.Entry) bool {
	return e != nil && (e.Kind == core.EntryKind_Directory || e.Kind == core.EntryKind_PhantomDirectory)
}

func unsync(e *core.Entry) bool {
	return e != nil && (e.Kind == core.EntryKind_Untracked || e.Kind == core.EntryKind_Problematic || e.Kind == core.EntryKind_PhantomDirectory)
}

func nilOrUntracked(e *core.Entry) bool {
	return e == nil || e.Kind == core.EntryKind_Untracked
}

// shallowEq is an independent shallow comparison (kind, digest, executable
// bit, target, problem).
func shallowEq(a, b *core.Entry) bool {
	if a == nil || b == nil {
		return a == nil && b == nil
	}
	return a.Kind == b.Kind && a.Executable == b.Executable && string(a.Digest) == string(b.Digest) &&
		a.Target == b.Target && a.Problem == b.Problem
}

// DeepEq is an independent deep comparison.
func DeepEq(a, b *core.Entry) bool {
	if !shallowEq(a, b) {
		return false
	}
	if a == nil {
		return true
	}
	if len(a.Contents) != len(b.Contents) {
		return false
	}
	for n, c := range a.Contents {
		d, ok := b.Contents[n]
		if !ok || !DeepEq(c, d) {
			return false
		}
	}
	return true
}

// Sync is the independent reference of the synchronizable filter: drop
// untracked, problematic and phantom sub-trees.
func Sync(e *core.Entry) *core.Entry {
	if e == nil || unsync(e) {
		return nil
	}
	out := &core.Entry{Kind: e.Kind, Executable: e.Executable, Digest: e.Digest, Target: e.Target}
	if e.Kind == core.EntryKind_Directory && len(e.Contents) > 0 {
		out.Contents = map[string]*core.Entry{}
		for n, c := range e.Contents {
			if s := Sync(c); s != nil {
				out.Contents[n] = s
			}
		}
	}
	return out
}

func join(p, n string) string {
	if p == "" {
		return n
	}
	return p + "/" + n
}

func hasUnsyncBelow(e *core.Entry) bool {
	if e == nil {
		return false
	}
	if unsync(e) {
		return true
	}
	for _, c := range e.Contents {
		if hasUnsyncBelow(c) {
			return true
		}
	}
	return false
}

// FirstDisagreements walks alpha and beta together and returns the paths at
// which they first stop being shallow-equal.
func FirstDisagreements(alpha, beta *core.Entry) []string {
	var out []string
	var walk func(p string, a, b *core.Entry)
	walk = func(p string, a, b *core.Entry) {
		if !shallowEq(a, b) {
			out = append(out, p)
			return
		}
		if a == nil {
			return
		}
		names := map[string]bool{}
		for n := range a.Contents {
			names[n] = true
		}
		for n := range b.Contents {
			names[n] = true
		}
		for n := range names {
			walk(join(p, n), a.Contents[n], b.Contents[n])
		}
	}
	walk("", alpha, beta)
	sort.Strings(out)
	return out
}

func related(p, q string) bool { // equal or prefix relation in path terms
	if p == q || p == "" || q == "" {
		return true
	}
	return strings.HasPrefix(q, p+"/") || strings.HasPrefix(p, q+"/")
}

func atOrBelow(q, p string) bool { // q at or below p
	return p == "" || q == p || strings.HasPrefix(q, p+"/")
}

// lost computes Lost(X, c): paths q at or below c.Path where x[q] exists and
// c.New has no shallow-equal entry at q.
func lost(x *core.Entry, c *core.Change) []string {
	var out []string
	var walk func(q string, cur, nw *core.Entry)
	walk = func(q string, cur, nw *core.Entry) {
		if cur == nil {
			return
		}
		if !shallowEq(cur, nw) {
			out = append(out, q)
		}
		for n, ch := range cur.Contents {
			walk(join(q, n), ch, nw.GetContents()[n])
		}
	}
	walk(c.Path, gen.At(x, c.Path), c.New)
	return out
}

func nonDeletion(cs []*core.Change) bool {
	for _, c := range cs {
		if c.New != nil {
			return true
		}
	}
	return false
}

// protectLost checks the lost-content rule for the changes planned for one
// endpoint: everything a faithful transition removes or replaces must equal
// the last-synchronized state.
func protectLost(prop, side string, a, x *core.Entry, changes []*core.Change) []Failure {
	var fs []Failure
	for _, c := range changes {
		for _, q := range lost(x, c) {
			cur := gen.At(x, q)
			anc := gen.At(a, q)
			if anc == nil || !shallowEq(anc, cur) {
				fs = append(fs, Failure{prop, "lost-modified-" + side, q,
					fmt.Sprintf("change at %q on %s removes/replaces %s which differs from the last-synchronized %s",
						c.Path, side, gen.Describe(cur), gen.Describe(anc))})
			}
		}
	}
	return fs
}

func relAt(e *core.Entry, p string) *core.Entry { return gen.At(e, p) }

// Check evaluates the laws of C01, C02, C03, C06 on one plan. It returns the
// failures and whether the plan is non-trivial (has any action).
func Check(p *Plan) []Failure {
	var fs []Failure
	oneWay := p.Mode == OneWaySafe || p.Mode == OneWayReplica

	// ---- C02: direction.
	if oneWay && len(p.AlphaCh) > 0 {
		fs = append(fs, Failure{"C02", "alpha-change-in-one-way", p.AlphaCh[0].Path, "one-way plan contains a change for alpha"})
	}
	// ---- C01 / C02: lost-content rule per mode.
	switch p.Mode {
	case TwoWaySafe:
		fs = append(fs, protectLost("C01", "alpha", p.A, p.Alpha, p.AlphaCh)...)
		fs = append(fs, protectLost("C01", "beta", p.A, p.Beta, p.BetaCh)...)
	case OneWaySafe:
		fs = append(fs, protectLost("C02", "beta", p.A, p.Beta, p.BetaCh)...)
	case TwoWayResolved:
		fs = append(fs, protectLost("C02", "alpha", p.A, p.Alpha, p.AlphaCh)...)
	}

	// ---- C03: nothing unsynchronizable at or below a change on its endpoint.
	for _, c := range p.AlphaCh {
		if hasUnsyncBelow(gen.At(p.Alpha, c.Path)) {
			fs = append(fs, Failure{"C03", "unsync-under-change-alpha", c.Path, "alpha holds untracked/problematic/phantom content at or below a planned change: " + gen.Describe(gen.At(p.Alpha, c.Path))})
		}
	}
	for _, c := range p.BetaCh {
		if hasUnsyncBelow(gen.At(p.Beta, c.Path)) {
			fs = append(fs, Failure{"C03", "unsync-under-change-beta", c.Path, "beta holds untracked/problematic/phantom content at or below a planned change: " + gen.Describe(gen.At(p.Beta, c.Path))})
		}
	}
	// Changes must themselves carry only synchronizable content.
	for _, c := range append(append([]*core.Change{}, p.AlphaCh...), p.BetaCh...) {
		if err := c.EnsureValid(true); err != nil {
			fs = append(fs, Failure{"C03", "change-not-synchronizable", c.Path, err.Error()})
		}
	}

	// ---- action sets.
	alphaAt := map[string]int{}
	betaAt := map[string]int{}
	confAt := map[string]int{}
	var actions []string
	for _, c := range p.AlphaCh {
		alphaAt[c.Path]++
		actions = append(actions, c.Path)
	}
	for _, c := range p.BetaCh {
		betaAt[c.Path]++
		actions = append(actions, c.Path)
	}
	for _, c := range p.Conflicts {
		confAt[c.Root]++
		actions = append(actions, c.Root)
	}

	// ---- C06: at most one action per path, none in prefix relation.
	sort.Strings(actions)
	for i := 0; i < len(actions); i++ {
		for j := i + 1; j < len(actions); j++ {
			if related(actions[i], actions[j]) {
				fs = append(fs, Failure{"C06", "overlapping-actions", actions[i], fmt.Sprintf("actions at %q and %q overlap", actions[i], actions[j])})
			}
		}
	}
	fd := FirstDisagreements(p.Alpha, p.Beta)
	fdSet := map[string]bool{}
	for _, q := range fd {
		fdSet[q] = true
	}
	for _, c := range p.Conflicts {
		if err := c.EnsureValid(); err != nil {
			fs = append(fs, Failure{"C06", "conflict-invalid", c.Root, err.Error()})
		}
		if len(c.AlphaChanges) == 0 || len(c.BetaChanges) == 0 {
			fs = append(fs, Failure{"C06", "conflict-one-sided", c.Root, "conflict lacks changes on one endpoint"})
		}
		for _, ch := range append(append([]*core.Change{}, c.AlphaChanges...), c.BetaChanges...) {
			if !atOrBelow(ch.Path, c.Root) {
				fs = append(fs, Failure{"C06", "conflict-change-outside-root", c.Root, fmt.Sprintf("inner change at %q is not at or below the root", ch.Path)})
			}
		}
		// The reported (slim) form of the conflict, as listed to clients, must
		// keep the root, stay valid and name the same change paths on each side.
		if sl := c.Slim(); sl == nil || sl.Root != c.Root || sl.EnsureValid() != nil ||
			len(sl.AlphaChanges) != len(c.AlphaChanges) || len(sl.BetaChanges) != len(c.BetaChanges) {
			fs = append(fs, Failure{"C06", "conflict-slim-form-malformed", c.Root, "the slim (reported) form of the conflict is invalid or drops changes"})
		} else {
			for i := range c.AlphaChanges {
				if sl.AlphaChanges[i].Path != c.AlphaChanges[i].Path {
					fs = append(fs, Failure{"C06", "conflict-slim-form-malformed", c.Root, "the slim form renames an alpha change path"})
				}
			}
			for i := range c.BetaChanges {
				if sl.BetaChanges[i].Path != c.BetaChanges[i].Path {
					fs = append(fs, Failure{"C06", "conflict-slim-form-malformed", c.Root, "the slim form renames a beta change path"})
				}
			}
		}
		if !fdSet[c.Root] {
			fs = append(fs, Failure{"C06", "conflict-root-not-at-disagreement", c.Root, "conflict is not rooted at a path where the endpoints first disagree"})
		}
	}
	for _, q := range actions {
		if !fdSet[q] {
			fs = append(fs, Failure{"C03", "action-not-at-disagreement", q, "an action is planned at a path that is not a first-disagreement path"})
		}
	}

	// ---- C03 totality / C01 conflict presence at each first-disagreement path.
	for _, q := range fd {
		a, b := gen.At(p.Alpha, q), gen.At(p.Beta, q)
		n := alphaAt[q] + betaAt[q] + confAt[q]
		eitherProblematic := (a != nil && a.Kind == core.EntryKind_Problematic) || (b != nil && b.Kind == core.EntryKind_Problematic)
		if eitherProblematic || (nilOrUntracked(a) && nilOrUntracked(b)) {
			for _, act := range actions {
				if atOrBelow(act, q) {
					fs = append(fs, Failure{"C03", "action-at-untouchable-path", q, fmt.Sprintf("path is problematic on a side or nil/untracked on both, but an action is planned at %q", act)})
				}
			}
			continue
		}
		switch p.Mode {
		case TwoWaySafe, TwoWayResolved:
			if n != 1 {
				fs = append(fs, Failure{"C03", "totality-two-way", q, fmt.Sprintf("expected exactly one of alpha change / beta change / conflict, found %d", n)})
			}
		case OneWayReplica:
			if betaAt[q]+confAt[q] != 1 || alphaAt[q] != 0 {
				fs = append(fs, Failure{"C03", "totality-replica", q, fmt.Sprintf("expected exactly one of beta change / conflict, found beta=%d conflict=%d alpha=%d", betaAt[q], confAt[q], alphaAt[q])})
			}
		case OneWaySafe:
			if n == 0 {
				if !nilOrUntracked(a) {
					fs = append(fs, Failure{"C03", "totality-one-way-safe", q, "nothing planned or reported although alpha holds synchronizable content that beta lacks or differs from"})
				}
			} else if betaAt[q]+confAt[q] != 1 || alphaAt[q] != 0 {
				fs = append(fs, Failure{"C03", "totality-one-way-safe", q, fmt.Sprintf("beta=%d conflict=%d alpha=%d", betaAt[q], confAt[q], alphaAt[q])})
			}
		}
		if p.Mode == TwoWaySafe {
			ad := core.Diff(gen.At(p.A, q), Sync(a))
			bd := core.Diff(gen.At(p.A, q), Sync(b))
			if nonDeletion(ad) && nonDeletion(bd) {
				if confAt[q] != 1 || alphaAt[q]+betaAt[q] != 0 {
					fs = append(fs, Failure{"C01", "both-modified-without-conflict", q, "both endpoints created or modified content here, but no conflict is rooted here (or a change is planned as well)"})
				}
			}
		}
	}
	return fs
}

// IdealApply returns alpha', beta' and the new ancestor after every planned
// change was applied exactly (controller order for the ancestor).
func IdealApply(p *Plan) (alpha2, beta2, a2 *core.Entry, err error) {
	alpha2, beta2 = p.Alpha, p.Beta
	for _, c := range p.AlphaCh {
		next, ok := gen.Set(alpha2, c.Path, c.New)
		if !ok {
			return nil, nil, nil, fmt.Errorf("alpha change at %q has no parent directory on alpha", c.Path)
		}
		alpha2 = next
	}
	for _, c := range p.BetaCh {
		next, ok := gen.Set(beta2, c.Path, c.New)
		if !ok {
			return nil, nil, nil, fmt.Errorf("beta change at %q has no parent directory on beta", c.Path)
		}
		beta2 = next
	}
	all := append([]*core.Change{}, p.Anc...)
	for _, c := range p.AlphaCh {
		all = append(all, &core.Change{Path: c.Path, New: c.New})
	}
	for _, c := range p.BetaCh {
		all = append(all, &core.Change{Path: c.Path, New: c.New})
	}
	a2, err = core.Apply(p.A, all)
	return
}

// CheckFixpoint evaluates C04 on one plan.
func CheckFixpoint(p *Plan) []Failure {
	var fs []Failure
	alpha2, beta2, a2, err := IdealApply(p)
	if err != nil {
		return []Failure{{"C04", "ideal-apply-failed", "", err.Error()}}
	}
	if err := a2.EnsureValid(true); err != nil {
		fs = append(fs, Failure{"C05", "ancestor-invalid-after-ideal-apply", "", err.Error()})
		return fs
	}
	anc, ac, bc, cf := core.Reconcile(a2, alpha2, beta2, p.Mode)
	if len(anc)+len(ac)+len(bc) > 0 {
		path := ""
		if len(ac) > 0 {
			path = ac[0].Path
		} else if len(bc) > 0 {
			path = bc[0].Path
		} else {
			path = anc[0].Path
		}
		fs = append(fs, Failure{"C04", "not-a-fixpoint", path, fmt.Sprintf("second reconciliation plans ancestor=%v alpha=%v beta=%v",
			gen.DescribeChanges(anc), gen.DescribeChanges(ac), gen.DescribeChanges(bc))})
	}
	if p.Mode == TwoWaySafe || p.Mode == TwoWayResolved {
		roots := []string{}
		for _, c := range cf {
			roots = append(roots, c.Root)
		}
		var walk func(q string, a, b, fa, fb *core.Entry)
		walk = func(q string, a, b, fa, fb *core.Entry) {
			// fa/fb: the unfiltered entries at q (nil when below filtered content).
			if unsyncHere(fa) || unsyncHere(fb) {
				return
			}
			if !shallowEq(a, b) {
				covered := false
				for _, r := range roots {
					if atOrBelow(q, r) {
						covered = true
					}
				}
				if !covered {
					fs = append(fs, Failure{"C04", "not-converged", q, fmt.Sprintf("after an ideal two-way cycle alpha holds %s and beta holds %s with no conflict covering the path", gen.Describe(a), gen.Describe(b))})
				}
				return
			}
			if a == nil {
				return
			}
			names := map[string]bool{}
			for n := range fa.GetContents() {
				names[n] = true
			}
			for n := range fb.GetContents() {
				names[n] = true
			}
			for n := range names {
				walk(join(q, n), a.GetContents()[n], b.GetContents()[n], fa.GetContents()[n], fb.GetContents()[n])
			}
		}
		walk("", Sync(alpha2), Sync(beta2), alpha2, beta2)
	}
	return fs
}

func unsyncHere(e *core.Entry) bool { return unsync(e) }
