// Package ignorex is the private library of the monitor group "ignore"
// (properties C14 and C15): reference models for Mutagen-style and
// Docker-style ignores, pattern and tree generators, and the inotify access
// sensor. It imports no mutagen ignore package: everything here is written
// from the documented semantics (C14) or from the frozen upstream matcher in
// ./patternmatcher (C15).
package ignorex

import (
	"strings"
	"unicode/utf8"

	"github.com/bmatcuk/doublestar/v4"
)

// ---------------------------------------------------------------------------
// Single-pattern glob matching for the unambiguous sub-grammar.
//
// Grammar of one path segment: literal characters, '*' (any run of characters,
// possibly empty), '?' (exactly one character), '[' ['^'|'!'] items ']' where
// an item is a character or a range lo-hi. Characters are Unicode code points.
// A segment never contains '/', so none of these can match a separator.

// MatchSegment reports whether the single-segment glob pat matches name.
func MatchSegment(pat, name string) bool {
	return matchRunes([]rune(pat), []rune(name))
}

func matchRunes(p, s []rune) bool {
	for len(p) > 0 {
		switch p[0] {
		case '*':
			// collapse runs of stars
			for len(p) > 0 && p[0] == '*' {
				p = p[1:]
			}
			if len(p) == 0 {
				return true
			}
			for i := 0; i <= len(s); i++ {
				if matchRunes(p, s[i:]) {
					return true
				}
			}
			return false
		case '?':
			if len(s) == 0 {
				return false
			}
			p, s = p[1:], s[1:]
		case '[':
			end := -1
			for i := 1; i < len(p); i++ {
				if p[i] == ']' && i > 1 {
					end = i
					break
				}
			}
			if end < 0 || len(s) == 0 {
				return false
			}
			body := p[1:end]
			neg := false
			if len(body) > 0 && (body[0] == '^' || body[0] == '!') {
				neg = true
				body = body[1:]
			}
			in := false
			for i := 0; i < len(body); i++ {
				if i+2 < len(body) && body[i+1] == '-' {
					if body[i] <= s[0] && s[0] <= body[i+2] {
						in = true
					}
					i += 2
				} else if body[i] == s[0] {
					in = true
				}
			}
			if in == neg {
				return false
			}
			p, s = p[end+1:], s[1:]
		default:
			if len(s) == 0 || p[0] != s[0] {
				return false
			}
			p, s = p[1:], s[1:]
		}
	}
	return len(s) == 0
}

// MatchSegments matches a slash-split pattern against a slash-split path. A
// pattern segment "**" stands for zero or more whole path segments; every
// other segment must match exactly one path segment. (Only used as the
// verdict for patterns WITHOUT "**"; for "**" patterns it is an informational
// cross-check of doublestar.)
func MatchSegments(pat, path []string) bool {
	if len(pat) == 0 {
		return len(path) == 0
	}
	if pat[0] == "**" {
		for i := 0; i <= len(path); i++ {
			if MatchSegments(pat[1:], path[i:]) {
				return true
			}
		}
		return false
	}
	if len(path) == 0 {
		return false
	}
	return MatchSegment(pat[0], path[0]) && MatchSegments(pat[1:], path[1:])
}

// matchWholeNegSlash matches a "**"-free pattern against a whole slash path
// the way the segment matcher does ('*' and '?' never match '/', a positive
// class never matches '/') with ONE deliberate deviation: a NEGATED character
// class may match the '/' separator. It is not part of the reference; it
// models one specific, separately reported defect (see MRef.NegClassSlash).
func matchWholeNegSlash(p, s []rune) bool {
	for len(p) > 0 {
		switch p[0] {
		case '*':
			for len(p) > 0 && p[0] == '*' {
				p = p[1:]
			}
			for i := 0; ; i++ {
				if matchWholeNegSlash(p, s[i:]) {
					return true
				}
				if i >= len(s) || s[i] == '/' {
					return false
				}
			}
		case '?':
			if len(s) == 0 || s[0] == '/' {
				return false
			}
			p, s = p[1:], s[1:]
		case '[':
			end := -1
			for i := 1; i < len(p); i++ {
				if p[i] == ']' && i > 1 {
					end = i
					break
				}
			}
			if end < 0 || len(s) == 0 {
				return false
			}
			body := p[1:end]
			neg := false
			if len(body) > 0 && (body[0] == '^' || body[0] == '!') {
				neg = true
				body = body[1:]
			}
			in := false
			for i := 0; i < len(body); i++ {
				if i+2 < len(body) && body[i+1] == '-' {
					if body[i] <= s[0] && s[0] <= body[i+2] {
						in = true
					}
					i += 2
				} else if body[i] == s[0] {
					in = true
				}
			}
			if in == neg {
				return false
			}
			p, s = p[end+1:], s[1:]
		default:
			if len(s) == 0 || p[0] != s[0] {
				return false
			}
			p, s = p[1:], s[1:]
		}
	}
	return len(s) == 0
}

// ---------------------------------------------------------------------------
// Reference for Mutagen-style ignores, written from the documented semantics:
//
//   - a leading '!' negates the pattern;
//   - a trailing '/' restricts the pattern to directories;
//   - a leading '/' or a '/' inside the pattern anchors it at the root: the
//     whole root-relative path must match;
//   - a pattern with no slash (after removing those markers) is matched
//     against the final component of the path, at any depth;
//   - "**" as a whole segment spans directory levels;
//   - a path is ignored exactly when the LAST pattern matching it is not
//     negated.

// MPattern is one parsed Mutagen-style pattern (reference side).
type MPattern struct {
	Raw        string
	Neg        bool
	DirOnly    bool
	Anchored   bool
	Body       string   // pattern without '!', leading '/', trailing '/'
	Segs       []string // Body split on '/'
	DoubleStar bool     // some segment is "**"
}

// ParseMutagen parses a pattern of the restricted grammar.
func ParseMutagen(raw string) MPattern {
	p := MPattern{Raw: raw}
	s := raw
	if strings.HasPrefix(s, "!") {
		p.Neg = true
		s = s[1:]
	}
	if strings.HasSuffix(s, "/") {
		p.DirOnly = true
		s = s[:len(s)-1]
	}
	if strings.HasPrefix(s, "/") {
		p.Anchored = true
		s = s[1:]
	}
	if strings.Contains(s, "/") {
		p.Anchored = true
	}
	p.Body = s
	p.Segs = strings.Split(s, "/")
	for _, g := range p.Segs {
		if g == "**" {
			p.DoubleStar = true
		}
	}
	return p
}

func lastComponent(path string) string {
	if i := strings.LastIndexByte(path, '/'); i >= 0 {
		return path[i+1:]
	}
	return path
}

// Matches reports whether the pattern matches the path. ownAgrees is only
// meaningful for "**" patterns: whether the independent segment matcher
// (with "**" = zero or more segments) gives the same answer as doublestar.
func (p MPattern) Matches(path string, dir bool) (match bool, ownAgrees bool) {
	return p.matches(path, dir, false)
}

// matches implements Matches. With negSlash (classifier only, see
// MRef.NegClassSlash) a "**"-free pattern is matched as a whole-string glob in
// which a negated class may consume '/'; a slash-less pattern is, as
// documented, tried on the whole path as well as on the final component.
func (p MPattern) matches(path string, dir bool, negSlash bool) (match bool, ownAgrees bool) {
	if p.DirOnly && !dir {
		return false, true
	}
	var own bool
	target := path
	if p.Anchored {
		own = MatchSegments(p.Segs, strings.Split(path, "/"))
	} else {
		target = lastComponent(path)
		// An un-anchored pattern is a single segment; "**" alone matches any name.
		own = p.Body == "**" || MatchSegment(p.Body, target)
	}
	if !p.DoubleStar {
		if negSlash {
			m := matchWholeNegSlash([]rune(p.Body), []rune(path))
			if !m && !p.Anchored {
				m = matchWholeNegSlash([]rune(p.Body), []rune(target))
			}
			return m, true
		}
		return own, true
	}
	ds, err := doublestar.Match(p.Body, target)
	if err != nil {
		return false, false
	}
	return ds, ds == own
}

// MRef is a reference ignorer for a pattern list.
type MRef struct {
	Patterns  []MPattern
	IgnoreVCS bool
	// NegClassSlash switches the harness's own single-pattern matcher to a
	// variant in which a NEGATED character class ([!..] or [^..]) may match
	// the '/' separator — and changes nothing else. It is NOT the reference:
	// it is the classifier for one specific, already reported defect (the
	// glob library used by the code under test behaves that way), so that this
	// defect gets its own signature: a disagreement carries that signature
	// only if the list holds a negated class AND the disagreement disappears
	// under this switch.
	NegClassSlash bool
}

// NewMRef parses the list.
func NewMRef(patterns []string, vcs bool) *MRef {
	m := &MRef{IgnoreVCS: vcs}
	for _, raw := range patterns {
		m.Patterns = append(m.Patterns, ParseMutagen(raw))
	}
	return m
}

// VCSNames are the version-control directory names.
var VCSNames = []string{".git", ".svn", ".hg", ".bzr", "_darcs"}

// Verdict is the reference's answer for one (path, directory) pair.
type Verdict struct {
	Ignored  bool
	Deciding int  // index of the last matching pattern, -1 if none, -2 = VCS rule
	Matches  int  // number of matching patterns
	OwnOK    bool // independent "**" matcher agreed with doublestar on every pattern
}

// Decide applies "the last matching pattern wins".
func (m *MRef) Decide(path string, dir bool) Verdict {
	v := Verdict{Deciding: -1, OwnOK: true}
	if m.IgnoreVCS && dir {
		base := lastComponent(path)
		for _, n := range VCSNames {
			if base == n {
				v.Ignored, v.Deciding = true, -2
				return v
			}
		}
	}
	for i, p := range m.Patterns {
		ok, own := p.matches(path, dir, m.NegClassSlash)
		if !own {
			v.OwnOK = false
		}
		if ok {
			v.Deciding = i
			v.Matches++
		}
	}
	if v.Deciding >= 0 {
		v.Ignored = !m.Patterns[v.Deciding].Neg
	}
	return v
}

// ValidName reports whether a name is usable in generated trees.
func ValidName(n string) bool { return n != "" && utf8.ValidString(n) && !strings.Contains(n, "/") }
