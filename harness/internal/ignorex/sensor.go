package ignorex

import (
	"bytes"
	"fmt"
	"unsafe"

	"golang.org/x/sys/unix"
)

// Sensor is an inotify access sensor (instrument I3): it is placed on
// directories and reports every open of / read from a watched directory
// itself and of / from the objects directly inside it.
type Sensor struct {
	fd     int
	labels map[int32]string
}

// SensorMask is what the sensor listens for.
const SensorMask = unix.IN_OPEN | unix.IN_ACCESS

// SensorEvent is one recorded event.
type SensorEvent struct {
	Label string // label given to Watch
	Name  string // "" = the watched directory itself, else the child name
	Open  bool
	Read  bool
	IsDir bool
}

func (e SensorEvent) String() string {
	k := ""
	if e.Open {
		k += "OPEN"
	}
	if e.Read {
		k += "ACCESS"
	}
	return fmt.Sprintf("%s[%s]%s", e.Label, e.Name, k)
}

// NewSensor opens an inotify instance.
func NewSensor() (*Sensor, error) {
	fd, err := unix.InotifyInit1(unix.IN_NONBLOCK | unix.IN_CLOEXEC)
	if err != nil {
		return nil, err
	}
	return &Sensor{fd: fd, labels: map[int32]string{}}, nil
}

// Watch adds a directory. Adding a watch uses the path only (no open of the
// directory), so it does not disturb the sensor itself.
func (s *Sensor) Watch(dir, label string) error {
	wd, err := unix.InotifyAddWatch(s.fd, dir, SensorMask|unix.IN_ONLYDIR|unix.IN_DONT_FOLLOW)
	if err != nil {
		return err
	}
	s.labels[int32(wd)] = label
	return nil
}

// Drain returns the events recorded so far. overflow reports a lost queue.
func (s *Sensor) Drain() (events []SensorEvent, overflow bool, err error) {
	buf := make([]byte, 64*1024)
	for {
		n, rerr := unix.Read(s.fd, buf)
		if rerr == unix.EINTR {
			continue
		}
		if rerr == unix.EAGAIN || n == 0 {
			return events, overflow, nil
		}
		if rerr != nil {
			return events, overflow, rerr
		}
		off := 0
		for off+unix.SizeofInotifyEvent <= n {
			raw := (*unix.InotifyEvent)(unsafe.Pointer(&buf[off]))
			nameLen := int(raw.Len)
			name := ""
			if nameLen > 0 {
				b := buf[off+unix.SizeofInotifyEvent : off+unix.SizeofInotifyEvent+nameLen]
				name = string(bytes.TrimRight(b, "\x00"))
			}
			off += unix.SizeofInotifyEvent + nameLen
			if raw.Mask&unix.IN_Q_OVERFLOW != 0 {
				overflow = true
				continue
			}
			if raw.Mask&(unix.IN_OPEN|unix.IN_ACCESS) == 0 {
				continue
			}
			events = append(events, SensorEvent{
				Label: s.labels[raw.Wd],
				Name:  name,
				Open:  raw.Mask&unix.IN_OPEN != 0,
				Read:  raw.Mask&unix.IN_ACCESS != 0,
				IsDir: raw.Mask&unix.IN_ISDIR != 0,
			})
		}
	}
}

// Close releases the sensor.
func (s *Sensor) Close() { unix.Close(s.fd) }
