package ignorex

import (
	"fmt"
	"path/filepath"
	"sort"
	"strings"

	"verif/internal/ignorex/patternmatcher"
)

// ---------------------------------------------------------------------------
// In-memory description of a disk tree shared by the models.

// Node is one object of a tree: a directory with children or a leaf (regular
// file or symbolic link — Docker and Mutagen both treat a symbolic link as a
// leaf and never follow it).
type Node struct {
	Name     string
	Dir      bool
	Children []*Node // sorted by name (filepath.WalkDir order)
}

// BuildNodes builds the node tree from a set of root-relative slash paths;
// isDir tells which of them are directories (parents are implied).
func BuildNodes(paths map[string]bool) *Node {
	root := &Node{Dir: true}
	index := map[string]*Node{"": root}
	var ensure func(p string, dir bool) *Node
	ensure = func(p string, dir bool) *Node {
		if n, ok := index[p]; ok {
			if dir {
				n.Dir = true
			}
			return n
		}
		parent := ""
		name := p
		if i := strings.LastIndexByte(p, '/'); i >= 0 {
			parent, name = p[:i], p[i+1:]
		}
		pn := ensure(parent, true)
		n := &Node{Name: name, Dir: dir}
		pn.Children = append(pn.Children, n)
		index[p] = n
		return n
	}
	keys := make([]string, 0, len(paths))
	for p := range paths {
		keys = append(keys, p)
	}
	sort.Strings(keys)
	for _, p := range keys {
		ensure(p, paths[p])
	}
	var sortRec func(n *Node)
	sortRec = func(n *Node) {
		sort.Slice(n.Children, func(i, j int) bool { return n.Children[i].Name < n.Children[j].Name })
		for _, c := range n.Children {
			sortRec(c)
		}
	}
	sortRec(root)
	return root
}

func join(dir, name string) string {
	if dir == "" {
		return name
	}
	return dir + "/" + name
}

// AllPaths lists every path of the tree with its directory flag.
func (n *Node) AllPaths() map[string]bool {
	out := map[string]bool{}
	var rec func(n *Node, p string)
	rec = func(n *Node, p string) {
		for _, c := range n.Children {
			q := join(p, c.Name)
			out[q] = c.Dir
			if c.Dir {
				rec(c, q)
			}
		}
	}
	rec(n, "")
	return out
}

// ---------------------------------------------------------------------------
// Docker reference.
//
// Three pieces of Docker are modelled, each from its upstream source:
//
//  1. Reading .dockerignore (buildkit frontend/dockerfile/dockerignore.ReadAll,
//     the function Mutagen's own comment cites): per line — trim white space,
//     drop empty lines and '#' comments (comments are outside the generated
//     grammar), take off a leading '!' and trim again, filepath.Clean the
//     rest, convert to slashes, drop ONE leading '/' if more than the slash
//     remains, put the '!' back.  -> NormalizeDockerignore
//  2. Matching (moby/patternmatcher, frozen copy in ./patternmatcher):
//     patternmatcher.New(lines) and, during the walk,
//     MatchesUsingParentResults(relPath, matchInfoOfParentDirectory).
//  3. The build-context walk (moby pkg/archive.TarWithOptions, the code the
//     vendored matcher's comment links to): filepath.WalkDir in lexical
//     order; the context root itself is never tested; a stack of (directory,
//     MatchInfo) pairs is popped until its top is a path prefix of the current
//     path; the entry is tested with the top's MatchInfo (zero MatchInfo when
//     the stack is empty); a directory is pushed with its MatchInfo whether
//     or not it is skipped.  If the entry is to be skipped: a non-directory
//     is simply left out; a directory is left out and NOT descended
//     (filepath.SkipDir) unless some exclusion ('!') pattern P satisfies
//     strings.HasPrefix(P+"/", dir+"/") — then it is still left out itself
//     but the walk descends into it.  An entry that is not skipped is added
//     to the archive (directories as directory headers, then descended).
//
// The result of the walk is the set of archive members. A member that is a
// file or link is an "included leaf".

// NormalizeDockerignore is piece 1.
func NormalizeDockerignore(lines []string) []string {
	var out []string
	for _, pattern := range lines {
		pattern = strings.TrimSpace(pattern)
		if pattern == "" || pattern[0] == '#' {
			continue
		}
		invert := pattern[0] == '!'
		if invert {
			pattern = strings.TrimSpace(pattern[1:])
		}
		if len(pattern) > 0 {
			pattern = filepath.Clean(pattern)
			pattern = filepath.ToSlash(pattern)
			if len(pattern) > 1 && pattern[0] == '/' {
				pattern = pattern[1:]
			}
		}
		if invert {
			pattern = "!" + pattern
		}
		out = append(out, pattern)
	}
	return out
}

// Docker is the Docker-side reference for one pattern list.
type Docker struct {
	Lines []string // normalized lines
	pm    *patternmatcher.PatternMatcher
}

// NewDocker builds pieces 1 and 2.
func NewDocker(patterns []string) (*Docker, error) {
	lines := NormalizeDockerignore(patterns)
	pm, err := patternmatcher.New(lines)
	if err != nil {
		return nil, err
	}
	// Compile every pattern now so that a bad pattern is an error here and
	// not in the middle of a walk (match compiles lazily).
	for _, p := range pm.Patterns() {
		if _, err := p.MatchDirect("x"); err != nil {
			return nil, err
		}
	}
	return &Docker{Lines: lines, pm: pm}, nil
}

// Membership describes the outcome of a walk (any model).
type Membership struct {
	// Tracked maps every synchronized/archived path to its directory flag.
	Tracked map[string]bool
	// Descended lists excluded directories that were walked nevertheless.
	Descended map[string]bool
}

// Walk is piece 3, kept as close to TarWithOptions as an in-memory tree
// allows (explicit stacks, lexical pre-order, SkipDir).
func (d *Docker) Walk(root *Node) (Membership, error) {
	m := Membership{Tracked: map[string]bool{}, Descended: map[string]bool{}}
	var parentDirs []string
	var parentMatchInfo []patternmatcher.MatchInfo
	var walkErr error

	const (
		goOn    = 0
		skipDir = 1
	)
	visit := func(relFilePath string, isDir bool) int {
		skip := false
		for len(parentMatchInfo) != 0 && len(parentDirs) != 0 &&
			!strings.HasPrefix(relFilePath, parentDirs[len(parentDirs)-1]+"/") {
			parentDirs = parentDirs[:len(parentDirs)-1]
			parentMatchInfo = parentMatchInfo[:len(parentMatchInfo)-1]
		}
		var matchInfo patternmatcher.MatchInfo
		var err error
		if len(parentMatchInfo) != 0 {
			skip, matchInfo, err = d.pm.MatchesUsingParentResults(relFilePath, parentMatchInfo[len(parentMatchInfo)-1])
		} else {
			skip, matchInfo, err = d.pm.MatchesUsingParentResults(relFilePath, patternmatcher.MatchInfo{})
		}
		if err != nil {
			walkErr = err
			return skipDir
		}
		if isDir {
			parentDirs = append(parentDirs, relFilePath)
			parentMatchInfo = append(parentMatchInfo, matchInfo)
		}
		if skip {
			if !isDir {
				return goOn
			}
			if !d.pm.Exclusions() {
				return skipDir
			}
			dirSlash := relFilePath + "/"
			for _, pat := range d.pm.Patterns() {
				if !pat.Exclusion() {
					continue
				}
				if strings.HasPrefix(pat.String()+"/", dirSlash) {
					m.Descended[relFilePath] = true
					return goOn
				}
			}
			return skipDir
		}
		m.Tracked[relFilePath] = isDir
		return goOn
	}
	var rec func(n *Node, p string)
	rec = func(n *Node, p string) {
		for _, c := range n.Children {
			q := join(p, c.Name)
			r := visit(q, c.Dir)
			if c.Dir && r != skipDir {
				rec(c, q)
			}
		}
	}
	rec(root, "")
	return m, walkErr
}

// MatchesNoInheritance is the Docker loop with per-pattern parent inheritance
// switched off (frozen MatchesUsingParentResult(path, false)). It is the hook
// for the fallback delimitation of the known finding described in DESIGN §5
// C15; the monitor does not need it as long as the documented-algorithm model
// reproduces the real code on every compared path (it counts
// "paths_where_documented_model_differs_from_real", which must stay absent).
func (d *Docker) MatchesNoInheritance(path string) bool {
	ok, _ := d.pm.MatchesWithoutParentInheritance(path)
	return ok
}

// ---------------------------------------------------------------------------
// Synchronization semantics shared by both models ("reification"):
//
//	an entry that the walk included is synchronized;
//	an excluded directory is synchronized iff the walk descended into it AND
//	(something beneath it is synchronized OR the ancestor — the content
//	synchronized before — has a directory at that path);
//	everything else is not synchronized.
//
// This is the statement of property C15 ("an excluded directory is
// synchronized only if it holds synchronized content or was synchronized
// before"), not a transcription of phantom.go.

// Reify completes a walk's membership into the synchronized set.
func Reify(root *Node, m Membership, ancestorDir func(path string) bool) map[string]bool {
	out := map[string]bool{}
	var rec func(n *Node, p string) bool
	rec = func(n *Node, p string) bool {
		any := false
		for _, c := range n.Children {
			q := join(p, c.Name)
			_, included := m.Tracked[q]
			if !c.Dir {
				if included {
					out[q] = false
					any = true
				}
				continue
			}
			if !included && !m.Descended[q] {
				continue
			}
			below := rec(c, q)
			if included || below || (ancestorDir != nil && ancestorDir(q)) {
				out[q] = true
				any = true
			}
		}
		return any
	}
	rec(root, "")
	return out
}

// ---------------------------------------------------------------------------
// Second model: Mutagen's own DOCUMENTED Docker-style algorithm (comments of
// MatchesForMutagen, ignore.Ignorer and core/scan.go), built on the frozen
// copy's per-pattern matcher. Used only to classify disagreements with the
// Docker reference:
//
//   - status(path) = the last pattern that matches the path ITSELF decides:
//     a plain pattern -> ignored, a '!' pattern -> unignored, none -> nominal;
//   - traversal continues below a directory that is ignored or nominal iff
//     some '!' pattern has it as a path prefix;
//   - one inherited ignore mask: set below an ignored directory that is still
//     traversed, cleared below an unignored directory, otherwise inherited;
//     under the mask nominal content is not synchronized (a nominal directory
//     is still traversed, keeping the mask, if traversal continues below it).

type docStatus int

const (
	docNominal docStatus = iota
	docIgnored
	docUnignored
)

func (d *Docker) docStatus(path string) docStatus {
	st := docNominal
	for _, p := range d.pm.Patterns() {
		if ok, _ := p.MatchDirect(path); ok {
			if p.Exclusion() {
				st = docUnignored
			} else {
				st = docIgnored
			}
		}
	}
	return st
}

func (d *Docker) docContinue(path string) bool {
	for _, p := range d.pm.Patterns() {
		if p.Exclusion() && strings.HasPrefix(p.String()+"/", path+"/") {
			return true
		}
	}
	return false
}

// WalkDocumented runs the second model.
func (d *Docker) WalkDocumented(root *Node) Membership {
	m := Membership{Tracked: map[string]bool{}, Descended: map[string]bool{}}
	var rec func(n *Node, p string, mask bool)
	rec = func(n *Node, p string, mask bool) {
		for _, c := range n.Children {
			q := join(p, c.Name)
			st := d.docStatus(q)
			cont := c.Dir && st != docUnignored && d.docContinue(q)
			childMask := mask
			switch st {
			case docNominal:
				if mask && !cont {
					continue
				}
			case docIgnored:
				if !cont {
					continue
				}
				childMask = true
			case docUnignored:
				childMask = false
			}
			if !c.Dir {
				m.Tracked[q] = false
				continue
			}
			if childMask {
				m.Descended[q] = true
			} else {
				m.Tracked[q] = true
			}
			rec(c, q, childMask)
		}
	}
	rec(root, "", false)
	return m
}

// Describe renders a membership compactly.
func DescribeSet(s map[string]bool) string {
	keys := make([]string, 0, len(s))
	for k, dir := range s {
		if dir {
			k += "/"
		}
		keys = append(keys, k)
	}
	sort.Strings(keys)
	return fmt.Sprint(keys)
}
