package ignorex

import (
	"fmt"
	"math/rand"
	"strings"

	"verif/internal/fsx"
)

// Names is the pool both the tree generator and the pattern generators draw
// from, so that patterns hit paths often.
var Names = []string{"a", "b", "c", "ab", "abc", "x.o", "y.o", "dir", "keep", "é", "with space", "b.c"}

func pick(r *rand.Rand, s []string) string { return s[r.Intn(len(s))] }

// segmentGlob returns one non-"**" segment of the restricted grammar.
func segmentGlob(r *rand.Rand) string {
	switch r.Intn(16) {
	case 0:
		return "*"
	case 1:
		return "?"
	case 2:
		return "*.o"
	case 3:
		return pick(r, []string{"a*", "*b", "*c", "a*c", "k*p", "*e*"})
	case 4:
		return pick(r, []string{"?b", "a?", "??", "?.o", "a?c", "???"})
	case 5:
		return pick(r, []string{"[ab]", "[a-c]", "[^a]", "[!a]", "[abx]", "[b-z]"})
	case 6:
		return pick(r, []string{"[ab]b", "a[a-c]", "[^a]b", "[!x].o", "[xy].o", "[a-c]*", "*[bc]", "[ab]?", "a[!b]c", "a[^x]b", "*[!x]b", "?[!a]?"})
	default:
		return pick(r, Names)
	}
}

// MutagenPattern generates one pattern of the restricted Mutagen grammar:
// ['!'] ['/'] segment {'/' segment} ['/'], segment = glob | "**".
func MutagenPattern(r *rand.Rand) string {
	n := 1
	switch r.Intn(10) {
	case 0, 1, 2:
		n = 2
	case 3:
		n = 3
	}
	segs := make([]string, n)
	for i := range segs {
		if r.Intn(7) == 0 {
			segs[i] = "**"
		} else {
			segs[i] = segmentGlob(r)
		}
	}
	p := strings.Join(segs, "/")
	if r.Intn(5) == 0 {
		p = "/" + p
	}
	if r.Intn(5) == 0 {
		p += "/"
	}
	if r.Intn(3) == 0 {
		p = "!" + p
	}
	return p
}

// MutagenList generates a pattern list.
func MutagenList(r *rand.Rand, max int) []string {
	n := 1 + r.Intn(max)
	out := make([]string, n)
	for i := range out {
		out[i] = MutagenPattern(r)
	}
	// Often re-use an earlier body with the opposite sign so that negation
	// ordering matters.
	if n >= 2 && r.Intn(2) == 0 {
		i, j := r.Intn(n), r.Intn(n)
		if i != j {
			body := strings.TrimPrefix(out[i], "!")
			if strings.HasPrefix(out[i], "!") {
				out[j] = body
			} else {
				out[j] = "!" + body
			}
		}
	}
	return out
}

// instantiate produces a name matched (usually) by a segment glob.
func instantiate(r *rand.Rand, seg string) string {
	var sb strings.Builder
	rs := []rune(seg)
	for i := 0; i < len(rs); i++ {
		switch rs[i] {
		case '*':
			sb.WriteString(pick(r, []string{"", "a", "b", "ke", "x", "ab"}))
		case '?':
			sb.WriteString(pick(r, []string{"a", "b", "c", "x", "é"}))
		case '[':
			j := i
			for j < len(rs) && rs[j] != ']' {
				j++
			}
			sb.WriteString(pick(r, []string{"a", "b", "c", "x", "y"}))
			i = j
		default:
			sb.WriteRune(rs[i])
		}
	}
	if sb.Len() == 0 {
		return pick(r, Names)
	}
	return sb.String()
}

// RandomPath returns a root-relative path; with a pattern list it is often
// derived from one of the patterns so that matches are frequent.
func RandomPath(r *rand.Rand, patterns []string) string {
	if len(patterns) > 0 && r.Intn(3) != 0 {
		p := pick(r, patterns)
		p = strings.TrimPrefix(p, "!")
		anchored := strings.HasPrefix(p, "/")
		p = strings.Trim(p, "/")
		var segs []string
		for _, s := range strings.Split(p, "/") {
			if s == "**" {
				for k := r.Intn(3); k > 0; k-- {
					segs = append(segs, pick(r, Names))
				}
				continue
			}
			segs = append(segs, instantiate(r, s))
		}
		if !anchored && r.Intn(2) == 0 {
			for k := 1 + r.Intn(2); k > 0; k-- {
				segs = append([]string{pick(r, Names)}, segs...)
			}
		}
		if r.Intn(4) == 0 {
			segs = append(segs, pick(r, Names))
		}
		if len(segs) == 0 {
			segs = []string{pick(r, Names)}
		}
		return strings.Join(segs, "/")
	}
	n := 1 + r.Intn(4)
	segs := make([]string, n)
	for i := range segs {
		segs[i] = pick(r, Names)
	}
	return strings.Join(segs, "/")
}

// DockerPattern generates one .dockerignore line of the grammar both sides
// define: no backslash, no comment, segments of literals/'*'/'?'/classes,
// "**" as a whole segment, optional '!', optional leading '/', optional
// trailing '/', occasionally surrounding blanks or a "./" prefix (both sides
// trim and clean).
func DockerPattern(r *rand.Rand, names []string) string {
	n := 1
	switch r.Intn(10) {
	case 0, 1, 2, 3:
		n = 2
	case 4:
		n = 3
	}
	segs := make([]string, n)
	for i := range segs {
		switch r.Intn(12) {
		case 0:
			segs[i] = "**"
		case 1:
			segs[i] = "*"
		case 2:
			segs[i] = "?"
		case 3:
			segs[i] = pick(r, []string{"*.o", "a*", "*b", "?b", "a?", "[ab]", "[a-c]", "[^a]", "[ab]*", "k*"})
		default:
			segs[i] = pick(r, names)
		}
	}
	p := strings.Join(segs, "/")
	if r.Intn(8) == 0 {
		p = "/" + p
	} else if r.Intn(30) == 0 {
		p = "./" + p
	}
	if r.Intn(8) == 0 {
		p += "/"
	}
	if r.Intn(5) < 2 {
		p = "!" + p
	}
	if r.Intn(30) == 0 {
		p = " " + p + " "
	}
	return p
}

// DockerList generates a .dockerignore pattern list. Exclusion patterns are
// often built as an extension of an earlier plain pattern (the typical
// "ignore dir, re-include dir/sub" use).
func DockerList(r *rand.Rand, names []string, max int) []string {
	n := 1 + r.Intn(max)
	out := make([]string, 0, n)
	for i := 0; i < n; i++ {
		if i > 0 && r.Intn(3) == 0 {
			base := strings.TrimSpace(out[r.Intn(len(out))])
			base = strings.TrimPrefix(base, "!")
			base = strings.Trim(base, "/")
			base = strings.TrimPrefix(base, "./")
			if base != "" {
				ext := base
				for k := 1 + r.Intn(2); k > 0; k-- {
					ext += "/" + pick(r, names)
				}
				if r.Intn(4) != 0 {
					ext = "!" + ext
				}
				out = append(out, ext)
				continue
			}
		}
		out = append(out, DockerPattern(r, names))
	}
	return out
}

// DockerListForTree generates a list whose patterns are mostly derived from
// paths that exist in the tree (a prefix of an existing path, with segments
// now and then replaced by wildcards), so that exclusion, re-inclusion and
// traversal below excluded directories really occur.
func DockerListForTree(r *rand.Rand, names []string, paths []string, max int) []string {
	if len(paths) == 0 {
		return DockerList(r, names, max)
	}
	derive := func() string {
		segs := strings.Split(paths[r.Intn(len(paths))], "/")
		segs = segs[:1+r.Intn(len(segs))]
		out := make([]string, len(segs))
		for i, sgm := range segs {
			switch r.Intn(14) {
			case 0:
				out[i] = "*"
			case 1:
				out[i] = "**"
			case 2:
				if len([]rune(sgm)) == 1 {
					out[i] = "?"
				} else {
					out[i] = string([]rune(sgm)[:1]) + "*"
				}
			default:
				out[i] = sgm
			}
		}
		return strings.Join(out, "/")
	}
	n := 1 + r.Intn(max)
	out := make([]string, 0, n)
	for i := 0; i < n; i++ {
		var p string
		switch {
		case r.Intn(4) == 0:
			p = DockerPattern(r, names)
		case i > 0 && r.Intn(3) == 0:
			// extend an earlier pattern by real or random components
			base := strings.TrimSpace(out[r.Intn(len(out))])
			base = strings.Trim(strings.TrimPrefix(base, "!"), "/")
			p = base + "/" + pick(r, names)
			if r.Intn(3) == 0 {
				p += "/" + pick(r, names)
			}
			if r.Intn(4) != 0 {
				p = "!" + p
			}
		default:
			p = derive()
			if r.Intn(5) < 2 {
				p = "!" + p
			}
			if r.Intn(10) == 0 {
				p = strings.Replace(p, "!", "!/", 1)
				if !strings.HasPrefix(p, "!") {
					p = "/" + p
				}
			}
			if r.Intn(10) == 0 {
				p += "/"
			}
		}
		out = append(out, p)
	}
	return out
}

// SmallTree generates a tree of regular files, directories and (optionally)
// valid portable symbolic links over the given name pool.
func SmallTree(r *rand.Rand, names []string, maxEntries, maxDepth int, links bool) fsx.Tree {
	t := fsx.Tree{}
	dirs := []string{""}
	n := 1 + r.Intn(maxEntries)
	for i := 0; i < n; i++ {
		parent := dirs[r.Intn(len(dirs))]
		// bias towards deep parents so that nesting occurs
		if r.Intn(2) == 0 {
			parent = dirs[len(dirs)-1-r.Intn((len(dirs)+1)/2)]
		}
		name := pick(r, names)
		p := join(parent, name)
		if _, ok := t[p]; ok {
			continue
		}
		depth := strings.Count(p, "/")
		roll := r.Intn(100)
		switch {
		case roll < 40 && depth < maxDepth:
			t[p] = &fsx.Node{Kind: fsx.KDir, Mode: 0o755}
			dirs = append(dirs, p)
		case roll < 47 && links:
			t[p] = &fsx.Node{Kind: fsx.KLink, Target: "t"}
		default:
			t[p] = &fsx.Node{Kind: fsx.KFile, Content: []byte(fmt.Sprintf("content of %s #%d\n", p, r.Intn(1000))), Mode: 0o644}
		}
	}
	return t
}

// TreePaths converts a generated tree to path -> isDirectory.
func TreePaths(t fsx.Tree) map[string]bool {
	out := map[string]bool{}
	for p, n := range t {
		out[p] = n.Kind == fsx.KDir
	}
	return out
}
