// Harness-side accessors for the frozen matcher. Kept in a separate file so
// that patternmatcher.go stays the frozen upstream text. Nothing here changes
// the behaviour of the functions defined there.

package patternmatcher

import "path/filepath"

// MatchDirect applies the single pattern to path (slash-delimited) and to
// nothing else: no parent directory is consulted. This is the per-pattern
// matcher (Pattern.match) that both Docker's loop and Mutagen's loop call.
func (p *Pattern) MatchDirect(path string) (bool, error) {
	return p.match(filepath.FromSlash(path))
}

// MatchesWithoutParentInheritance is the Docker loop with per-pattern parent
// inheritance switched off: MatchesUsingParentResult(file, false) — the
// frozen file's own (upstream, deprecated) single-boolean variant started from
// "parent not matched". Used only to delimit the known finding when the
// documented-algorithm model cannot be used (DESIGN §5 C15 fallback).
func (pm *PatternMatcher) MatchesWithoutParentInheritance(file string) (bool, error) {
	return pm.MatchesUsingParentResult(file, false)
}
