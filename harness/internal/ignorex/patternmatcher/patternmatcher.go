// FROZEN REFERENCE COPY (verification harness, property C15). This file is a
// copy, taken once, of
// /repo/pkg/synchronization/core/ignore/docker/internal/third_party/patternmatcher/patternmatcher.go
// which is itself vendored from
// https://github.com/moby/patternmatcher/blob/c5e4b22c8cb290f9439a339c08bba6cb13aa296d/patternmatcher.go
// CHANGES relative to the vendored file: the Mutagen-specific additions
// (PatternMatcher.exclusionCount, PrecompileForMutagen, MatchStatus and
// MatchesForMutagen) were REMOVED, restoring the upstream text; nothing else
// was touched. It must never be regenerated from /repo: it is the oracle's
// definition of Docker's matching semantics and has to stay unaffected by
// edits to the code under test. Harness-side accessors live in verif_access.go.
//
// Original header of the vendored file follows.
//
// Pattern matching infrastructure used to support .dockerignore files. Based on
// (but modified from)
// https://github.com/moby/patternmatcher/blob/c5e4b22c8cb290f9439a339c08bba6cb13aa296d/patternmatcher.go
//
// The original code license:
//
//                               Apache License
//                         Version 2.0, January 2004
//                      https://www.apache.org/licenses/
//
// TERMS AND CONDITIONS FOR USE, REPRODUCTION, AND DISTRIBUTION
//
// 1. Definitions.
//
//    "License" shall mean the terms and conditions for use, reproduction,
//    and distribution as defined by Sections 1 through 9 of this document.
//
//    "Licensor" shall mean the copyright owner or entity authorized by
//    the copyright owner that is granting the License.
//
//    "Legal Entity" shall mean the union of the acting entity and all
//    other entities that control, are controlled by, or are under common
//    control with that entity. For the purposes of this definition,
//    "control" means (i) the power, direct or indirect, to cause the
//    direction or management of such entity, whether by contract or
//    otherwise, or (ii) ownership of fifty percent (50%) or more of the
//    outstanding shares, or (iii) beneficial ownership of such entity.
//
//    "You" (or "Your") shall mean an individual or Legal Entity
//    exercising permissions granted by this License.
//
//    "Source" form shall mean the preferred form for making modifications,
//    including but not limited to software source code, documentation
//    source, and configuration files.
//
//    "Object" form shall mean any form resulting from mechanical
//    transformation or translation of a Source form, including but
//    not limited to compiled object code, generated documentation,
//    and conversions to other media types.
//
//    "Work" shall mean the work of authorship, whether in Source or
//    Object form, made available under the License, as indicated by a
//    copyright notice that is included in or attached to the work
//    (an example is provided in the Appendix below).
//
//    "Derivative Works" shall mean any work, whether in Source or Object
//    form, that is based on (or derived from) the Work and for which the
//    editorial revisions, annotations, elaborations, or other modifications
//    represent, as a whole, an original work of authorship. For the purposes
//    of this License, Derivative Works shall not include works that remain
//    separable from, or merely link (or bind by name) to the interfaces of,
//    the Work and Derivative Works thereof.
//
//    "Contribution" shall mean any work of authorship, including
//    the original version of the Work and any modifications or additions
//    to that Work or Derivative Works thereof, that is intentionally
//    submitted to Licensor for inclusion in the Work by the copyright owner
//    or by an individual or Legal Entity authorized to submit on behalf of
//    the copyright owner. For the purposes of this definition, "submitted"
//    means any form of electronic, verbal, or written communication sent
//    to the Licensor or its representatives, including but not limited to
//    communication on electronic mailing lists, source code control systems,
//    and issue tracking systems that are managed by, or on behalf of, the
//    Licensor for the purpose of discussing and improving the Work, but
//    excluding communication that is conspicuously marked or otherwise
//    designated in writing by the copyright owner as "Not a Contribution."
//
//    "Contributor" shall mean Licensor and any individual or Legal Entity
//    on behalf of whom a Contribution has been received by Licensor and
//    subsequently incorporated within the Work.
//
// 2. Grant of Copyright License. Subject to the terms and conditions of
//    this License, each Contributor hereby grants to You a perpetual,
//    worldwide, non-exclusive, no-charge, royalty-free, irrevocable
//    copyright license to reproduce, prepare Derivative Works of,
//    publicly display, publicly perform, sublicense, and distribute the
//    Work and such Derivative Works in Source or Object form.
//
// 3. Grant of Patent License. Subject to the terms and conditions of
//    this License, each Contributor hereby grants to You a perpetual,
//    worldwide, non-exclusive, no-charge, royalty-free, irrevocable
//    (except as stated in this section) patent license to make, have made,
//    use, offer to sell, sell, import, and otherwise transfer the Work,
//    where such license applies only to those patent claims licensable
//    by such Contributor that are necessarily infringed by their
//    Contribution(s) alone or by combination of their Contribution(s)
//    with the Work to which such Contribution(s) was submitted. If You
//    institute patent litigation against any entity (including a
//    cross-claim or counterclaim in a lawsuit) alleging that the Work
//    or a Contribution incorporated within the Work constitutes direct
//    or contributory patent infringement, then any patent licenses
//    granted to You under this License for that Work shall terminate
//    as of the date such litigation is filed.
//
// 4. Redistribution. You may reproduce and distribute copies of the
//    Work or Derivative Works thereof in any medium, with or without
//    modifications, and in Source or Object form, provided that You
//    meet the following conditions:
//
//    (a) You must give any other recipients of the Work or
//        Derivative Works a copy of this License; and
//
//    (b) You must cause any modified files to carry prominent notices
//        stating that You changed the files; and
//
//    (c) You must retain, in the Source form of any Derivative Works
//        that You distribute, all copyright, patent, trademark, and
//        attribution notices from the Source form of the Work,
//        excluding those notices that do not pertain to any part of
//        the Derivative Works; and
//
//    (d) If the Work includes a "NOTICE" text file as part of its
//        distribution, then any Derivative Works that You distribute must
//        include a readable copy of the attribution notices contained
//        within such NOTICE file, excluding those notices that do not
//        pertain to any part of the Derivative Works, in at least one
//        of the following places: within a NOTICE text file distributed
//        as part of the Derivative Works; within the Source form or
//        documentation, if provided along with the Derivative Works; or,
//        within a display generated by the Derivative Works, if and
//        wherever such third-party notices normally appear. The contents
//        of the NOTICE file are for informational purposes only and
//        do not modify the License. You may add Your own attribution
//        notices within Derivative Works that You distribute, alongside
//        or as an addendum to the NOTICE text from the Work, provided
//        that such additional attribution notices cannot be construed
//        as modifying the License.
//
//    You may add Your own copyright statement to Your modifications and
//    may provide additional or different license terms and conditions
//    for use, reproduction, or distribution of Your modifications, or
//    for any such Derivative Works as a whole, provided Your use,
//    reproduction, and distribution of the Work otherwise complies with
//    the conditions stated in this License.
//
// 5. Submission of Contributions. Unless You explicitly state otherwise,
//    any Contribution intentionally submitted for inclusion in the Work
//    by You to the Licensor shall be under the terms and conditions of
//    this License, without any additional terms or conditions.
//    Notwithstanding the above, nothing herein shall supersede or modify
//    the terms of any separate license agreement you may have executed
//    with Licensor regarding such Contributions.
//
// 6. Trademarks. This License does not grant permission to use the trade
//    names, trademarks, service marks, or product names of the Licensor,
//    except as required for reasonable and customary use in describing the
//    origin of the Work and reproducing the content of the NOTICE file.
//
// 7. Disclaimer of Warranty. Unless required by applicable law or
//    agreed to in writing, Licensor provides the Work (and each
//    Contributor provides its Contributions) on an "AS IS" BASIS,
//    WITHOUT WARRANTIES OR CONDITIONS OF ANY KIND, either express or
//    implied, including, without limitation, any warranties or conditions
//    of TITLE, NON-INFRINGEMENT, MERCHANTABILITY, or FITNESS FOR A
//    PARTICULAR PURPOSE. You are solely responsible for determining the
//    appropriateness of using or redistributing the Work and assume any
//    risks associated with Your exercise of permissions under this License.
//
// 8. Limitation of Liability. In no event and under no legal theory,
//    whether in tort (including negligence), contract, or otherwise,
//    unless required by applicable law (such as deliberate and grossly
//    negligent acts) or agreed to in writing, shall any Contributor be
//    liable to You for damages, including any direct, indirect, special,
//    incidental, or consequential damages of any character arising as a
//    result of this License or out of the use or inability to use the
//    Work (including but not limited to damages for loss of goodwill,
//    work stoppage, computer failure or malfunction, or any and all
//    other commercial damages or losses), even if such Contributor
//    has been advised of the possibility of such damages.
//
// 9. Accepting Warranty or Additional Liability. While redistributing
//    the Work or Derivative Works thereof, You may choose to offer,
//    and charge a fee for, acceptance of support, warranty, indemnity,
//    or other liability obligations and/or rights consistent with this
//    License. However, in accepting such obligations, You may act only
//    on Your own behalf and on Your sole responsibility, not on behalf
//    of any other Contributor, and only if You agree to indemnify,
//    defend, and hold each Contributor harmless for any liability
//    incurred by, or claims asserted against, such Contributor by reason
//    of your accepting any such warranty or additional liability.
//
// END OF TERMS AND CONDITIONS
//
// Copyright 2013-2018 Docker, Inc.
//
// Licensed under the Apache License, Version 2.0 (the "License");
// you may not use this file except in compliance with the License.
// You may obtain a copy of the License at
//
//     https://www.apache.org/licenses/LICENSE-2.0
//
// Unless required by applicable law or agreed to in writing, software
// distributed under the License is distributed on an "AS IS" BASIS,
// WITHOUT WARRANTIES OR CONDITIONS OF ANY KIND, either express or implied.
// See the License for the specific language governing permissions and
// limitations under the License.

package patternmatcher

import (
	"errors"
	"os"
	"path/filepath"
	"regexp"
	"strings"
	"text/scanner"
	"unicode/utf8"
)

// escapeBytes is a bitmap used to check whether a character should be escaped when creating the regex.
var escapeBytes [8]byte

// shouldEscape reports whether a rune should be escaped as part of the regex.
//
// This only includes characters that require escaping in regex but are also NOT valid filepath pattern characters.
// Additionally, '\' is not excluded because there is specific logic to properly handle this, as it's a path separator
// on Windows.
//
// Adapted from regexp::QuoteMeta in go stdlib.
// See https://cs.opensource.google/go/go/+/refs/tags/go1.17.2:src/regexp/regexp.go;l=703-715;drc=refs%2Ftags%2Fgo1.17.2
func shouldEscape(b rune) bool {
	return b < utf8.RuneSelf && escapeBytes[b%8]&(1<<(b/8)) != 0
}

func init() {
	for _, b := range []byte(`.+()|{}$`) {
		escapeBytes[b%8] |= 1 << (b / 8)
	}
}

// PatternMatcher allows checking paths against a list of patterns
type PatternMatcher struct {
	patterns   []*Pattern
	exclusions bool
}

// New creates a new matcher object for specific patterns that can
// be used later to match against patterns against paths
func New(patterns []string) (*PatternMatcher, error) {
	pm := &PatternMatcher{
		patterns: make([]*Pattern, 0, len(patterns)),
	}
	for _, p := range patterns {
		// Eliminate leading and trailing whitespace.
		p = strings.TrimSpace(p)
		if p == "" {
			continue
		}
		p = filepath.Clean(p)
		newp := &Pattern{}
		if p[0] == '!' {
			if len(p) == 1 {
				return nil, errors.New("illegal exclusion pattern: \"!\"")
			}
			newp.exclusion = true
			p = p[1:]
			pm.exclusions = true
		}
		// Do some syntax checking on the pattern.
		// filepath's Match() has some really weird rules that are inconsistent
		// so instead of trying to dup their logic, just call Match() for its
		// error state and if there is an error in the pattern return it.
		// If this becomes an issue we can remove this since its really only
		// needed in the error (syntax) case - which isn't really critical.
		if _, err := filepath.Match(p, "."); err != nil {
			return nil, err
		}
		newp.cleanedPattern = p
		newp.dirs = strings.Split(p, string(os.PathSeparator))
		pm.patterns = append(pm.patterns, newp)
	}
	return pm, nil
}

// Matches returns true if "file" matches any of the patterns
// and isn't excluded by any of the subsequent patterns.
//
// The "file" argument should be a slash-delimited path.
//
// Matches is not safe to call concurrently.
//
// Deprecated: This implementation is buggy (it only checks a single parent dir
// against the pattern) and will be removed soon. Use either
// MatchesOrParentMatches or MatchesUsingParentResults instead.
func (pm *PatternMatcher) Matches(file string) (bool, error) {
	matched := false
	file = filepath.FromSlash(file)
	parentPath := filepath.Dir(file)
	parentPathDirs := strings.Split(parentPath, string(os.PathSeparator))

	for _, pattern := range pm.patterns {
		// Skip evaluation if this is an inclusion and the filename
		// already matched the pattern, or it's an exclusion and it has
		// not matched the pattern yet.
		if pattern.exclusion != matched {
			continue
		}

		match, err := pattern.match(file)
		if err != nil {
			return false, err
		}

		if !match && parentPath != "." {
			// Check to see if the pattern matches one of our parent dirs.
			if len(pattern.dirs) <= len(parentPathDirs) {
				match, _ = pattern.match(strings.Join(parentPathDirs[:len(pattern.dirs)], string(os.PathSeparator)))
			}
		}

		if match {
			matched = !pattern.exclusion
		}
	}

	return matched, nil
}

// MatchesOrParentMatches returns true if "file" matches any of the patterns
// and isn't excluded by any of the subsequent patterns.
//
// The "file" argument should be a slash-delimited path.
//
// Matches is not safe to call concurrently.
func (pm *PatternMatcher) MatchesOrParentMatches(file string) (bool, error) {
	matched := false
	file = filepath.FromSlash(file)
	parentPath := filepath.Dir(file)
	parentPathDirs := strings.Split(parentPath, string(os.PathSeparator))

	for _, pattern := range pm.patterns {
		// Skip evaluation if this is an inclusion and the filename
		// already matched the pattern, or it's an exclusion and it has
		// not matched the pattern yet.
		if pattern.exclusion != matched {
			continue
		}

		match, err := pattern.match(file)
		if err != nil {
			return false, err
		}

		if !match && parentPath != "." {
			// Check to see if the pattern matches one of our parent dirs.
			for i := range parentPathDirs {
				match, _ = pattern.match(strings.Join(parentPathDirs[:i+1], string(os.PathSeparator)))
				if match {
					break
				}
			}
		}

		if match {
			matched = !pattern.exclusion
		}
	}

	return matched, nil
}

// MatchesUsingParentResult returns true if "file" matches any of the patterns
// and isn't excluded by any of the subsequent patterns. The functionality is
// the same as Matches, but as an optimization, the caller keeps track of
// whether the parent directory matched.
//
// The "file" argument should be a slash-delimited path.
//
// MatchesUsingParentResult is not safe to call concurrently.
//
// Deprecated: this function does behave correctly in some cases (see
// https://github.com/docker/buildx/issues/850).
//
// Use MatchesUsingParentResults instead.
func (pm *PatternMatcher) MatchesUsingParentResult(file string, parentMatched bool) (bool, error) {
	matched := parentMatched
	file = filepath.FromSlash(file)

	for _, pattern := range pm.patterns {
		// Skip evaluation if this is an inclusion and the filename
		// already matched the pattern, or it's an exclusion and it has
		// not matched the pattern yet.
		if pattern.exclusion != matched {
			continue
		}

		match, err := pattern.match(file)
		if err != nil {
			return false, err
		}

		if match {
			matched = !pattern.exclusion
		}
	}
	return matched, nil
}

// MatchInfo tracks information about parent dir matches while traversing a
// filesystem.
type MatchInfo struct {
	parentMatched []bool
}

// MatchesUsingParentResults returns true if "file" matches any of the patterns
// and isn't excluded by any of the subsequent patterns. The functionality is
// the same as Matches, but as an optimization, the caller passes in
// intermediate results from matching the parent directory.
//
// The "file" argument should be a slash-delimited path.
//
// MatchesUsingParentResults is not safe to call concurrently.
func (pm *PatternMatcher) MatchesUsingParentResults(file string, parentMatchInfo MatchInfo) (bool, MatchInfo, error) {
	parentMatched := parentMatchInfo.parentMatched
	if len(parentMatched) != 0 && len(parentMatched) != len(pm.patterns) {
		return false, MatchInfo{}, errors.New("wrong number of values in parentMatched")
	}

	file = filepath.FromSlash(file)
	matched := false

	matchInfo := MatchInfo{
		parentMatched: make([]bool, len(pm.patterns)),
	}
	for i, pattern := range pm.patterns {
		match := false
		// If the parent matched this pattern, we don't need to recheck.
		if len(parentMatched) != 0 {
			match = parentMatched[i]
		}

		if !match {
			// Skip evaluation if this is an inclusion and the filename
			// already matched the pattern, or it's an exclusion and it has
			// not matched the pattern yet.
			if pattern.exclusion != matched {
				continue
			}

			var err error
			match, err = pattern.match(file)
			if err != nil {
				return false, matchInfo, err
			}

			// If the zero value of MatchInfo was passed in, we don't have
			// any information about the parent dir's match results, and we
			// apply the same logic as MatchesOrParentMatches.
			if !match && len(parentMatched) == 0 {
				if parentPath := filepath.Dir(file); parentPath != "." {
					parentPathDirs := strings.Split(parentPath, string(os.PathSeparator))
					// Check to see if the pattern matches one of our parent dirs.
					for i := range parentPathDirs {
						match, _ = pattern.match(strings.Join(parentPathDirs[:i+1], string(os.PathSeparator)))
						if match {
							break
						}
					}
				}
			}
		}
		matchInfo.parentMatched[i] = match

		if match {
			matched = !pattern.exclusion
		}
	}
	return matched, matchInfo, nil
}

// Exclusions returns true if any of the patterns define exclusions
func (pm *PatternMatcher) Exclusions() bool {
	return pm.exclusions
}

// Patterns returns array of active patterns
func (pm *PatternMatcher) Patterns() []*Pattern {
	return pm.patterns
}

// Pattern defines a single regexp used to filter file paths.
type Pattern struct {
	matchType      matchType
	cleanedPattern string
	dirs           []string
	regexp         *regexp.Regexp
	exclusion      bool
}

type matchType int

const (
	unknownMatch matchType = iota
	exactMatch
	prefixMatch
	suffixMatch
	regexpMatch
)

func (p *Pattern) String() string {
	return p.cleanedPattern
}

// Exclusion returns true if this pattern defines exclusion
func (p *Pattern) Exclusion() bool {
	return p.exclusion
}

func (p *Pattern) match(path string) (bool, error) {
	if p.matchType == unknownMatch {
		if err := p.compile(string(os.PathSeparator)); err != nil {
			return false, filepath.ErrBadPattern
		}
	}

	switch p.matchType {
	case exactMatch:
		return path == p.cleanedPattern, nil
	case prefixMatch:
		// strip trailing **
		return strings.HasPrefix(path, p.cleanedPattern[:len(p.cleanedPattern)-2]), nil
	case suffixMatch:
		// strip leading **
		suffix := p.cleanedPattern[2:]
		if strings.HasSuffix(path, suffix) {
			return true, nil
		}
		// **/foo matches "foo"
		return suffix[0] == os.PathSeparator && path == suffix[1:], nil
	case regexpMatch:
		return p.regexp.MatchString(path), nil
	}

	return false, nil
}

func (p *Pattern) compile(sl string) error {
	regStr := "^"
	pattern := p.cleanedPattern
	// Go through the pattern and convert it to a regexp.
	// We use a scanner so we can support utf-8 chars.
	var scan scanner.Scanner
	scan.Init(strings.NewReader(pattern))

	escSL := sl
	if sl == `\` {
		escSL += `\`
	}

	p.matchType = exactMatch
	for i := 0; scan.Peek() != scanner.EOF; i++ {
		ch := scan.Next()

		if ch == '*' {
			if scan.Peek() == '*' {
				// is some flavor of "**"
				scan.Next()

				// Treat **/ as ** so eat the "/"
				if string(scan.Peek()) == sl {
					scan.Next()
				}

				if scan.Peek() == scanner.EOF {
					// is "**EOF" - to align with .gitignore just accept all
					if p.matchType == exactMatch {
						p.matchType = prefixMatch
					} else {
						regStr += ".*"
						p.matchType = regexpMatch
					}
				} else {
					// is "**"
					// Note that this allows for any # of /'s (even 0) because
					// the .* will eat everything, even /'s
					regStr += "(.*" + escSL + ")?"
					p.matchType = regexpMatch
				}

				if i == 0 {
					p.matchType = suffixMatch
				}
			} else {
				// is "*" so map it to anything but "/"
				regStr += "[^" + escSL + "]*"
				p.matchType = regexpMatch
			}
		} else if ch == '?' {
			// "?" is any char except "/"
			regStr += "[^" + escSL + "]"
			p.matchType = regexpMatch
		} else if shouldEscape(ch) {
			// Escape some regexp special chars that have no meaning
			// in golang's filepath.Match
			regStr += `\` + string(ch)
		} else if ch == '\\' {
			// escape next char. Note that a trailing \ in the pattern
			// will be left alone (but need to escape it)
			if sl == `\` {
				// On windows map "\" to "\\", meaning an escaped backslash,
				// and then just continue because filepath.Match on
				// Windows doesn't allow escaping at all
				regStr += escSL
				continue
			}
			if scan.Peek() != scanner.EOF {
				regStr += `\` + string(scan.Next())
				p.matchType = regexpMatch
			} else {
				regStr += `\`
			}
		} else if ch == '[' || ch == ']' {
			regStr += string(ch)
			p.matchType = regexpMatch
		} else {
			regStr += string(ch)
		}
	}

	if p.matchType != regexpMatch {
		return nil
	}

	regStr += "$"

	re, err := regexp.Compile(regStr)
	if err != nil {
		return err
	}

	p.regexp = re
	p.matchType = regexpMatch
	return nil
}

// Matches returns true if file matches any of the patterns
// and isn't excluded by any of the subsequent patterns.
//
// This implementation is buggy (it only checks a single parent dir against the
// pattern) and will be removed soon. Use MatchesOrParentMatches instead.
func Matches(file string, patterns []string) (bool, error) {
	pm, err := New(patterns)
	if err != nil {
		return false, err
	}
	file = filepath.Clean(file)

	if file == "." {
		// Don't let them exclude everything, kind of silly.
		return false, nil
	}

	return pm.Matches(file)
}

// MatchesOrParentMatches returns true if file matches any of the patterns
// and isn't excluded by any of the subsequent patterns.
func MatchesOrParentMatches(file string, patterns []string) (bool, error) {
	pm, err := New(patterns)
	if err != nil {
		return false, err
	}
	file = filepath.Clean(file)

	if file == "." {
		// Don't let them exclude everything, kind of silly.
		return false, nil
	}

	return pm.MatchesOrParentMatches(file)
}
