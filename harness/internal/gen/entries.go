// Package gen holds seeded generators shared by the monitors.
package gen

import (
	"fmt"
	"math/rand"
	"sort"
	"strings"

	"github.com/mutagen-io/mutagen/pkg/synchronization/core"
)

var (
	D1 = []byte("digest-one-0000000001")
	D2 = []byte("digest-two-0000000002")
	D3 = []byte("digest-three-00000003")
)

func File(d []byte, x bool) *core.Entry {
	return &core.Entry{Kind: core.EntryKind_File, Digest: d, Executable: x}
}
func Link(t string) *core.Entry { return &core.Entry{Kind: core.EntryKind_SymbolicLink, Target: t} }
func Untracked() *core.Entry    { return &core.Entry{Kind: core.EntryKind_Untracked} }
func Problematic(msg string) *core.Entry {
	return &core.Entry{Kind: core.EntryKind_Problematic, Problem: msg}
}
func Dir(contents map[string]*core.Entry) *core.Entry {
	return &core.Entry{Kind: core.EntryKind_Directory, Contents: contents}
}
func Phantom(contents map[string]*core.Entry) *core.Entry {
	return &core.Entry{Kind: core.EntryKind_PhantomDirectory, Contents: contents}
}

// SyncLeaves are the synchronizable scalar entries of the bounded alphabet.
func SyncLeaves() []*core.Entry {
	return []*core.Entry{File(D1, false), File(D1, true), File(D2, false), Link("t1")}
}

// AllLeaves adds the unsynchronizable scalars.
func AllLeaves() []*core.Entry {
	return append(SyncLeaves(), Untracked(), Problematic("p"))
}

// Enumerate lists every entry (nil included, first) of depth <= depth over
// the given names built from the given leaves. A directory at remaining depth
// 0 is the empty directory only.
func Enumerate(depth int, names []string, leaves []*core.Entry) []*core.Entry {
	out := []*core.Entry{nil}
	out = append(out, nonNil(depth, names, leaves)...)
	return out
}

func nonNil(depth int, names []string, leaves []*core.Entry) []*core.Entry {
	var out []*core.Entry
	out = append(out, leaves...)
	if depth == 0 {
		out = append(out, Dir(nil))
		return out
	}
	children := append([]*core.Entry{nil}, nonNil(depth-1, names, leaves)...)
	// all assignments names -> children
	idx := make([]int, len(names))
	for {
		m := map[string]*core.Entry{}
		for i, n := range names {
			if c := children[idx[i]]; c != nil {
				m[n] = c
			}
		}
		if len(m) == 0 {
			m = nil
		}
		out = append(out, Dir(m))
		k := 0
		for k < len(names) {
			idx[k]++
			if idx[k] < len(children) {
				break
			}
			idx[k] = 0
			k++
		}
		if k == len(names) {
			break
		}
	}
	return out
}

// RandomTreeConfig controls random entry trees.
type RandomTreeConfig struct {
	Names      []string
	MaxDepth   int
	Unsync     bool // allow untracked/problematic
	Phantoms   bool // allow phantom directories
	DirBias    float64
	AbsentBias float64
}

// RandomEntry generates a random valid entry (possibly nil at top when allowNil).
func RandomEntry(r *rand.Rand, c RandomTreeConfig, depth int, allowNil bool) *core.Entry {
	if allowNil && r.Float64() < 0.08 {
		return nil
	}
	if depth < c.MaxDepth && r.Float64() < c.DirBias {
		m := map[string]*core.Entry{}
		for _, n := range c.Names {
			if r.Float64() < c.AbsentBias {
				continue
			}
			m[n] = RandomEntry(r, c, depth+1, false)
		}
		if len(m) == 0 {
			m = nil
		}
		if c.Phantoms && r.Float64() < 0.25 {
			return Phantom(m)
		}
		return Dir(m)
	}
	return RandomLeaf(r, c.Unsync)
}

// RandomLeaf returns a random scalar entry.
func RandomLeaf(r *rand.Rand, unsync bool) *core.Entry {
	n := 7
	if unsync {
		n = 10
	}
	switch r.Intn(n) {
	case 0:
		return File(D1, false)
	case 1:
		return File(D1, true)
	case 2:
		return File(D2, false)
	case 3:
		return File(D2, true)
	case 4:
		return File(D3, false)
	case 5:
		return Link("t1")
	case 6:
		return Link("t2")
	case 7:
		return Untracked()
	case 8:
		return Problematic("p")
	default:
		if r.Intn(2) == 0 {
			return Problematic("q")
		}
		return Untracked()
	}
}

// Clone deep-copies an entry tree without using mutagen's Copy.
func Clone(e *core.Entry) *core.Entry {
	if e == nil {
		return nil
	}
	out := &core.Entry{Kind: e.Kind, Executable: e.Executable, Target: e.Target, Problem: e.Problem}
	if e.Digest != nil {
		out.Digest = append([]byte{}, e.Digest...)
	}
	if e.Contents != nil {
		out.Contents = make(map[string]*core.Entry, len(e.Contents))
		for n, c := range e.Contents {
			out.Contents[n] = Clone(c)
		}
	}
	return out
}

// Paths lists every path in the tree (root = ""), sorted.
func Paths(e *core.Entry) []string {
	var out []string
	var walk func(p string, e *core.Entry)
	walk = func(p string, e *core.Entry) {
		if e == nil {
			return
		}
		out = append(out, p)
		for n, c := range e.Contents {
			q := n
			if p != "" {
				q = p + "/" + n
			}
			walk(q, c)
		}
	}
	walk("", e)
	sort.Strings(out)
	return out
}

// At returns the entry at path (nil if absent).
func At(e *core.Entry, path string) *core.Entry {
	if path == "" {
		return e
	}
	for _, comp := range strings.Split(path, "/") {
		if e == nil {
			return nil
		}
		e = e.Contents[comp]
	}
	return e
}

// Set returns a copy of root with the entry at path replaced by v (nil
// deletes). The parent must exist and be a directory kind; otherwise ok=false.
func Set(root *core.Entry, path string, v *core.Entry) (*core.Entry, bool) {
	if path == "" {
		return Clone(v), true
	}
	out := Clone(root)
	comps := strings.Split(path, "/")
	cur := out
	for _, comp := range comps[:len(comps)-1] {
		if cur == nil || (cur.Kind != core.EntryKind_Directory && cur.Kind != core.EntryKind_PhantomDirectory) {
			return nil, false
		}
		cur = cur.Contents[comp]
	}
	if cur == nil || (cur.Kind != core.EntryKind_Directory && cur.Kind != core.EntryKind_PhantomDirectory) {
		return nil, false
	}
	last := comps[len(comps)-1]
	if v == nil {
		delete(cur.Contents, last)
		if len(cur.Contents) == 0 {
			cur.Contents = nil
		}
	} else {
		if cur.Contents == nil {
			cur.Contents = map[string]*core.Entry{}
		}
		cur.Contents[last] = Clone(v)
	}
	return out, true
}

// Mutate applies n random local edits to a copy of e.
func Mutate(r *rand.Rand, e *core.Entry, c RandomTreeConfig, n int) *core.Entry {
	out := Clone(e)
	for i := 0; i < n; i++ {
		paths := Paths(out)
		if len(paths) == 0 {
			out = RandomEntry(r, c, 0, false)
			continue
		}
		p := paths[r.Intn(len(paths))]
		target := At(out, p)
		switch r.Intn(4) {
		case 0: // delete
			if next, ok := Set(out, p, nil); ok {
				out = next
			}
		case 1: // replace by random
			depth := strings.Count(p, "/") + 1
			if p == "" {
				depth = 0
			}
			if next, ok := Set(out, p, RandomEntry(r, c, depth, false)); ok {
				out = next
			}
		default: // add/replace child if directory, else replace leaf
			if target != nil && (target.Kind == core.EntryKind_Directory || target.Kind == core.EntryKind_PhantomDirectory) {
				name := c.Names[r.Intn(len(c.Names))]
				q := name
				if p != "" {
					q = p + "/" + name
				}
				depth := strings.Count(q, "/") + 1
				if depth > c.MaxDepth {
					if next, ok := Set(out, q, RandomLeaf(r, c.Unsync)); ok {
						out = next
					}
				} else if next, ok := Set(out, q, RandomEntry(r, c, depth, false)); ok {
					out = next
				}
			} else if next, ok := Set(out, p, RandomLeaf(r, c.Unsync)); ok {
				out = next
			}
		}
	}
	return out
}

// Describe renders an entry compactly for samples and witnesses.
func Describe(e *core.Entry) string {
	if e == nil {
		return "-"
	}
	switch e.Kind {
	case core.EntryKind_File:
		x := ""
		if e.Executable {
			x = "+x"
		}
		d := string(e.Digest)
		for _, b := range e.Digest {
			if b < 0x20 || b > 0x7e {
				d = fmt.Sprintf("%x", e.Digest)
				break
			}
		}
		if len(d) > 10 {
			d = d[:10]
		}
		return "F(" + d + x + ")"
	case core.EntryKind_SymbolicLink:
		return "L(" + e.Target + ")"
	case core.EntryKind_Untracked:
		return "U"
	case core.EntryKind_Problematic:
		return "P(" + e.Problem + ")"
	case core.EntryKind_Directory, core.EntryKind_PhantomDirectory:
		names := make([]string, 0, len(e.Contents))
		for n := range e.Contents {
			names = append(names, n)
		}
		sort.Strings(names)
		var sb strings.Builder
		if e.Kind == core.EntryKind_PhantomDirectory {
			sb.WriteString("PH{")
		} else {
			sb.WriteString("D{")
		}
		for i, n := range names {
			if i > 0 {
				sb.WriteString(" ")
			}
			sb.WriteString(n + ":" + Describe(e.Contents[n]))
		}
		sb.WriteString("}")
		return sb.String()
	}
	return fmt.Sprintf("?kind%d", e.Kind)
}

// DescribeChanges renders a change list.
func DescribeChanges(cs []*core.Change) []string {
	out := make([]string, 0, len(cs))
	for _, c := range cs {
		out = append(out, fmt.Sprintf("%q: %s -> %s", c.Path, Describe(c.Old), Describe(c.New)))
	}
	sort.Strings(out)
	return out
}
