package main

import (
	"context"
	"fmt"
	"math/rand"
	"sort"
	"strings"

	"google.golang.org/protobuf/types/known/timestamppb"

	"github.com/mutagen-io/mutagen/pkg/selection"
	"github.com/mutagen-io/mutagen/pkg/synchronization"
	"github.com/mutagen-io/mutagen/pkg/synchronization/core"
	"github.com/mutagen-io/mutagen/pkg/synchronization/core/fastpath"

	"verif/internal/gen"
	"verif/internal/scripted"
	"verif/internal/vk"
)

// C40: session selection and listing are exact (oracle shape R: the real
// Manager next to an independent evaluator).

// Documented maxima of Manager.List (manager.go: maximumListConflicts,
// maximumListScanProblems, maximumListTransitionProblems).
const (
	maxListConflicts          = 10
	maxListScanProblems       = 10
	maxListTransitionProblems = 10
)

// ---------------------------------------------------------------- path order

// refLess is the reference comparator: depth-first traversal order with
// children visited in byte-wise lexicographic order of their names, a
// directory before its contents, the root ("") first.
func refLess(a, b string) bool {
	if a == b {
		return false
	}
	if a == "" {
		return true
	}
	if b == "" {
		return false
	}
	ca, cb := strings.Split(a, "/"), strings.Split(b, "/")
	for i := 0; i < len(ca) && i < len(cb); i++ {
		if ca[i] != cb[i] {
			return ca[i] < cb[i]
		}
	}
	return len(ca) < len(cb)
}

// dfsOrder is a second, structural reference: insert the paths into a tree
// and list them by an actual depth-first walk.
func dfsOrder(paths []string) []string {
	type node struct {
		here     bool
		children map[string]*node
	}
	root := &node{children: map[string]*node{}}
	for _, p := range paths {
		n := root
		if p != "" {
			for _, c := range strings.Split(p, "/") {
				next := n.children[c]
				if next == nil {
					next = &node{children: map[string]*node{}}
					n.children[c] = next
				}
				n = next
			}
		}
		n.here = true
	}
	var out []string
	var walk func(prefix string, n *node)
	walk = func(prefix string, n *node) {
		if n.here {
			out = append(out, prefix)
		}
		names := make([]string, 0, len(n.children))
		for c := range n.children {
			names = append(names, c)
		}
		sort.Strings(names)
		for _, c := range names {
			q := c
			if prefix != "" {
				q = prefix + "/" + c
			}
			walk(q, n.children[c])
		}
	}
	walk("", root)
	return out
}

// Name components chosen around the separator's byte value (0x2f): ' ', '!',
// '+', '-', '.' sort below '/', digits and letters above.
var c40Components = []string{"a", "b", "a-b", "a.b", "a b", "a+", "a!", "a0", "ab", "A", "é", "~", "a~", ".a", "-", "0", "aa", "b-"}

func randomPath(rng *rand.Rand, maxDepth int) string {
	d := rng.Intn(maxDepth + 1)
	if d == 0 {
		return ""
	}
	parts := make([]string, d)
	for i := range parts {
		parts[i] = c40Components[rng.Intn(len(c40Components))]
	}
	return strings.Join(parts, "/")
}

func c40PathOrder(r *vk.Run) {
	rng := r.Rand("paths")
	n := r.Pick(400000, 4000000)
	var related int64
	for i := 0; i < n; i++ {
		a := randomPath(rng, 4)
		var b, c string
		switch rng.Intn(4) {
		case 0: // b is the parent or a child of a
			if a != "" && rng.Intn(2) == 0 {
				b = ""
				if i := strings.LastIndexByte(a, '/'); i >= 0 {
					b = a[:i]
				}
			} else if a != "" {
				b = a + "/" + c40Components[rng.Intn(len(c40Components))]
			} else {
				b = randomPath(rng, 2)
			}
			related++
		case 1: // b shares a textual prefix with a (sibling "a-" next to directory "a")
			if a == "" {
				b = randomPath(rng, 2)
			} else {
				b = a + []string{"-", ".", " ", "0", "!", "~", "+"}[rng.Intn(7)]
				if rng.Intn(2) == 0 {
					a = a + "/" + c40Components[rng.Intn(len(c40Components))]
				}
			}
			related++
		default:
			b = randomPath(rng, 4)
		}
		c = randomPath(rng, 4)
		r.Eval(1)
		got, want := fastpath.Less(a, b), refLess(a, b)
		gotR := fastpath.Less(b, a)
		fail := func(law string) {
			r.Violation(map[string]string{"part": "fastpath.Less", "law": law}, fmt.Sprintf("fastpath.Less breaks %s on %q, %q, %q", law, a, b, c),
				map[string]any{"a": a, "b": b, "c": c, "less_ab": got, "less_ba": gotR, "reference_ab": want})
		}
		if got != want || gotR != refLess(b, a) {
			fail("agreement-with-component-wise-reference")
		}
		if fastpath.Less(a, a) {
			fail("irreflexivity")
		}
		if got && gotR {
			fail("asymmetry")
		}
		if a != b && !got && !gotR {
			fail("totality-on-distinct-paths")
		}
		if got && fastpath.Less(b, c) && !fastpath.Less(a, c) {
			fail("transitivity")
		}
		if !got && !fastpath.Less(b, c) && fastpath.Less(a, c) {
			// a >= b and b >= c imply a >= c (transitivity of incomparability + order).
			fail("negative-transitivity")
		}
		if got {
			r.Distinct(fmt.Sprintf("less|%d|%d|%v", strings.Count(a, "/"), strings.Count(b, "/"), strings.HasPrefix(b, a)))
		}
	}
	r.Count("path_pairs", int64(n))
	r.Count("path_pairs_related", related)
	// Sorting whole lists with fastpath.Less equals an actual depth-first walk.
	lists := r.Pick(2000, 40000)
	for i := 0; i < lists; i++ {
		set := map[string]bool{}
		for k := rng.Intn(40); k > 0; k-- {
			set[randomPath(rng, 4)] = true
		}
		var ps []string
		for p := range set {
			ps = append(ps, p)
		}
		sorted := append([]string(nil), ps...)
		sort.Slice(sorted, func(i, j int) bool { return fastpath.Less(sorted[i], sorted[j]) })
		want := dfsOrder(ps)
		r.Eval(1)
		if strings.Join(sorted, "\x00") != strings.Join(want, "\x00") {
			r.Violation(map[string]string{"part": "fastpath.Less", "law": "sort-equals-depth-first-walk"}, "sorting by fastpath.Less differs from a depth-first walk of the same paths",
				map[string]any{"sorted": sorted, "walk": want})
		}
	}
	r.Count("path_lists_sorted", int64(lists))
}

// ---------------------------------------------------------------- selectors

type requirement struct {
	Key  string
	Op   string // exists, !exists, =, ==, !=, in, notin
	Vals []string
}

func (q requirement) matches(labels map[string]string) bool {
	v, has := labels[q.Key]
	in := func() bool {
		for _, x := range q.Vals {
			if x == v {
				return true
			}
		}
		return false
	}
	switch q.Op {
	case "exists":
		return has
	case "!exists":
		return !has
	case "=", "==", "in":
		return has && in()
	case "!=", "notin":
		return !has || !in()
	}
	panic("unknown operator")
}

func (q requirement) render(rng *rand.Rand) string {
	sp := func() string {
		if rng.Intn(3) == 0 {
			return " "
		}
		return ""
	}
	switch q.Op {
	case "exists":
		return q.Key
	case "!exists":
		return "!" + q.Key
	case "=", "==", "!=":
		return q.Key + sp() + q.Op + sp() + q.Vals[0]
	default:
		return q.Key + " " + q.Op + " (" + sp() + strings.Join(q.Vals, sp()+","+sp()) + sp() + ")"
	}
}

var (
	c40Keys   = []string{"app", "tier", "env", "example.com/role", "unused"}
	c40Values = []string{"web", "api", "v1", "prod", "a-b_c.d", ""}
	c40Names  = []string{"", "web", "api", "db", "Web", "web-1", "x1", "émile", "zeta", "alpha"}
)

func randomSelector(rng *rand.Rand) ([]requirement, string) {
	n := 1 + rng.Intn(3)
	var reqs []requirement
	var parts []string
	for i := 0; i < n; i++ {
		q := requirement{Key: c40Keys[rng.Intn(len(c40Keys))]}
		nonEmpty := func() string { return c40Values[rng.Intn(len(c40Values)-1)] }
		switch rng.Intn(7) {
		case 0:
			q.Op = "exists"
		case 1:
			q.Op = "!exists"
		case 2:
			q.Op, q.Vals = "=", []string{c40Values[rng.Intn(len(c40Values))]}
		case 3:
			q.Op, q.Vals = "==", []string{nonEmpty()}
		case 4:
			q.Op, q.Vals = "!=", []string{c40Values[rng.Intn(len(c40Values))]}
		case 5, 6:
			q.Op = "in"
			if rng.Intn(2) == 0 {
				q.Op = "notin"
			}
			for k := 1 + rng.Intn(3); k > 0; k-- {
				q.Vals = append(q.Vals, nonEmpty())
			}
		}
		reqs = append(reqs, q)
		parts = append(parts, q.render(rng))
	}
	sep := ","
	if rng.Intn(3) == 0 {
		sep = ", "
	}
	return reqs, strings.Join(parts, sep)
}

type c40Session struct {
	ID     string
	Name   string
	Labels map[string]string
	Order  int
}

func c40Selection(r *vk.Run, h *scripted.Harness) {
	rng := r.Rand("selection")
	rounds := r.Pick(70, 1500)
	ctx := context.Background()
	var dead []string // identifiers of terminated sessions: well-formed misses
	for round := 0; round < rounds; round++ {
		n := rng.Intn(41)
		if rng.Intn(8) == 0 {
			n = rng.Intn(2)
		}
		fmt.Printf("selection round %d: %d paused sessions\n", round, n)
		var sessions []c40Session
		for i := 0; i < n; i++ {
			s := c40Session{Name: c40Names[rng.Intn(len(c40Names))], Order: i}
			if k := rng.Intn(4); k > 0 {
				s.Labels = map[string]string{}
				for ; k > 0; k-- {
					s.Labels[c40Keys[rng.Intn(len(c40Keys)-1)]] = c40Values[rng.Intn(len(c40Values))]
				}
			}
			id, err := h.Manager().Create(ctx, scripted.LocalURL(fmt.Sprintf("/nonexistent/c40/%d/%d/alpha", round, i)), scripted.LocalURL(fmt.Sprintf("/nonexistent/c40/%d/%d/beta", round, i)),
				&synchronization.Configuration{}, &synchronization.Configuration{}, &synchronization.Configuration{}, s.Name, s.Labels, true, "")
			if err != nil {
				r.Violation(map[string]string{"part": "selection", "check": "create-paused-failed"}, "creating a paused session failed: "+err.Error(), s)
				continue
			}
			s.ID = id
			sessions = append(sessions, s)
		}
		restarted := false
		if rng.Intn(4) == 0 {
			// Listing must not depend on whether sessions were created or loaded.
			if err := h.Restart(nil, nil); err != nil {
				r.Inconclusive("restart-failed")
			}
			restarted = true
		}
		queries := 25
		for q := 0; q < queries; q++ {
			sel := &selection.Selection{}
			expected := map[string]bool{}
			expectErr := false
			kind := ""
			switch k := rng.Intn(10); {
			case k == 0:
				kind = "all"
				sel.All = true
				for _, s := range sessions {
					expected[s.ID] = true
				}
			case k <= 5:
				kind = "specifications"
				for m := 1 + rng.Intn(4); m > 0; m-- {
					var spec string
					switch c := rng.Intn(10); {
					case c < 4 && len(sessions) > 0:
						spec = sessions[rng.Intn(len(sessions))].ID
					case c < 8:
						spec = c40Names[1+rng.Intn(len(c40Names)-1)]
					case c == 8 && len(dead) > 0:
						spec = dead[rng.Intn(len(dead))]
					default:
						spec = []string{"nosuch", "sync_", "web-", "we", "WEB"}[rng.Intn(5)]
					}
					sel.Specifications = append(sel.Specifications, spec)
					hit := false
					for _, s := range sessions {
						if s.ID == spec || s.Name == spec {
							expected[s.ID] = true
							hit = true
						}
					}
					if !hit {
						expectErr = true
					}
				}
			default:
				kind = "labels"
				reqs, text := randomSelector(rng)
				sel.LabelSelector = text
				for _, s := range sessions {
					ok := true
					for _, q := range reqs {
						ok = ok && q.matches(s.Labels)
					}
					if ok {
						expected[s.ID] = true
					}
				}
			}
			r.Eval(1)
			_, states, err := h.Manager().List(ctx, sel, 0)
			witness := func() map[string]any {
				var listed []string
				for _, s := range states {
					listed = append(listed, s.Session.Identifier)
				}
				return map[string]any{"sessions": sessions, "selection": map[string]any{"all": sel.All, "specifications": sel.Specifications, "label_selector": sel.LabelSelector},
					"listed": listed, "error": fmt.Sprint(err), "restarted": restarted}
			}
			sig := func(check string) map[string]string {
				return map[string]string{"part": "selection", "kind": kind, "check": check}
			}
			r.Count("queries:"+kind, 1)
			if expectErr {
				r.Count("queries_expecting_failure", 1)
				if err == nil {
					r.Violation(sig("miss-not-reported"), "a specification matching no session did not make List fail", witness())
				}
				r.Distinct(fmt.Sprintf("sel|%s|err|%d", kind, len(sel.Specifications)))
				continue
			}
			if err != nil {
				r.Violation(sig("unexpected-error"), "List failed although every specification / the selector is satisfiable: "+err.Error(), witness())
				continue
			}
			got := map[string]int{}
			for _, s := range states {
				got[s.Session.Identifier]++
			}
			exact := len(got) == len(expected)
			for id, c := range got {
				if !expected[id] || c != 1 {
					exact = false
				}
			}
			if !exact {
				r.Violation(sig("wrong-set"), fmt.Sprintf("List returned %d states for %d matching sessions (or a wrong / duplicated one)", len(states), len(expected)), witness())
			}
			// Ordered by creation time (the recorded CreationTime of each state).
			for i := 1; i < len(states); i++ {
				a, b := states[i-1].Session.CreationTime, states[i].Session.CreationTime
				if a.Seconds > b.Seconds || (a.Seconds == b.Seconds && a.Nanos > b.Nanos) {
					r.Violation(sig("not-ordered-by-creation-time"), "List is not ordered by session creation time", witness())
					break
				}
			}
			bucket := len(expected)
			if bucket > 3 {
				bucket = 3 + bucket/10
			}
			r.Distinct(fmt.Sprintf("sel|%s|%d|%d|%v", kind, bucket, len(sessions)/10, restarted))
			if len(states) >= 2 {
				r.Count("listings_with_two_or_more_states", 1)
			}
			if round == 0 && q < 3 {
				r.Sample(witness())
			}
		}
		if len(sessions) > 0 {
			if err := h.Manager().Terminate(ctx, &selection.Selection{All: true}, ""); err != nil {
				r.Violation(map[string]string{"part": "selection", "check": "terminate-all-failed"}, "Terminate(all) failed: "+err.Error(), sessions)
			}
			if len(dead) < 50 {
				dead = append(dead, sessions[0].ID)
			}
		}
		r.Count("paused_sessions_created", int64(len(sessions)))
	}
}

// ---------------------------------------------------------------- lists

// c40Scenario builds endpoint contents (below the directory prefix, "" = the
// root itself) whose conflicts and scan problems are known by construction.
type c40Scenario struct {
	Alpha, Beta             *core.Entry
	Conflicts, AScan, BScan []string
}

func c40MakeScenario(rng *rand.Rand, prefix string, want int) c40Scenario {
	// Distinct leaf paths, none a prefix of another.
	leaves := map[string]string{}
	for tries := 0; len(leaves) < want && tries < 600; tries++ {
		p := randomPath(rng, 3)
		if p == "" {
			continue
		}
		clash := false
		for q := range leaves {
			if q == p || strings.HasPrefix(q, p+"/") || strings.HasPrefix(p, q+"/") {
				clash = true
				break
			}
		}
		if clash {
			continue
		}
		leaves[p] = []string{"conflict", "conflict", "conflict", "alpha-problem", "alpha-problem", "beta-problem", "beta-problem", "alpha-only", "beta-only", "equal"}[rng.Intn(10)]
	}
	// Always something to transition on both sides (fresh names per scenario).
	leaves["only-on-alpha"] = "alpha-only"
	leaves["only-on-beta"] = "beta-only"
	sc := c40Scenario{Alpha: gen.Dir(nil), Beta: gen.Dir(nil)}
	put := func(root *core.Entry, p string, e *core.Entry) *core.Entry {
		comps := strings.Split(p, "/")
		for i := 1; i < len(comps); i++ {
			dir := strings.Join(comps[:i], "/")
			if gen.At(root, dir) == nil {
				root, _ = gen.Set(root, dir, gen.Dir(nil))
			}
		}
		root, _ = gen.Set(root, p, e)
		return root
	}
	for p, role := range leaves {
		if prefix != "" {
			p = prefix + "/" + p
		}
		switch role {
		case "conflict":
			sc.Alpha, sc.Beta = put(sc.Alpha, p, gen.File(gen.D1, false)), put(sc.Beta, p, gen.File(gen.D2, false))
			sc.Conflicts = append(sc.Conflicts, p)
		case "alpha-problem":
			sc.Alpha = put(sc.Alpha, p, gen.Problematic("scan problem at "+p))
			sc.AScan = append(sc.AScan, p)
		case "beta-problem":
			sc.Beta = put(sc.Beta, p, gen.Problematic("scan problem at "+p))
			sc.BScan = append(sc.BScan, p)
		case "alpha-only":
			sc.Alpha = put(sc.Alpha, p, gen.File(gen.D3, false))
		case "beta-only":
			sc.Beta = put(sc.Beta, p, gen.File(gen.D3, true))
		case "equal":
			sc.Alpha, sc.Beta = put(sc.Alpha, p, gen.File(gen.D1, true)), put(sc.Beta, p, gen.File(gen.D1, true))
		}
	}
	return sc
}

// c40Lists: conflict / problem lists injected through scripted endpoints. One
// session goes through several record-then-list rounds (a cycle records new
// lists - longer than the maximum, then at or below it, ... - and the session
// is listed twice after each): every listing has to describe the lists
// recorded by the latest cycle.
func c40Lists(r *vk.Run, h *scripted.Harness) {
	rng := r.Rand("lists")
	rounds := r.Pick(50, 1000)
	for round := 0; round < rounds; round++ {
		ctx, cancel := withBound()
		p, err := h.NewPair(ctx, scripted.PairOptions{Mode: core.SynchronizationMode_SynchronizationModeTwoWaySafe})
		if err != nil {
			cancel()
			r.Inconclusive("pair-setup-failed")
			continue
		}
		steps := 3 + rng.Intn(2)
		long := rng.Intn(2) == 0 // alternate lists above / not above the maximum
		for step := 0; step < steps; step++ {
			want := rng.Intn(9)
			if long {
				want = 18 + rng.Intn(28)
			}
			if rng.Intn(6) == 0 {
				want = 9 + rng.Intn(4) // around the truncation boundary
			}
			long = !long
			// Each step lives in its own top-level directory (except the first,
			// which uses the root itself), so that the expected conflict set does
			// not depend on what earlier steps left in the ancestor.
			prefix := ""
			if step > 0 {
				prefix = fmt.Sprintf("r%d", step)
			}
			sc := c40MakeScenario(rng, prefix, want)
			randomProblems := func() []string {
				set := map[string]bool{}
				k := rng.Intn(8)
				if rng.Intn(2) == 0 {
					k = 11 + rng.Intn(15)
				}
				if rng.Intn(5) == 0 {
					k = 9 + rng.Intn(4)
				}
				for len(set) < k {
					set[randomPath(rng, 3)] = true
				}
				var out []string
				for q := range set {
					out = append(out, q)
				}
				return out
			}
			aTrans, bTrans := randomProblems(), randomProblems()
			fmt.Printf("lists round %d step %d: %d conflicts, scan problems %d/%d, transition problems %d/%d\n", round, step, len(sc.Conflicts), len(sc.AScan), len(sc.BScan), len(aTrans), len(bTrans))
			mk := func(paths []string) func([]*core.Change) []*core.Problem {
				return func([]*core.Change) []*core.Problem {
					var out []*core.Problem
					for _, q := range paths {
						out = append(out, &core.Problem{Path: q, Error: "transition problem at " + q})
					}
					return out
				}
			}
			p.A.SetProblems(mk(aTrans))
			p.B.SetProblems(mk(bTrans))
			evs, ok := p.Cycle(ctx, sc.Alpha, sc.Beta)
			if !ok {
				r.Inconclusive("list-cycle-failed")
				break
			}
			aT, bT := false, false
			for _, e := range evs {
				if e.Op == scripted.OpTransition && e.Err == "" {
					if e.Alpha {
						aT = true
					} else {
						bT = true
					}
				}
			}
			if !aT {
				aTrans = nil
			}
			if !bT {
				bTrans = nil
			}
			for listing := 0; listing < 2; listing++ {
				st, err := p.State(ctx)
				if err != nil {
					r.Inconclusive("list-failed")
					break
				}
				r.Eval(1)
				judge := func(list string, all []string, listed []string, excluded uint64, max int) {
					sorted := append([]string(nil), all...)
					sort.Slice(sorted, func(i, j int) bool { return refLess(sorted[i], sorted[j]) })
					wantListed, wantExcluded := sorted, 0
					if len(sorted) > max {
						wantListed, wantExcluded = sorted[:max], len(sorted)-max
					}
					w := map[string]any{"list": list, "all_sorted": sorted, "listed": listed, "excluded": excluded, "documented_maximum": max,
						"record_then_list_step": step, "listing_after_that_cycle": listing + 1}
					sig := func(check string) map[string]string {
						m := map[string]string{"part": "lists", "list": list, "check": check}
						if step > 0 || listing > 0 {
							m["repeated_listing"] = "true"
						}
						return m
					}
					if len(listed)+int(excluded) != len(sorted) {
						r.Violation(sig("count"), fmt.Sprintf("%s (step %d, listing %d): %d listed + %d excluded != %d entries recorded by the latest cycle", list, step, listing+1, len(listed), excluded, len(sorted)), w)
					} else if len(listed) != len(wantListed) || int(excluded) != wantExcluded {
						r.Violation(sig("truncation"), fmt.Sprintf("%s: %d listed / %d excluded, documented maximum %d wants %d / %d", list, len(listed), excluded, max, len(wantListed), wantExcluded), w)
					} else if strings.Join(listed, "\x00") != strings.Join(wantListed, "\x00") {
						inOrder := true
						for i := 1; i < len(listed); i++ {
							if !refLess(listed[i-1], listed[i]) {
								inOrder = false
							}
						}
						if !inOrder {
							r.Violation(sig("order"), list+": not in depth-first path order", w)
						} else {
							r.Violation(sig("wrong-entries"), list+": the listed entries are not the first entries in depth-first order of the current list", w)
						}
					}
					r.Distinct(fmt.Sprintf("list|%s|%d|%v|%d", list, len(listed), excluded > 0, step))
					if excluded > 0 {
						r.Count("truncated_lists", 1)
					}
					if step > 0 && wantExcluded == 0 {
						r.Count("relisted_after_shrinking_to_the_maximum_or_below", 1)
					}
				}
				var cPaths []string
				for _, c := range st.Conflicts {
					cPaths = append(cPaths, c.Root)
				}
				pp := func(ps []*core.Problem) []string {
					var out []string
					for _, q := range ps {
						out = append(out, q.Path)
					}
					return out
				}
				judge("conflicts", sc.Conflicts, cPaths, st.ExcludedConflicts, maxListConflicts)
				judge("alpha-scan-problems", sc.AScan, pp(st.AlphaState.ScanProblems), st.AlphaState.ExcludedScanProblems, maxListScanProblems)
				judge("beta-scan-problems", sc.BScan, pp(st.BetaState.ScanProblems), st.BetaState.ExcludedScanProblems, maxListScanProblems)
				judge("alpha-transition-problems", aTrans, pp(st.AlphaState.TransitionProblems), st.AlphaState.ExcludedTransitionProblems, maxListTransitionProblems)
				judge("beta-transition-problems", bTrans, pp(st.BetaState.TransitionProblems), st.BetaState.ExcludedTransitionProblems, maxListTransitionProblems)
				if round < 2 && step == 0 && listing == 0 {
					r.Sample(map[string]any{"conflicts_listed": cPaths, "excluded_conflicts": st.ExcludedConflicts, "conflicts_total": len(sc.Conflicts)})
				}
			}
			r.Count("record_then_list_steps", 1)
		}
		p.Close(context.Background())
		cancel()
	}
}

// c40CraftedTimes: listing order with creation times chosen by the PRNG.
// Sessions are created (paused) through the real Manager, the manager is shut
// down, every saved session record gets a CreationTime from a small grid
// (seconds s, s+1, s+2, s+40000; nanoseconds 0, 1, 5e8, 999999999 - so that
// later seconds meet smaller nanoseconds, equal seconds meet different
// nanoseconds, and fully equal times occur), and a fresh Manager loads them.
// Every listing has to be sorted by (Seconds, Nanos) lexicographically; sessions
// with fully equal times may come in either order.
func c40CraftedTimes(r *vk.Run, h *scripted.Harness) {
	rng := r.Rand("crafted-times")
	rounds := r.Pick(40, 600)
	ctx := context.Background()
	const base = int64(1700000000)
	secs := []int64{base, base + 1, base + 2, base + 40000}
	nanos := []int32{0, 1, 500000000, 999999999}
	type stamp struct {
		ID    string
		S     int64
		N     int32
		Group string
	}
	less := func(a, b stamp) bool { return a.S < b.S || (a.S == b.S && a.N < b.N) }
	for round := 0; round < rounds; round++ {
		n := 2 + rng.Intn(11)
		var sessions []stamp
		for i := 0; i < n; i++ {
			st := stamp{S: secs[rng.Intn(len(secs))], N: nanos[rng.Intn(len(nanos))], Group: []string{"a", "b"}[rng.Intn(2)]}
			switch {
			case i == 0: // a pair with later seconds and smaller nanoseconds in every round
				st.S, st.N = secs[rng.Intn(3)], nanos[2+rng.Intn(2)]
			case i == 1:
				st.S, st.N = sessions[0].S+1, nanos[rng.Intn(2)]
			case i == 2 && rng.Intn(2) == 0: // fully equal times
				k := rng.Intn(2)
				st.S, st.N = sessions[k].S, sessions[k].N
			}
			id, err := h.Manager().Create(ctx, scripted.LocalURL(fmt.Sprintf("/nonexistent/c40t/%d/%d/alpha", round, i)), scripted.LocalURL(fmt.Sprintf("/nonexistent/c40t/%d/%d/beta", round, i)),
				&synchronization.Configuration{}, &synchronization.Configuration{}, &synchronization.Configuration{}, "", map[string]string{"grp": st.Group}, true, "")
			if err != nil {
				r.Inconclusive("crafted-times-create-failed")
				continue
			}
			st.ID = id
			sessions = append(sessions, st)
		}
		fmt.Printf("crafted-times round %d: %d sessions\n", round, len(sessions))
		rewriteFailed := false
		if err := h.RestartBetween(func() {
			for _, st := range sessions {
				rec, err := scripted.LoadSession(st.ID)
				if err == nil {
					rec.CreationTime = &timestamppb.Timestamp{Seconds: st.S, Nanos: st.N}
					err = scripted.SaveSession(rec)
				}
				if err != nil {
					rewriteFailed = true
				}
			}
		}); err != nil || rewriteFailed {
			r.Inconclusive("crafted-times-rewrite-or-restart-failed")
			h.Manager().Terminate(ctx, &selection.Selection{All: true}, "")
			continue
		}
		byID := map[string]stamp{}
		for _, st := range sessions {
			byID[st.ID] = st
		}
		for q := 0; q < 6; q++ {
			sel := &selection.Selection{}
			expected := map[string]bool{}
			kind := ""
			switch q % 3 {
			case 0:
				kind = "all"
				sel.All = true
				for _, st := range sessions {
					expected[st.ID] = true
				}
			case 1:
				kind = "labels"
				g := []string{"a", "b"}[rng.Intn(2)]
				sel.LabelSelector = "grp=" + g
				if rng.Intn(3) == 0 {
					sel.LabelSelector = "grp in (a,b)"
					g = ""
				}
				for _, st := range sessions {
					if g == "" || st.Group == g {
						expected[st.ID] = true
					}
				}
			default:
				kind = "specifications"
				for _, k := range rng.Perm(len(sessions))[:1+rng.Intn(len(sessions))] {
					sel.Specifications = append(sel.Specifications, sessions[k].ID)
					expected[sessions[k].ID] = true
				}
			}
			r.Eval(1)
			_, states, err := h.Manager().List(ctx, sel, 0)
			var listed []string
			for _, s := range states {
				t := s.Session.CreationTime
				listed = append(listed, fmt.Sprintf("%s@%d.%09d", s.Session.Identifier[:10], t.GetSeconds()-base, t.GetNanos()))
			}
			witness := map[string]any{"crafted": sessions, "selection": map[string]any{"all": sel.All, "specifications": sel.Specifications, "label_selector": sel.LabelSelector}, "listed(id@seconds-base.nanos)": listed, "error": fmt.Sprint(err)}
			sig := func(check string) map[string]string {
				return map[string]string{"part": "crafted-creation-times", "kind": kind, "check": check}
			}
			if err != nil {
				r.Violation(sig("unexpected-error"), "List failed on sessions loaded with crafted creation times: "+err.Error(), witness)
				continue
			}
			exact := len(states) == len(expected)
			for _, s := range states {
				st, ok := byID[s.Session.Identifier]
				if !ok || !expected[s.Session.Identifier] {
					exact = false
				} else if s.Session.CreationTime.GetSeconds() != st.S || s.Session.CreationTime.GetNanos() != st.N {
					r.Inconclusive("crafted-time-not-loaded")
					exact = false
				}
			}
			if !exact {
				r.Violation(sig("wrong-set"), fmt.Sprintf("List returned %d states for %d matching sessions", len(states), len(expected)), witness)
				continue
			}
			for i := 1; i < len(states); i++ {
				a, b := byID[states[i-1].Session.Identifier], byID[states[i].Session.Identifier]
				if less(b, a) {
					r.Violation(sig("not-ordered-by-creation-time"), fmt.Sprintf("List is not ordered by creation time: %d.%09d is listed before %d.%09d", a.S-base, a.N, b.S-base, b.N), witness)
					break
				}
			}
			// What the expected order of this listing exercises.
			var exp []stamp
			for id := range expected {
				exp = append(exp, byID[id])
			}
			sort.Slice(exp, func(i, j int) bool { return less(exp[i], exp[j]) })
			for i := 1; i < len(exp); i++ {
				switch {
				case exp[i-1].S < exp[i].S && exp[i-1].N > exp[i].N:
					r.Count("adjacent_pairs_later_seconds_smaller_nanos", 1)
				case exp[i-1].S == exp[i].S && exp[i-1].N != exp[i].N:
					r.Count("adjacent_pairs_equal_seconds_different_nanos", 1)
				case exp[i-1].S == exp[i].S && exp[i-1].N == exp[i].N:
					r.Count("adjacent_pairs_fully_equal_times", 1)
				}
			}
			r.Count("crafted_time_listings", 1)
			r.Distinct(fmt.Sprintf("crafted|%s|%d", kind, len(exp)))
		}
		if err := h.Manager().Terminate(ctx, &selection.Selection{All: true}, ""); err != nil {
			r.Inconclusive("crafted-times-cleanup-failed")
		}
	}
}

func c40() {
	r := vk.Start("C40", "exploration")
	c40PathOrder(r)
	h := newHarness()
	c40Selection(r, h)
	c40CraftedTimes(r, h)
	c40Lists(r, h)
	h.Close()
	r.Assume("specifications are exact identifiers or names (the prefix matching mentioned in selection.proto is not exercised: the property speaks of matching, and the manager matches exactly)")
	r.Assume("label selectors are drawn from the restricted grammar k, !k, k=v, k==v, k!=v, k in (..), k notin (..) and conjunctions; the expected conflict set is known by construction (both sides created different files at the same path under an empty ancestor, two-way-safe)")
	r.Note("sensitivity_mutants_caught_in_quick_tier", []string{
		"manager.go: listing sorted by session name -> not-ordered-by-creation-time (579 violations)",
		"manager.go: truncation keeps maximum-1 transition problems -> count",
		"manager.go: ExcludedConflicts off by one -> count",
		"manager.go: specification matches a name prefix -> wrong-set, miss-not-reported",
		"fastpath.go: exhausted first path no longer sorts first -> agreement-with-component-wise-reference, totality, negative-transitivity, sort-equals-depth-first-walk",
		"controller.go: currentState hands out the live state, so List truncates it in place -> count with repeated_listing=true (254 violations: stale Excluded* after a cycle recorded a list at or below the maximum)",
		"manager.go: List comparator without the 'Seconds ==' guard (Seconds < || Nanos <) -> not-ordered-by-creation-time part=crafted-creation-times (sessions loaded with crafted creation times)",
		"not caught because equivalent: 'len > maximum' changed to 'len >= maximum' (same list, Excluded 0)",
	})
	if r.Counter("adjacent_pairs_later_seconds_smaller_nanos") == 0 {
		r.Inconclusive("control failed: no listing with later seconds and smaller nanoseconds")
		r.Finish("liveness control failed", 1<<30)
	}
	if r.Counter("truncated_lists") == 0 || r.Counter("listings_with_two_or_more_states") == 0 {
		r.Inconclusive("control failed: no truncated list or no multi-session listing observed")
		r.Finish("liveness control failed", 1<<30)
	}
	r.Finish("fastpath.Less against a component-wise reference and an actual depth-first walk on random (biased to related) paths incl. strict-weak-order laws; real Manager with 0-40 paused sessions (random duplicate names, labels), random specification lists / label selectors judged by an independent evaluator, sometimes after a manager restart; conflict / scan-problem / transition-problem lists injected through scripted endpoints and compared with the reference order and the documented maximum of 10; distinct = distinct (part, kind, size bucket, outcome) signatures", 40)
}
