// Monitor group ctrl: the real synchronization.Manager / controller driven
// through scripted, journaling endpoints (instrument I1, verif/internal/scripted):
// C11 safety halts, C29 lifecycle commands, C40 selection and listing.
package main

import (
	"context"
	"fmt"
	"os"
	"time"

	"github.com/mutagen-io/mutagen/pkg/synchronization"

	"verif/internal/scripted"
	"verif/internal/vk"
)

func main() {
	if os.Getenv("CTRL_ROLE") == "c29worker" {
		c29Worker()
		return
	}
	if os.Getenv("CTRL_ROLE") == "l2self" {
		l2Self()
		return
	}
	vk.Main("ctrl", map[string]func(){
		"C11": c11,
		"C29": c29,
		"C40": c40,
	})
}

// newHarness creates the real manager on MUTAGEN_DATA_DIRECTORY; with
// CTRL_LOG set the manager logs to stderr.
func newHarness() *scripted.Harness {
	var h *scripted.Harness
	var err error
	if os.Getenv("CTRL_LOG") != "" {
		h, err = scripted.NewHarness(os.Stderr)
	} else {
		h, err = scripted.NewHarness(nil)
	}
	if err != nil {
		fmt.Printf("ERROR: cannot create synchronization manager: %v\n", err)
		os.Exit(3)
	}
	return h
}

// bound is the generous upper bound for anything that should take
// milliseconds (DESIGN.md §1: >= 100x nominal, never below 10 s).
const bound = 60 * time.Second

func withBound() (context.Context, context.CancelFunc) {
	return context.WithTimeout(context.Background(), bound)
}

func isHalted(s synchronization.Status) bool {
	return s == synchronization.Status_HaltedOnRootEmptied ||
		s == synchronization.Status_HaltedOnRootDeletion ||
		s == synchronization.Status_HaltedOnRootTypeChange
}
