package main

import (
	"bufio"
	"bytes"
	"context"
	"encoding/json"
	"fmt"
	"hash/fnv"
	"math/rand"
	"os"
	"os/exec"
	"path/filepath"
	"runtime"
	"runtime/pprof"
	"sort"
	"strconv"
	"strings"
	"sync"
	"time"

	"github.com/mutagen-io/mutagen/pkg/selection"
	"github.com/mutagen-io/mutagen/pkg/synchronization"
	"github.com/mutagen-io/mutagen/pkg/synchronization/core"

	"verif/internal/gen"
	"verif/internal/scripted"
	"verif/internal/vk"
)

// C29: session lifecycle commands take effect as documented.
//
// Oracle shape J: random interleavings of lifecycle commands from several
// goroutines against the real Manager whose endpoints are scripted and answer
// with random latencies and random poll events; the verdict is computed from
// the journal (endpoint calls + commands on one logical clock) and from the
// session files. Histories run in worker processes (one Manager per process:
// the data directory is process-global), the parent aggregates.

// ------------------------------------------------------------------ protocol

type c29Finding struct {
	Sig     map[string]string `json:"sig"`
	What    string            `json:"what"`
	Witness any               `json:"witness"`
}

type c29Result struct {
	Start        *int             `json:"start,omitempty"` // announcement before a history runs
	Plan         string           `json:"plan,omitempty"`
	Index        int              `json:"index"`
	Signature    string           `json:"signature,omitempty"`
	Findings     []c29Finding     `json:"findings,omitempty"`
	Inconclusive []string         `json:"inconclusive,omitempty"`
	Counts       map[string]int64 `json:"counts,omitempty"`
	Sample       any              `json:"sample,omitempty"`
	Hang         bool             `json:"hang,omitempty"`
}

// ------------------------------------------------------------------ parent

func c29() {
	r := vk.Start("C29", "exploration")
	total := r.Pick(192, 5000)
	workers := runtime.NumCPU() / 2
	if workers > 8 {
		workers = 8
	}
	if workers < 2 {
		workers = 2
	}
	bin := os.Getenv("VERIF_BIN")
	if bin == "" {
		bin, _ = os.Executable()
	}
	base := os.Getenv("MUTAGEN_DATA_DIRECTORY")
	var mu sync.Mutex
	var wg sync.WaitGroup
	sampled := 0
	for w := 0; w < workers; w++ {
		wg.Add(1)
		go func(w int) {
			defer wg.Done()
			cmd := exec.Command(bin, "-prop", "C29")
			cmd.Env = append(os.Environ(),
				"CTRL_ROLE=c29worker",
				fmt.Sprintf("CTRL_WORKER=%d", w),
				fmt.Sprintf("CTRL_WORKERS=%d", workers),
				fmt.Sprintf("CTRL_TOTAL=%d", total),
				fmt.Sprintf("GOMAXPROCS=%d", []int{16, 4, 2, 8}[w%4]),
				"MUTAGEN_DATA_DIRECTORY="+filepath.Join(base, fmt.Sprintf("worker-%d", w)))
			var stderr bytes.Buffer
			cmd.Stderr = &stderr
			out, err := cmd.StdoutPipe()
			if err != nil {
				r.Inconclusive("worker-pipe")
				return
			}
			if err := cmd.Start(); err != nil {
				r.Inconclusive("worker-start")
				return
			}
			sc := bufio.NewScanner(out)
			sc.Buffer(make([]byte, 1<<20), 64<<20)
			for sc.Scan() {
				var res c29Result
				if err := json.Unmarshal(sc.Bytes(), &res); err != nil {
					mu.Lock()
					fmt.Printf("worker %d: %s\n", w, sc.Text())
					mu.Unlock()
					continue
				}
				mu.Lock()
				if res.Start != nil {
					fmt.Printf("history %d (worker %d): %s\n", *res.Start, w, res.Plan)
					mu.Unlock()
					continue
				}
				mu.Unlock()
				if res.Hang {
					r.Inconclusive("history-hang")
					continue
				}
				r.Eval(1)
				for k, v := range res.Counts {
					r.Count(k, v)
				}
				for _, why := range res.Inconclusive {
					r.Inconclusive(why)
				}
				for _, f := range res.Findings {
					r.Violation(f.Sig, f.What, map[string]any{"history": res.Index, "witness": f.Witness})
				}
				if res.Signature != "" {
					r.Distinct(res.Signature)
				}
				mu.Lock()
				if res.Sample != nil && sampled < 3 {
					sampled++
					r.Sample(res.Sample)
				}
				mu.Unlock()
			}
			werr := cmd.Wait()
			mu.Lock()
			if stderr.Len() > 0 {
				fmt.Printf("---- stderr of worker %d ----\n%s\n", w, stderr.String())
			}
			mu.Unlock()
			if werr != nil {
				s := stderr.String()
				if (strings.Contains(s, "panic:") || strings.Contains(s, "fatal error:")) && strings.Contains(s, "github.com/mutagen-io/mutagen/pkg") {
					r.Violation(map[string]string{"check": "worker-crash"}, "a worker process crashed inside mutagen code while running lifecycle histories", map[string]any{"worker": w, "stderr_tail": tail(s, 6000)})
				} else {
					fmt.Printf("worker %d ended abnormally: %v\n", w, werr)
					r.Inconclusive("worker-ended-abnormally")
				}
			}
		}(w)
	}
	wg.Wait()

	c29ResetOnDisk(r)

	r.Assume("manager restarts are performed with no command in flight (the real daemon holds a lock and stops serving before shutting the manager down); commands run concurrently with each other and with the run loops")
	r.Assume("a paused interval is judged only when no Resume overlaps the Pause call (otherwise the order of the two is not observable); a Reset is judged only when no other command on the session overlaps it")
	r.Assume("Poll calls are not counted as activity of a paused session (the property names scanning, staging and transitions; Connect is included as the precondition of all three)")
	r.Note("sensitivity_mutants_caught_in_quick_tier", []string{
		"controller.go: halt() without '<-c.done' -> worker crash (close of nil channel) and race reports",
		"controller.go: run loop abandons synchronize on cancellation -> a-executing-when-pause-returned (Stage/Supply/Scan), a-started-while-paused, d-call-after-terminate (92 violations)",
		"controller.go: loadSession starts the loop for a paused session -> a-started-while-paused (Connect/Scan, origins Restart/Pause/Create), 490 violations",
		"controller.go: pending flush request answered at the end of the running cycle -> c-flush-without-full-scan (136)",
		"controller.go: flush request answered before staging/transitions -> c-flush-before-cycle-completed (12)",
		"controller.go: archive not removed on terminate -> d-files-left-after-terminate concurrent_reset=false (75)",
		"controller.go: reset leaves the archive of a running session -> e-history-not-cleared-by-reset (72)",
		"controller.go: pause flag not persisted -> b-pause-flag-changed-in-restart, a-started-while-paused (425)",
		"controller.go: Pause returns success without re-saving when the in-memory flag is already set (after a Pause whose save failed) -> b-pause-flag-changed-in-restart save_fault=pause, a-started-while-paused origin=Pause (save-fault histories)",
		"controller.go: flush answered before the transition errors are examined -> c-flush-succeeded-on-failed-cycle (transition-fault histories)",
		"controller.go: resume without the disabled check, or with the check before taking the lifecycle lock -> d-call-after-terminate (Connect), d-files-reappeared-after-terminate, d-terminated-session-listed-after-restart (112-155 violations at seeds 1,2,3,7,42; command-race histories with slow non-preemptable scans)",
		"fix f49a2bf reversed (retried Resume of an already connected session does not re-save) -> b-pause-flag-changed-in-restart before=false save_fault=resume, 4-6 per quick run at seeds 1,2,3,7,42",
		"fix 1b06d96 reversed (reset ignores c.disabled) -> d-files-left-after-terminate concurrent_reset=true, 5-11 per quick run at seeds 1,2,3,7,42",
	})
	controls := []string{"pause_intervals_judged", "flush_wait_succeeded", "terminates_judged", "restarts_with_paused_sessions", "resets_judged", "calls:Stage", "calls:Supply", "calls:Transition", "calls:Scan"}
	for _, c := range controls {
		if r.Counter(c) == 0 {
			fmt.Printf("control %s is zero\n", c)
			r.Inconclusive("control-zero:" + c)
			r.Finish("liveness control failed: "+c, 1<<30)
		}
	}
	r.Finish("random interleavings of Create/Pause/Resume/Flush(wait)/Flush(no wait)/Reset/Terminate/List from 2-4 goroutines over 1-3 sessions plus manager restarts, scripted endpoints with random latencies (non-cancellable for Stage/Supply) and random poll events mutating the simulated roots, GOMAXPROCS in {2,4,8,16}; the journal of every history is judged for (a) no Connect/Scan/Stage/Supply/Transition executing while paused, (b) pause state and session set across restarts, (c) waited flush implies full scans and a completed cycle inside the call, (d) terminate removes files and ends all calls, (e) reset empties the archive; plus reset on real local roots; distinct = distinct interleaving signatures (command order and overlap pattern)", 20)
}

func tail(s string, n int) string {
	if len(s) > n {
		return s[len(s)-n:]
	}
	return s
}

// ------------------------------------------------------------------ worker

func c29Worker() {
	r := vk.Start("C29", "exploration") // only for the seeded PRNG streams
	w, _ := strconv.Atoi(os.Getenv("CTRL_WORKER"))
	n, _ := strconv.Atoi(os.Getenv("CTRL_WORKERS"))
	total, _ := strconv.Atoi(os.Getenv("CTRL_TOTAL"))
	enc := json.NewEncoder(os.Stdout)
	var outMu sync.Mutex
	emit := func(res c29Result) {
		outMu.Lock()
		enc.Encode(res)
		outMu.Unlock()
	}
	h, err := scripted.NewHarness(nil)
	if os.Getenv("CTRL_LOG") != "" {
		h, err = scripted.NewHarness(os.Stderr)
	}
	if err != nil {
		fmt.Fprintf(os.Stderr, "cannot create manager: %v\n", err)
		os.Exit(3)
	}
	hb := scripted.StartHeartbeat(time.Millisecond)
	for i := w; i < total; i += n {
		rng := r.Rand(fmt.Sprintf("history-%d", i))
		hist := newHistory(h, rng, i, r.Quick())
		idx := i
		emit(c29Result{Start: &idx, Index: i, Plan: hist.plan()})
		done := make(chan c29Result, 1)
		go func() { done <- hist.run() }()
		select {
		case res := <-done:
			if !hb.Healthy() {
				// Verdicts are order-based, not time-based; only record it.
				if res.Counts == nil {
					res.Counts = map[string]int64{}
				}
				res.Counts["histories_with_unhealthy_scheduler"] = 1
			}
			emit(res)
		case <-time.After(3 * time.Minute):
			fmt.Fprintf(os.Stderr, "history %d did not finish within 3 minutes; goroutine dump:\n", i)
			pprof.Lookup("goroutine").WriteTo(os.Stderr, 2)
			emit(c29Result{Index: i, Hang: true})
			os.Exit(4)
		}
	}
	h.Close()
	os.Exit(0)
}

// ------------------------------------------------------------------ history

type c29Op struct {
	Kind  string // Pause Resume FlushWait Flush Reset Terminate List Sleep
	Slot  int
	Sleep time.Duration
}

type c29Slot struct {
	Index  int
	Mode   core.SynchronizationMode
	Paused bool // created paused
	A, B   *scripted.Root
	mu     sync.Mutex
	id     string
}

func (s *c29Slot) ID() string {
	s.mu.Lock()
	defer s.mu.Unlock()
	return s.id
}

type resetObs struct {
	Session    string
	Start, End uint64
	ReadSeq    uint64
	ArchiveNil bool
	ReadErr    string
}

type restartObs struct {
	Seq      uint64
	Before   map[string]bool // identifier -> paused, listed by the old manager
	After    map[string]bool // listed by the new manager
	ListErrs []string
}

type history struct {
	h        *scripted.Harness
	idx      int
	j        *scripted.Journal
	rngMu    sync.Mutex
	rng      *rand.Rand // latency / poll decisions (guarded by rngMu)
	slots    []*c29Slot
	programs [][]c29Op
	restarts []time.Duration
	digest   int64
	flavour  string

	obsMu      sync.Mutex
	resets     []resetObs
	restartObs []restartObs
	inconcl    []string
}

func (hs *history) rand(f func(r *rand.Rand)) {
	hs.rngMu.Lock()
	f(hs.rng)
	hs.rngMu.Unlock()
}

func newHistory(h *scripted.Harness, rng *rand.Rand, idx int, quick bool) *history {
	hs := &history{h: h, idx: idx, j: scripted.NewJournal(), rng: rand.New(rand.NewSource(rng.Int63()))}
	nslots := 1 + rng.Intn(3)
	slow := rng.Intn(3) == 0 // some histories have clearly longer non-cancellable calls
	// Every eighth history is directed at command pairs racing on one session:
	// a terminating (or pausing) command that has to wait for the run loop, and
	// a second command (Reset, Resume, Flush, Pause) issued a moment later that
	// has selected the session already and gets the lifecycle lock afterwards.
	directed := idx%8 == 7
	// Every eighth history injects a fault: idx%16 == 3 makes the session-file
	// save of one Pause / Resume fail (the sessions directory is renamed away
	// for the duration of that call) and retries the command; idx%16 == 11
	// makes the endpoints' Transition fail fatally while waited flushes are in
	// flight.
	saveFault, transitionFault := idx%16 == 3, idx%16 == 11
	hs.flavour = "random"
	switch {
	case directed:
		nslots, slow = 3, true
		hs.flavour = "command-race"
	case saveFault:
		nslots = 2
		hs.flavour = "save-fault"
	case transitionFault:
		nslots = 1 + rng.Intn(2)
		hs.flavour = "transition-fault"
	}
	planned := directed || saveFault || transitionFault
	delay := func(op string) time.Duration {
		var d time.Duration
		hs.rand(func(r *rand.Rand) {
			switch op {
			case scripted.OpStage, scripted.OpSupply:
				d = time.Duration(r.Intn(4000)) * time.Microsecond
				if slow {
					d += time.Duration(r.Intn(8000)) * time.Microsecond
				}
			case scripted.OpShutdown, scripted.OpPoll:
				d = 0
			case scripted.OpScan:
				if directed {
					// slow and not preemptable: halt has to wait for it
					d = time.Duration(3000+r.Intn(9000)) * time.Microsecond
				} else if r.Intn(3) > 0 {
					d = time.Duration(r.Intn(3000)) * time.Microsecond
				}
			default:
				if r.Intn(3) > 0 {
					d = time.Duration(r.Intn(3000)) * time.Microsecond
				}
			}
		})
		return d
	}
	for s := 0; s < nslots; s++ {
		slot := &c29Slot{Index: s, Mode: c11Modes[rng.Intn(4)], Paused: !planned && rng.Intn(10) < 2}
		content := func() *core.Entry {
			m := map[string]*core.Entry{}
			for k := 0; k < 3+rng.Intn(2); k++ {
				m[fmt.Sprintf("f%d", k)] = gen.File([]byte(fmt.Sprintf("initial-%d-%d", s, rng.Intn(2))), false)
			}
			return gen.Dir(m)
		}
		poll := func(ctx context.Context, root *scripted.Root) error {
			var wait time.Duration
			var change bool
			var name string
			var del bool
			hs.rand(func(r *rand.Rand) {
				wait = time.Duration(r.Intn(6000)) * time.Microsecond
				change = r.Intn(10) < 7
				name = fmt.Sprintf("f%d", r.Intn(6))
				del = r.Intn(4) == 0
				hs.digest++
			})
			t := time.NewTimer(wait)
			defer t.Stop()
			select {
			case <-ctx.Done():
				return nil
			case <-t.C:
			}
			if !change {
				<-ctx.Done()
				return nil
			}
			hs.rngMu.Lock()
			hs.digest++
			d := hs.digest
			hs.rngMu.Unlock()
			root.Update(func(e *core.Entry) *core.Entry {
				if e == nil || e.Kind != core.EntryKind_Directory {
					return e
				}
				if del && len(e.Contents) >= 3 && e.Contents[name] != nil {
					delete(e.Contents, name)
					return e
				}
				if e.Contents == nil {
					e.Contents = map[string]*core.Entry{}
				}
				e.Contents[name] = gen.File([]byte(fmt.Sprintf("content-%d-%d", idx, d)), false)
				return e
			})
			return nil
		}
		base := fmt.Sprintf("/scripted/c29/h%d/s%d", idx, s)
		slot.A = h.World.NewRoot(base+"/alpha", scripted.Options{Journal: hs.j, Content: content(), PreservesExecutability: true, Delay: delay, Poll: poll, ScanNotPreemptable: directed})
		slot.B = h.World.NewRoot(base+"/beta", scripted.Options{Journal: hs.j, Content: content(), PreservesExecutability: true, Delay: delay, Poll: poll, ScanNotPreemptable: directed})
		hs.slots = append(hs.slots, slot)
	}
	us := func(lo, span int) time.Duration { return time.Duration(lo+rng.Intn(span)) * time.Microsecond }
	if directed {
		for s := 0; s < nslots; s++ {
			first := []string{"Terminate", "Terminate", "Terminate", "Pause"}[rng.Intn(4)]
			second := []string{"Reset", "Reset", "Resume", "Resume", "Resume", "FlushWait", "Pause"}[rng.Intn(7)]
			warm := us(2000, 6000)
			skew := us(0, 2500)
			hs.programs = append(hs.programs,
				[]c29Op{{Kind: "Sleep", Sleep: warm}, {Kind: first, Slot: s}},
				[]c29Op{{Kind: "Sleep", Sleep: warm + skew}, {Kind: second, Slot: s}, {Kind: "Sleep", Sleep: time.Millisecond}, {Kind: []string{"Reset", "Resume"}[rng.Intn(2)], Slot: s}})
		}
		return hs
	}
	if saveFault {
		// Slot 0 suffers the failing saves; slot 1 only sees commands that do
		// not write session files.
		prog := []c29Op{{Kind: "Sleep", Sleep: us(2000, 5000)}}
		switch rng.Intn(3) {
		case 0:
			prog = append(prog, c29Op{Kind: "PauseFault"}, c29Op{Kind: "Pause"})
		case 1:
			prog = append(prog, c29Op{Kind: "Pause"}, c29Op{Kind: "ResumeFault"}, c29Op{Kind: "Sleep", Sleep: us(0, 6000)}, c29Op{Kind: "Resume"})
		default:
			prog = append(prog, c29Op{Kind: "PauseFault"}, c29Op{Kind: "Pause"}, c29Op{Kind: "Sleep", Sleep: us(0, 3000)},
				c29Op{Kind: "ResumeFault"}, c29Op{Kind: "Sleep", Sleep: us(0, 6000)}, c29Op{Kind: "Resume"})
			if rng.Intn(2) == 0 {
				prog = append(prog, c29Op{Kind: "Sleep", Sleep: us(0, 3000)}, c29Op{Kind: "PauseFault"}, c29Op{Kind: "Pause"})
			}
		}
		prog = append(prog, c29Op{Kind: "Sleep", Sleep: us(1000, 4000)})
		hs.programs = append(hs.programs, prog,
			[]c29Op{{Kind: "Sleep", Sleep: us(1000, 4000)}, {Kind: "FlushWait", Slot: 1}, {Kind: "Mutate", Slot: 1}, {Kind: "FlushWait", Slot: 1}, {Kind: "List", Slot: 1}, {Kind: "Flush", Slot: 1}})
		return hs
	}
	if transitionFault {
		for s := 0; s < nslots; s++ {
			warm := us(2000, 5000)
			hs.programs = append(hs.programs,
				[]c29Op{{Kind: "Sleep", Sleep: warm}, {Kind: "FailTransitions", Slot: s}, {Kind: "Mutate", Slot: s}, {Kind: "FlushWait", Slot: s},
					{Kind: "Mutate", Slot: s}, {Kind: "FlushWait", Slot: s}, {Kind: "Sleep", Sleep: us(0, 3000)}, {Kind: "HealTransitions", Slot: s},
					{Kind: "Resume", Slot: s}, {Kind: "Mutate", Slot: s}, {Kind: "FlushWait", Slot: s}, {Kind: "FlushWait", Slot: s}},
				[]c29Op{{Kind: "Sleep", Sleep: warm + us(0, 2000)}, {Kind: "FlushWait", Slot: s}, {Kind: "Mutate", Slot: s}, {Kind: "FlushWait", Slot: s}, {Kind: "Sleep", Sleep: us(0, 4000)}, {Kind: "FlushWait", Slot: s}})
		}
		return hs
	}
	goroutines := 2 + rng.Intn(3)
	kinds := []string{"Pause", "Pause", "Pause", "Resume", "Resume", "Resume", "FlushWait", "FlushWait", "FlushWait", "Flush", "Reset", "Reset", "List", "Sleep", "Sleep", "Sleep", "Terminate"}
	for g := 0; g < goroutines; g++ {
		var prog []c29Op
		for k := 4 + rng.Intn(8); k > 0; k-- {
			op := c29Op{Kind: kinds[rng.Intn(len(kinds))], Slot: rng.Intn(nslots)}
			if op.Kind == "Terminate" && rng.Intn(3) > 0 {
				op.Kind = []string{"FlushWait", "Resume"}[rng.Intn(2)]
			}
			if op.Kind == "Sleep" {
				op.Sleep = time.Duration(rng.Intn(8000)) * time.Microsecond
			}
			prog = append(prog, op)
		}
		hs.programs = append(hs.programs, prog)
	}
	for k := rng.Intn(3); k > 0; k-- {
		hs.restarts = append(hs.restarts, time.Duration(1000+rng.Intn(15000))*time.Microsecond)
	}
	return hs
}

func (hs *history) plan() string {
	var sb strings.Builder
	fmt.Fprintf(&sb, "%s: %d sessions [", hs.flavour, len(hs.slots))
	for _, s := range hs.slots {
		fmt.Fprintf(&sb, " mode=%d paused=%v", s.Mode, s.Paused)
	}
	sb.WriteString(" ]")
	for g, p := range hs.programs {
		fmt.Fprintf(&sb, " g%d:", g)
		for _, op := range p {
			if op.Kind == "Sleep" {
				fmt.Fprintf(&sb, " sleep(%s)", op.Sleep)
			} else {
				fmt.Fprintf(&sb, " %s(%d)", op.Kind, op.Slot)
			}
		}
	}
	fmt.Fprintf(&sb, " restarts=%v", hs.restarts)
	return sb.String()
}

// command runs one manager command under the restart read-lock and journals
// it ("cmd.<kind>") on the same clock as the endpoint calls.
func (hs *history) command(kind string, slot *c29Slot, note string, f func(ctx context.Context, m *synchronization.Manager) error) (ev *scripted.Event, err error) {
	ctx, cancel := withBound()
	defer cancel()
	hs.h.RLock()
	defer hs.h.RUnlock()
	id := ""
	if slot != nil {
		id = slot.ID()
	}
	ev = hs.j.Begin(scripted.Event{Op: "cmd." + kind, Session: id, Note: note})
	err = f(ctx, hs.h.Manager())
	hs.j.Finish(ev, func(e *scripted.Event) {
		if err != nil {
			e.Err = err.Error()
		}
		if slot != nil {
			e.Session = slot.ID()
		}
	})
	if err != nil && ctx.Err() != nil {
		hs.obsMu.Lock()
		hs.inconcl = append(hs.inconcl, "command-hit-the-60s-bound:"+kind)
		hs.obsMu.Unlock()
	}
	return ev, err
}

func (hs *history) create(slot *c29Slot) {
	note := "running"
	if slot.Paused {
		note = "paused"
	}
	hs.command("Create", slot, note, func(ctx context.Context, m *synchronization.Manager) error {
		id, err := m.Create(ctx, scripted.LocalURL(slot.A.Path), scripted.LocalURL(slot.B.Path),
			&synchronization.Configuration{SynchronizationMode: slot.Mode}, &synchronization.Configuration{}, &synchronization.Configuration{},
			fmt.Sprintf("h%ds%d", hs.idx, slot.Index), map[string]string{"history": fmt.Sprint(hs.idx)}, slot.Paused, "")
		if err == nil {
			slot.mu.Lock()
			slot.id = id
			slot.mu.Unlock()
		}
		return err
	})
}

func exists(p string) bool {
	_, err := os.Lstat(p)
	return err == nil
}

func (hs *history) exec(op c29Op) {
	slot := hs.slots[op.Slot]
	sel := func() *selection.Selection { return scripted.ByID(slot.ID()) }
	switch op.Kind {
	case "Sleep":
		time.Sleep(op.Sleep)
	case "PauseFault", "ResumeFault":
		// The session file cannot be saved during this one call: the sessions
		// directory is renamed away and put back afterwards. Journaled as a
		// plain Pause / Resume (note "save-fault") so that the oracles treat it
		// like any other command that may have failed.
		dir := filepath.Dir(func() string { p, _ := scripted.SessionFiles("x"); return p }())
		hs.command(strings.TrimSuffix(op.Kind, "Fault"), slot, "save-fault", func(ctx context.Context, m *synchronization.Manager) error {
			if err := os.Rename(dir, dir+".away"); err != nil {
				return fmt.Errorf("harness could not move the sessions directory: %w", err)
			}
			defer os.Rename(dir+".away", dir)
			if op.Kind == "PauseFault" {
				return m.Pause(ctx, sel(), "")
			}
			return m.Resume(ctx, sel(), "")
		})
	case "FailTransitions":
		err := fmt.Errorf("scripted fatal transition error")
		slot.A.SetTransitionError(err)
		slot.B.SetTransitionError(err)
	case "HealTransitions":
		slot.A.SetTransitionError(nil)
		slot.B.SetTransitionError(nil)
	case "Mutate":
		hs.rngMu.Lock()
		hs.digest++
		d := hs.digest
		hs.rngMu.Unlock()
		slot.A.Update(func(e *core.Entry) *core.Entry {
			if e != nil && e.Kind == core.EntryKind_Directory {
				if e.Contents == nil {
					e.Contents = map[string]*core.Entry{}
				}
				e.Contents[fmt.Sprintf("m%d", d%4)] = gen.File([]byte(fmt.Sprintf("mutated-%d-%d", hs.idx, d)), false)
			}
			return e
		})
	case "Pause":
		hs.command("Pause", slot, "", func(ctx context.Context, m *synchronization.Manager) error { return m.Pause(ctx, sel(), "") })
	case "Resume":
		hs.command("Resume", slot, "", func(ctx context.Context, m *synchronization.Manager) error { return m.Resume(ctx, sel(), "") })
	case "FlushWait":
		hs.command("FlushWait", slot, "", func(ctx context.Context, m *synchronization.Manager) error { return m.Flush(ctx, sel(), "", false) })
	case "Flush":
		hs.command("Flush", slot, "", func(ctx context.Context, m *synchronization.Manager) error { return m.Flush(ctx, sel(), "", true) })
	case "List":
		hs.command("List", slot, "", func(ctx context.Context, m *synchronization.Manager) error {
			_, _, err := m.List(ctx, sel(), 0)
			return err
		})
	case "Reset":
		ev, err := hs.command("Reset", slot, "", func(ctx context.Context, m *synchronization.Manager) error { return m.Reset(ctx, sel(), "") })
		if err == nil {
			a, rerr := scripted.LoadArchive(slot.ID())
			o := resetObs{Session: slot.ID()}
			if rerr != nil {
				o.ReadErr = rerr.Error()
			} else {
				o.ArchiveNil = a.Content == nil
			}
			o.ReadSeq = scripted.Seq()
			o.Start, o.End = ev.Start, ev.End
			hs.obsMu.Lock()
			hs.resets = append(hs.resets, o)
			hs.obsMu.Unlock()
		}
	case "Terminate":
		var sf, af bool
		hs.command("Terminate", slot, "", func(ctx context.Context, m *synchronization.Manager) error {
			err := m.Terminate(ctx, sel(), "")
			if err == nil {
				s, a := scripted.SessionFiles(slot.ID())
				sf, af = exists(s), exists(a)
			}
			return err
		})
		if sf || af {
			hs.j.Finish(hs.j.Begin(scripted.Event{Op: "obs.files-after-terminate", Session: slot.ID(), Note: fmt.Sprintf("session_file=%v archive_file=%v", sf, af)}), nil)
		}
	}
}

func (hs *history) restart(final bool) {
	ev := hs.j.Begin(scripted.Event{Op: "cmd.Restart"})
	o := restartObs{}
	list := func(m *synchronization.Manager) map[string]bool {
		ctx, cancel := withBound()
		defer cancel()
		_, states, err := m.List(ctx, &selection.Selection{All: true}, 0)
		if err != nil {
			o.ListErrs = append(o.ListErrs, err.Error())
			return nil
		}
		out := map[string]bool{}
		for _, s := range states {
			out[s.Session.Identifier] = s.Session.Paused
		}
		return out
	}
	err := hs.h.Restart(func(m *synchronization.Manager) { o.Before = list(m) }, func(m *synchronization.Manager) {
		o.After = list(m)
		o.Seq = scripted.Seq()
		for id, paused := range o.After {
			if paused {
				hs.j.Finish(hs.j.Begin(scripted.Event{Op: "obs.paused-after-restart", Session: id}), nil)
			}
		}
	})
	hs.j.Finish(ev, func(e *scripted.Event) {
		if err != nil {
			e.Err = err.Error()
		}
	})
	hs.obsMu.Lock()
	hs.restartObs = append(hs.restartObs, o)
	if err != nil {
		hs.inconcl = append(hs.inconcl, "restart-failed")
	}
	hs.obsMu.Unlock()
}

func (hs *history) run() c29Result {
	res := c29Result{Index: hs.idx, Counts: map[string]int64{}}
	for _, s := range hs.slots {
		hs.create(s)
		if s.ID() == "" {
			res.Inconclusive = append(res.Inconclusive, "create-failed")
			hs.cleanup()
			return res
		}
	}
	var wg sync.WaitGroup
	for _, prog := range hs.programs {
		wg.Add(1)
		go func(prog []c29Op) {
			defer wg.Done()
			for _, op := range prog {
				hs.exec(op)
			}
		}(prog)
	}
	wg.Add(1)
	go func() {
		defer wg.Done()
		for _, d := range hs.restarts {
			time.Sleep(d)
			hs.restart(false)
		}
	}()
	wg.Wait()
	// Let loops act on whatever state the commands left, restart once more
	// (paused sessions must stay silent, terminated ones must stay gone), dwell.
	time.Sleep(4 * time.Millisecond)
	hs.restart(true)
	time.Sleep(6 * time.Millisecond)
	for _, s := range hs.slots {
		sf, af := scripted.SessionFiles(s.ID())
		hs.j.Finish(hs.j.Begin(scripted.Event{Op: "obs.files-at-end", Session: s.ID(), Note: fmt.Sprintf("session_file=%v archive_file=%v", exists(sf), exists(af))}), nil)
	}
	hs.cleanup()
	events := hs.j.Snapshot()
	hs.judge(events, &res)
	return res
}

// cleanup terminates whatever is left and unregisters the roots. It runs
// before the final journal snapshot so that every loop has stopped.
func (hs *history) cleanup() {
	hs.command("Cleanup", nil, "", func(ctx context.Context, m *synchronization.Manager) error {
		_, states, err := m.List(ctx, &selection.Selection{All: true}, 0)
		if err != nil || len(states) == 0 {
			return err
		}
		return m.Terminate(ctx, &selection.Selection{All: true}, "")
	})
	for _, s := range hs.slots {
		hs.h.World.Remove(s.A.Path)
		hs.h.World.Remove(s.B.Path)
	}
}

// ------------------------------------------------------------------ oracle

func isActivity(op string) bool {
	switch op {
	case scripted.OpConnect, scripted.OpScan, scripted.OpStage, scripted.OpSupply, scripted.OpTransition:
		return true
	}
	return false
}

func brief(evs []scripted.Event, session string, limit int) []scripted.Event {
	var out []scripted.Event
	for _, e := range evs {
		if e.Session == session || e.Op == "cmd.Restart" {
			e.Ancestor, e.Note, e.ChangeDesc = "", "", nil
			out = append(out, e)
		}
	}
	if len(out) > limit {
		out = out[len(out)-limit:]
	}
	return out
}

func (hs *history) judge(events []scripted.Event, res *c29Result) {
	add := func(check string, extra map[string]string, what string, witness any) {
		sig := map[string]string{"check": check}
		for k, v := range extra {
			sig[k] = v
		}
		res.Findings = append(res.Findings, c29Finding{Sig: sig, What: what, Witness: witness})
	}
	res.Inconclusive = append(res.Inconclusive, hs.inconcl...)
	cleanupStart := uint64(1<<63 - 1)
	for _, e := range events {
		if e.Op == "cmd.Cleanup" {
			cleanupStart = e.Start
		}
		if !strings.HasPrefix(e.Op, "cmd.") && !strings.HasPrefix(e.Op, "obs.") {
			res.Counts["calls:"+e.Op]++
		}
	}
	bySession := map[string][]scripted.Event{}
	for _, e := range events {
		if e.Session != "" {
			bySession[e.Session] = append(bySession[e.Session], e)
		}
	}
	overlaps := func(e scripted.Event, lo, hi uint64) bool {
		// e's execution interval [Start, End] (End 0 = never returned) meets [lo, hi].
		return e.Start <= hi && (e.End == 0 || e.End >= lo)
	}
	for id, evs := range bySession {
		var cmds []scripted.Event
		for _, e := range evs {
			if strings.HasPrefix(e.Op, "cmd.") {
				cmds = append(cmds, e)
			}
		}
		// (a)/(b) paused intervals.
		type pausePoint struct {
			p         uint64
			start     uint64
			origin    string
			judgeable bool
		}
		var points []pausePoint
		for _, c := range evs {
			switch {
			case c.Op == "cmd.Pause" && c.Err == "" && c.End != 0:
				points = append(points, pausePoint{p: c.End, start: c.Start, origin: "Pause"})
			case c.Op == "cmd.Create" && c.Err == "" && c.Note == "paused" && c.End != 0:
				points = append(points, pausePoint{p: c.End, start: c.End, origin: "Create(paused)"})
			case c.Op == "obs.paused-after-restart":
				points = append(points, pausePoint{p: c.Start, start: c.Start, origin: "Restart"})
			}
		}
		for _, pt := range points {
			end := cleanupStart
			ambiguous := false
			for _, c := range cmds {
				if c.Op != "cmd.Resume" {
					continue
				}
				if c.Start > pt.p {
					if c.Start < end {
						end = c.Start
					}
				} else if overlaps(c, pt.start, pt.p) {
					ambiguous = true
				}
			}
			if ambiguous || end <= pt.p {
				res.Counts["pause_intervals_ambiguous"]++
				continue
			}
			res.Counts["pause_intervals_judged"]++
			if pt.origin == "Restart" {
				res.Counts["restart_paused_intervals_judged"]++
			}
			for _, e := range evs {
				if !isActivity(e.Op) {
					continue
				}
				if e.Start > pt.p && e.Start < end {
					add("a-started-while-paused", map[string]string{"op": e.Op, "origin": pt.origin},
						fmt.Sprintf("%s call started at %d inside the paused interval (%s returned at %d, next Resume called at %d)", e.Op, e.Start, pt.origin, pt.p, end),
						map[string]any{"session": id, "call": e, "journal": brief(events, id, 200)})
					break
				}
				if e.Start < pt.p && (e.End == 0 || e.End > pt.p) {
					add("a-executing-when-pause-returned", map[string]string{"op": e.Op, "origin": pt.origin},
						fmt.Sprintf("%s call (started %d, returned %d) was still executing when %s returned at %d", e.Op, e.Start, e.End, pt.origin, pt.p),
						map[string]any{"session": id, "call": e, "journal": brief(events, id, 200)})
					break
				}
			}
		}
		// (c) waited flushes.
		for _, f := range cmds {
			if f.Op != "cmd.FlushWait" || f.End == 0 {
				continue
			}
			if f.Err != "" {
				res.Counts["flush_wait_failed"]++
				continue
			}
			res.Counts["flush_wait_succeeded"]++
			for _, alpha := range []bool{true, false} {
				found, complete, failed := false, false, false
				for _, s := range evs {
					if s.Op != scripted.OpScan || s.Alpha != alpha || !s.Full || s.Start <= f.Start || s.End == 0 || s.End >= f.End || s.Err != "" {
						continue
					}
					found = true
					ok := true
					for _, e := range evs {
						if e.Instance == s.Instance && e.Cycle == s.Cycle && (e.Op == scripted.OpStage || e.Op == scripted.OpSupply || e.Op == scripted.OpTransition) {
							if e.End == 0 || e.End >= f.End {
								ok = false
							}
							if e.Err != "" {
								// a fatal staging / transition error: this cycle failed
								ok, failed = false, true
							}
						}
					}
					if ok {
						complete = true
						break
					}
				}
				side := "beta"
				if alpha {
					side = "alpha"
				}
				if !found {
					add("c-flush-without-full-scan", map[string]string{"side": side},
						fmt.Sprintf("Flush(wait) returned success (called %d, returned %d) but no Scan(full=true) on %s started after the call and returned before it", f.Start, f.End, side),
						map[string]any{"session": id, "flush": f, "journal": brief(events, id, 200)})
					break
				} else if !complete && failed {
					add("c-flush-succeeded-on-failed-cycle", map[string]string{"side": side},
						fmt.Sprintf("Flush(wait) returned success at %d although the only cycle(s) that could have answered it had a fatal Stage/Supply/Transition error on %s", f.End, side),
						map[string]any{"session": id, "flush": f, "journal": brief(events, id, 200)})
					break
				} else if !complete {
					add("c-flush-before-cycle-completed", map[string]string{"side": side},
						fmt.Sprintf("Flush(wait) returned success at %d while staging/transition calls of the flushed cycle on %s were still outstanding", f.End, side),
						map[string]any{"session": id, "flush": f, "journal": brief(events, id, 200)})
					break
				}
			}
		}
		// (d) terminate.
		for _, t := range cmds {
			if t.Op != "cmd.Terminate" || t.Err != "" || t.End == 0 {
				continue
			}
			res.Counts["terminates_judged"]++
			for _, e := range evs {
				if (isActivity(e.Op) || e.Op == scripted.OpPoll) && e.Start > t.End {
					add("d-call-after-terminate", map[string]string{"op": e.Op},
						fmt.Sprintf("%s call started at %d after Terminate returned at %d", e.Op, e.Start, t.End),
						map[string]any{"session": id, "call": e, "journal": brief(events, id, 200)})
					break
				}
			}
			for _, e := range evs {
				if e.Op == "obs.files-after-terminate" {
					// A Reset that succeeded while overlapping this Terminate is
					// recorded in the signature: it identifies one specific defect.
					concurrentReset := false
					for _, c := range cmds {
						if c.Op == "cmd.Reset" && c.Err == "" && c.Start < t.End && (c.End == 0 || c.End > t.Start) {
							concurrentReset = true
						}
					}
					add("d-files-left-after-terminate", map[string]string{"files": e.Note, "concurrent_reset": fmt.Sprint(concurrentReset)},
						"after Terminate returned success the persisted state was still on disk: "+e.Note+fmt.Sprintf(" (a successful Reset overlapped the Terminate: %v)", concurrentReset),
						map[string]any{"session": id, "journal": brief(events, id, 100)})
					break
				}
			}
			for _, e := range evs {
				if e.Op == "obs.files-at-end" && e.Start > t.End && e.Note != "session_file=false archive_file=false" {
					already := false
					for _, x := range evs {
						already = already || x.Op == "obs.files-after-terminate"
					}
					if already {
						break // reported above: the files never went away
					}
					racing := ""
					for _, c := range cmds {
						if (c.Op == "cmd.Resume" || c.Op == "cmd.Reset" || c.Op == "cmd.Pause") && c.Start < t.End && (c.End == 0 || c.End > t.Start) {
							racing += strings.TrimPrefix(c.Op, "cmd.") + fmt.Sprintf("(ok=%v) ", c.Err == "")
						}
					}
					add("d-files-reappeared-after-terminate", map[string]string{"files": e.Note},
						"persisted state that was gone when Terminate returned success is on disk again at the end of the history: "+e.Note+"; commands overlapping the Terminate: "+racing,
						map[string]any{"session": id, "journal": brief(events, id, 100)})
					break
				}
			}
			for k, ro := range hs.restartObs {
				if ro.Seq > t.End && ro.After != nil {
					if _, listed := ro.After[id]; listed {
						add("d-terminated-session-listed-after-restart", nil,
							"a session whose Terminate returned success is listed by a restarted manager",
							map[string]any{"session": id, "restart": k, "journal": brief(events, id, 100)})
						break
					}
				}
			}
		}
	}
	// (b) pause flags and session set across restarts.
	for k, ro := range hs.restartObs {
		if ro.Before == nil || ro.After == nil {
			res.Inconclusive = append(res.Inconclusive, "restart-listing-failed")
			continue
		}
		pausedSeen := false
		for id, paused := range ro.Before {
			after, ok := ro.After[id]
			if !ok {
				add("b-session-lost-in-restart", nil, "a session listed before the restart is not listed by the restarted manager",
					map[string]any{"session": id, "restart": k, "before": ro.Before, "after": ro.After})
			} else if after != paused {
				// Name an earlier command on this session whose session-file save
				// failed: it identifies the fault-and-retry defect class.
				fault := "none"
				for _, c := range bySession[id] {
					if strings.HasPrefix(c.Op, "cmd.") && c.End != 0 && c.End < ro.Seq && strings.Contains(c.Err, "unable to save session") {
						fault = strings.ToLower(strings.TrimPrefix(c.Op, "cmd."))
					}
				}
				add("b-pause-flag-changed-in-restart", map[string]string{"before": fmt.Sprint(paused), "save_fault": fault},
					fmt.Sprintf("session listed paused=%v before the restart and paused=%v after it", paused, after),
					map[string]any{"session": id, "restart": k, "journal": brief(events, id, 100)})
			}
			pausedSeen = pausedSeen || paused
		}
		for id := range ro.After {
			if _, ok := ro.Before[id]; !ok {
				add("b-session-appeared-in-restart", nil, "a session not listed before the restart is listed after it",
					map[string]any{"session": id, "restart": k, "before": ro.Before, "after": ro.After})
			}
		}
		res.Counts["restarts"]++
		if pausedSeen {
			res.Counts["restarts_with_paused_sessions"]++
		}
	}
	// Cross-check the listed pause flag with the commands where their order is
	// observable: the last completed Pause/Resume/Create before the restart,
	// provided no other of them overlaps it.
	for _, ro := range hs.restartObs {
		for id, listed := range ro.Before {
			var last *scripted.Event
			evs := bySession[id]
			for i := range evs {
				c := &evs[i]
				if c.End == 0 || c.End > ro.Seq || c.Err != "" {
					continue
				}
				if c.Op == "cmd.Pause" || c.Op == "cmd.Resume" || c.Op == "cmd.Create" {
					if last == nil || c.Start > last.Start {
						last = c
					}
				}
			}
			if last == nil {
				continue
			}
			clean := true
			for _, c := range evs {
				if (c.Op == "cmd.Pause" || c.Op == "cmd.Resume" || c.Op == "cmd.Reset") && c.Start != last.Start && c.Start < ro.Seq && (c.End == 0 || c.End > last.Start) {
					clean = false
				}
			}
			if !clean {
				continue
			}
			want := last.Op == "cmd.Pause" || (last.Op == "cmd.Create" && last.Note == "paused")
			res.Counts["pause_flags_cross_checked"]++
			if listed != want {
				add("b-pause-flag-disagrees-with-commands", map[string]string{"last": last.Op},
					fmt.Sprintf("before a restart the session is listed paused=%v although the last lifecycle command (not overlapped by another) was %s", listed, last.Op),
					map[string]any{"session": id, "journal": brief(events, id, 100)})
			}
		}
	}
	// (e) reset.
	for _, z := range hs.resets {
		evs := bySession[z.Session]
		clean := true
		for _, c := range evs {
			if strings.HasPrefix(c.Op, "cmd.") && c.Op != "cmd.List" && c.Start != z.Start && overlaps(c, z.Start, z.ReadSeq) {
				clean = false
			}
		}
		for _, c := range events {
			if (c.Op == "cmd.Restart" || c.Op == "cmd.Cleanup") && overlaps(c, z.Start, z.ReadSeq) {
				clean = false
			}
		}
		if !clean {
			res.Counts["resets_overlapped"]++
			continue
		}
		// Endpoint instances connected by the Reset itself: connected inside the
		// call and not shut down inside it. (A run loop that was still connecting
		// when the Reset arrived - e.g. right after a manager restart - also
		// connects inside the call, but Reset halts that loop, which shuts its
		// endpoints down, before it clears the archive.)
		var insts []int
		connects := 0
		for _, e := range evs {
			if e.Op == scripted.OpConnect && e.Start > z.Start && e.Start < z.End && e.Err == "" {
				connects++
				old := false
				for _, x := range evs {
					if x.Op == scripted.OpShutdown && x.Instance == e.Instance && x.Start < z.End {
						old = true
					}
				}
				if !old {
					insts = append(insts, e.Instance)
				}
			}
		}
		if connects > 0 && len(insts) == 0 {
			res.Counts["resets_unjudgeable"]++
			continue
		}
		if connects == 0 {
			res.Counts["resets_judged"]++
			res.Counts["resets_judged_paused"]++
			if z.ReadErr != "" {
				add("e-archive-unreadable-after-reset", nil, "the archive could not be read after Reset of a paused session: "+z.ReadErr, map[string]any{"session": z.Session})
			} else if !z.ArchiveNil {
				add("e-archive-not-empty-after-reset", map[string]string{"state": "paused"}, "after Reset of a paused session returned, the archive on disk still holds content",
					map[string]any{"session": z.Session, "journal": brief(events, z.Session, 100)})
			}
			continue
		}
		judged := false
		for _, inst := range insts {
			for _, e := range evs {
				if e.Op == scripted.OpScan && e.Instance == inst && e.Cycle == 1 {
					judged = true
					if !e.AncestorNil {
						add("e-history-not-cleared-by-reset", map[string]string{"state": "running"},
							"the first Scan after a Reset was given a non-empty ancestor: the archive was not empty in between",
							map[string]any{"session": z.Session, "scan": e, "journal": brief(events, z.Session, 100)})
					}
				}
			}
		}
		if judged {
			res.Counts["resets_judged"]++
			res.Counts["resets_judged_running"]++
		}
	}

	// Interleaving signature: commands in order of their call with the overlap
	// pattern (how many other commands were in flight at the call).
	var cmds []scripted.Event
	for _, e := range events {
		if strings.HasPrefix(e.Op, "cmd.") && e.Op != "cmd.Cleanup" {
			cmds = append(cmds, e)
		}
	}
	sort.Slice(cmds, func(i, j int) bool { return cmds[i].Start < cmds[j].Start })
	hsh := fnv.New64a()
	slotOf := map[string]int{}
	for _, s := range hs.slots {
		slotOf[s.ID()] = s.Index
	}
	var line []string
	for i, c := range cmds {
		inflight := 0
		for k := 0; k < i; k++ {
			if cmds[k].End == 0 || cmds[k].End > c.Start {
				inflight++
			}
		}
		tok := fmt.Sprintf("%s%d/%d%v", strings.TrimPrefix(c.Op, "cmd."), slotOf[c.Session], inflight, c.Err == "")
		line = append(line, tok)
		hsh.Write([]byte(tok))
	}
	res.Signature = fmt.Sprintf("%x", hsh.Sum64())
	res.Counts["commands"] += int64(len(cmds))
	res.Counts["endpoint_calls"] += int64(len(events) - len(cmds))
	if hs.idx < 8 {
		res.Sample = map[string]any{"history": hs.idx, "commands_in_call_order(kind slot/inflight ok)": strings.Join(line, " "), "events": len(events)}
	}
}

// ------------------------------------------------------------------ (e) on disk

// c29ResetOnDisk is the disk part of (e): real local roots (the scripted
// handler falls back to the real local protocol handler for unregistered
// paths), two-way-safe, no watching (cycles only on flush): after Reset and a
// waited flush every file that either root held before the reset is still
// there with its content.
func c29ResetOnDisk(r *vk.Run) {
	h := newHarness()
	defer h.Close()
	rng := r.Rand("reset-on-disk")
	n := r.Pick(8, 80)
	for i := 0; i < n; i++ {
		dir := filepath.Join(r.Scratch(), fmt.Sprintf("reset-%d", i))
		ra, rb := filepath.Join(dir, "alpha"), filepath.Join(dir, "beta")
		os.MkdirAll(ra, 0o755)
		os.MkdirAll(rb, 0o755)
		token := 0
		write := func(root, name string) {
			token++
			p := filepath.Join(root, name)
			os.MkdirAll(filepath.Dir(p), 0o755)
			os.WriteFile(p, []byte(fmt.Sprintf("token-%d-%d-%s", i, token, strings.Repeat("x", token%7))), 0o644)
		}
		names := []string{"f0", "f1", "f2", "d/g0", "d/g1", "e/h0"}
		for _, nm := range names {
			switch rng.Intn(4) {
			case 0:
				write(ra, nm)
			case 1:
				write(rb, nm)
			case 2:
				write(ra, nm)
				write(rb, nm) // different content on both sides: conflict
			case 3:
				write(ra, nm)
				data, _ := os.ReadFile(filepath.Join(ra, nm))
				os.MkdirAll(filepath.Dir(filepath.Join(rb, nm)), 0o755)
				os.WriteFile(filepath.Join(rb, nm), data, 0o644)
			}
		}
		fmt.Printf("reset-on-disk case %d in %s\n", i, dir)
		ctx, cancel := withBound()
		cfg := &synchronization.Configuration{SynchronizationMode: core.SynchronizationMode_SynchronizationModeTwoWaySafe, WatchMode: synchronization.WatchMode_WatchModeNoWatch}
		id, err := h.Manager().Create(ctx, scripted.LocalURL(ra), scripted.LocalURL(rb), cfg, &synchronization.Configuration{}, &synchronization.Configuration{}, "", nil, false, "")
		if err != nil {
			cancel()
			fmt.Printf("reset-on-disk: create failed: %v\n", err)
			r.Inconclusive("reset-on-disk-create-failed")
			continue
		}
		sel := scripted.ByID(id)
		fail := func(step string, err error) {
			fmt.Printf("reset-on-disk case %d: %s failed: %v\n", i, step, err)
			r.Inconclusive("reset-on-disk-" + step + "-failed")
		}
		// A session that was just created or resumed accepts flushes only once its
		// run loop has reached the synchronizing state.
		flush := func() error {
			var err error
			for try := 0; try < 5000; try++ {
				if err = h.Manager().Flush(ctx, sel, "", false); err == nil || !strings.Contains(err.Error(), "not currently able to synchronize") {
					return err
				}
				time.Sleep(2 * time.Millisecond)
			}
			return err
		}
		func() {
			defer cancel()
			defer h.Manager().Terminate(context.Background(), sel, "")
			if err := flush(); err != nil {
				fail("first-flush", err)
				return
			}
			// Edits after the first synchronization: deletions, modifications, additions.
			for _, nm := range names {
				root := []string{ra, rb}[rng.Intn(2)]
				switch rng.Intn(5) {
				case 0:
					os.Remove(filepath.Join(root, nm))
				case 1:
					if exists(filepath.Join(root, nm)) {
						write(root, nm)
					}
				case 2:
					write(root, nm+"-new")
				}
			}
			if rng.Intn(2) == 0 {
				if err := flush(); err != nil {
					fail("second-flush", err)
					return
				}
			}
			pausedFirst := rng.Intn(2) == 0
			if pausedFirst {
				if err := h.Manager().Pause(ctx, sel, ""); err != nil {
					fail("pause", err)
					return
				}
			}
			snapshot := func(root string) map[string]string {
				out := map[string]string{}
				filepath.Walk(root, func(p string, info os.FileInfo, err error) error {
					if err == nil && info.Mode().IsRegular() {
						data, _ := os.ReadFile(p)
						rel, _ := filepath.Rel(root, p)
						out[rel] = string(data)
					}
					return nil
				})
				return out
			}
			beforeA, beforeB := snapshot(ra), snapshot(rb)
			if err := h.Manager().Reset(ctx, sel, ""); err != nil {
				fail("reset", err)
				return
			}
			if pausedFirst {
				if a, err := scripted.LoadArchive(id); err == nil && a.Content != nil {
					r.Violation(map[string]string{"check": "e-archive-not-empty-after-reset", "state": "paused", "roots": "real"}, "after Reset of a paused session over real roots the archive on disk still holds content", map[string]any{"case": i})
				}
				if err := h.Manager().Resume(ctx, sel, ""); err != nil {
					fail("resume", err)
					return
				}
			}
			if err := flush(); err != nil {
				fail("flush-after-reset", err)
				return
			}
			r.Eval(1)
			r.Count("reset_on_disk_cases", 1)
			afterA, afterB := snapshot(ra), snapshot(rb)
			for side, pair := range map[string][2]map[string]string{"alpha": {beforeA, afterA}, "beta": {beforeB, afterB}} {
				for name, content := range pair[0] {
					if got, ok := pair[1][name]; !ok || got != content {
						r.Violation(map[string]string{"check": "e-content-lost-after-reset", "side": side}, fmt.Sprintf("file %q of %s (present before Reset) is missing or changed after Reset and a waited flush", name, side),
							map[string]any{"case": i, "before": pair[0], "after": pair[1], "paused_first": pausedFirst})
					}
				}
			}
			r.Distinct(fmt.Sprintf("reset-disk|%d|%d|%v", len(beforeA), len(beforeB), pausedFirst))
		}()
		os.RemoveAll(dir)
	}
}
