package main

import (
	"context"
	"fmt"
	"runtime"
	"sync"
	"time"

	"github.com/mutagen-io/mutagen/pkg/synchronization/core"

	"verif/internal/gen"
	"verif/internal/scripted"
	"verif/internal/vk"
)

// C11: root deletion, root type change and one-sided emptying halt the session.
//
// L2 of DESIGN.md §5/C11: the real controller, scripted snapshots. For every
// case the ancestor is preset by a first cycle with identical snapshots, then
// one cycle runs over (alpha, beta) and the journal, Manager.List, Flush and
// Resume are observed.

var c11Modes = []core.SynchronizationMode{
	core.SynchronizationMode_SynchronizationModeTwoWaySafe,
	core.SynchronizationMode_SynchronizationModeTwoWayResolved,
	core.SynchronizationMode_SynchronizationModeOneWaySafe,
	core.SynchronizationMode_SynchronizationModeOneWayReplica,
}

type c11Case struct {
	Index          int
	A, Alpha, Beta *core.Entry
	Mode           core.SynchronizationMode
	Origin         string
	// Long cases keep the halted session under observation for longer than the
	// controller's automatic reconnect interval (controller.go:
	// autoReconnectInterval = 15 s).
	Long bool
}

func (c c11Case) describe() map[string]string {
	return map[string]string{"index": fmt.Sprint(c.Index), "origin": c.Origin, "ancestor": gen.Describe(c.A),
		"alpha": gen.Describe(c.Alpha), "beta": gen.Describe(c.Beta), "mode": c.Mode.String()}
}

// rootDir builds a root directory holding the first n of the names a, b, c.
func rootDir(n int) *core.Entry {
	m := map[string]*core.Entry{}
	for _, name := range []string{"a", "b", "c"}[:n] {
		m[name] = gen.File(gen.D1, false)
	}
	if n == 0 {
		m = nil
	}
	return gen.Dir(m)
}

// rootKind classifies a root: '-' absent, 'D' directory, 'F' file, 'L' link,
// 'X' unsynchronizable (problematic / untracked).
func rootKind(e *core.Entry) byte {
	if e == nil {
		return '-'
	}
	switch e.Kind {
	case core.EntryKind_Directory:
		return 'D'
	case core.EntryKind_File:
		return 'F'
	case core.EntryKind_SymbolicLink:
		return 'L'
	}
	return 'X'
}

// deletionsOnly reports whether x can be obtained from a by deleting paths
// (every entry of x is present, shallow-equal, in a).
func deletionsOnly(x, a *core.Entry) bool {
	if x == nil {
		return true
	}
	if a == nil || x.Kind != a.Kind || x.Executable != a.Executable || x.Target != a.Target || string(x.Digest) != string(a.Digest) {
		return false
	}
	for n, c := range x.Contents {
		if !deletionsOnly(c, a.Contents[n]) {
			return false
		}
	}
	return true
}

// oneSidedEmptying is the statement of the property's third clause on the
// inputs: the root held at least two entries and exactly one side now reports
// an empty root directory (both roots still being directories).
func oneSidedEmptying(a, alpha, beta *core.Entry) bool {
	if rootKind(a) != 'D' || rootKind(alpha) != 'D' || rootKind(beta) != 'D' || len(a.Contents) < 2 {
		return false
	}
	return (len(alpha.Contents) == 0) != (len(beta.Contents) == 0)
}

// mustHalt is this monitor's own small rule, stated on the inputs: the session
// has to stop when (1) a root was emptied on one side only, or (2) one side
// ("source") deleted its root or changed its type since the last synchronized
// state while the other side still has the ancestor's root kind and differs
// from the ancestor by deletions at most — then the only thing there is to
// propagate is that root deletion / type change — and the mode propagates in
// that direction (two-way: either direction, one-way: alpha to beta only).
// Everything else is left to the unconditional journal rules.
func mustHalt(a, alpha, beta *core.Entry, mode core.SynchronizationMode) (bool, string) {
	if oneSidedEmptying(a, alpha, beta) {
		return true, "emptied"
	}
	ka, kal, kbe := rootKind(a), rootKind(alpha), rootKind(beta)
	if ka == '-' {
		return false, ""
	}
	what := func(k byte) string {
		if k == '-' {
			return "deletion"
		}
		return "typechange"
	}
	twoWay := mode == core.SynchronizationMode_SynchronizationModeTwoWaySafe || mode == core.SynchronizationMode_SynchronizationModeTwoWayResolved
	if kal != ka && kal != 'X' && kbe == ka && deletionsOnly(beta, a) {
		return true, what(kal)
	}
	if twoWay && kbe != ka && kbe != 'X' && kal == ka && deletionsOnly(alpha, a) {
		return true, what(kbe)
	}
	return false, ""
}

func c11Cases(r *vk.Run) []c11Case {
	var out []c11Case
	ancestors := []*core.Entry{nil, gen.File(gen.D1, false), rootDir(0), rootDir(1), rootDir(2), rootDir(3)}
	sides := []*core.Entry{nil, gen.File(gen.D1, false), gen.Problematic("unreadable root"), rootDir(0), rootDir(1), rootDir(2), rootDir(3)}
	if !r.Quick() {
		sides = append(sides, gen.File(gen.D2, false), gen.Untracked(),
			gen.Dir(map[string]*core.Entry{"a": gen.File(gen.D2, false), "b": gen.File(gen.D1, false)}),
			gen.Dir(map[string]*core.Entry{"d": gen.File(gen.D3, false)}))
		ancestors = append(ancestors, gen.Dir(map[string]*core.Entry{"a": gen.File(gen.D1, false), "s": gen.Dir(map[string]*core.Entry{"x": gen.File(gen.D2, true), "y": gen.Link("t1")})}))
	}
	for _, a := range ancestors {
		for _, al := range sides {
			for _, be := range sides {
				for _, m := range c11Modes {
					out = append(out, c11Case{A: a, Alpha: al, Beta: be, Mode: m, Origin: "enumerated"})
				}
			}
		}
	}
	// Seeded random cases over deeper ancestors: one side empties / deletes /
	// retypes the root or deletes all but one entry, the other side keeps the
	// ancestor or deletes or edits something.
	rng := r.Rand("c11-random")
	cfg := gen.RandomTreeConfig{Names: []string{"a", "b", "c", "d"}, MaxDepth: 2, DirBias: 0.4, AbsentBias: 0.2}
	for i := 0; i < r.Pick(120, 1500); i++ {
		m := map[string]*core.Entry{}
		for _, n := range cfg.Names {
			if rng.Float64() < 0.75 {
				m[n] = gen.RandomEntry(rng, cfg, 1, false)
			}
		}
		if len(m) == 0 {
			m = nil
		}
		a := gen.Dir(m)
		pick := func() *core.Entry {
			switch rng.Intn(8) {
			case 0:
				return nil
			case 1:
				return gen.File(gen.D2, false)
			case 2:
				return gen.Dir(nil)
			case 3: // all but one entry deleted
				for n, c := range a.Contents {
					return gen.Dir(map[string]*core.Entry{n: gen.Clone(c)})
				}
				return gen.Dir(nil)
			case 4: // one entry deleted
				x := gen.Clone(a)
				for n := range x.Contents {
					delete(x.Contents, n)
					break
				}
				if len(x.Contents) == 0 {
					x.Contents = nil
				}
				return x
			case 5: // edited
				return gen.Mutate(rng, a, cfg, 1)
			default:
				return gen.Clone(a)
			}
		}
		c := c11Case{A: a, Alpha: pick(), Beta: pick(), Mode: c11Modes[rng.Intn(4)], Origin: "random"}
		if c.Alpha.EnsureValid(false) != nil || c.Beta.EnsureValid(false) != nil || c.A.EnsureValid(true) != nil {
			continue
		}
		out = append(out, c)
	}
	// A few must-halt cases of every kind are repeated with a quiet period
	// longer than the controller's automatic reconnect interval: a safety halt
	// has to stay halted, not come back like an ordinary error does.
	want := map[string]int{"typechange": 3, "deletion": 2, "emptied": 2}
	if !r.Quick() {
		want = map[string]int{"typechange": 8, "deletion": 6, "emptied": 6}
	}
	pick := r.Rand("c11-long")
	for _, i := range pick.Perm(len(out)) {
		c := out[i]
		if must, why := mustHalt(c.A, c.Alpha, c.Beta, c.Mode); must && want[why] > 0 {
			want[why]--
			c.Long, c.Origin = true, "long-quiet"
			out = append(out, c)
		}
	}
	for i := range out {
		out[i].Index = i
	}
	return out
}

// longQuietTicks (1 ms heartbeat ticks; n ticks take at least n ms) spans the
// controller's autoReconnectInterval of 15 s with a margin.
const longQuietTicks = 17500

func c11() {
	r := vk.Start("C11", "exploration")
	h := newHarness()
	hb := scripted.StartHeartbeat(time.Millisecond)
	quiet := int64(r.Pick(25, 120))
	cases := c11Cases(r)
	r.Note("quiet_period_ticks", quiet)
	r.Note("long_quiet_period_ticks", longQuietTicks)
	var printMu sync.Mutex
	ch := make(chan c11Case)
	var wg sync.WaitGroup
	workers := runtime.NumCPU()
	if workers > 16 {
		workers = 16
	}
	for w := 0; w < workers; w++ {
		wg.Add(1)
		go func() {
			defer wg.Done()
			for c := range ch {
				printMu.Lock()
				fmt.Printf("case %d %s: A=%s alpha=%s beta=%s mode=%s\n", c.Index, c.Origin, gen.Describe(c.A), gen.Describe(c.Alpha), gen.Describe(c.Beta), c.Mode)
				printMu.Unlock()
				r.Guard(c.describe(), func() { c11Run(r, h, hb, quiet, c) })
			}
		}()
	}
	// Long cases run beside the pool from the start (they mostly wait).
	for _, c := range cases {
		if c.Long {
			wg.Add(1)
			go func(c c11Case) {
				defer wg.Done()
				printMu.Lock()
				fmt.Printf("case %d %s: A=%s alpha=%s beta=%s mode=%s\n", c.Index, c.Origin, gen.Describe(c.A), gen.Describe(c.Alpha), gen.Describe(c.Beta), c.Mode)
				printMu.Unlock()
				r.Guard(c.describe(), func() { c11Run(r, h, hb, longQuietTicks, c) })
			}(c)
		}
	}
	for _, c := range cases {
		if !c.Long {
			ch <- c
		}
	}
	close(ch)
	wg.Wait()
	hb.Stop()
	r.Note("heartbeat_max_gap_ms", hb.MaxGap().Milliseconds())
	h.Close()
	r.Assume("endpoints are scripted (instrument I1): 'neither endpoint changed' is observed as 'no Stage/Supply/Transition call reached either endpoint'; the real-root variant (L3) belongs to the fsops/recon groups")
	r.Assume("must-halt is decided from the inputs by this monitor's own rule (one-sided emptying; or one side deleted/retyped its root while the other still has the ancestor's root kind and differs from the ancestor by deletions at most, in a direction the mode propagates); all other inputs are judged only by the unconditional journal rules (no transition ever carries a root deletion or root type change)")
	r.Note("sensitivity_mutants_caught_in_quick_tier", []string{
		"controller.go: one-sided-emptying check skipped -> activity-after-one-sided-emptying, not-halted (130 violations)",
		"controller.go: one-sided-emptying check moved after the transitions -> activity-after-one-sided-emptying (65)",
		"safety.go: root type change to a directory not detected -> root-type-change-transition, not-halted",
		"controller.go: run loop does not wait for the user after a safety halt -> not-halted / activity-while-halted",
		"controller.go: safety halt waits only autoReconnectInterval and then reconnects -> activity-while-halted quiet=longer-than-reconnect-interval (14 violations, the 7 long-quiet cases)",
		"controller.go: archive not saved in cycles without transitions -> not-halted, activity-in-must-halt-cycle, activity-after-one-sided-emptying (judged against the agreed first-cycle state, no inconclusives)",
		"safety.go: threshold '< 2' changed to '< 3' -> not-halted / activity-after-one-sided-emptying rule=emptied (54 violations; 27 quick cases have exactly two ancestor entries)",
	})
	if r.Counter("halted_cases") == 0 || r.Counter("cases_with_transitions") == 0 {
		r.Inconclusive("sensor control failed: no halted case or no transition observed")
		r.Finish("liveness control failed", 1<<30)
	}
	r.Finish("every root-level situation (ancestor absent/file/directory with 0-3 entries preset by a first real cycle) x (alpha, beta absent/file/problematic/directory with 0-3 entries) x 4 modes, plus seeded random deeper roots; each case is one real controller cycle through scripted endpoints followed by a quiet period measured in control-heartbeat ticks, a waited Flush, and a Resume; distinct = distinct (root shapes, mode, resulting status, transition seen) signatures", 100)
}

func shapeOf(e *core.Entry) string {
	k := rootKind(e)
	if k == 'D' {
		return fmt.Sprintf("D%d", len(e.Contents))
	}
	return string(k)
}

func c11Run(r *vk.Run, h *scripted.Harness, hb *scripted.Heartbeat, quiet int64, c c11Case) {
	ctx, cancel := context.WithTimeout(context.Background(), bound+time.Duration(quiet)*4*time.Millisecond)
	defer cancel()
	// The "last synchronized state" of the property is what both sides agreed
	// on in the completed first cycle (this monitor's shadow c.A), whether or
	// not the controller managed to record it: a lost archive must show up as
	// a violation of the property below, not as an inconclusive case.
	p, err := h.NewPair(ctx, scripted.PairOptions{Mode: c.Mode, Ancestor: c.A, TolerateArchiveMismatch: true})
	if err != nil {
		fmt.Printf("case %d: first cycle failed: %v\n", c.Index, err)
		r.Inconclusive("first-cycle-failed")
		return
	}
	defer p.Close(context.Background())
	r.Eval(1)
	if !p.PresetOK {
		r.Count("archive_differs_from_agreed_state_after_first_cycle", 1)
	}

	must, why := mustHalt(c.A, c.Alpha, c.Beta, c.Mode)
	emptied := oneSidedEmptying(c.A, c.Alpha, c.Beta)
	witness := func(evs []scripted.Event, extra map[string]string) map[string]any {
		return map[string]any{"case": c.describe(), "must_halt": why, "journal": evs, "extra": extra, "archive_after_first_cycle": p.PresetArchive}
	}
	sig := func(check string) map[string]string {
		m := map[string]string{"check": check, "mode": c.Mode.String(), "rule": why}
		if c.Long {
			m["quiet"] = "longer-than-reconnect-interval"
		}
		return m
	}

	evs, ok := p.Cycle(ctx, c.Alpha, c.Beta)
	if !ok {
		r.Inconclusive("cycle-timeout")
		return
	}
	st, err := p.State(ctx)
	if err != nil {
		r.Inconclusive("list-failed")
		return
	}
	halted := isHalted(st.Status)

	// Unconditional journal rules.
	transitions, staging := 0, 0
	for _, e := range evs {
		switch e.Op {
		case scripted.OpStage, scripted.OpSupply:
			staging++
		case scripted.OpTransition:
			transitions++
			for _, ch := range e.Changes {
				if ch.Path == "" && ch.Old != nil && ch.New == nil {
					r.Violation(sig("root-deletion-transition"), "a Transition call carried the deletion of a synchronization root", witness(evs, nil))
				} else if ch.Path == "" && ch.Old != nil && ch.New != nil && ch.Old.Kind != ch.New.Kind {
					r.Violation(sig("root-type-change-transition"), "a Transition call carried a change of a root's type", witness(evs, nil))
				}
			}
		}
	}
	if emptied && transitions+staging > 0 {
		r.Violation(sig("activity-after-one-sided-emptying"), fmt.Sprintf("the root (>= 2 entries before) was emptied on one side only, yet %d Transition and %d Stage/Supply calls reached the endpoints", transitions, staging), witness(evs, nil))
	}
	if rootKind(c.A) == 'D' && rootKind(c.Alpha) == 'D' && rootKind(c.Beta) == 'D' && (len(c.Alpha.Contents) == 0) != (len(c.Beta.Contents) == 0) {
		// Threshold of the third clause: two entries must halt, one need not.
		r.Count(fmt.Sprintf("one_sided_emptying_with_%d_ancestor_entries:halted=%v", len(c.A.Contents), halted), 1)
	}
	if c.Long {
		r.Count("long_quiet_cases:"+why, 1)
	}
	if must {
		r.Count("must_halt_cases:"+why, 1)
		if transitions+staging > 0 && !emptied {
			r.Violation(sig("activity-in-must-halt-cycle"), fmt.Sprintf("inputs show a root %s that the mode propagates, yet %d Transition and %d Stage/Supply calls reached the endpoints", why, transitions, staging), witness(evs, nil))
		}
		if !halted {
			r.Violation(sig("not-halted"), fmt.Sprintf("inputs show a root %s but the session status is %s", why, st.Status), witness(evs, map[string]string{"status": st.Status.String()}))
		}
	}
	if transitions > 0 {
		r.Count("cases_with_transitions", 1)
	}
	r.Distinct(fmt.Sprintf("%s|%s|%s|%d|%s|%v", shapeOf(c.A), shapeOf(c.Alpha), shapeOf(c.Beta), c.Mode, st.Status, transitions > 0))
	if !halted {
		r.Count("proceeded_cases", 1)
		return
	}
	r.Count("halted_cases", 1)
	r.Count("status:"+st.Status.String(), 1)
	if must {
		r.Sample(map[string]string{"ancestor": gen.Describe(c.A), "alpha": gen.Describe(c.Alpha), "beta": gen.Describe(c.Beta), "mode": c.Mode.String(), "rule": why, "status": st.Status.String()})
	}

	// The session reports a halted status: it has to stay quiet until Resume.
	// Tempt the loop: every poll would now answer "changed".
	p.A.SetAlwaysChanged(true)
	p.B.SetAlwaysChanged(true)
	active := func(evs []scripted.Event) []scripted.Event {
		var out []scripted.Event
		for _, e := range evs {
			if e.Op != scripted.OpShutdown {
				out = append(out, e)
			}
		}
		return out
	}
	mark := scripted.Seq()
	if !hb.WaitTicks(ctx, quiet) {
		r.Inconclusive("quiet-period-timeout")
		return
	}
	if a := active(p.J.Since(mark)); len(a) > 0 {
		r.Violation(sig("activity-while-halted"), fmt.Sprintf("%d endpoint calls (first: %s) started while the session was halted and nobody intervened", len(a), a[0].Op), witness(a, nil))
	}
	if st2, err := p.State(ctx); err == nil && !isHalted(st2.Status) {
		r.Violation(sig("left-halted-state"), fmt.Sprintf("status changed from %s to %s without user intervention", st.Status, st2.Status), witness(p.J.Since(mark), nil))
	}
	// A waited flush must fail.
	fctx, fcancel := context.WithTimeout(ctx, 20*time.Second)
	h.RLock()
	ferr := h.Manager().Flush(fctx, scripted.ByID(p.ID), "", false)
	h.RUnlock()
	fcancel()
	if ferr == nil {
		r.Violation(sig("flush-succeeded-while-halted"), "a waited Flush returned success on a halted session", witness(p.J.Since(mark), nil))
	} else {
		r.Count("flush_failed_as_required", 1)
	}
	hb.WaitTicks(ctx, 5)
	if a := active(p.J.Since(mark)); len(a) > 0 {
		r.Violation(sig("activity-while-halted"), fmt.Sprintf("%d endpoint calls (first: %s) started on a halted session after a failed Flush", len(a), a[0].Op), witness(a, nil))
	}
	// Only Resume (user intervention) produces new Scan calls.
	resumeMark := scripted.Seq()
	h.RLock()
	rerr := h.Manager().Resume(ctx, scripted.ByID(p.ID), "")
	h.RUnlock()
	if rerr != nil {
		r.Count("resume_errors", 1)
	}
	scanned := p.J.WaitFor(ctx, func(evs []scripted.Event) bool {
		na, nb := false, false
		for _, e := range evs {
			if e.Op == scripted.OpScan && e.Start > resumeMark {
				if e.Alpha {
					na = true
				} else {
					nb = true
				}
			}
		}
		return na && nb
	})
	if !scanned {
		if hb.Healthy() {
			r.Violation(sig("resume-produced-no-scan"), "Resume on a halted session produced no new Scan calls within the bound", witness(p.J.Since(resumeMark), map[string]string{"resume_error": fmt.Sprint(rerr)}))
		} else {
			r.Inconclusive("resume-timeout-unhealthy-scheduler")
		}
		return
	}
	r.Count("resumed_and_rescanned", 1)
}
