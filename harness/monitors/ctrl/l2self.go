package main

import (
	"context"
	"fmt"
	"os"

	"github.com/mutagen-io/mutagen/pkg/synchronization/core"

	"verif/internal/gen"
	"verif/internal/scripted"
)

// l2Self is a manual smoke test of scripted.Harness.RunCycle (the export for
// the L2 parts of C04/C05/C18): CTRL_ROLE=l2self <bin>. It judges nothing.
func l2Self() {
	h := newHarness()
	defer h.Close()
	dir := func(m map[string]*core.Entry) *core.Entry { return gen.Dir(m) }
	a := dir(map[string]*core.Entry{"a": gen.File(gen.D1, false), "b": gen.File(gen.D1, false)})
	alpha := dir(map[string]*core.Entry{"a": gen.File(gen.D2, false), "b": gen.File(gen.D1, false), "c": dir(map[string]*core.Entry{"x": gen.File(gen.D3, true)})})
	beta := dir(map[string]*core.Entry{"a": gen.File(gen.D1, false)})
	for _, partial := range []bool{false, true} {
		spec := scripted.CycleSpec{Ancestor: a, Alpha: alpha, Beta: beta, Mode: core.SynchronizationMode_SynchronizationModeTwoWaySafe,
			AlphaPreservesExecutability: true, BetaPreservesExecutability: true, FollowUp: true}
		if partial {
			spec.Outcome = func(alphaSide bool, i int, c *core.Change) *core.Entry {
				if !alphaSide && c.Path == "c" {
					return dir(nil) // partial creation: directory made, file missing
				}
				return c.New
			}
		}
		ctx, cancel := withBound()
		res, err := h.RunCycle(ctx, spec)
		cancel()
		if err != nil {
			fmt.Println("RunCycle failed:", err)
			os.Exit(1)
		}
		fmt.Printf("partial=%v archive=%s alpha=%s beta=%s\n", partial, gen.Describe(res.Archive.Content), gen.Describe(res.AlphaAfter), gen.Describe(res.BetaAfter))
		for _, e := range res.Cycle {
			fmt.Printf("  cycle: %s alpha=%v full=%v %v\n", e.Op, e.Alpha, e.Full, e.ChangeDesc)
		}
		for _, e := range res.Next {
			fmt.Printf("  next : %s alpha=%v %v\n", e.Op, e.Alpha, e.ChangeDesc)
		}
		fmt.Printf("  next archive=%s\n", gen.Describe(res.NextArchive.Content))
	}
	_ = context.Background
}
