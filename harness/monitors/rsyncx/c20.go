package main

import (
	"bytes"
	"errors"
	"fmt"
	"io"
	"os"
	"path/filepath"
	"sort"
	"sync"

	"google.golang.org/protobuf/proto"

	"github.com/mutagen-io/mutagen/pkg/synchronization/rsync"

	"verif/internal/vk"
)

var errInjected = errors.New("injected transmission failure")

const (
	transient  = "transient"  // the transport fails exactly once, at call index k
	persistent = "persistent" // the transport fails at call index k and at every later call
)

// siteOf names, from the fault-free operation list alone (black box), which
// transmit site of Deltify sends operation k.
func siteOf(ops []*rsync.Operation, k int, emptyBase bool) string {
	last := k == len(ops)-1
	if isData(ops[k]) {
		switch {
		case emptyBase:
			return "whole-target-chunk"
		case last:
			return "final-data"
		case !isData(ops[k+1]):
			return "data-before-match"
		default:
			return "data-run"
		}
	}
	switch {
	case last:
		return "final-block-flush"
	case isData(ops[k+1]):
		return "block-flush-before-data"
	default:
		return "pending-block-flush" // a non-adjacent block match follows
	}
}

// faultyDeltify runs the real Deltify with a transmitter that fails at call
// index k and records what it delivered.
func faultyDeltify(e *rsync.Engine, target []byte, sig *rsync.Signature, max uint64, k int, mode string) (delivered []*rsync.Operation, err error, hit bool, callsAfter int) {
	call := 0
	err = e.Deltify(bytes.NewReader(target), sig, max, func(o *rsync.Operation) error {
		i := call
		call++
		if i == k || (mode == persistent && i > k) {
			if i == k {
				hit = true
			} else {
				callsAfter++
			}
			return errInjected
		}
		if i > k {
			callsAfter++
		}
		delivered = append(delivered, proto.Clone(o).(*rsync.Operation))
		return nil
	})
	return
}

type c20case struct {
	Base, Target []byte
	BlockSize    uint64
	Max          uint64
}

// c20engineCase enumerates every failure index and both failure modes for one input.
func c20engineCase(r *vk.Run, col *collector, e *rsync.Engine, c c20case, sig *rsync.Signature, sites map[string]int) (runs int) {
	ops := e.DeltifyBytes(c.Target, sig, c.Max)
	// The fault-free delta must itself be right, else nothing can be concluded about faults.
	if got, err := e.PatchBytes(c.Base, sig, ops); err != nil || !bytes.Equal(got, c.Target) {
		r.Inconclusive("fault-free-delta-wrong(C19)")
		return 0
	}
	emptyBase := len(sig.Hashes) == 0
	for k := range ops {
		site := siteOf(ops, k, emptyBase)
		for _, mode := range []string{transient, persistent} {
			delivered, err, hit, callsAfter := faultyDeltify(e, c.Target, sig, c.Max, k, mode)
			runs++
			if !hit {
				r.Inconclusive("fault-index-not-reached")
				continue
			}
			sites[site+"|"+mode]++
			if err != nil {
				continue // the failure was reported
			}
			got, perr := e.PatchBytes(c.Base, sig, delivered)
			if perr == nil && bytes.Equal(got, c.Target) {
				sites["success-and-receiver-complete|"+site]++
				continue
			}
			w := map[string]any{
				"base": show(c.Base), "target": show(c.Target), "block_size": c.BlockSize, "max_data_op": c.Max,
				"fault_free_operations": opsString(ops), "failed_call_index": k, "failed_operation": opsString(ops[k : k+1]),
				"mode": mode, "delivered_operations": opsString(delivered), "receiver_reconstructs": show(got),
				"transmitter_calls_after_the_failure": callsAfter, "route": "Engine.Deltify",
			}
			if perr != nil {
				w["receiver_patch_error"] = perr.Error()
			}
			col.add(map[string]string{"rule": "success-despite-failed-transmit", "site": site, "mode": mode, "route": "deltify"},
				len(c.Base)+len(c.Target), fmt.Sprintf("%s|%s|%d|%d|%d", c.Base, c.Target, c.BlockSize, c.Max, k),
				fmt.Sprintf("Deltify returned nil although transmitting operation %d (%s, site %s) failed (%s); receiver reconstructs %s instead of %s",
					k, opsString(ops[k:k+1]), site, mode, show(got), show(c.Target)), w)
		}
	}
	return runs
}

func c20() {
	r := vk.Start("C20", "fault_enumeration")
	col := newCollector()
	var mu sync.Mutex
	sites := map[string]int{}
	merge := func(local map[string]int) {
		mu.Lock()
		for k, v := range local {
			sites[k] += v
		}
		mu.Unlock()
	}

	// Part A1: bounded exhaustive inputs, every fault index, both modes.
	maxLen := r.Pick(5, 6)
	strs := abStrings(maxLen)
	maxes := []uint64{1, 2, 0}
	r.Note("bounded_space", fmt.Sprintf("%d strings over {a,b} up to length %d as base and target, block sizes 1..len(base)+1 and automatic, maximum data sizes {1,2,default}; for each: every operation index as failure point x {transient, persistent}", len(strs), maxLen))
	var wg sync.WaitGroup
	for w := 0; w < workers; w++ {
		wg.Add(1)
		go func(w int) {
			defer wg.Done()
			e := rsync.NewEngine()
			local := map[string]int{}
			runs := 0
			for bi := w; bi < len(strs); bi += workers {
				base := strs[bi]
				for bs := uint64(0); bs <= uint64(len(base))+1; bs++ {
					sig := e.BytesSignature(base, bs)
					for _, target := range strs {
						for _, max := range maxes {
							c := c20case{Base: base, Target: target, BlockSize: bs, Max: max}
							r.Guard(map[string]any{"base": string(base), "target": string(target), "bs": bs, "max": max}, func() {
								runs += c20engineCase(r, col, e, c, sig, local)
							})
						}
					}
				}
			}
			r.Eval(runs)
			r.Count("engine_fault_runs_exhaustive", int64(runs))
			merge(local)
		}(w)
	}
	wg.Wait()

	// Part A2: seeded random larger inputs with repeated blocks and splices.
	nRandom := r.Pick(160, 4000)
	for w := 0; w < workers; w++ {
		wg.Add(1)
		go func(w int) {
			defer wg.Done()
			e := rsync.NewEngine()
			local := map[string]int{}
			runs := 0
			for idx := w; idx < nRandom; idx += workers {
				rng := r.Rand(fmt.Sprintf("engine-%d", idx))
				base := randomBlob(rng, rng.Intn(1<<uint(2+rng.Intn(10))))
				target := splice(rng, base, rng.Intn(5))
				if len(target) > 8192 {
					target = target[:8192]
				}
				bs := uint64(1 + rng.Intn(1<<uint(1+rng.Intn(7))))
				max := uint64(1 + rng.Intn(1<<uint(3+rng.Intn(8))))
				c := c20case{Base: base, Target: target, BlockSize: bs, Max: max}
				fmt.Printf("case C20 engine idx=%d base=%d target=%d bs=%d max=%d\n", idx, len(base), len(target), bs, max)
				r.Guard(map[string]any{"idx": idx, "base": show(base), "target": show(target), "bs": bs, "max": max}, func() {
					sig := e.BytesSignature(base, bs)
					runs += c20engineCase(r, col, e, c, sig, local)
				})
			}
			r.Eval(runs)
			r.Count("engine_fault_runs_random", int64(runs))
			merge(local)
		}(w)
	}
	wg.Wait()

	// Part B: the same through rsync.Transmit over files.
	col.flush(r)
	c20transmit(r, col, merge)
	col.flush(r)

	keys := make([]string, 0, len(sites))
	for k := range sites {
		keys = append(keys, k)
	}
	sort.Strings(keys)
	hit := map[string]int{}
	for _, k := range keys {
		hit[k] = sites[k]
		r.Distinct(k)
	}
	r.Note("faults_hit_by_site_and_mode", hit)
	// Liveness of the sensor: every transmit site must have been reached by a fault.
	floor := 20
	for _, site := range []string{"whole-target-chunk", "final-data", "data-before-match", "data-run", "final-block-flush", "block-flush-before-data", "pending-block-flush"} {
		for _, mode := range []string{transient, persistent} {
			if sites[site+"|"+mode] == 0 {
				r.Inconclusive("site-never-faulted:" + site + "|" + mode)
				floor = 1 << 30
				fmt.Printf("ERROR: property=C20 no fault was injected at site %s (%s): the workload does not reach it\n", site, mode)
			}
			if sites["tx|"+site+"|"+mode] == 0 {
				r.Inconclusive("site-never-faulted-through-Transmit:" + site + "|" + mode)
				floor = 1 << 30
				fmt.Printf("ERROR: property=C20 no fault was injected at site %s (%s) through Transmit\n", site, mode)
			}
		}
	}
	for _, key := range []string{"txbuf|buffered-write-in-encode|transient", "txbuf|buffered-write-in-encode|persistent",
		"txbuf|buffered-write-in-finalize|transient", "txbuf|buffered-write-in-finalize|persistent", "txbuf|finalize-itself|transient"} {
		if sites[key] == 0 {
			r.Inconclusive("site-never-faulted:" + key)
			floor = 1 << 30
			fmt.Printf("ERROR: property=C20 no fault was injected at %s\n", key)
		}
	}
	r.Assume("only the transport (the transmitter callback / the Encoder) fails; reading the target never fails (Transmit documents read errors as non-terminal and reports them in-band)")
	r.Assume("the failing call does not deliver its operation; a transient transport accepts every later call; a buffered transport loses the message whose wire write failed and reports the failure from the Encode or Finalize call that performed the write")
	r.Finish("for every input (bounded exhaustive over {a,b}, seeded random with repeated blocks and splices, file sets through Transmit -> scripted Encoder -> DecodeToReceiver -> real receiver) the fault-free run fixes the call sequence; then every call index k is failed once (transient) or from k on (persistent); held = error returned or receiver content equals the target; distinct = distinct (route, transmit site, mode) pairs hit plus distinct success-with-complete-receiver sites; the Transmit route is also driven with buffered Encoders (capacity 2/3/7 and 1000: Encode only queues, the wire writes happen when the buffer fills and in Finalize) failing every wire write index and Finalize itself", floor)
}

// ---------------------------------------------------------------------------
// Part B: Transmit over files.

type txFile struct {
	Name    string
	Base    []byte
	HasBase bool
	Target  []byte
	BS      uint64
}

// scriptedEncoder is the transport between Transmit's encoding receiver and
// the decoding side. It fails at message index k.
type scriptedEncoder struct {
	k         int
	mode      string
	call      int
	hit       bool
	queue     []*rsync.Transmission
	finalized int
}

func (s *scriptedEncoder) Encode(t *rsync.Transmission) error {
	i := s.call
	s.call++
	if s.k >= 0 && (i == s.k || (s.mode == persistent && i > s.k)) {
		if i == s.k {
			s.hit = true
		}
		return errInjected
	}
	s.queue = append(s.queue, proto.Clone(t).(*rsync.Transmission))
	return nil
}

func (s *scriptedEncoder) Finalize() error { s.finalized++; return nil }

// bufferedEncoder models a buffered transport (the remote endpoints' encoder
// behaves like this): Encode only queues a copy of the message; the real
// writes to the wire happen when the buffer is full and, for whatever is
// still buffered at the end, in Finalize. Wire write index k fails (once, or
// from k on); k == -2 makes Finalize itself fail after a complete flush.
type bufferedEncoder struct {
	capacity   int
	k          int
	mode       string
	failFinal  bool
	buffer     []*rsync.Transmission
	wire       []*rsync.Transmission // what reached the other side
	writes     int                   // wire writes attempted so far
	inFinalize []bool                // per wire write of this run: did it happen inside Finalize?
	hit        bool
	hitInFinal bool
	finalized  int
}

func (b *bufferedEncoder) flush(final bool) error {
	for len(b.buffer) > 0 {
		m := b.buffer[0]
		b.buffer = b.buffer[1:]
		i := b.writes
		b.writes++
		b.inFinalize = append(b.inFinalize, final)
		if b.k >= 0 && (i == b.k || (b.mode == persistent && i > b.k)) {
			if i == b.k {
				b.hit, b.hitInFinal = true, final
			}
			return errInjected // the failed message is lost; later ones stay buffered
		}
		b.wire = append(b.wire, m)
	}
	return nil
}

func (b *bufferedEncoder) Encode(t *rsync.Transmission) error {
	b.buffer = append(b.buffer, proto.Clone(t).(*rsync.Transmission))
	if len(b.buffer) >= b.capacity {
		return b.flush(false)
	}
	return nil
}

func (b *bufferedEncoder) Finalize() error {
	b.finalized++
	if err := b.flush(true); err != nil {
		return err
	}
	if b.failFinal {
		b.hit, b.hitInFinal = true, true
		return errInjected
	}
	return nil
}

type queueDecoder struct {
	queue []*rsync.Transmission
}

func (d *queueDecoder) Decode(t *rsync.Transmission) error {
	if len(d.queue) == 0 {
		return io.ErrUnexpectedEOF
	}
	m := d.queue[0]
	d.queue = d.queue[1:]
	t.Done, t.ExpectedSize, t.Error = m.Done, m.ExpectedSize, m.Error
	if m.Operation != nil {
		if t.Operation == nil {
			t.Operation = &rsync.Operation{}
		}
		t.Operation.Start, t.Operation.Count = m.Operation.Start, m.Operation.Count
		t.Operation.Data = append(t.Operation.Data[:0], m.Operation.Data...)
	}
	return nil
}

func (d *queueDecoder) Finalize() error { return nil }

// memSinker stages received files in memory.
type memSinker struct {
	files map[string]*bytes.Buffer
	open  int
	sinks int
}

type memSink struct {
	s *memSinker
	b *bytes.Buffer
}

func (m memSink) Write(p []byte) (int, error) { return m.b.Write(p) }
func (m memSink) Close() error                { m.s.open--; return nil }

func (s *memSinker) Sink(path string) (io.WriteCloser, error) {
	b := &bytes.Buffer{}
	s.files[path] = b
	s.open++
	s.sinks++
	return memSink{s, b}, nil
}

func txPool(r *vk.Run) []txFile {
	e := rsync.NewEngine()
	var pool []txFile
	// Small inputs whose deltas hold at least two operations: these reach the
	// block coalescing, flush-before-data and final flush sites.
	strs := abStrings(r.Pick(4, 5))
	for _, base := range strs {
		for bs := uint64(1); bs <= uint64(len(base)); bs++ {
			sig := e.BytesSignature(base, bs)
			for _, target := range strs {
				if ops := e.DeltifyBytes(target, sig, 0); len(ops) >= 2 {
					pool = append(pool, txFile{Base: base, HasBase: true, Target: target, BS: bs})
				}
			}
		}
	}
	return pool
}

func c20transmit(r *vk.Run, col *collector, merge func(map[string]int)) {
	pool := txPool(r)
	r.Count("transmit_pool_size", int64(len(pool)))
	nSets := r.Pick(320, 6000)
	scratch := r.Scratch()
	var wg sync.WaitGroup
	var sampleOnce sync.Once
	for w := 0; w < workers; w++ {
		wg.Add(1)
		go func(w int) {
			defer wg.Done()
			local := map[string]int{}
			runs := 0
			e := rsync.NewEngine()
			for idx := w; idx < nSets; idx += workers {
				rng := r.Rand(fmt.Sprintf("tx-%d", idx))
				var files []txFile
				for i, n := 0, 1+rng.Intn(4); i < n; i++ {
					var f txFile
					switch rng.Intn(8) {
					case 0: // no base on the receiving side: whole-target route
						f = txFile{Target: randomBlob(rng, rng.Intn(200))}
					case 1: // empty target
						f = txFile{Base: randomBlob(rng, 1+rng.Intn(50)), HasBase: true, BS: uint64(1 + rng.Intn(8))}
					case 2: // larger random pair
						b := randomBlob(rng, rng.Intn(3000))
						f = txFile{Base: b, HasBase: true, Target: splice(rng, b, rng.Intn(4)), BS: uint64(1 + rng.Intn(64))}
					default:
						f = pool[rng.Intn(len(pool))]
					}
					files = append(files, f)
				}
				if idx%10 == 3 {
					// More literal data than one maximum data operation plus a block: reaches
					// the buffer-truncation site and runs of data operations with the default maximum.
					b := randomBlob(rng, 1+rng.Intn(64))
					for i := range b { // the literal tail below must not match any block of the base
						if b[i] == 0xfe || b[i] == 0x01 || b[i] == 0x7f {
							b[i] = 'q'
						}
					}
					files = append(files, txFile{Base: b, HasBase: true, BS: uint64(1 + rng.Intn(16)),
						Target: append(append([]byte{}, b...), bytes.Repeat([]byte{0xfe, 0x01, 0x7f}, (140<<10)/3+rng.Intn(1000))...)})
				}
				if idx%10 == 7 {
					// Whole-target route with more than one chunk.
					files = append(files, txFile{Target: randomBlob(rng, 70<<10+rng.Intn(70<<10))})
				}
				for i := range files {
					files[i].Name = fmt.Sprintf("d%d/f%d", i%2, i)
				}
				fmt.Printf("case C20 transmit set=%d files=%d\n", idx, len(files))
				r.Guard(map[string]any{"set": idx, "files": describeFiles(files)}, func() {
					runs += c20transmitSet(r, col, e, filepath.Join(scratch, fmt.Sprintf("w%d", w)), idx, files, local, &sampleOnce)
				})
			}
			r.Eval(runs)
			r.Count("transmit_fault_runs", int64(runs))
			merge(local)
		}(w)
	}
	wg.Wait()
}

func describeFiles(files []txFile) []map[string]any {
	var out []map[string]any
	for _, f := range files {
		m := map[string]any{"name": f.Name, "target": show(f.Target), "block_size": f.BS}
		if f.HasBase {
			m["base"] = show(f.Base)
		} else {
			m["base"] = "(absent: empty signature)"
		}
		out = append(out, m)
	}
	return out
}

func c20transmitSet(r *vk.Run, col *collector, e *rsync.Engine, dir string, set int, files []txFile, sites map[string]int, sampleOnce *sync.Once) (runs int) {
	src, dst := filepath.Join(dir, "src"), filepath.Join(dir, "dst")
	os.RemoveAll(dir)
	defer os.RemoveAll(dir)
	var paths []string
	var sigs []*rsync.Signature
	for _, f := range files {
		p := filepath.Join(src, f.Name)
		os.MkdirAll(filepath.Dir(p), 0o755)
		if err := os.WriteFile(p, f.Target, 0o644); err != nil {
			r.Inconclusive("scratch-write-failed")
			return 0
		}
		if f.HasBase {
			q := filepath.Join(dst, f.Name)
			os.MkdirAll(filepath.Dir(q), 0o755)
			if err := os.WriteFile(q, f.Base, 0o644); err != nil {
				r.Inconclusive("scratch-write-failed")
				return 0
			}
			sigs = append(sigs, e.BytesSignature(f.Base, f.BS))
		} else {
			os.MkdirAll(dst, 0o755)
			sigs = append(sigs, &rsync.Signature{})
		}
		paths = append(paths, f.Name)
	}

	// receive replays what the transport delivered into a real receiver.
	receive := func(queue []*rsync.Transmission) (*memSinker, error) {
		sinker := &memSinker{files: map[string]*bytes.Buffer{}}
		rc, err := rsync.NewReceiver(dst, paths, sigs, sinker)
		if err != nil {
			return sinker, err
		}
		return sinker, rsync.DecodeToReceiver(&queueDecoder{queue: queue}, uint64(len(paths)), rc)
	}
	complete := func(s *memSinker) (bad string) {
		for _, f := range files {
			b, ok := s.files[f.Name]
			if !ok {
				return f.Name + ": never staged"
			}
			if !bytes.Equal(b.Bytes(), f.Target) {
				return fmt.Sprintf("%s: receiver staged %s, source is %s", f.Name, show(b.Bytes()), show(f.Target))
			}
		}
		return ""
	}

	// Fault-free run: fixes the message sequence and is the liveness control of the whole pipeline.
	base := &scriptedEncoder{k: -1}
	if err := rsync.Transmit(src, paths, sigs, rsync.NewEncodingReceiver(base)); err != nil {
		r.Inconclusive("fault-free-transmit-failed")
		fmt.Printf("ERROR: property=C20 fault-free Transmit failed: %v\n", err)
		return 0
	}
	if s, err := receive(base.queue); err != nil || complete(s) != "" {
		r.Inconclusive("fault-free-transfer-wrong(C19)")
		fmt.Printf("ERROR: property=C20 fault-free transfer of set %d is wrong: %v %s\n", set, err, complete(s))
		return 0
	}
	// Site of every message.
	type msgInfo struct {
		site string
		file int
		desc string
	}
	var infos []msgInfo
	fileIdx := 0
	var cur []*rsync.Operation
	flush := func() {
		for k := range cur {
			infos = append(infos, msgInfo{site: siteOf(cur, k, len(sigs[fileIdx].Hashes) == 0), file: fileIdx, desc: opsString(cur[k : k+1])})
		}
		cur = nil
	}
	for _, m := range base.queue {
		if m.Done {
			flush()
			infos = append(infos, msgInfo{site: "done-message", file: fileIdx, desc: "done"})
			fileIdx++
		} else {
			cur = append(cur, m.Operation)
		}
	}
	if len(infos) != len(base.queue) {
		r.Inconclusive("message-classification-mismatch")
		return 0
	}
	if len(infos) > 600 {
		// Every message index is a fault point and every fault point is a full transfer:
		// keep the quadratic cost bounded (a pure function of the generated input).
		r.Count("transmit_sets_skipped_over_600_messages", 1)
		return 0
	}
	sampleOnce.Do(func() {
		var seq []string
		for _, in := range infos {
			seq = append(seq, in.desc)
		}
		r.Sample(map[string]any{"route": "Transmit", "files": describeFiles(files), "fault_free_messages": seq})
	})

	for k := range infos {
		for _, mode := range []string{transient, persistent} {
			enc := &scriptedEncoder{k: k, mode: mode}
			err := rsync.Transmit(src, paths, sigs, rsync.NewEncodingReceiver(enc))
			runs++
			if !enc.hit {
				r.Inconclusive("fault-index-not-reached")
				continue
			}
			sites["tx|"+infos[k].site+"|"+mode]++
			if enc.finalized != 1 {
				r.Count("transmit_encoder_finalized_not_once", 1)
			}
			if err != nil {
				// Reported. The receiving side must cope with the truncated stream without panicking (Guard above).
				receive(enc.queue)
				continue
			}
			s, derr := receive(enc.queue)
			bad := ""
			if derr != nil {
				bad = "receiving side failed: " + derr.Error()
			} else {
				bad = complete(s)
			}
			if bad == "" {
				sites["tx|success-and-receiver-complete|"+infos[k].site]++
				continue
			}
			w := map[string]any{"route": "rsync.Transmit -> encoding receiver -> DecodeToReceiver -> receiver", "files": describeFiles(files),
				"failed_message_index": k, "failed_message": infos[k].desc, "failed_message_file": files[infos[k].file].Name, "mode": mode,
				"messages_delivered": len(enc.queue), "messages_fault_free": len(base.queue), "difference": bad}
			total := 0
			for _, f := range files {
				total += len(f.Base) + len(f.Target)
			}
			col.add(map[string]string{"rule": "success-despite-failed-transmit", "site": infos[k].site, "mode": mode, "route": "transmit"},
				total, fmt.Sprintf("%06d|%04d", set, k),
				fmt.Sprintf("Transmit returned nil although encoding message %d (%s, site %s) failed (%s); %s", k, infos[k].desc, infos[k].site, mode, bad), w)
		}
	}
	// The same through buffered transports: the failure may surface only from finalize.
	total := 0
	for _, f := range files {
		total += len(f.Base) + len(f.Target)
	}
	for _, capacity := range []int{[]int{2, 3, 7}[set%3], 1000} {
		ref := &bufferedEncoder{capacity: capacity, k: -1}
		if err := rsync.Transmit(src, paths, sigs, rsync.NewEncodingReceiver(ref)); err != nil || len(ref.wire) != len(base.queue) {
			r.Inconclusive("fault-free-buffered-transmit-failed")
			fmt.Printf("ERROR: property=C20 fault-free buffered Transmit (capacity %d) failed: %v, %d of %d messages on the wire\n", capacity, err, len(ref.wire), len(base.queue))
			continue
		}
		for k := 0; k <= len(ref.inFinalize); k++ { // k == number of writes: Finalize itself fails after a complete flush
			for _, mode := range []string{transient, persistent} {
				enc := &bufferedEncoder{capacity: capacity, k: k, mode: mode}
				site := "finalize-itself"
				if k == len(ref.inFinalize) {
					if mode == persistent {
						continue
					}
					enc.k, enc.failFinal = -1, true
				} else if ref.inFinalize[k] {
					site = "buffered-write-in-finalize"
				} else {
					site = "buffered-write-in-encode"
				}
				err := rsync.Transmit(src, paths, sigs, rsync.NewEncodingReceiver(enc))
				runs++
				if !enc.hit || (site != "buffered-write-in-encode") != enc.hitInFinal {
					r.Inconclusive("buffered-fault-not-reached-as-planned")
					continue
				}
				sites["txbuf|"+site+"|"+mode]++
				if err != nil {
					receive(enc.wire)
					continue
				}
				s, derr := receive(enc.wire)
				bad := ""
				if derr != nil {
					bad = "receiving side failed: " + derr.Error()
				} else {
					bad = complete(s)
				}
				if bad == "" {
					sites["txbuf|success-and-receiver-complete|"+site]++
					continue
				}
				w := map[string]any{"route": "rsync.Transmit -> encoding receiver with a buffered Encoder -> DecodeToReceiver -> receiver", "files": describeFiles(files),
					"buffer_capacity": capacity, "failed_wire_write_index": k, "wire_writes_fault_free": len(ref.inFinalize), "mode": mode,
					"messages_on_the_wire": len(enc.wire), "encoder_finalize_calls": enc.finalized, "difference": bad}
				col.add(map[string]string{"rule": "success-despite-failed-transmit", "site": site, "mode": mode, "route": "transmit-buffered"},
					total, fmt.Sprintf("%06d|%04d|%04d", set, capacity, k),
					fmt.Sprintf("Transmit returned nil although the buffered transport (capacity %d) failed at %s (wire write %d of %d, %s); %s", capacity, site, k, len(ref.inFinalize), mode, bad), w)
			}
		}
	}
	return runs
}
