// Monitor group rsyncx: the rsync engine round trip (C19) and the reporting of
// transmission failures by Deltify / Transmit (C20).
package main

import (
	"bytes"
	"fmt"
	"io"
	"math/rand"
	"sort"
	"sync"

	"github.com/mutagen-io/mutagen/pkg/synchronization/rsync"

	"verif/internal/vk"
)

func main() {
	vk.Main("rsyncx", map[string]func(){
		"C19": c19,
		"C20": c20,
	})
}

// workers is the fixed number of work partitions. It is a constant (not the
// CPU count) so that the assignment of cases to engines — engines are re-used
// across cases, as the package documents they may be — is a pure function of
// tier and seed.
const workers = 16

// abStrings returns every string over {a,b} of length 0..maxLen, shortest first.
func abStrings(maxLen int) [][]byte {
	out := [][]byte{{}}
	for l := 1; l <= maxLen; l++ {
		for v := 0; v < 1<<l; v++ {
			s := make([]byte, l)
			for i := 0; i < l; i++ {
				if v>>(l-1-i)&1 == 1 {
					s[i] = 'b'
				} else {
					s[i] = 'a'
				}
			}
			out = append(out, s)
		}
	}
	return out
}

func isData(o *rsync.Operation) bool { return len(o.Data) > 0 }

// opsString renders an operation list compactly: D<len> for data, B<start>+<count> for blocks.
func opsString(ops []*rsync.Operation) string {
	var b bytes.Buffer
	for i, o := range ops {
		if i > 0 {
			b.WriteByte(' ')
		}
		if isData(o) {
			fmt.Fprintf(&b, "D%d", len(o.Data))
		} else {
			fmt.Fprintf(&b, "B%d+%d", o.Start, o.Count)
		}
	}
	return b.String()
}

// opsShape is opsString with data lengths and indices dropped, used for
// distinct-shape accounting.
func opsShape(ops []*rsync.Operation) string {
	var b bytes.Buffer
	for _, o := range ops {
		if isData(o) {
			b.WriteByte('D')
		} else if o.Count > 1 {
			b.WriteByte('C') // coalesced run
		} else {
			b.WriteByte('B')
		}
	}
	return b.String()
}

func show(b []byte) string {
	if len(b) <= 64 {
		return fmt.Sprintf("%q", b)
	}
	return fmt.Sprintf("%q… (%d bytes)", b[:48], len(b))
}

// shortReader is a plain io.Reader (no ReadByte, no Seek) that hands out the
// data in scripted short reads.
type shortReader struct {
	data []byte
	rng  *rand.Rand
	max  int
}

func (s *shortReader) Read(p []byte) (int, error) {
	if len(s.data) == 0 {
		return 0, io.EOF
	}
	n := 1 + s.rng.Intn(s.max)
	if n > len(p) {
		n = len(p)
	}
	if n > len(s.data) {
		n = len(s.data)
	}
	copy(p, s.data[:n])
	s.data = s.data[n:]
	// Sometimes deliver the final bytes together with io.EOF, as io.Reader allows.
	if len(s.data) == 0 && s.rng.Intn(2) == 0 {
		return n, io.EOF
	}
	return n, nil
}

// randomBlob returns n bytes; low-entropy variants make repeated blocks (and
// therefore non-adjacent matches of identical blocks) likely.
func randomBlob(rng *rand.Rand, n int) []byte {
	b := make([]byte, n)
	switch rng.Intn(4) {
	case 0: // two-letter alphabet
		for i := range b {
			b[i] = "ab"[rng.Intn(2)]
		}
	case 1: // periodic
		p := 1 + rng.Intn(64)
		for i := range b {
			b[i] = byte('A' + i%p)
		}
	default:
		rng.Read(b)
	}
	return b
}

// splice derives a target from a base with random edits: insertions,
// deletions, overwrites, block moves and duplications.
func splice(rng *rand.Rand, base []byte, edits int) []byte {
	t := append([]byte{}, base...)
	for e := 0; e < edits; e++ {
		pos := 0
		if len(t) > 0 {
			pos = rng.Intn(len(t) + 1)
		}
		span := 1 + rng.Intn(1+len(t)/8+16)
		switch rng.Intn(5) {
		case 0: // insert
			ins := randomBlob(rng, span)
			t = append(t[:pos], append(ins, t[pos:]...)...)
		case 1: // delete
			end := pos + span
			if end > len(t) {
				end = len(t)
			}
			t = append(t[:pos], t[end:]...)
		case 2: // overwrite
			for i := pos; i < pos+span && i < len(t); i++ {
				t[i] ^= byte(1 + rng.Intn(255))
			}
		case 3: // move a chunk of the base elsewhere
			if len(base) > 0 {
				from := rng.Intn(len(base))
				end := from + span
				if end > len(base) {
					end = len(base)
				}
				chunk := append([]byte{}, base[from:end]...)
				t = append(t[:pos], append(chunk, t[pos:]...)...)
			}
		case 4: // truncate or extend the tail
			if rng.Intn(2) == 0 && len(t) > 0 {
				t = t[:rng.Intn(len(t))]
			} else {
				t = append(t, randomBlob(rng, span)...)
			}
		}
	}
	return t
}

// collector buffers violations found by parallel workers and reports them in
// a deterministic order, smallest input first, so that replay files hold the
// minimal witnesses and do not depend on goroutine scheduling.
type collector struct {
	mu   sync.Mutex
	kept map[string][]pendingViolation // per signature: the few smallest
	more map[string]int                // per signature: how many beyond the kept ones
	sigs map[string]map[string]string
}

type pendingViolation struct {
	size    int
	order   string
	what    string
	witness any
}

func newCollector() *collector {
	return &collector{kept: map[string][]pendingViolation{}, more: map[string]int{}, sigs: map[string]map[string]string{}}
}

func (c *collector) add(sig map[string]string, size int, order, what string, witness any) {
	key := vk.JSON(sig)
	c.mu.Lock()
	defer c.mu.Unlock()
	c.sigs[key] = sig
	l := append(c.kept[key], pendingViolation{size, order, what, witness})
	sort.Slice(l, func(i, j int) bool {
		if l[i].size != l[j].size {
			return l[i].size < l[j].size
		}
		return l[i].order < l[j].order
	})
	if len(l) > 3 {
		c.more[key] += len(l) - 3
		l = l[:3]
	}
	c.kept[key] = l
}

func (c *collector) flush(r *vk.Run) {
	c.mu.Lock()
	defer c.mu.Unlock()
	keys := make([]string, 0, len(c.kept))
	for k := range c.kept {
		keys = append(keys, k)
	}
	sort.Strings(keys)
	for _, k := range keys {
		for _, p := range c.kept[k] {
			r.Violation(c.sigs[k], p.what, p.witness)
		}
		for i := 0; i < c.more[k]; i++ {
			r.Violation(c.sigs[k], "(further case of the same kind)", nil)
		}
	}
	c.kept, c.more = map[string][]pendingViolation{}, map[string]int{}
}
