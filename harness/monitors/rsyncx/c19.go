package main

import (
	"bytes"
	"encoding/json"
	"fmt"
	"sync"

	"google.golang.org/protobuf/proto"

	"github.com/mutagen-io/mutagen/pkg/synchronization/rsync"

	"verif/internal/vk"
)

type c19case struct {
	Base, Target []byte
	BlockSize    uint64 // 0 = automatic
	Max          uint64 // 0 = default
	Route        string // "bytes" or "stream"
}

// MarshalJSON renders the case readably in witnesses.
func (c c19case) MarshalJSON() ([]byte, error) { return json.Marshal(c.witness()) }

func (c c19case) witness() map[string]any {
	return map[string]any{"base": show(c.Base), "target": show(c.Target), "base_len": len(c.Base), "target_len": len(c.Target),
		"block_size": c.BlockSize, "max_data_op": c.Max, "route": c.Route}
}

// c19judge checks one delta against the statement of C19. ops were produced by
// the real engine for (base signature sig, target).
func c19judge(r *vk.Run, col *collector, e *rsync.Engine, c c19case, sig *rsync.Signature, ops []*rsync.Operation) {
	fail := func(rule, what string) {
		w := c.witness()
		w["operations"] = opsString(ops)
		w["signature"] = fmt.Sprintf("block=%d last=%d hashes=%d", sig.BlockSize, sig.LastBlockSize, len(sig.Hashes))
		// Engines are re-used between cases; say whether a fresh engine behaves the same.
		fresh := rsync.NewEngine()
		fsig := fresh.BytesSignature(c.Base, c.BlockSize)
		fops := fresh.DeltifyBytes(c.Target, fsig, c.Max)
		w["fresh_engine_operations"] = opsString(fops)
		col.add(map[string]string{"rule": rule, "route": c.Route}, len(c.Base)+len(c.Target), fmt.Sprintf("%s|%s|%d|%d", c.Base, c.Target, c.BlockSize, c.Max), what, w)
	}
	if err := sig.EnsureValid(); err != nil {
		fail("signature-invalid", "signature produced by the engine fails EnsureValid: "+err.Error())
		return
	}
	limit := c.Max
	if limit == 0 {
		limit = rsync.DefaultMaximumDataOperationSize
	}
	dataOps := 0
	for i, o := range ops {
		if err := o.EnsureValid(); err != nil {
			fail("operation-invalid", fmt.Sprintf("operation %d fails EnsureValid: %v", i, err))
			return
		}
		if isData(o) {
			dataOps++
			if uint64(len(o.Data)) > limit {
				fail("data-exceeds-maximum", fmt.Sprintf("operation %d carries %d literal bytes, limit %d", i, len(o.Data), limit))
				return
			}
		} else if o.Start+o.Count > uint64(len(sig.Hashes)) || o.Start+o.Count < o.Start {
			fail("block-out-of-range", fmt.Sprintf("operation %d references blocks [%d,%d) of %d", i, o.Start, o.Start+o.Count, len(sig.Hashes)))
			return
		}
	}
	if len(c.Base) > 0 && bytes.Equal(c.Base, c.Target) && dataOps > 0 {
		fail("literal-data-for-unchanged-target", fmt.Sprintf("target equals base but the delta holds %d data operation(s)", dataOps))
		return
	}
	got, err := e.PatchBytes(c.Base, sig, ops)
	if err != nil {
		fail("patch-error", "PatchBytes failed on the engine's own delta: "+err.Error())
		return
	}
	if !bytes.Equal(got, c.Target) {
		w := fmt.Sprintf("patched result %s differs from target %s", show(got), show(c.Target))
		fail("reconstruction-differs", w)
	}
}

func c19() {
	r := vk.Start("C19", "exploration")
	maxLen := r.Pick(6, 8)
	strs := abStrings(maxLen)
	maxes := []uint64{1, 2, 3, 5, 0}
	r.Note("bounded_space", fmt.Sprintf("%d strings over {a,b} up to length %d as base and as target, block sizes 1..len(base)+1 and 0 (automatic), maximum data sizes {1,2,3,5,default}", len(strs), maxLen))

	col := newCollector()
	var shapeMu sync.Mutex
	shapes := map[string]int{}
	var sampled int
	var wg sync.WaitGroup
	for w := 0; w < workers; w++ {
		wg.Add(1)
		go func(w int) {
			defer wg.Done()
			e := rsync.NewEngine()
			local := map[string]int{}
			evals := 0
			defer func() { r.Eval(evals); r.Count("exhaustive_round_trips", int64(evals)) }()
			for bi := w; bi < len(strs); bi += workers {
				base := strs[bi]
				for bs := uint64(0); bs <= uint64(len(base))+1; bs++ {
					var sig *rsync.Signature
					r.Guard(map[string]any{"base": string(base), "block_size": bs, "step": "signature"}, func() {
						sig = e.BytesSignature(base, bs)
					})
					if sig == nil {
						continue
					}
					for _, target := range strs {
						for _, max := range maxes {
							c := c19case{Base: base, Target: target, BlockSize: bs, Max: max, Route: "bytes"}
							r.Guard(c, func() {
								ops := e.DeltifyBytes(target, sig, max)
								c19judge(r, col, e, c, sig, ops)
								evals++
								blocks := 0
								for _, o := range ops {
									if !isData(o) {
										blocks++
									}
								}
								if blocks > 0 {
									sh := fmt.Sprintf("%s|short=%v|max=%d", opsShape(ops), sig.LastBlockSize != sig.BlockSize, max)
									local[sh]++
									if blocks < len(ops) && len(ops) >= 4 {
										shapeMu.Lock()
										if sampled < 3 {
											sampled++
											s := c.witness()
											s["operations"] = opsString(ops)
											r.Sample(s)
										}
										shapeMu.Unlock()
									}
								}
							})
						}
					}
				}
			}
			shapeMu.Lock()
			for k, v := range local {
				shapes[k] += v
			}
			shapeMu.Unlock()
		}(w)
	}
	wg.Wait()
	col.flush(r)
	var withBlocks int64
	for k, v := range shapes {
		r.Distinct("exh|" + k)
		withBlocks += int64(v)
	}
	r.Count("exhaustive_deltas_with_block_matches", withBlocks)

	// Weak-checksum collision family (both tiers): with block size 4 over {a,b}
	// distinct blocks such as "abba"/"baab" share their rolling checksum, so
	// every base/target of length exactly 8 exercises windows whose weak
	// checksum matches a base block that the strong hash must then reject.
	{
		var eight [][]byte
		for _, s := range abStrings(8) {
			if len(s) == 8 {
				eight = append(eight, s)
			}
		}
		var cwg sync.WaitGroup
		for w := 0; w < workers; w++ {
			cwg.Add(1)
			go func(w int) {
				defer cwg.Done()
				e := rsync.NewEngine()
				evals := 0
				defer func() { r.Eval(evals); r.Count("collision_family_round_trips", int64(evals)) }()
				for bi := w; bi < len(eight); bi += workers {
					base := eight[bi]
					sig := e.BytesSignature(base, 4)
					if sig == nil || len(sig.Hashes) != 2 {
						continue
					}
					if sig.Hashes[0].Weak == sig.Hashes[1].Weak && !bytes.Equal(base[:4], base[4:]) {
						r.Count("collision_family_bases_with_colliding_blocks", 1)
					}
					for _, target := range eight {
						for _, max := range []uint64{0, 3} {
							c := c19case{Base: base, Target: target, BlockSize: 4, Max: max, Route: "bytes"}
							r.Guard(c, func() {
								ops := e.DeltifyBytes(target, sig, max)
								c19judge(r, col, e, c, sig, ops)
								evals++
							})
						}
					}
				}
			}(w)
		}
		cwg.Wait()
		col.flush(r)
	}

	// Streaming route: a plain io.Reader with short reads as target (forces the
	// engine's internal bufio wrapper), the signature computed from a
	// non-seekable short-reading base, and Patch applied operation by operation.
	c19stream(r, col)
	col.flush(r)

	r.Assume("signatures are produced by the same engine family in-process (the package documents that unvalidated foreign signatures are undefined behaviour)")
	r.Finish("every (base, target) over {a,b} up to the tier's length x every block size 1..len+1 and automatic x five maximum data sizes through DeltifyBytes/PatchBytes, plus seeded random inputs up to 4 MiB with random splices through the streaming Deltify/Signature/Patch with short-reading plain readers; non-trivial = the delta contains at least one block match; distinct = distinct (operation-kind sequence, short-last-block?, maximum) shapes in the exhaustive part and distinct (size class, edit count, block size, shape class) in the random part", 40)
}

func c19stream(r *vk.Run, col *collector) {
	n := r.Pick(96, 1600)
	var wg sync.WaitGroup
	var sampleOnce sync.Once
	for w := 0; w < workers; w++ {
		wg.Add(1)
		go func(w int) {
			defer wg.Done()
			e := rsync.NewEngine()
			for idx := w; idx < n; idx += workers {
				rng := r.Rand(fmt.Sprintf("stream-%d", idx))
				// Sizes: mostly small and around block boundaries, some large, a few up to 4 MiB.
				var size int
				switch {
				case idx%16 == 0:
					size = 1<<20 + rng.Intn(3<<20+1)
				case idx%4 == 0:
					size = 8192*rng.Intn(40) + rng.Intn(3) - 1
					if size < 0 {
						size = 0
					}
				default:
					size = rng.Intn(1 << uint(4+rng.Intn(14)))
				}
				base := randomBlob(rng, size)
				edits := rng.Intn(6)
				target := splice(rng, base, edits)
				if len(target) > 4<<20 {
					target = target[:4<<20]
				}
				var bs, max uint64 // default parameters …
				if idx%3 == 1 {    // … and, for a third of the cases, small explicit ones to force many operations
					bs = uint64(1 + rng.Intn(300))
					max = uint64(1 + rng.Intn(5000))
					if size > 256<<10 { // keep the operation count of the largest cases bounded
						bs += 64
						max += 1024
					}
				}
				c := c19case{Base: base, Target: target, BlockSize: bs, Max: max, Route: "stream"}
				fmt.Printf("case C19 stream idx=%d base=%d target=%d edits=%d bs=%d max=%d\n", idx, len(base), len(target), edits, bs, max)
				r.Guard(c.witness(), func() {
					// Signature from a non-seekable reader with short reads; block size 0 then means DefaultBlockSize.
					sig, err := e.Signature(&shortReader{data: base, rng: rng, max: 1 + rng.Intn(20000)}, bs)
					if err != nil {
						r.Violation(map[string]string{"rule": "signature-error", "route": "stream"}, "Signature failed on an in-memory reader: "+err.Error(), c.witness())
						return
					}
					var ops []*rsync.Operation
					err = e.Deltify(&shortReader{data: target, rng: rng, max: 1 + rng.Intn(20000)}, sig, max, func(o *rsync.Operation) error {
						ops = append(ops, proto.Clone(o).(*rsync.Operation))
						return nil
					})
					if err != nil {
						r.Violation(map[string]string{"rule": "deltify-error", "route": "stream"}, "Deltify failed although neither the reader nor the transmitter failed: "+err.Error(), c.witness())
						return
					}
					c19judge(r, col, e, c, sig, ops)
					// Streaming Patch, operation by operation, into a writer.
					var out bytes.Buffer
					rd := bytes.NewReader(base)
					for i, o := range ops {
						if err := e.Patch(&out, rd, sig, o); err != nil {
							r.Violation(map[string]string{"rule": "patch-error", "route": "stream"}, fmt.Sprintf("Patch failed at operation %d: %v", i, err), c.witness())
							return
						}
					}
					if !bytes.Equal(out.Bytes(), target) {
						w := c.witness()
						w["operations"] = opsString(ops)
						r.Violation(map[string]string{"rule": "reconstruction-differs", "route": "stream"}, "streaming Patch result differs from target", w)
					}
					r.Eval(1)
					r.Count("stream_bytes_target", int64(len(target)))
					blocks, datas := 0, 0
					for _, o := range ops {
						if isData(o) {
							datas++
						} else {
							blocks++
						}
					}
					if blocks > 0 {
						class := "blocks-only"
						if datas > 0 {
							class = "mixed"
						}
						sz := 0
						for s := len(target); s > 0; s >>= 2 {
							sz++
						}
						r.Distinct(fmt.Sprintf("stream|sz%d|e%d|bs%v|%s", sz, edits, bs != 0, class))
						r.Count("stream_deltas_with_block_matches", 1)
						if datas > 0 {
							sampleOnce.Do(func() {
								s := c.witness()
								if len(ops) <= 12 {
									s["operations"] = opsString(ops)
								} else {
									s["operations"] = fmt.Sprintf("%d operations (%d block, %d data)", len(ops), blocks, datas)
								}
								r.Sample(s)
							})
						}
					}
				})
			}
		}(w)
	}
	wg.Wait()
}
