package main

import (
	"fmt"
	"math/rand"
	"os"
	"path/filepath"
	"runtime"
	"sort"
	"strings"
	"sync"

	"github.com/mutagen-io/mutagen/pkg/synchronization/core"

	"verif/internal/fsx"
	"verif/internal/gen"
	"verif/internal/ignorex"
	"verif/internal/vk"
)

// C15 — Docker-style ignores match Docker's build-context semantics.
//
// Real side:  dockerignore.NewIgnorer(patterns) -> core.Scan (cold, real disk
//             tree) -> core.ReifyPhantomDirectories(ancestor, snapshot, nil).
// Reference:  ignorex.Docker (frozen upstream matcher + TarWithOptions walk)
//             completed by the synchronization rule of the property
//             (ignorex.Reify).
// Classifier: ignorex.Docker.WalkDocumented — Mutagen's documented algorithm
//             on the same frozen per-pattern matcher; it only decides whether
//             a disagreement with Docker is the pre-registered one
//             (no per-pattern parent inheritance) or something new.

var c15Names = []string{"a", "b", "c", "ab", "keep", "x.o", "d", "sub"}

type dockerCase struct {
	Index    int
	Patterns []string
	Tree     fsx.Tree
}

func (c dockerCase) witness() map[string]any {
	paths := c.Tree.SortedPaths()
	desc := make([]string, len(paths))
	for i, p := range paths {
		switch c.Tree[p].Kind {
		case fsx.KDir:
			desc[i] = p + "/"
		case fsx.KLink:
			desc[i] = p + "@"
		default:
			desc[i] = p
		}
	}
	return map[string]any{"case": c.Index, "patterns": c.Patterns, "tree": desc}
}

// realTracked lists what the reified snapshot synchronizes: every entry
// reachable from the root through tracked directories whose kind is not
// "untracked". Phantom directories that survived reification are reported
// separately.
func realTracked(root *core.Entry) (tracked map[string]bool, phantoms []string) {
	tracked = map[string]bool{}
	var rec func(e *core.Entry, p string)
	rec = func(e *core.Entry, p string) {
		for name, ch := range e.Contents {
			q := name
			if p != "" {
				q = p + "/" + name
			}
			switch ch.Kind {
			case core.EntryKind_Directory:
				tracked[q] = true
				rec(ch, q)
			case core.EntryKind_PhantomDirectory:
				phantoms = append(phantoms, q)
			case core.EntryKind_Untracked:
			default:
				tracked[q] = false
			}
		}
	}
	if root != nil && root.Kind == core.EntryKind_Directory {
		rec(root, "")
	}
	return
}

// randomAncestor builds "what was synchronized before": a random,
// parent-closed subset of the disk directories as directories, some of the
// leaves as files, occasionally a file where the disk has a directory.
func randomAncestor(rng *rand.Rand, nodes *ignorex.Node) *core.Entry {
	var rec func(n *ignorex.Node) *core.Entry
	rec = func(n *ignorex.Node) *core.Entry {
		e := &core.Entry{Kind: core.EntryKind_Directory}
		for _, ch := range n.Children {
			var v *core.Entry
			switch {
			case ch.Dir && rng.Intn(10) == 0:
				v = gen.File([]byte("0123456789abcdefghij"), false)
			case ch.Dir && rng.Intn(5) < 3:
				v = rec(ch)
			case !ch.Dir && rng.Intn(2) == 0:
				v = gen.File([]byte("0123456789abcdefghij"), false)
			}
			if v != nil {
				if e.Contents == nil {
					e.Contents = map[string]*core.Entry{}
				}
				e.Contents[ch.Name] = v
			}
		}
		return e
	}
	return rec(nodes)
}

// deepReinclusion plants a re-inclusion at least two levels below an excluded
// directory: directories d1/d2/d3[/d4] with a leaf at the bottom and plain
// files beside the intermediate directories, excluded by a pattern naming d1
// and re-included by a '!' pattern naming the bottom directory or the leaf.
// The intermediate directories are then NOMINAL and traversed only because of
// traversal continuation.
func deepReinclusion(rng *rand.Rand, c *dockerCase) {
	depth := 3 + rng.Intn(2)
	segs := make([]string, depth)
	for k := range segs {
		segs[k] = c15Names[rng.Intn(len(c15Names))]
	}
	for k := 1; k <= depth; k++ {
		d := strings.Join(segs[:k], "/")
		for p := range c.Tree {
			if p == d && c.Tree[p].Kind != fsx.KDir {
				delete(c.Tree, p)
			}
		}
		c.Tree[d] = &fsx.Node{Kind: fsx.KDir, Mode: 0o755}
		side := d + "/" + c15Names[rng.Intn(len(c15Names))]
		if _, ok := c.Tree[side]; !ok && (k == depth || side != strings.Join(segs[:k+1], "/")) {
			c.Tree[side] = &fsx.Node{Kind: fsx.KFile, Content: []byte("side file " + side + "\n"), Mode: 0o644}
		}
	}
	// drop generated content that sits below a path which is now a file
	for p := range c.Tree {
		for q := p; ; {
			k := strings.LastIndexByte(q, '/')
			if k < 0 {
				break
			}
			q = q[:k]
			if n, ok := c.Tree[q]; ok && n.Kind != fsx.KDir {
				delete(c.Tree, p)
				break
			}
		}
	}
	bottom := strings.Join(segs, "/")
	leaf := bottom + "/" + c15Names[rng.Intn(len(c15Names))]
	if n, ok := c.Tree[leaf]; !ok || n.Kind == fsx.KDir {
		if !ok {
			c.Tree[leaf] = &fsx.Node{Kind: fsx.KFile, Content: []byte("re-included leaf\n"), Mode: 0o644}
		}
	}
	excluder := []string{segs[0], "/" + segs[0], segs[0] + "/", "*"}[rng.Intn(4)]
	reinclude := "!" + bottom
	if rng.Intn(2) == 0 {
		reinclude = "!" + leaf
	}
	aimed := []string{excluder, reinclude}
	if rng.Intn(3) == 0 {
		aimed = append(aimed, "!"+strings.Join(segs[:2], "/")+"/"+c15Names[rng.Intn(len(c15Names))])
	}
	if len(c.Patterns) > 3 {
		c.Patterns = c.Patterns[:3]
	}
	pos := rng.Intn(len(c.Patterns) + 1)
	c.Patterns = append(append(append([]string{}, c.Patterns[:pos]...), aimed...), c.Patterns[pos:]...)
}

func c15() {
	r := vk.Start("C15", "exploration")
	n := r.Pick(1500, 50000)
	base := filepath.Join(r.Scratch(), "docker")
	os.MkdirAll(base, 0o755)
	var mu sync.Mutex
	sampled := 0
	var knownExamples []map[string]any

	parallel(n, runtime.NumCPU(), func(i int) {
		rng := r.Rand(fmt.Sprintf("case-%d", i))
		rng2 := r.Rand(fmt.Sprintf("rescan-%d", i))
		c := dockerCase{Index: i}
		c.Tree = ignorex.SmallTree(rng, c15Names, 30, 4, true)
		if rng.Intn(4) == 0 {
			c.Patterns = ignorex.DockerList(rng, c15Names, 5)
		} else {
			c.Patterns = ignorex.DockerListForTree(rng, c15Names, c.Tree.SortedPaths(), 5)
		}
		if rng2.Intn(4) == 0 {
			deepReinclusion(rng2, &c)
		}
		fmt.Printf("C15 case %d: patterns=%q tree=%q\n", i, c.Patterns, c.witness()["tree"])
		r.Eval(1)

		dock, err := ignorex.NewDocker(c.Patterns)
		if err != nil {
			r.Count("reference_rejected_pattern_list", 1)
			return
		}
		root := filepath.Join(base, fmt.Sprintf("t%d", i))
		defer os.RemoveAll(root)
		if err := fsx.Materialize(root, c.Tree); err != nil {
			r.Inconclusive("materialize-failed")
			return
		}
		cfg := fsx.DefaultScanConfig()
		cfg.Docker = true
		cfg.Patterns = c.Patterns

		var populatedAncestor *core.Entry
		caseKnown := false
		var dockerWalk ignorex.Membership
		includedLeaves, excluded := 0, 0

		// judge reifies one real snapshot (nil and populated ancestor) and
		// compares it with the Docker reference and the classifier, both
		// computed from the tree as it is NOW. stage "" = the cold scan.
		judge := func(stage string, content *core.Entry) bool {
			suffix := ""
			if stage != "" {
				suffix = "_rescans"
			}
			nodes := ignorex.BuildNodes(ignorex.TreePaths(c.Tree))
			disk := nodes.AllPaths()
			var werr error
			dockerWalk, werr = dock.Walk(nodes)
			if werr != nil {
				r.Count("reference_walk_error", 1)
				return false
			}
			documentedWalk := dock.WalkDocumented(nodes)
			if stage == "" {
				populatedAncestor = randomAncestor(rng, nodes)
				for p, dir := range disk {
					if _, ok := dockerWalk.Tracked[p]; ok {
						if !dir {
							includedLeaves++
						}
					} else {
						excluded++
					}
				}
			}
			for variant := 0; variant < 2; variant++ {
				var ancestor *core.Entry
				ancName := "nil"
				if variant == 1 {
					ancestor = populatedAncestor
					ancName = "populated"
				}
				ancDir := func(p string) bool {
					e := gen.At(ancestor, p)
					return e != nil && e.Kind == core.EntryKind_Directory
				}
				var reified *core.Entry
				r.Guard(c.witness(), func() { reified, _, _, _ = core.ReifyPhantomDirectories(ancestor, content, nil) })
				if reified == nil {
					continue
				}
				real, phantoms := realTracked(reified)
				wantDocker := ignorex.Reify(nodes, dockerWalk, ancDir)
				wantDocumented := ignorex.Reify(nodes, documentedWalk, ancDir)

				var knownPaths, newPaths, modelOnly []string
				newKind := ""
				for p, dir := range disk {
					_, rT := real[p]
					_, dT := wantDocker[p]
					_, mT := wantDocumented[p]
					r.Count("paths_compared"+suffix, 1)
					if rT != mT {
						r.Count("paths_where_documented_model_differs_from_real"+suffix, 1)
					}
					if rT == dT {
						if rT != mT {
							modelOnly = append(modelOnly, p)
						}
						continue
					}
					if rT == mT {
						knownPaths = append(knownPaths, p)
						continue
					}
					newPaths = append(newPaths, p)
					if newKind == "" {
						k := "leaf"
						if dir {
							k = "directory"
						}
						newKind = fmt.Sprintf("%s real=%s docker=%s", k, trackedWord(rT), trackedWord(dT))
					}
				}
				for p := range real {
					if _, ok := disk[p]; !ok {
						newPaths = append(newPaths, p)
						if newKind == "" {
							newKind = "path-not-on-disk"
						}
					}
				}
				for _, p := range phantoms {
					newPaths = append(newPaths, p)
					newKind = "phantom-directory-survives-reification"
				}
				sort.Strings(knownPaths)
				sort.Strings(newPaths)
				describe := func() map[string]any {
					w := c.witness()
					w["normalized_patterns"] = dock.Lines
					w["ancestor"] = describeEntry(ancestor)
					w["real_synchronized"] = ignorex.DescribeSet(real)
					w["docker_reference"] = ignorex.DescribeSet(wantDocker)
					w["documented_model"] = ignorex.DescribeSet(wantDocumented)
					if stage != "" {
						w["scan"] = stage
					}
					return w
				}
				if len(newPaths) > 0 {
					w := describe()
					w["paths"] = newPaths
					parts := strings.SplitN(newKind, " ", 2)
					sig := map[string]string{"rule": "differs-from-documented-algorithm", "ancestor": ancName, "kind": parts[0]}
					if len(parts) == 2 {
						sig["verdicts"] = parts[1]
					}
					scanWord := "cold scan"
					if stage != "" {
						sig["scan"] = "accelerated"
						scanWord = stage
					}
					r.Violation(sig, fmt.Sprintf("patterns %q (%s, ancestor %s): the synchronized set differs from Docker's at %v and Mutagen's documented algorithm does not explain it (%s)", c.Patterns, scanWord, ancName, newPaths, newKind), w)
				}
				if len(knownPaths) > 0 {
					if stage == "" {
						caseKnown = true
					}
					r.Count("docker_parent_inheritance_paths_ancestor_"+ancName+suffix, int64(len(knownPaths)))
					r.Count("docker_parent_inheritance_cases_ancestor_"+ancName+suffix, 1)
					w := describe()
					w["paths"] = knownPaths
					if variant == 0 && stage == "" {
						mu.Lock()
						if len(knownExamples) < 6 {
							knownExamples = append(knownExamples, map[string]any{"patterns": c.Patterns, "paths": knownPaths, "real": w["real_synchronized"], "docker": w["docker_reference"]})
						}
						mu.Unlock()
					}
					r.Violation(map[string]string{"rule": "docker-parent-inheritance"},
						fmt.Sprintf("patterns %q (ancestor %s): Docker applies patterns to parent directories too, Mutagen matches the path only; differing paths %v", c.Patterns, ancName, knownPaths), w)
				}
				if len(modelOnly) > 0 {
					r.Count("paths_real_equals_docker_but_not_documented_model"+suffix, int64(len(modelOnly)))
				}

				// accounting of what reification was exercised
				for d := range dockerWalk.Descended {
					if _, ok := wantDocker[d]; !ok {
						r.Count("excluded_descended_directories_expected_untracked_"+ancName+suffix, 1)
					} else {
						r.Count("excluded_descended_directories_expected_tracked_"+ancName+suffix, 1)
						if ancDir(d) {
							r.Count("excluded_descended_directories_with_ancestor_directory"+suffix, 1)
						}
					}
				}
			}
			return true
		}

		// Cold scan.
		var state *fsx.ScanState
		var scanErr error
		r.Guard(c.witness(), func() { state, scanErr = fsx.Cold(root, cfg) })
		if scanErr != nil || state == nil {
			w := c.witness()
			w["error"] = fmt.Sprint(scanErr)
			rule := "scan-failed"
			if scanErr != nil && strings.Contains(scanErr.Error(), "pattern") {
				rule = "grammar-pattern-rejected"
			}
			r.Violation(map[string]string{"rule": rule}, fmt.Sprintf("real Docker-style scan failed: %v", scanErr), w)
			return
		}
		if !judge("", state.Snapshot.Content) {
			return
		}
		nontrivial := includedLeaves > 0 && excluded > 0
		coldDescended := len(dockerWalk.Descended)
		// a re-inclusion at least two levels below an excluded directory shows
		// as an excluded-but-descended directory that is not at the top of its
		// excluded subtree, with an included leaf beneath it
		deep := false
		for d := range dockerWalk.Descended {
			if k := strings.LastIndexByte(d, '/'); k >= 0 && dockerWalk.Descended[d[:k]] {
				for p, dir := range dockerWalk.Tracked {
					if !dir && strings.HasPrefix(p, d+"/") {
						deep = true
					}
				}
			}
		}

		// Rescans the way the endpoint performs them: previous snapshot as
		// baseline, previous digest cache, previous IGNORE CACHE, re-check
		// paths from the watcher. All cases with traversal below an excluded
		// directory and a fifth of the others get two accelerated scans.
		if coldDescended > 0 || rng2.Intn(5) == 0 {
			if deep {
				r.Count("rescan_cases_with_reinclusion_two_levels_below_excluded", 1)
			}
			r.Count("rescan_cases", 1)
			var dirs, all []string
			for _, p := range c.Tree.SortedPaths() {
				all = append(all, p)
				if c.Tree[p].Kind == fsx.KDir {
					dirs = append(dirs, p)
				}
			}
			for k := 1; k <= 2; k++ {
				recheck := map[string]bool{}
				how := ""
				switch rng2.Intn(4) {
				case 0: // the root, nothing changed on disk
					recheck[""] = true
					how = "root"
				case 1: // some existing path (unrelated or inside), nothing changed
					recheck[all[rng2.Intn(len(all))]] = true
					how = "existing-path"
				default: // a new file appears in some directory; the watcher names that directory
					d := ""
					if len(dirs) > 0 && rng2.Intn(4) != 0 {
						d = dirs[rng2.Intn(len(dirs))]
					}
					name := fmt.Sprintf("new%d", k)
					if rng2.Intn(2) == 0 {
						name = c15Names[rng2.Intn(len(c15Names))]
					}
					p := name
					if d != "" {
						p = d + "/" + name
					}
					if _, exists := c.Tree[p]; !exists {
						content := []byte(fmt.Sprintf("case %d rescan %d new file\n", i, k))
						if err := os.WriteFile(filepath.Join(root, filepath.FromSlash(p)), content, 0o644); err != nil {
							r.Inconclusive("edit-failed")
							return
						}
						c.Tree[p] = &fsx.Node{Kind: fsx.KFile, Content: content, Mode: 0o644}
					}
					recheck[d] = true
					how = "new-file-in-directory"
					if rng2.Intn(3) == 0 {
						recheck[all[rng2.Intn(len(all))]] = true
					}
				}
				stage := fmt.Sprintf("accelerated scan %d (recheck %v)", k, describeRecheck(recheck))
				fmt.Printf("C15 case %d: %s\n", i, stage)
				var next *fsx.ScanState
				r.Guard(c.witness(), func() { next, scanErr = fsx.Accelerated(root, cfg, state, recheck) })
				if scanErr != nil || next == nil {
					w := c.witness()
					w["error"] = fmt.Sprint(scanErr)
					w["scan"] = stage
					r.Violation(map[string]string{"rule": "scan-failed", "scan": "accelerated"}, fmt.Sprintf("%s failed: %v", stage, scanErr), w)
					return
				}
				state = next
				r.Eval(1)
				r.Count("rescans_judged", 1)
				r.Count("rescans_recheck_"+how, 1)
				if !judge(stage, state.Snapshot.Content) {
					return
				}
				if deep {
					r.Distinct(fmt.Sprintf("r|%s|k%d|known%v", how, k, caseKnown))
				}
			}
		}

		r.Count("cases_run", 1)
		if caseKnown {
			r.Count("docker_parent_inheritance_cases", 1)
		}
		if nontrivial {
			r.Count("cases_with_nontrivial_included_set", 1)
			excl := 0
			for _, l := range dock.Lines {
				if strings.HasPrefix(l, "!") {
					excl++
				}
			}
			if coldDescended > 0 {
				r.Count("cases_with_descended_excluded_directory", 1)
			}
			r.Distinct(fmt.Sprintf("d|p%d|x%d|desc%s|inc%s|exc%s|known%v", len(dock.Lines), excl, bucket(coldDescended), bucket(includedLeaves), bucket(excluded), caseKnown))
			mu.Lock()
			if sampled < 4 && coldDescended > 0 {
				sampled++
				r.Sample(map[string]any{"patterns": c.Patterns, "entries": len(c.Tree), "included_leaves": includedLeaves, "excluded_paths": excluded,
					"excluded_but_descended": ignorex.DescribeSet(dockerWalk.Descended), "docker_reference": ignorex.DescribeSet(dockerWalk.Tracked), "rescanned_twice_with_previous_caches": true, "reinclusion_two_levels_below": deep})
			}
			mu.Unlock()
		}
	})

	r.Note("docker_parent_inheritance_examples", knownExamples)
	r.Assume("Docker reference = buildkit dockerignore.ReadAll normalization + frozen moby/patternmatcher MatchesUsingParentResults + moby pkg/archive.TarWithOptions walk (excluded directory still descended iff an exclusion pattern has it as a path prefix), modelled in verif/internal/ignorex")
	r.Assume("pattern grammar restricted to what both sides define: no backslash, no comment lines, '**' only as a whole segment")
	r.Assume("a directory excluded by the reference and not descended by it is expected untracked whatever the ancestor holds (the property's 'only if')")
	r.Assume("disagreements explained by Mutagen's documented algorithm (path-only matching, one inherited mask) are reported under the signature rule=docker-parent-inheritance; any other disagreement is rule=differs-from-documented-algorithm")
	r.Assume("rescans are driven as the local endpoint drives them: previous snapshot as baseline, previous digest cache and ignore cache, re-check paths = the root / an existing path / the directory in which a new file appeared; every changed path is covered by a re-check path")
	floor := 25
	if r.Counter("cases_with_descended_excluded_directory") < 20 || r.Counter("cases_with_nontrivial_included_set") < 100 ||
		r.Counter("excluded_descended_directories_with_ancestor_directory") < 5 ||
		r.Counter("rescan_cases_with_reinclusion_two_levels_below_excluded") < 20 || r.Counter("rescans_judged") < 100 {
		fmt.Println("ERROR: C15 observed too few cases with re-inclusion below excluded directories / ancestor-reified directories / rescans with the previous ignore cache")
		floor = 1 << 30
	}
	r.Finish("seeded random (.dockerignore list, disk tree) pairs (a quarter with a planted re-inclusion 3-4 levels below an excluded directory), each scanned cold and reified once with a nil and once with a populated ancestor; cases with traversal below an excluded directory and a fifth of the others are then rescanned twice with the previous snapshot, digest cache and ignore cache and judged again after each rescan; a pair is non-trivial if the Docker reference includes at least one leaf and excludes at least one path; distinct = (patterns, exclusion patterns, descended excluded directories bucket, included leaves bucket, excluded paths bucket, known disagreement present) plus, for rescans of deep re-inclusions, (re-check kind, rescan index, known disagreement present)", floor)
}

func describeRecheck(m map[string]bool) []string {
	out := make([]string, 0, len(m))
	for p := range m {
		if p == "" {
			p = "<root>"
		}
		out = append(out, p)
	}
	sort.Strings(out)
	return out
}

func trackedWord(t bool) string {
	if t {
		return "tracked"
	}
	return "untracked"
}
