package main

import (
	"fmt"
	"math/rand"
	"os"
	"path/filepath"
	"runtime"
	"sort"
	"strings"
	"sync"

	"github.com/mutagen-io/mutagen/pkg/synchronization/core"

	"verif/internal/fsx"
	"verif/internal/gen"
	"verif/internal/ignorex"
	"verif/internal/vk"
)

// C15 — Docker-style ignores match Docker's build-context semantics.
//
// Real side:  dockerignore.NewIgnorer(patterns) -> core.Scan (cold, real disk
//             tree) -> core.ReifyPhantomDirectories(ancestor, snapshot, nil).
// Reference:  ignorex.Docker (frozen upstream matcher + TarWithOptions walk)
//             completed by the synchronization rule of the property
//             (ignorex.Reify).
// Classifier: ignorex.Docker.WalkDocumented — Mutagen's documented algorithm
//             on the same frozen per-pattern matcher; it only decides whether
//             a disagreement with Docker is the pre-registered one
//             (no per-pattern parent inheritance) or something new.

var c15Names = []string{"a", "b", "c", "ab", "keep", "x.o", "d", "sub"}

type dockerCase struct {
	Index    int
	Patterns []string
	Tree     fsx.Tree
}

func (c dockerCase) witness() map[string]any {
	paths := c.Tree.SortedPaths()
	desc := make([]string, len(paths))
	for i, p := range paths {
		switch c.Tree[p].Kind {
		case fsx.KDir:
			desc[i] = p + "/"
		case fsx.KLink:
			desc[i] = p + "@"
		default:
			desc[i] = p
		}
	}
	return map[string]any{"case": c.Index, "patterns": c.Patterns, "tree": desc}
}

// realTracked lists what the reified snapshot synchronizes: every entry
// reachable from the root through tracked directories whose kind is not
// "untracked". Phantom directories that survived reification are reported
// separately.
func realTracked(root *core.Entry) (tracked map[string]bool, phantoms []string) {
	tracked = map[string]bool{}
	var rec func(e *core.Entry, p string)
	rec = func(e *core.Entry, p string) {
		for name, ch := range e.Contents {
			q := name
			if p != "" {
				q = p + "/" + name
			}
			switch ch.Kind {
			case core.EntryKind_Directory:
				tracked[q] = true
				rec(ch, q)
			case core.EntryKind_PhantomDirectory:
				phantoms = append(phantoms, q)
			case core.EntryKind_Untracked:
			default:
				tracked[q] = false
			}
		}
	}
	if root != nil && root.Kind == core.EntryKind_Directory {
		rec(root, "")
	}
	return
}

// randomAncestor builds "what was synchronized before": a random,
// parent-closed subset of the disk directories as directories, some of the
// leaves as files, occasionally a file where the disk has a directory.
func randomAncestor(rng *rand.Rand, nodes *ignorex.Node) *core.Entry {
	var rec func(n *ignorex.Node) *core.Entry
	rec = func(n *ignorex.Node) *core.Entry {
		e := &core.Entry{Kind: core.EntryKind_Directory}
		for _, ch := range n.Children {
			var v *core.Entry
			switch {
			case ch.Dir && rng.Intn(10) == 0:
				v = gen.File([]byte("0123456789abcdefghij"), false)
			case ch.Dir && rng.Intn(5) < 3:
				v = rec(ch)
			case !ch.Dir && rng.Intn(2) == 0:
				v = gen.File([]byte("0123456789abcdefghij"), false)
			}
			if v != nil {
				if e.Contents == nil {
					e.Contents = map[string]*core.Entry{}
				}
				e.Contents[ch.Name] = v
			}
		}
		return e
	}
	return rec(nodes)
}

func c15() {
	r := vk.Start("C15", "exploration")
	n := r.Pick(1500, 50000)
	base := filepath.Join(r.Scratch(), "docker")
	os.MkdirAll(base, 0o755)
	var mu sync.Mutex
	sampled := 0
	var knownExamples []map[string]any

	parallel(n, runtime.NumCPU(), func(i int) {
		rng := r.Rand(fmt.Sprintf("case-%d", i))
		c := dockerCase{Index: i}
		c.Tree = ignorex.SmallTree(rng, c15Names, 30, 4, true)
		if rng.Intn(4) == 0 {
			c.Patterns = ignorex.DockerList(rng, c15Names, 5)
		} else {
			c.Patterns = ignorex.DockerListForTree(rng, c15Names, c.Tree.SortedPaths(), 5)
		}
		fmt.Printf("C15 case %d: patterns=%q tree=%q\n", i, c.Patterns, c.witness()["tree"])
		r.Eval(1)

		dock, err := ignorex.NewDocker(c.Patterns)
		if err != nil {
			r.Count("reference_rejected_pattern_list", 1)
			return
		}
		nodes := ignorex.BuildNodes(ignorex.TreePaths(c.Tree))
		disk := nodes.AllPaths()
		dockerWalk, err := dock.Walk(nodes)
		if err != nil {
			r.Count("reference_walk_error", 1)
			return
		}
		documentedWalk := dock.WalkDocumented(nodes)

		// Real scan.
		root := filepath.Join(base, fmt.Sprintf("t%d", i))
		defer os.RemoveAll(root)
		if err := fsx.Materialize(root, c.Tree); err != nil {
			r.Inconclusive("materialize-failed")
			return
		}
		cfg := fsx.DefaultScanConfig()
		cfg.Docker = true
		cfg.Patterns = c.Patterns
		var state *fsx.ScanState
		var scanErr error
		r.Guard(c.witness(), func() { state, scanErr = fsx.Cold(root, cfg) })
		if scanErr != nil || state == nil {
			w := c.witness()
			w["error"] = fmt.Sprint(scanErr)
			rule := "scan-failed"
			if scanErr != nil && strings.Contains(scanErr.Error(), "pattern") {
				rule = "grammar-pattern-rejected"
			}
			r.Violation(map[string]string{"rule": rule}, fmt.Sprintf("real Docker-style scan failed: %v", scanErr), w)
			return
		}
		content := state.Snapshot.Content

		includedLeaves, excluded := 0, 0
		for p, dir := range disk {
			if _, ok := dockerWalk.Tracked[p]; ok {
				if !dir {
					includedLeaves++
				}
			} else {
				excluded++
			}
		}
		nontrivial := includedLeaves > 0 && excluded > 0
		caseKnown := false

		for variant := 0; variant < 2; variant++ {
			var ancestor *core.Entry
			ancName := "nil"
			if variant == 1 {
				ancestor = randomAncestor(rng, nodes)
				ancName = "populated"
			}
			ancDir := func(p string) bool {
				e := gen.At(ancestor, p)
				return e != nil && e.Kind == core.EntryKind_Directory
			}
			var reified *core.Entry
			r.Guard(c.witness(), func() { reified, _, _, _ = core.ReifyPhantomDirectories(ancestor, content, nil) })
			if reified == nil {
				continue
			}
			real, phantoms := realTracked(reified)
			wantDocker := ignorex.Reify(nodes, dockerWalk, ancDir)
			wantDocumented := ignorex.Reify(nodes, documentedWalk, ancDir)

			var knownPaths, newPaths, modelOnly []string
			newKind := ""
			for p, dir := range disk {
				_, rT := real[p]
				_, dT := wantDocker[p]
				_, mT := wantDocumented[p]
				r.Count("paths_compared", 1)
				if rT != mT {
					r.Count("paths_where_documented_model_differs_from_real", 1)
				}
				if rT == dT {
					if rT != mT {
						modelOnly = append(modelOnly, p)
					}
					continue
				}
				if rT == mT {
					knownPaths = append(knownPaths, p)
					continue
				}
				newPaths = append(newPaths, p)
				if newKind == "" {
					k := "leaf"
					if dir {
						k = "directory"
					}
					newKind = fmt.Sprintf("%s real=%s docker=%s", k, trackedWord(rT), trackedWord(dT))
				}
			}
			for p := range real {
				if _, ok := disk[p]; !ok {
					newPaths = append(newPaths, p)
					if newKind == "" {
						newKind = "path-not-on-disk"
					}
				}
			}
			for _, p := range phantoms {
				newPaths = append(newPaths, p)
				newKind = "phantom-directory-survives-reification"
			}
			sort.Strings(knownPaths)
			sort.Strings(newPaths)
			describe := func() map[string]any {
				w := c.witness()
				w["normalized_patterns"] = dock.Lines
				w["ancestor"] = describeEntry(ancestor)
				w["real_synchronized"] = ignorex.DescribeSet(real)
				w["docker_reference"] = ignorex.DescribeSet(wantDocker)
				w["documented_model"] = ignorex.DescribeSet(wantDocumented)
				return w
			}
			if len(newPaths) > 0 {
				w := describe()
				w["paths"] = newPaths
				parts := strings.SplitN(newKind, " ", 2)
				sig := map[string]string{"rule": "differs-from-documented-algorithm", "ancestor": ancName, "kind": parts[0]}
				if len(parts) == 2 {
					sig["verdicts"] = parts[1]
				}
				r.Violation(sig, fmt.Sprintf("patterns %q (ancestor %s): the synchronized set differs from Docker's at %v and Mutagen's documented algorithm does not explain it (%s)", c.Patterns, ancName, newPaths, newKind), w)
			}
			if len(knownPaths) > 0 {
				caseKnown = true
				r.Count("docker_parent_inheritance_paths_ancestor_"+ancName, int64(len(knownPaths)))
				r.Count("docker_parent_inheritance_cases_ancestor_"+ancName, 1)
				w := describe()
				w["paths"] = knownPaths
				if variant == 0 {
					mu.Lock()
					if len(knownExamples) < 6 {
						knownExamples = append(knownExamples, map[string]any{"patterns": c.Patterns, "paths": knownPaths, "real": w["real_synchronized"], "docker": w["docker_reference"]})
					}
					mu.Unlock()
				}
				r.Violation(map[string]string{"rule": "docker-parent-inheritance"},
					fmt.Sprintf("patterns %q (ancestor %s): Docker applies patterns to parent directories too, Mutagen matches the path only; differing paths %v", c.Patterns, ancName, knownPaths), w)
			}
			if len(modelOnly) > 0 {
				r.Count("paths_real_equals_docker_but_not_documented_model", int64(len(modelOnly)))
			}

			// accounting of what reification was exercised
			for d := range dockerWalk.Descended {
				if _, ok := wantDocker[d]; !ok {
					r.Count("excluded_descended_directories_expected_untracked_"+ancName, 1)
				} else {
					r.Count("excluded_descended_directories_expected_tracked_"+ancName, 1)
					if ancDir(d) {
						r.Count("excluded_descended_directories_with_ancestor_directory", 1)
					}
				}
			}
		}

		r.Count("cases_run", 1)
		if caseKnown {
			r.Count("docker_parent_inheritance_cases", 1)
		}
		if nontrivial {
			r.Count("cases_with_nontrivial_included_set", 1)
			excl := 0
			for _, l := range dock.Lines {
				if strings.HasPrefix(l, "!") {
					excl++
				}
			}
			if len(dockerWalk.Descended) > 0 {
				r.Count("cases_with_descended_excluded_directory", 1)
			}
			r.Distinct(fmt.Sprintf("d|p%d|x%d|desc%s|inc%s|exc%s|known%v", len(dock.Lines), excl, bucket(len(dockerWalk.Descended)), bucket(includedLeaves), bucket(excluded), caseKnown))
			mu.Lock()
			if sampled < 4 && len(dockerWalk.Descended) > 0 {
				sampled++
				r.Sample(map[string]any{"patterns": c.Patterns, "entries": len(c.Tree), "included_leaves": includedLeaves, "excluded_paths": excluded,
					"excluded_but_descended": ignorex.DescribeSet(dockerWalk.Descended), "docker_reference": ignorex.DescribeSet(dockerWalk.Tracked)})
			}
			mu.Unlock()
		}
	})

	r.Note("docker_parent_inheritance_examples", knownExamples)
	r.Assume("Docker reference = buildkit dockerignore.ReadAll normalization + frozen moby/patternmatcher MatchesUsingParentResults + moby pkg/archive.TarWithOptions walk (excluded directory still descended iff an exclusion pattern has it as a path prefix), modelled in verif/internal/ignorex")
	r.Assume("pattern grammar restricted to what both sides define: no backslash, no comment lines, '**' only as a whole segment")
	r.Assume("a directory excluded by the reference and not descended by it is expected untracked whatever the ancestor holds (the property's 'only if')")
	r.Assume("disagreements explained by Mutagen's documented algorithm (path-only matching, one inherited mask) are reported under the signature rule=docker-parent-inheritance; any other disagreement is rule=differs-from-documented-algorithm")
	floor := 25
	if r.Counter("cases_with_descended_excluded_directory") < 20 || r.Counter("cases_with_nontrivial_included_set") < 100 ||
		r.Counter("excluded_descended_directories_with_ancestor_directory") < 5 {
		fmt.Println("ERROR: C15 observed too few cases with re-inclusion below excluded directories / ancestor-reified directories")
		floor = 1 << 30
	}
	r.Finish("seeded random (.dockerignore list, disk tree) pairs, each reified once with a nil and once with a populated ancestor; a pair is non-trivial if the Docker reference includes at least one leaf and excludes at least one path; distinct = (patterns, exclusion patterns, descended excluded directories bucket, included leaves bucket, excluded paths bucket, known disagreement present)", floor)
}

func trackedWord(t bool) string {
	if t {
		return "tracked"
	}
	return "untracked"
}
