package main

import (
	"fmt"
	"os"
	"path/filepath"
	"runtime"
	"sort"
	"strings"
	"sync"

	"github.com/mutagen-io/mutagen/pkg/synchronization/core"
	"github.com/mutagen-io/mutagen/pkg/synchronization/core/ignore"
	mutagenignore "github.com/mutagen-io/mutagen/pkg/synchronization/core/ignore/mutagen"

	"verif/internal/fsx"
	"verif/internal/gen"
	"verif/internal/ignorex"
	"verif/internal/vk"
)

// C14 — Mutagen-style ignores follow last-match-wins and prune ignored
// directories.
//
// Part (i): the real Ignorer.Ignore against the reference of
// ignorex/mutagenref.go on random (pattern list, path, directory flag) triples.
//
// Part (ii): real cold scans of random disk trees — snapshot against the
// independent walker driven by the reference, digest cache, inotify access
// sensor, VCS option.
func c14() {
	r := vk.Start("C14", "exploration")
	c14Match(r)
	c14Accel(r)
	c14Scan(r)
	r.Assume("pattern grammar: ['!']['/'] segment {'/' segment} ['/'], segment = literal | glob with * ? [class] | '**' (whole segment only); no '.'/'..' segments, no backslash, no braces")
	r.Assume("single-pattern matching of patterns containing '**' is delegated to github.com/bmatcuk/doublestar/v4 (third-party, pinned); all other patterns use the harness's own segment matcher")
	r.Assume("the verdict of part (i) is the boolean 'ignored'; the nominal/unignored distinction has no effect under Mutagen-style syntax and is only counted")
	r.Assume("part (iii): accelerated scans are driven as the local endpoint drives them — previous snapshot as baseline, previous digest and ignore caches, re-check paths = {parent directory of the changed entry} (\"\" for the root, the Linux watcher's convention) or {the entry's own path}; pattern lists of part (iii) hold no negated character class")
	r.Assume("scans run as root on ext4 scratch space; the inotify sensor watches every directory at or below a reference-ignored directory, its liveness control is the scan root plus every traversed directory")
	floor := 40
	if r.Counter("ii_scans_with_nonempty_ignored_directory") < 20 || r.Counter("ii_watched_ignored_directories") < 50 || r.Counter("i_pairs_with_several_matches") < 1000 ||
		r.Counter("iii_kind_flips_with_opposite_verdict_parent") < 20 || r.Counter("iii_kind_flips_with_opposite_verdict_self") < 20 || r.Counter("iii_pruned_target_directories_watched") < 20 {
		// one of the two parts observed (almost) nothing — e.g. inotify was
		// unavailable for every scan: no verdict rather than a silent pass.
		fmt.Println("ERROR: C14 observed too few non-trivial scans / sensor watches / multi-match pairs / kind flips with opposite verdict")
		floor = 1 << 30
	}
	r.Finish("(i) seeded random pattern lists x paths (two thirds derived from a pattern of the list) x directory flag; a pair is non-trivial if at least one pattern matches; distinct = (features of the deciding pattern, number of matching patterns bucket, deciding pattern is last, directory flag, depth, verdict). (ii) seeded random trees + lists scanned by the real core.Scan; a scan is non-trivial if a non-empty directory is ignored; distinct = (VCS option, ignored directory/file count buckets, depth of the deepest ignored directory, features of a deciding pattern). (iii) seeded histories cold scan -> {replace one entry by absent/file/directory of the same name, accelerated rescan} x 2-3 in two chains (recheck = parent directory / recheck = the entry); distinct = (chain, kind before>after, reference verdict before>after, depth, step, renamed into place)", floor)
}

func patternFeatures(p ignorex.MPattern) string {
	var sb strings.Builder
	if p.Neg {
		sb.WriteString("!")
	}
	if p.Anchored {
		sb.WriteString("/")
	}
	if p.DirOnly {
		sb.WriteString("d")
	}
	if p.DoubleStar {
		sb.WriteString("D")
	}
	body := strings.ReplaceAll(p.Body, "**", "")
	if strings.Contains(body, "*") {
		sb.WriteString("s")
	}
	if strings.Contains(body, "?") {
		sb.WriteString("q")
	}
	if strings.Contains(body, "[") {
		sb.WriteString("c")
	}
	fmt.Fprintf(&sb, "%d", len(p.Segs))
	return sb.String()
}

// negatedClass reports whether some pattern holds a negated character class.
func negatedClass(list []string) bool {
	for _, p := range list {
		if strings.Contains(p, "[!") || strings.Contains(p, "[^") {
			return true
		}
	}
	return false
}

func c14Match(r *vk.Run) {
	total := r.Pick(200000, 5000000)
	workers := runtime.NumCPU()
	per := (total + workers - 1) / workers
	var sampleMu sync.Mutex
	sampled := 0
	parallel(workers, workers, func(w int) {
		rng := r.Rand(fmt.Sprintf("match-%d", w))
		done := 0
		for done < per {
			list := ignorex.MutagenList(rng, 6)
			fmt.Printf("C14 match worker %d list %q\n", w, list)
			var real ignore.Ignorer
			var err error
			r.Guard(map[string]any{"patterns": list, "step": "NewIgnorer"}, func() {
				real, err = mutagenignore.NewIgnorer(list)
			})
			if err != nil || real == nil {
				r.Violation(map[string]string{"part": "ignore-fn", "rule": "grammar-pattern-rejected"},
					fmt.Sprintf("NewIgnorer rejected a pattern list of the documented grammar: %v", err),
					map[string]any{"patterns": list, "error": fmt.Sprint(err)})
				done++
				continue
			}
			ref := ignorex.NewMRef(list, false)
			alt := ignorex.NewMRef(list, false)
			alt.NegClassSlash = true
			k := 4 + rng.Intn(9)
			for j := 0; j < k && done < per; j++ {
				path := ignorex.RandomPath(rng, list)
				dir := rng.Intn(2) == 0
				done++
				r.Eval(1)
				var st ignore.IgnoreStatus
				var cont bool
				r.Guard(map[string]any{"patterns": list, "path": path, "directory": dir}, func() {
					st, cont = real.Ignore(path, dir)
				})
				v := ref.Decide(path, dir)
				if !v.OwnOK {
					r.Count("i_own_doublestar_matcher_differs_from_doublestar", 1)
					if os.Getenv("VERIF_DEBUG") != "" {
						fmt.Printf("DEBUG own-vs-doublestar: patterns=%q path=%q dir=%v\n", list, path, dir)
					}
				}
				realIgnored := st == ignore.IgnoreStatusIgnored
				deciding := "none"
				feat := "-"
				if v.Deciding >= 0 {
					feat = patternFeatures(ref.Patterns[v.Deciding])
					deciding = "plain"
					if ref.Patterns[v.Deciding].Neg {
						deciding = "negated"
					}
				}
				if realIgnored != v.Ignored && alt.Decide(path, dir).Ignored == realIgnored && negatedClass(list) {
					// One specific, recorded defect gets its own signature: a
					// negated character class matches the '/' separator, so a
					// pattern reaches across directory levels. The signature
					// is given ONLY if the list holds a negated class AND the
					// disagreement disappears when the reference's own matcher
					// is switched to let negated classes match '/' (nothing
					// else changes: ignorex.MRef.NegClassSlash). Any other
					// disagreement keeps rule=last-match-wins below.
					r.Count("i_negated_class_matches_separator", 1)
					r.Violation(map[string]string{"rule": "negated-class-matches-separator"},
						fmt.Sprintf("Ignore(%q, dir=%v) with %q: real ignored=%v, reference ignored=%v; explained by a negated character class matching the '/' separator", path, dir, list, realIgnored, v.Ignored),
						map[string]any{"part": "ignore-fn", "patterns": list, "path": path, "directory": dir, "real_status": int(st), "reference_ignored": v.Ignored})
				} else if realIgnored != v.Ignored {
					r.Violation(map[string]string{"part": "ignore-fn", "rule": "last-match-wins",
						"expected_ignored": fmt.Sprint(v.Ignored), "deciding": deciding, "directory": fmt.Sprint(dir)},
						fmt.Sprintf("Ignore(%q, dir=%v) with %q: real status %d (ignored=%v), reference ignored=%v (last matching pattern index %d)", path, dir, list, st, realIgnored, v.Ignored, v.Deciding),
						map[string]any{"patterns": list, "path": path, "directory": dir, "real_status": int(st), "reference_ignored": v.Ignored, "deciding_index": v.Deciding})
				}
				if cont {
					r.Violation(map[string]string{"part": "ignore-fn", "rule": "traversal-continues", "status": fmt.Sprint(int(st))},
						fmt.Sprintf("Ignore(%q, dir=%v) with %q asks to continue traversal; Mutagen-style ignores never traverse ignored content", path, dir, list),
						map[string]any{"patterns": list, "path": path, "directory": dir, "real_status": int(st)})
				}
				// informational: tri-state
				wantTri := ignore.IgnoreStatusNominal
				if v.Deciding >= 0 {
					wantTri = ignore.IgnoreStatusIgnored
					if ref.Patterns[v.Deciding].Neg {
						wantTri = ignore.IgnoreStatusUnignored
					}
				}
				if st != wantTri {
					r.Count("i_tristate_differs_(not_judged)", 1)
				}
				if v.Matches > 0 {
					r.Count("i_pairs_with_a_match", 1)
					if v.Matches > 1 {
						r.Count("i_pairs_with_several_matches", 1)
					}
					if v.Ignored {
						r.Count("i_pairs_ignored", 1)
					}
					r.Distinct(fmt.Sprintf("m|%s|n%s|last%v|dir%v|depth%d|ign%v", feat, bucket(v.Matches), v.Deciding == len(list)-1, dir, strings.Count(path, "/"), v.Ignored))
					if v.Matches > 1 {
						sampleMu.Lock()
						if sampled < 2 {
							sampled++
							r.Sample(map[string]any{"part": "ignore-fn", "patterns": list, "path": path, "directory": dir, "matching_patterns": v.Matches, "deciding_index": v.Deciding, "ignored": v.Ignored})
						}
						sampleMu.Unlock()
					}
				}
			}
		}
	})
}

// scanCase is one generated scan case of part (ii).
type scanCase struct {
	Index    int
	Patterns []string
	VCS      bool
	Tree     fsx.Tree
}

func (c scanCase) witness() map[string]any {
	paths := c.Tree.SortedPaths()
	desc := make([]string, len(paths))
	for i, p := range paths {
		switch c.Tree[p].Kind {
		case fsx.KDir:
			desc[i] = p + "/"
		case fsx.KLink:
			desc[i] = p + "@"
		default:
			desc[i] = p
		}
	}
	return map[string]any{"case": c.Index, "patterns": c.Patterns, "ignore_vcs": c.VCS, "tree": desc}
}

func genScanCase(r *vk.Run, i int) scanCase {
	rng := r.Rand(fmt.Sprintf("scan-%d", i))
	c := scanCase{Index: i, VCS: rng.Intn(2) == 0}
	names := append([]string{}, ignorex.Names...)
	if rng.Intn(3) != 0 {
		// VCS names appear whether or not the option is on (off = control).
		names = append(names, ignorex.VCSNames...)
		names = append(names, ".git", ".svn")
	}
	c.Tree = ignorex.SmallTree(rng, names, 40, 4, true)
	c.Patterns = ignorex.MutagenList(rng, 5)
	// Aim some patterns at directories that exist.
	var dirs []string
	for _, p := range c.Tree.SortedPaths() {
		if c.Tree[p].Kind == fsx.KDir {
			dirs = append(dirs, p)
		}
	}
	if len(dirs) > 0 {
		for k := rng.Intn(3); k > 0; k-- {
			d := dirs[rng.Intn(len(dirs))]
			var p string
			switch rng.Intn(4) {
			case 0:
				p = "/" + d
			case 1:
				p = filepath.Base(d) + "/"
			case 2:
				p = filepath.Base(d)
			default:
				p = d + "/"
			}
			pos := rng.Intn(len(c.Patterns) + 1)
			c.Patterns = append(c.Patterns[:pos], append([]string{p}, c.Patterns[pos:]...)...)
		}
	}
	return c
}

func c14Scan(r *vk.Run) {
	n := r.Pick(150, 3000)
	base := filepath.Join(r.Scratch(), "scan")
	os.MkdirAll(base, 0o755)
	var sampleMu sync.Mutex
	sampled := 0
	parallel(n, runtime.NumCPU(), func(i int) {
		c := genScanCase(r, i)
		fmt.Printf("C14 scan case %d: vcs=%v patterns=%q tree=%q\n", i, c.VCS, c.Patterns, c.witness()["tree"])
		root := filepath.Join(base, fmt.Sprintf("t%d", i))
		defer os.RemoveAll(root)
		if err := fsx.Materialize(root, c.Tree); err != nil {
			r.Inconclusive("materialize-failed")
			return
		}
		r.Eval(1)
		ref := ignorex.NewMRef(c.Patterns, c.VCS)
		alt := ignorex.NewMRef(c.Patterns, c.VCS)
		alt.NegClassSlash = true
		cfg := fsx.DefaultScanConfig()
		cfg.Patterns = c.Patterns
		cfg.IgnoreVCS = c.VCS
		realIgnorer, igErr := cfg.NewIgnorer()
		if igErr != nil {
			r.Violation(map[string]string{"part": "scan", "rule": "grammar-pattern-rejected"}, fmt.Sprintf("NewIgnorer rejected %q: %v", c.Patterns, igErr), c.witness())
			return
		}
		// decide is the reference verdict — except on paths hit by the
		// separately reported negated-class defect (list holds a negated
		// class, the NegClassSlash variant of the reference disagrees with the
		// reference there, and the real ignorer sides with the variant), where
		// the remaining scan checks (pruning, cache, sensor) follow what the
		// ignorer really says. Such a case is reported once under
		// rule=negated-class-matches-separator.
		var quirkPaths []string
		decide := func(p string, dir bool) ignorex.Verdict {
			v := ref.Decide(p, dir)
			if negatedClass(c.Patterns) {
				if va := alt.Decide(p, dir); va.Ignored != v.Ignored {
					if st, _ := realIgnorer.Ignore(p, dir); (st == ignore.IgnoreStatusIgnored) == va.Ignored {
						quirkPaths = append(quirkPaths, p)
						return va
					}
				}
			}
			return v
		}

		// Classify the generated tree with the reference: traversed
		// directories, top-most ignored paths, directories at or below an
		// ignored directory.
		nodes := ignorex.BuildNodes(ignorex.TreePaths(c.Tree))
		var traversed, ignoredDirs, beneath, ignoredFiles []string
		ignoredTop := map[string]bool{}
		nonEmptyIgnored := 0
		deepest := -1
		decidingFeat := "-"
		vcsByDepth := map[int]int{}
		var classify func(nd *ignorex.Node, p string, under bool)
		classify = func(nd *ignorex.Node, p string, under bool) {
			for _, ch := range nd.Children {
				q := ch.Name
				if p != "" {
					q = p + "/" + ch.Name
				}
				if under {
					if ch.Dir {
						beneath = append(beneath, q)
						classify(ch, q, true)
					}
					continue
				}
				v := decide(q, ch.Dir)
				if v.Ignored {
					ignoredTop[q] = true
					if ch.Dir {
						ignoredDirs = append(ignoredDirs, q)
						if len(ch.Children) > 0 {
							nonEmptyIgnored++
						}
						if d := strings.Count(q, "/"); d > deepest {
							deepest = d
						}
						if v.Deciding >= 0 {
							decidingFeat = patternFeatures(ref.Patterns[v.Deciding])
						} else if v.Deciding == -2 {
							decidingFeat = "vcs"
							vcsByDepth[strings.Count(q, "/")]++
						}
						classify(ch, q, true)
					} else {
						ignoredFiles = append(ignoredFiles, q)
					}
					continue
				}
				if ch.Dir {
					traversed = append(traversed, q)
					classify(ch, q, false)
				}
			}
		}
		classify(nodes, "", false)

		// Sensor: ignored directories and everything beneath them must stay
		// silent; the root and every traversed directory are the control.
		sensor, err := ignorex.NewSensor()
		if err != nil {
			r.Inconclusive("inotify-unavailable")
			return
		}
		defer sensor.Close()
		watchOK := sensor.Watch(root, "C:") == nil
		for _, d := range traversed {
			watchOK = watchOK && sensor.Watch(filepath.Join(root, d), "C:"+d) == nil
		}
		for _, d := range ignoredDirs {
			watchOK = watchOK && sensor.Watch(filepath.Join(root, d), "I:"+d) == nil
		}
		for _, d := range beneath {
			watchOK = watchOK && sensor.Watch(filepath.Join(root, d), "I:"+d) == nil
		}
		if !watchOK {
			r.Inconclusive("inotify-watch-failed")
			return
		}
		if pre, _, _ := sensor.Drain(); len(pre) > 0 {
			// something other than the scan touches the scratch tree
			r.Inconclusive("sensor-noise-before-scan")
			return
		}

		if len(quirkPaths) > 0 {
			r.Count("ii_scans_hit_by_negated_class_defect", 1)
			w := c.witness()
			w["part"] = "scan"
			w["paths"] = quirkPaths
			r.Violation(map[string]string{"rule": "negated-class-matches-separator"},
				fmt.Sprintf("patterns %q: the ignorer's verdict for %v differs from the reference; explained by a negated character class matching the '/' separator", c.Patterns, quirkPaths), w)
		}
		var state *fsx.ScanState
		var scanErr error
		r.Guard(c.witness(), func() { state, scanErr = fsx.Cold(root, cfg) })
		events, overflow, derr := sensor.Drain()
		if scanErr != nil || state == nil {
			r.Violation(map[string]string{"part": "scan", "rule": "scan-failed"}, fmt.Sprintf("cold scan failed: %v", scanErr), c.witness())
			return
		}
		if overflow || derr != nil {
			r.Inconclusive("sensor-overflow")
			return
		}

		// Sensor verdict.
		controlOpen, controlRead := map[string]bool{}, map[string]bool{}
		var forbidden []string
		for _, e := range events {
			if strings.HasPrefix(e.Label, "I:") {
				forbidden = append(forbidden, e.String())
				continue
			}
			if e.Name == "" && e.Open {
				controlOpen[e.Label] = true
			}
			if e.Name == "" && e.Read {
				controlRead[e.Label] = true
			}
		}
		if !controlOpen["C:"] || !controlRead["C:"] {
			r.Inconclusive("sensor-control-silent")
			return
		}
		r.Count("ii_control_directories_seen_opened", int64(len(controlOpen)))
		r.Count("ii_control_directories_expected", int64(1+len(traversed)))
		r.Count("ii_watched_ignored_directories", int64(len(ignoredDirs)+len(beneath)))
		if len(forbidden) > 0 {
			w := c.witness()
			w["events"] = forbidden
			r.Violation(map[string]string{"part": "scan", "rule": "access-beneath-ignored-directory"},
				fmt.Sprintf("the scan opened or read %d object(s) at or below an ignored directory: %v", len(forbidden), forbidden), w)
		}

		// Snapshot: each top-most ignored path is exactly one untracked entry.
		content := state.Snapshot.Content
		for q := range ignoredTop {
			parent := ""
			if i := strings.LastIndexByte(q, '/'); i >= 0 {
				parent = q[:i]
			}
			if pe := gen.At(content, parent); pe == nil || pe.Kind != core.EntryKind_Directory {
				continue // the parent itself is wrong; reported by the whole-snapshot comparison below
			}
			e := gen.At(content, q)
			if e == nil || e.Kind != core.EntryKind_Untracked || len(e.Contents) != 0 {
				w := c.witness()
				w["path"] = q
				w["entry"] = describeEntry(e)
				r.Violation(map[string]string{"part": "scan", "rule": "ignored-path-not-one-untracked-entry"},
					fmt.Sprintf("%q is ignored by the last matching pattern but the snapshot holds %s there", q, describeEntry(e)), w)
			}
		}
		// Snapshot as a whole vs the independent walker driven by the reference.
		want, _, werr := fsx.Walk(root, fsx.WalkOptions{
			SymbolicLinkMode: cfg.SymbolicLinkMode, PermissionsMode: cfg.PermissionsMode,
			Ignored: func(p string, dir bool) bool { return decide(p, dir).Ignored },
		})
		if werr != nil {
			r.Inconclusive("walker-failed")
			return
		}
		if ok, where := fsx.EqualLoose(want, content); !ok && !ignoredTop[where] {
			w := c.witness()
			w["path"] = where
			w["expected"] = describeEntry(gen.At(want, where))
			w["real"] = describeEntry(gen.At(content, where))
			rule := "snapshot-differs"
			if we := gen.At(want, where); we != nil && we.Kind != core.EntryKind_Untracked {
				if re := gen.At(content, where); re != nil && re.Kind == core.EntryKind_Untracked {
					rule = "unignored-path-untracked"
				}
			}
			r.Violation(map[string]string{"part": "scan", "rule": rule},
				fmt.Sprintf("snapshot differs from the reference walk at %q: expected %v, real %v", where, w["expected"], w["real"]), w)
		}
		// Digest cache: nothing at or below an ignored path.
		if state.Cache != nil {
			var bad []string
			for p := range state.Cache.Entries {
				for q := p; q != ""; {
					if ignoredTop[q] {
						bad = append(bad, p)
						break
					}
					if i := strings.LastIndexByte(q, '/'); i >= 0 {
						q = q[:i]
					} else {
						q = ""
					}
				}
			}
			r.Count("ii_digest_cache_entries", int64(len(state.Cache.Entries)))
			if len(bad) > 0 {
				sort.Strings(bad)
				w := c.witness()
				w["cache_paths"] = bad
				r.Violation(map[string]string{"part": "scan", "rule": "digest-cache-beneath-ignored"},
					fmt.Sprintf("digest cache holds entries at or below ignored paths: %v", bad), w)
			}
		}

		r.Count("ii_ignored_directories", int64(len(ignoredDirs)))
		r.Count("ii_ignored_files", int64(len(ignoredFiles)))
		for d, k := range vcsByDepth {
			r.Count(fmt.Sprintf("ii_vcs_directories_untracked_depth%d", d), int64(k))
		}
		if nonEmptyIgnored > 0 {
			r.Count("ii_scans_with_nonempty_ignored_directory", 1)
			r.Distinct(fmt.Sprintf("s|vcs%v|d%s|f%s|deep%d|%s", c.VCS, bucket(len(ignoredDirs)), bucket(len(ignoredFiles)), deepest, decidingFeat))
			sampleMu.Lock()
			if sampled < 3 {
				sampled++
				sort.Strings(ignoredDirs)
				r.Sample(map[string]any{"part": "scan", "patterns": c.Patterns, "ignore_vcs": c.VCS, "entries": len(c.Tree),
					"ignored_directories": ignoredDirs, "watched_silent_directories": len(ignoredDirs) + len(beneath), "control_directories_opened": len(controlOpen)})
			}
			sampleMu.Unlock()
		}
	})
}
