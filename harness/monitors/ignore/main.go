// Monitor group ignore: Mutagen-style ignores (C14) and Docker-style ignores
// (C15). The reference models, generators and the inotify sensor live in
// verif/internal/ignorex.
package main

import (
	"runtime"
	"sort"
	"strings"
	"sync"

	"github.com/mutagen-io/mutagen/pkg/synchronization/core"

	"verif/internal/vk"
)

func main() {
	vk.Main("ignore", map[string]func(){
		"C14": c14,
		"C15": c15,
	})
}

// parallel runs f(i) for i in [0,n) on a bounded worker pool.
func parallel(n, workers int, f func(i int)) {
	if workers <= 0 {
		workers = runtime.NumCPU()
	}
	if workers > n {
		workers = n
	}
	var wg sync.WaitGroup
	ch := make(chan int)
	for w := 0; w < workers; w++ {
		wg.Add(1)
		go func() {
			defer wg.Done()
			for i := range ch {
				f(i)
			}
		}()
	}
	for i := 0; i < n; i++ {
		ch <- i
	}
	close(ch)
	wg.Wait()
}

func bucket(n int) string {
	switch {
	case n == 0:
		return "0"
	case n == 1:
		return "1"
	case n <= 3:
		return "2-3"
	case n <= 7:
		return "4-7"
	default:
		return "8+"
	}
}

// describeEntry renders an entry tree with kinds only (no digests: output
// must stay plain text) and bounded size.
func describeEntry(e *core.Entry) string {
	var sb strings.Builder
	var rec func(e *core.Entry, depth int)
	rec = func(e *core.Entry, depth int) {
		if e == nil {
			sb.WriteString("-")
			return
		}
		switch e.Kind {
		case core.EntryKind_Directory, core.EntryKind_PhantomDirectory:
			if e.Kind == core.EntryKind_PhantomDirectory {
				sb.WriteString("H")
			} else {
				sb.WriteString("D")
			}
			if len(e.Contents) == 0 {
				return
			}
			sb.WriteString("{")
			if depth >= 4 || sb.Len() > 600 {
				sb.WriteString("...}")
				return
			}
			names := make([]string, 0, len(e.Contents))
			for n := range e.Contents {
				names = append(names, n)
			}
			sort.Strings(names)
			for i, n := range names {
				if i > 0 {
					sb.WriteString(" ")
				}
				sb.WriteString(n + ":")
				rec(e.Contents[n], depth+1)
			}
			sb.WriteString("}")
		case core.EntryKind_File:
			sb.WriteString("F")
		case core.EntryKind_SymbolicLink:
			sb.WriteString("L")
		case core.EntryKind_Untracked:
			sb.WriteString("U")
		case core.EntryKind_Problematic:
			sb.WriteString("P")
		default:
			sb.WriteString("?")
		}
	}
	rec(e, 0)
	return sb.String()
}

var _ = (*vk.Run)(nil)
