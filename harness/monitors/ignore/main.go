// Monitor group ignore: Mutagen-style ignores (C14) and Docker-style ignores
// (C15). The reference models, generators and the inotify sensor live in
// verif/internal/ignorex.
package main

import (
	"runtime"
	"sync"

	"verif/internal/vk"
)

func main() {
	vk.Main("ignore", map[string]func(){
		"C14": c14,
		"C15": c15,
	})
}

// parallel runs f(i) for i in [0,n) on a bounded worker pool.
func parallel(n, workers int, f func(i int)) {
	if workers <= 0 {
		workers = runtime.NumCPU()
	}
	if workers > n {
		workers = n
	}
	var wg sync.WaitGroup
	ch := make(chan int)
	for w := 0; w < workers; w++ {
		wg.Add(1)
		go func() {
			defer wg.Done()
			for i := range ch {
				f(i)
			}
		}()
	}
	for i := 0; i < n; i++ {
		ch <- i
	}
	close(ch)
	wg.Wait()
}

func bucket(n int) string {
	switch {
	case n == 0:
		return "0"
	case n == 1:
		return "1"
	case n <= 3:
		return "2-3"
	case n <= 7:
		return "4-7"
	default:
		return "8+"
	}
}

var _ = (*vk.Run)(nil)
