package main

import (
	"fmt"
	"math/rand"
	"os"
	"path/filepath"
	"runtime"
	"sort"
	"strings"
	"sync"

	"github.com/mutagen-io/mutagen/pkg/synchronization/core"

	"verif/internal/fsx"
	"verif/internal/gen"
	"verif/internal/ignorex"
	"verif/internal/vk"
)

// Part (iii) of C14: ACCELERATED scans across kind flips.
//
// The endpoint normally scans with the previous snapshot as baseline, the
// previous digest and ignore caches, and re-check paths from the watcher; on
// Linux the watcher names only the PARENT directory of an entry that is
// created, deleted or renamed into place (root-level entries: the root, whose
// path is ""), and core.Scan documents that the children of a dirty directory
// are re-evaluated. A pattern's verdict depends on the entry's kind (trailing
// '/' = directories only), so an entry replaced by same-named content of the
// other kind may flip between "ignored" and "synchronized".
//
// A history: cold scan; then 2–3 times { replace the target entry by another
// kind (absent / file / directory with content; in place or renamed into
// place); accelerated rescan }. Two independent chains are kept, each feeding
// its own previous state: chain "parent" re-checks {parent directory of the
// target}, chain "self" re-checks {the target path}. After every step each
// chain's snapshot must
//   - classify the target exactly as the reference says for its NEW kind (one
//     untracked entry if ignored, tracked content otherwise, nothing if absent),
//   - equal the independent walker driven by the reference, and a cold scan,
//   - hold no digest-cache entry at or below an ignored path,
//   - and the inotify sensor must see no open/read of a target directory that
//     is ignored (control: the target's parent directory, which is dirty and
//     therefore re-read).
// Pattern lists of this part hold no negated character class, so the recorded
// doublestar defect cannot interfere and the reference stands alone.

type flipKind int

const (
	flipAbsent flipKind = iota
	flipFile
	flipDir
)

func (k flipKind) String() string { return [...]string{"absent", "file", "directory"}[k] }

type accelCase struct {
	scanCase
	Target string
	Kinds  []flipKind // kind of the target at step 0, 1, 2, ...
	Rename []bool     // step k's content is renamed into place
}

func (c accelCase) witness() map[string]any {
	w := c.scanCase.witness()
	w["target"] = c.Target
	ks := make([]string, len(c.Kinds))
	for i, k := range c.Kinds {
		ks[i] = k.String()
		if c.Rename[i] {
			ks[i] += "(renamed into place)"
		}
	}
	w["target_kinds_per_step"] = ks
	return w
}

func genAccelCase(r *vk.Run, i int) accelCase {
	rng := r.Rand(fmt.Sprintf("accel-%d", i))
	c := accelCase{}
	c.Index = i
	c.VCS = rng.Intn(3) == 0
	names := append([]string{"cache", "data"}, ignorex.Names...)
	if c.VCS || rng.Intn(3) == 0 {
		names = append(names, ".git", "_darcs")
	}
	c.Tree = ignorex.SmallTree(rng, names, 16, 3, true)
	for {
		c.Patterns = ignorex.MutagenList(rng, 4)
		if !negatedClass(c.Patterns) {
			break
		}
	}
	// Target: an existing or new name in the root or in an existing directory.
	parents := []string{""}
	for _, p := range c.Tree.SortedPaths() {
		if c.Tree[p].Kind == fsx.KDir {
			parents = append(parents, p)
		}
	}
	parent := ""
	if rng.Intn(2) == 0 {
		parent = parents[rng.Intn(len(parents))]
	}
	name := names[rng.Intn(len(names))]
	c.Target = name
	if parent != "" {
		c.Target = parent + "/" + name
	}
	// Remove whatever the generated tree has at or below the target: the
	// history decides what is there.
	for p := range c.Tree {
		if p == c.Target || strings.HasPrefix(p, c.Target+"/") {
			delete(c.Tree, p)
		}
	}
	// Patterns whose verdict depends on the kind, aimed at the target.
	var aimed []string
	switch rng.Intn(8) {
	case 0: // directories ignored, files not
		aimed = []string{name + "/"}
	case 1: // files ignored, directories not
		aimed = []string{name, "!" + name + "/"}
	case 2:
		aimed = []string{"/" + c.Target + "/"}
	case 3:
		aimed = []string{"/" + c.Target, "!/" + c.Target + "/"}
	case 4:
		aimed = []string{"*", "!" + name + "/"}
	case 5:
		aimed = []string{"**/" + name + "/"}
	case 6: // same verdict for both kinds (control shape)
		aimed = []string{name}
	default: // whatever the random list says
	}
	if rng.Intn(4) == 0 {
		c.Patterns = append(aimed, c.Patterns...)
	} else {
		c.Patterns = append(c.Patterns, aimed...)
	}
	steps := 3 + rng.Intn(2) // scans per chain: cold + 2..3 accelerated
	prev := flipKind(rng.Intn(3))
	for s := 0; s < steps; s++ {
		k := prev
		if s > 0 {
			// mostly file <-> directory, sometimes via absent
			switch {
			case prev == flipAbsent:
				k = flipKind(1 + rng.Intn(2))
			case rng.Intn(5) == 0:
				k = flipAbsent
			case prev == flipFile:
				k = flipDir
			default:
				k = flipFile
			}
		}
		c.Kinds = append(c.Kinds, k)
		c.Rename = append(c.Rename, s > 0 && k != flipAbsent && rng.Intn(2) == 0)
		prev = k
	}
	return c
}

// placeTarget puts content of the given kind at the target (removing what was
// there). Directory content: a few files, sometimes a sub-directory and a VCS
// directory. All file content is unique per (case, step).
func placeTarget(rng *rand.Rand, root, staging string, c accelCase, step int) error {
	full := filepath.Join(root, filepath.FromSlash(c.Target))
	if err := os.RemoveAll(full); err != nil {
		return err
	}
	kind := c.Kinds[step]
	if kind == flipAbsent {
		return nil
	}
	dest := full
	if c.Rename[step] {
		dest = filepath.Join(staging, fmt.Sprintf("new-%d", step))
		os.RemoveAll(dest)
	}
	token := func(what string) []byte {
		return []byte(fmt.Sprintf("case %d step %d %s %d\n", c.Index, step, what, rng.Int63()))
	}
	switch kind {
	case flipFile:
		if err := os.WriteFile(dest, token("file"), 0o644); err != nil {
			return err
		}
	case flipDir:
		if err := os.Mkdir(dest, 0o755); err != nil {
			return err
		}
		for k := 1 + rng.Intn(3); k > 0; k-- {
			n := ignorex.Names[rng.Intn(len(ignorex.Names))]
			if err := os.WriteFile(filepath.Join(dest, n), token(n), 0o644); err != nil {
				return err
			}
		}
		if rng.Intn(2) == 0 {
			sub := filepath.Join(dest, "sub")
			if err := os.Mkdir(sub, 0o755); err != nil {
				return err
			}
			if err := os.WriteFile(filepath.Join(sub, "inner"), token("inner"), 0o644); err != nil {
				return err
			}
		}
		if rng.Intn(3) == 0 {
			vcs := filepath.Join(dest, ".git")
			if err := os.Mkdir(vcs, 0o755); err != nil {
				return err
			}
			if err := os.WriteFile(filepath.Join(vcs, "HEAD"), token("HEAD"), 0o644); err != nil {
				return err
			}
		}
	}
	if dest != full {
		return os.Rename(dest, full)
	}
	return nil
}

func c14Accel(r *vk.Run) {
	n := r.Pick(150, 2500)
	base := filepath.Join(r.Scratch(), "accel")
	os.MkdirAll(base, 0o755)
	var sampleMu sync.Mutex
	sampled := 0
	parallel(n, runtime.NumCPU(), func(i int) {
		c := genAccelCase(r, i)
		w := c.witness()
		fmt.Printf("C14 accel case %d: vcs=%v patterns=%q target=%q kinds=%v tree=%q\n", i, c.VCS, c.Patterns, c.Target, w["target_kinds_per_step"], w["tree"])
		rng := r.Rand(fmt.Sprintf("accel-content-%d", i))
		root := filepath.Join(base, fmt.Sprintf("t%d", i))
		staging := filepath.Join(base, fmt.Sprintf("staging%d", i))
		defer os.RemoveAll(root)
		defer os.RemoveAll(staging)
		os.MkdirAll(staging, 0o755)
		if err := fsx.Materialize(root, c.Tree); err != nil {
			r.Inconclusive("materialize-failed")
			return
		}
		ref := ignorex.NewMRef(c.Patterns, c.VCS)
		cfg := fsx.DefaultScanConfig()
		cfg.Patterns = c.Patterns
		cfg.IgnoreVCS = c.VCS

		parent := ""
		if j := strings.LastIndexByte(c.Target, '/'); j >= 0 {
			parent = c.Target[:j]
		}
		// The target is only visible if every directory above it is traversed.
		visible := true
		for q := parent; q != ""; {
			if ref.Decide(q, true).Ignored {
				visible = false
			}
			if j := strings.LastIndexByte(q, '/'); j >= 0 {
				q = q[:j]
			} else {
				q = ""
			}
		}

		chains := []struct {
			name    string
			recheck map[string]bool
			state   *fsx.ScanState
		}{
			{"parent", map[string]bool{parent: true}, nil},
			{"self", map[string]bool{c.Target: true}, nil},
		}

		for step := range c.Kinds {
			if err := placeTarget(rng, root, staging, c, step); err != nil {
				r.Inconclusive("edit-failed")
				return
			}
			kind := c.Kinds[step]
			verdict := ignorex.Verdict{}
			if kind != flipAbsent {
				verdict = ref.Decide(c.Target, kind == flipDir)
			}

			for ci := range chains {
				ch := &chains[ci]
				r.Eval(1)
				// Sensor on the target directory (and below) when it must be pruned.
				var sensor *ignorex.Sensor
				if visible && kind == flipDir && verdict.Ignored {
					if s, err := ignorex.NewSensor(); err == nil {
						// list first, watch afterwards: listing reads the directories
						var below []string
						filepath.WalkDir(filepath.Join(root, filepath.FromSlash(c.Target)), func(p string, d os.DirEntry, err error) error {
							if err == nil && d.IsDir() {
								below = append(below, p)
							}
							return nil
						})
						ok := s.Watch(filepath.Join(root, filepath.FromSlash(parent)), "C:") == nil
						for _, p := range below {
							ok = ok && s.Watch(p, "I:"+p[len(root)+1:]) == nil
						}
						if pre, _, _ := s.Drain(); ok && len(pre) == 0 {
							sensor = s
						} else {
							r.Count("iii_sensor_not_armed", 1)
							s.Close()
						}
					}
				}
				var state *fsx.ScanState
				var err error
				wit := func() map[string]any {
					w := c.witness()
					w["step"] = step
					w["recheck"] = ch.name
					w["target_kind_now"] = kind.String()
					w["reference_ignored"] = verdict.Ignored
					return w
				}
				r.Guard(wit(), func() {
					if step == 0 {
						state, err = fsx.Cold(root, cfg)
					} else {
						state, err = fsx.Accelerated(root, cfg, ch.state, ch.recheck)
					}
				})
				var events []ignorex.SensorEvent
				overflow := false
				if sensor != nil {
					events, overflow, _ = sensor.Drain()
					sensor.Close()
				}
				if err != nil || state == nil {
					r.Violation(map[string]string{"part": "accelerated", "rule": "scan-failed", "recheck": ch.name},
						fmt.Sprintf("scan at step %d (recheck=%s) failed: %v", step, ch.name, err), wit())
					return
				}
				ch.state = state
				content := state.Snapshot.Content

				// 1. the target itself
				if visible {
					e := gen.At(content, c.Target)
					okEntry := false
					expected := ""
					switch {
					case kind == flipAbsent:
						okEntry, expected = e == nil, "absent"
					case verdict.Ignored:
						okEntry = e != nil && e.Kind == core.EntryKind_Untracked && len(e.Contents) == 0
						expected = "untracked"
					case kind == flipFile:
						okEntry, expected = e != nil && e.Kind == core.EntryKind_File, "tracked"
					default:
						okEntry, expected = e != nil && e.Kind == core.EntryKind_Directory, "tracked"
					}
					if !okEntry {
						w := wit()
						w["entry"] = describeEntry(e)
						scanKind := "accelerated"
						if step == 0 {
							scanKind = "cold"
						}
						r.Violation(map[string]string{"part": "accelerated", "rule": "replaced-entry-misclassified", "scan": scanKind, "recheck": ch.name, "expected": expected},
							fmt.Sprintf("step %d (%s scan, recheck=%s): %q is now a %s and the last matching pattern says ignored=%v, but the snapshot holds %s there", step, scanKind, ch.name, c.Target, kind, verdict.Ignored, describeEntry(e)), w)
					}
				}
				// 2. sensor
				if sensor != nil && !overflow {
					controlSeen := false
					var forbidden []string
					for _, ev := range events {
						if strings.HasPrefix(ev.Label, "I:") {
							forbidden = append(forbidden, ev.String())
						} else if ev.Name == "" && ev.Open {
							controlSeen = true
						}
					}
					if !controlSeen {
						r.Inconclusive("accel-sensor-control-silent")
					} else {
						r.Count("iii_pruned_target_directories_watched", 1)
						if len(forbidden) > 0 {
							w := wit()
							w["events"] = forbidden
							r.Violation(map[string]string{"part": "accelerated", "rule": "access-beneath-ignored-directory", "recheck": ch.name},
								fmt.Sprintf("step %d (recheck=%s): the scan opened or read the ignored directory %q: %v", step, ch.name, c.Target, forbidden), w)
						}
					}
				}
				// 3. whole snapshot vs reference walker and vs a cold scan
				want, _, werr := fsx.Walk(root, fsx.WalkOptions{
					SymbolicLinkMode: cfg.SymbolicLinkMode, PermissionsMode: cfg.PermissionsMode,
					Ignored: func(p string, dir bool) bool { return ref.Decide(p, dir).Ignored },
				})
				if werr != nil {
					r.Inconclusive("walker-failed")
					return
				}
				if ok, where := fsx.EqualLoose(want, content); !ok && where != c.Target {
					w := wit()
					w["path"] = where
					w["expected"] = describeEntry(gen.At(want, where))
					w["real"] = describeEntry(gen.At(content, where))
					r.Violation(map[string]string{"part": "accelerated", "rule": "snapshot-differs-from-reference-walk", "recheck": ch.name},
						fmt.Sprintf("step %d (recheck=%s): snapshot differs from the reference walk at %q: expected %v, real %v", step, ch.name, where, w["expected"], w["real"]), w)
				}
				if step > 0 {
					cold, cerr := fsx.Cold(root, cfg)
					if cerr == nil {
						if ok, where := fsx.EqualLoose(cold.Snapshot.Content, content); !ok {
							w := wit()
							w["path"] = where
							w["cold"] = describeEntry(gen.At(cold.Snapshot.Content, where))
							w["accelerated"] = describeEntry(gen.At(content, where))
							r.Violation(map[string]string{"part": "accelerated", "rule": "differs-from-cold-scan", "recheck": ch.name},
								fmt.Sprintf("step %d (recheck=%s): accelerated snapshot differs from a cold scan at %q: cold %v, accelerated %v", step, ch.name, where, w["cold"], w["accelerated"]), w)
						}
					}
				}
				// 4. digest cache
				if state.Cache != nil {
					var bad []string
					for p := range state.Cache.Entries {
						comps := strings.Split(p, "/")
						for k := 1; k <= len(comps); k++ {
							q := strings.Join(comps[:k], "/")
							if ref.Decide(q, k < len(comps)).Ignored {
								bad = append(bad, p)
								break
							}
						}
					}
					if len(bad) > 0 {
						sort.Strings(bad)
						w := wit()
						w["cache_paths"] = bad
						r.Violation(map[string]string{"part": "accelerated", "rule": "digest-cache-beneath-ignored", "recheck": ch.name},
							fmt.Sprintf("step %d (recheck=%s): digest cache holds entries at or below ignored paths: %v", step, ch.name, bad), w)
					}
				}

				// accounting
				if step > 0 && visible {
					prevKind := c.Kinds[step-1]
					prevIgnored := prevKind != flipAbsent && ref.Decide(c.Target, prevKind == flipDir).Ignored
					nowIgnored := kind != flipAbsent && verdict.Ignored
					if prevKind != kind {
						r.Count("iii_replacements_rescanned_"+ch.name, 1)
						if prevKind != flipAbsent && kind != flipAbsent && prevIgnored != nowIgnored {
							r.Count("iii_kind_flips_with_opposite_verdict_"+ch.name, 1)
							if step >= 2 && c.Kinds[step-2] == kind {
								r.Count("iii_second_flip_back_to_first_kind_"+ch.name, 1)
							}
						}
						r.Distinct(fmt.Sprintf("a|%s|%v>%v|ign%v>%v|depth%d|step%d|ren%v", ch.name, prevKind, kind, prevIgnored, nowIgnored, strings.Count(c.Target, "/"), step, c.Rename[step]))
						sampleMu.Lock()
						if sampled < 2 && prevIgnored != nowIgnored && ch.name == "parent" {
							sampled++
							r.Sample(map[string]any{"part": "accelerated", "patterns": c.Patterns, "target": c.Target, "step": step, "recheck": ch.recheck,
								"was": prevKind.String(), "now": kind.String(), "ignored_before": prevIgnored, "ignored_now": nowIgnored, "snapshot_entry": describeEntry(gen.At(content, c.Target))})
						}
						sampleMu.Unlock()
					}
				}
			}
		}
	})
}
