// Monitor group recon: reconciliation laws (C01–C06), tree algebra (C07),
// portable symbolic links (C16, pure route), executability propagation (C18).
package main

import (
	"fmt"
	"runtime"
	"sort"
	"strings"
	"sync"

	"github.com/mutagen-io/mutagen/pkg/synchronization/core"

	"verif/internal/gen"
	"verif/internal/l3"
	"verif/internal/laws"
	"verif/internal/vk"
)

func main() {
	vk.Main("recon", map[string]func(){
		"C01": func() { planLaws("C01") },
		"C02": func() { planLaws("C02") },
		"C03": func() { planLaws("C03") },
		"C04": func() { planLaws("C04") },
		"C05": c05,
		"C06": func() { planLaws("C06") },
		"C07": c07,
		"C16": c16,
		"C18": c18,
	})
}

type triple struct {
	A, Alpha, Beta *core.Entry
	Docker         bool // apply phantom reification first
	Exec           int  // 0 none, 1 alpha preserves only, 2 beta preserves only
}

func (t triple) describe() map[string]string {
	return map[string]string{"ancestor": gen.Describe(t.A), "alpha": gen.Describe(t.Alpha), "beta": gen.Describe(t.Beta),
		"docker": fmt.Sprint(t.Docker), "exec": fmt.Sprint(t.Exec)}
}

// prepare composes the pre-processing steps exactly as controller.synchronize
// does before calling Reconcile.
func (t triple) prepare() (a, alpha, beta *core.Entry) {
	a, alpha, beta = t.A, t.Alpha, t.Beta
	if t.Docker {
		alpha, beta, _, _ = core.ReifyPhantomDirectories(a, alpha, beta)
	}
	if t.Exec == 1 && beta != nil {
		beta = core.PropagateExecutability(a, alpha, beta)
	} else if t.Exec == 2 && alpha != nil {
		alpha = core.PropagateExecutability(a, beta, alpha)
	}
	return
}

func kindLetter(e *core.Entry) string {
	if e == nil {
		return "-"
	}
	return [...]string{"D", "F", "L", "U", "P", "H"}[int(e.Kind)%6]
}

func planSignature(p *laws.Plan) string {
	var parts []string
	for _, c := range p.AlphaCh {
		parts = append(parts, fmt.Sprintf("a%d:%s%s>%s", strings.Count(c.Path, "/"), kindLetter(gen.At(p.A, c.Path)), kindLetter(gen.At(p.Alpha, c.Path)), kindLetter(c.New)))
	}
	for _, c := range p.BetaCh {
		parts = append(parts, fmt.Sprintf("b%d:%s%s>%s", strings.Count(c.Path, "/"), kindLetter(gen.At(p.A, c.Path)), kindLetter(gen.At(p.Beta, c.Path)), kindLetter(c.New)))
	}
	for _, c := range p.Conflicts {
		parts = append(parts, fmt.Sprintf("c%d:%s%s%s", strings.Count(c.Root, "/"), kindLetter(gen.At(p.A, c.Root)), kindLetter(gen.At(p.Alpha, c.Root)), kindLetter(gen.At(p.Beta, c.Root))))
	}
	for _, c := range p.Anc {
		parts = append(parts, fmt.Sprintf("n%d:%s", strings.Count(c.Path, "/"), kindLetter(c.New)))
	}
	sort.Strings(parts)
	return fmt.Sprintf("m%d|%s", p.Mode, strings.Join(parts, ","))
}

// forEachTriple drives f over the bounded exhaustive space and the seeded
// random space, in parallel. f must be safe for concurrent use.
func forEachTriple(r *vk.Run, f func(t triple)) (exhaustive int64, random int64) {
	names := []string{"a", "b"}
	ancestors := gen.Enumerate(1, names, gen.SyncLeaves())
	sides := gen.Enumerate(1, names, gen.AllLeaves())
	r.Note("bounded_space", fmt.Sprintf("%d ancestors x %d alpha x %d beta (depth<=1 below the root entry, names a,b, leaves F(d1) F(d1,+x) F(d2) L(t1) U P, empty child directories) x 4 modes", len(ancestors), len(sides), len(sides)))
	workers := runtime.NumCPU()
	var wg sync.WaitGroup
	ch := make(chan int, len(ancestors))
	for i := range ancestors {
		ch <- i
	}
	close(ch)
	for w := 0; w < workers; w++ {
		wg.Add(1)
		go func() {
			defer wg.Done()
			for i := range ch {
				for _, al := range sides {
					for _, be := range sides {
						f(triple{A: ancestors[i], Alpha: al, Beta: be})
					}
				}
			}
		}()
	}
	wg.Wait()
	exhaustive = int64(len(ancestors)) * int64(len(sides)) * int64(len(sides))

	// Deeper exhaustive slice (thorough): one name, depth 2.
	if !r.Quick() {
		anc2 := gen.Enumerate(2, []string{"a"}, gen.SyncLeaves())
		sides2 := gen.Enumerate(2, []string{"a"}, gen.AllLeaves())
		for _, a := range anc2 {
			for _, al := range sides2 {
				for _, be := range sides2 {
					f(triple{A: a, Alpha: al, Beta: be})
				}
			}
		}
		exhaustive += int64(len(anc2)) * int64(len(sides2)) * int64(len(sides2))
	}

	// Random deep triples, biased towards near-equal trees.
	n := r.Pick(40000, 2000000)
	per := n / workers
	for w := 0; w < workers; w++ {
		wg.Add(1)
		go func(w int) {
			defer wg.Done()
			rng := r.Rand(fmt.Sprintf("triples-%d", w))
			for i := 0; i < per; i++ {
				cfgSync := gen.RandomTreeConfig{Names: []string{"a", "ab", "b"}, MaxDepth: 1 + rng.Intn(4), DirBias: 0.55, AbsentBias: 0.35}
				cfgAll := cfgSync
				cfgAll.Unsync = true
				docker := rng.Intn(4) == 0
				cfgAll.Phantoms = docker
				base := gen.RandomEntry(rng, cfgSync, 0, true)
				var t triple
				t.Docker = docker
				t.Exec = 0
				if rng.Intn(5) == 0 {
					t.Exec = 1 + rng.Intn(2)
				}
				t.A = base
				switch rng.Intn(6) {
				case 0: // independent
					t.Alpha = gen.RandomEntry(rng, cfgAll, 0, true)
					t.Beta = gen.RandomEntry(rng, cfgAll, 0, true)
				case 1: // one side edited
					t.Alpha = gen.Mutate(rng, base, cfgAll, 1+rng.Intn(3))
					t.Beta = gen.Clone(base)
				case 2:
					t.Alpha = gen.Clone(base)
					t.Beta = gen.Mutate(rng, base, cfgAll, 1+rng.Intn(3))
				default: // both edited
					t.Alpha = gen.Mutate(rng, base, cfgAll, rng.Intn(4))
					t.Beta = gen.Mutate(rng, base, cfgAll, rng.Intn(4))
				}
				if t.Alpha.EnsureValid(false) != nil || t.Beta.EnsureValid(false) != nil || t.A.EnsureValid(true) != nil {
					continue
				}
				f(t)
			}
		}(w)
	}
	wg.Wait()
	random = int64(per * workers)
	return
}

func planLaws(prop string) {
	r := vk.Start(prop, "exploration")
	var sampleMu sync.Mutex
	sampled := 0
	exh, rnd := forEachTriple(r, func(t triple) {
		r.Guard(t.describe(), func() {
			a, alpha, beta := t.prepare()
			for _, mode := range laws.Modes {
				p := laws.Compute(a, alpha, beta, mode)
				r.Eval(1)
				nontrivial := len(p.AlphaCh)+len(p.BetaCh)+len(p.Conflicts) > 0
				if nontrivial {
					r.Distinct(planSignature(p))
					if len(p.Conflicts) > 0 {
						r.Count("plans_with_conflicts", 1)
					}
					if len(p.AlphaCh)+len(p.BetaCh) > 0 {
						r.Count("plans_with_changes", 1)
					}
				}
				var fs []laws.Failure
				if prop == "C04" {
					fs = laws.CheckFixpoint(p)
				} else {
					fs = laws.Check(p)
				}
				for _, f := range fs {
					if f.Prop != prop {
						continue
					}
					w := t.describe()
					w["mode"] = mode.String()
					w["alpha_changes"] = strings.Join(gen.DescribeChanges(p.AlphaCh), "; ")
					w["beta_changes"] = strings.Join(gen.DescribeChanges(p.BetaCh), "; ")
					w["failure"] = f.String()
					r.Violation(map[string]string{"rule": f.Rule, "mode": mode.String()}, f.String(), w)
				}
				if nontrivial {
					sampleMu.Lock()
					if sampled < 4 && len(p.Conflicts) > 0 && len(p.BetaCh) > 0 {
						sampled++
						s := t.describe()
						s["mode"] = mode.String()
						s["beta_changes"] = strings.Join(gen.DescribeChanges(p.BetaCh), "; ")
						s["conflicts"] = fmt.Sprint(len(p.Conflicts))
						r.Sample(s)
					}
					sampleMu.Unlock()
				}
			}
		})
	})
	r.Count("exhaustive_triples", exh)
	r.Count("random_triples", rnd)

	// L3: real sessions over real local roots.
	if prop == "C04" {
		l2Cycles(r, prop)
	}
	if prop == "C02" {
		c02Endpoint(r)
	}
	if prop == "C01" || prop == "C02" || prop == "C03" || prop == "C04" {
		l3.Histories(r, prop)
	}

	r.Assume("L1 feeds core.Reconcile the same composition controller.synchronize uses (reify phantoms for Docker syntax, propagate executability when exactly one side preserves it); ideal application of a plan is performed by the harness")
	r.Assume("edits concurrent with a synchronization cycle are out of scope here (C08 covers just-in-time checks)")
	r.Finish("every (ancestor, alpha, beta) triple of the bounded shape under all four modes (exhaustive) plus seeded random deep triples biased to near-equal trees; a plan is non-trivial if it holds a change or conflict; distinct = distinct plan-shape signatures (mode, per action: depth and kinds of ancestor/endpoint/new)", 50)
}
