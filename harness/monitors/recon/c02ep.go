package main

import (
	"context"
	"fmt"
	"os"
	"path/filepath"
	"sort"
	"strings"

	"github.com/mutagen-io/mutagen/pkg/synchronization"
	"github.com/mutagen-io/mutagen/pkg/synchronization/core"
	"github.com/mutagen-io/mutagen/pkg/synchronization/endpoint/local"

	"verif/internal/fsx"
	"verif/internal/vk"
)

// rawListing lists every name under dir (including Mutagen temporaries) with
// size and mode, so that any object appearing or changing is visible.
func rawListing(dir string) []string {
	var out []string
	filepath.Walk(dir, func(p string, fi os.FileInfo, err error) error {
		if err != nil {
			return nil
		}
		rel, _ := filepath.Rel(dir, p)
		out = append(out, fmt.Sprintf("%s|%v|%d|%d", rel, fi.Mode(), fi.Size(), fsx.Inode(p)))
		return nil
	})
	sort.Strings(out)
	return out
}

// c02Endpoint: a real local endpoint created as the alpha (source) side of a
// one-way session must refuse staging and transition requests and must not
// change anything in or next to its root, whatever the request looks like.
func c02Endpoint(r *vk.Run) {
	base := filepath.Join(r.Scratch(), "c02ep")
	modes := []core.SynchronizationMode{
		core.SynchronizationMode_SynchronizationModeOneWaySafe,
		core.SynchronizationMode_SynchronizationModeOneWayReplica,
	}
	stageModes := []synchronization.StageMode{
		synchronization.StageMode_StageModeDefault,
		synchronization.StageMode_StageModeMutagen,
		synchronization.StageMode_StageModeNeighboring,
		synchronization.StageMode_StageModeInternal,
	}
	rng := r.Rand("c02ep")
	n := 0
	for _, mode := range modes {
		for _, sm := range stageModes {
			for variant := 0; variant < r.Pick(2, 12); variant++ {
				n++
				parent := filepath.Join(base, fmt.Sprintf("case%d", n))
				root := filepath.Join(parent, "root")
				os.MkdirAll(filepath.Join(root, "sub"), 0o755)
				x := fsx.UniqueToken(rng, 50+rng.Intn(5000))
				y := fsx.UniqueToken(rng, 50+rng.Intn(5000))
				os.WriteFile(filepath.Join(root, "f1"), x, 0o644)
				os.WriteFile(filepath.Join(root, "sub", "f2"), y, 0o755)
				os.WriteFile(filepath.Join(root, "f3"), x, 0o644) // duplicate content
				session := fmt.Sprintf("verifC02-%d-%d", os.Getpid(), n)
				cfg := &synchronization.Configuration{
					SynchronizationMode: mode,
					WatchMode:           synchronization.WatchMode_WatchModeNoWatch,
					StageMode:           sm,
				}
				w := map[string]string{"mode": mode.String(), "stage_mode": sm.String()}
				ep, err := local.NewEndpoint(nil, root, session, synchronization.Version_Version1, cfg, true)
				if err != nil {
					r.Inconclusive("c02ep-endpoint-not-created")
					continue
				}
				dataStaging := filepath.Join(os.Getenv("MUTAGEN_DATA_DIRECTORY"), "staging")
				scan := func() *core.Snapshot {
					for try := 0; try < 4; try++ {
						snap, err, again := ep.Scan(context.Background(), nil, true)
						if err == nil {
							return snap
						}
						if !again {
							return nil
						}
					}
					return nil
				}
				before := rawListing(parent)
				stagingBefore := rawListing(dataStaging)
				check := func(what string, gotErr error) {
					r.Eval(1)
					r.Distinct(fmt.Sprintf("c02ep|%s|%s|%s", mode, sm, what))
					w2 := map[string]string{"request": what}
					for k, v := range w {
						w2[k] = v
					}
					if gotErr == nil {
						r.Violation(map[string]string{"rule": "read-only-alpha-accepted-request", "request": what}, "the alpha endpoint of a one-way session accepted a "+what+" request", w2)
					}
					after := rawListing(parent)
					if strings.Join(after, "\n") != strings.Join(before, "\n") {
						w2["before"] = strings.Join(before, " ; ")
						w2["after"] = strings.Join(after, " ; ")
						r.Violation(map[string]string{"rule": "read-only-alpha-root-modified", "request": what}, "something in or next to the alpha root changed during a "+what+" request", w2)
					}
					if sa := rawListing(dataStaging); strings.Join(sa, "\n") != strings.Join(stagingBefore, "\n") {
						w2["staging_after"] = strings.Join(sa, " ; ")
						r.Violation(map[string]string{"rule": "read-only-alpha-staged-files", "request": what}, "files were staged for the alpha endpoint of a one-way session during a "+what+" request", w2)
					}
				}
				if scan() == nil {
					ep.Shutdown()
					r.Inconclusive("c02ep-scan-failed")
					continue
				}
				// (a) content available locally under another path (copy / rename propagated back)
				_, _, _, err = ep.Stage([]string{"copy-of-f1", "sub/copy2"}, [][]byte{fsx.Sha1(x), fsx.Sha1(y)})
				check("stage-locally-available", err)
				scan()
				// (b) content the endpoint does not have
				_, _, _, err = ep.Stage([]string{"new.bin"}, [][]byte{fsx.Sha1([]byte("content the endpoint has never seen"))})
				check("stage-unavailable", err)
				scan()
				// (c) mixed
				_, _, _, err = ep.Stage([]string{"copy-of-f1", "new.bin"}, [][]byte{fsx.Sha1(x), fsx.Sha1([]byte("other"))})
				check("stage-mixed", err)
				snap := scan()
				// (d) transition: remove a file, create a directory
				if snap != nil && snap.Content != nil {
					old := snap.Content.Contents["f1"]
					_, _, _, err = ep.Transition(context.Background(), []*core.Change{
						{Path: "f1", Old: old, New: nil},
						{Path: "newdir", New: &core.Entry{Kind: core.EntryKind_Directory}},
					})
					check("transition", err)
				}
				ep.Shutdown()
			}
		}
	}
	r.Count("c02_endpoint_cases", int64(n))
}
