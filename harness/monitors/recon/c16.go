package main

import (
	"fmt"
	"strings"

	"github.com/mutagen-io/mutagen/pkg/synchronization/core"

	"verif/internal/vk"
)

// refEscapes is the reference: lexical POSIX resolution starting in the
// link's directory. Empty and "." components are skipped, ".." ascends.
func refEscapes(linkPath, target string) bool {
	depth := strings.Count(linkPath, "/")
	for _, comp := range strings.Split(target, "/") {
		switch comp {
		case "", ".":
		case "..":
			depth--
			if depth < 0 {
				return true
			}
		default:
			depth++
		}
	}
	return false
}

func mustReject(target string) string {
	switch {
	case target == "":
		return "empty"
	case len(target) > 247:
		return "too-long"
	case strings.Contains(target, ":"):
		return "colon"
	case strings.Contains(target, "\\"):
		return "backslash"
	case target[0] == '/':
		return "absolute"
	}
	return ""
}

func c16check(r *vk.Run, linkPath, target string) {
	r.Eval(1)
	w := map[string]string{"link": linkPath, "target": target}
	r.Guard(w, func() {
		norm, err := core.VerifNormalizeSymbolicLink(linkPath, target)
		accepted := err == nil
		if why := mustReject(target); why != "" {
			if accepted {
				r.Violation(map[string]string{"rule": "accepted-" + why}, "portable mode accepted a target that must be rejected ("+why+")", w)
			}
			return
		}
		esc := refEscapes(linkPath, target)
		if accepted && esc {
			hasEmpty := "false"
			if strings.Contains(target, "//") || strings.HasSuffix(target, "/") {
				hasEmpty = "true"
			}
			r.Violation(map[string]string{"rule": "accepted-escaping", "empty_component": hasEmpty}, fmt.Sprintf("link %q with target %q accepted although it resolves above the root", linkPath, target), w)
		}
		if accepted && norm != target {
			r.Violation(map[string]string{"rule": "normalized-differs"}, fmt.Sprintf("normalized target %q differs from %q on POSIX", norm, target), w)
		}
		if accepted {
			r.Count("accepted", 1)
		} else {
			r.Count("rejected", 1)
			if esc {
				r.Count("rejected_escaping", 1)
			}
		}
		if esc {
			r.Distinct(fmt.Sprintf("%d|%s", strings.Count(linkPath, "/"), target))
		}
	})
}

func c16() {
	r := vk.Start("C16", "exploration")
	tokens := []string{"n", ".", "..", ""}
	maxLen := r.Pick(6, 8)
	links := []string{"l", "d/l", "d/e/l", "d/e/f/l"}
	var rec func(prefix []string)
	rec = func(prefix []string) {
		if len(prefix) > 0 {
			t := strings.Join(prefix, "/")
			for _, l := range links {
				c16check(r, l, t)
			}
		}
		if len(prefix) == maxLen {
			return
		}
		for _, tok := range tokens {
			rec(append(append([]string{}, prefix...), tok))
		}
	}
	rec(nil)
	c16check(r, "l", "")
	// Random long targets and hostile characters.
	rng := r.Rand("c16")
	extra := []string{"n", ".", "..", "", "...", "a:b", "c\\d", "..n", "n..", " ", "..", ".."}
	for i := 0; i < r.Pick(50000, 2000000); i++ {
		n := 1 + rng.Intn(40)
		comps := make([]string, n)
		for j := range comps {
			comps[j] = extra[rng.Intn(len(extra))]
		}
		t := strings.Join(comps, "/")
		if rng.Intn(50) == 0 {
			t = strings.Repeat("n/", 124+rng.Intn(3)) // straddles 247
		}
		if rng.Intn(40) == 0 {
			t = "/" + t
		}
		if rng.Intn(25) == 0 {
			// many components within the length limit: runs of repeated
			// slashes (empty components) around a few real ones
			var sb strings.Builder
			sb.WriteString([]string{".", "n", ".."}[rng.Intn(3)])
			for sb.Len() < 200+rng.Intn(40) {
				sb.WriteString(strings.Repeat("/", 1+rng.Intn(160)))
				sb.WriteString([]string{"..", "n", ".", "../..", "n/.."}[rng.Intn(5)])
			}
			t = sb.String()
			if len(t) > 247 {
				t = t[:247]
			}
		}
		c16check(r, links[rng.Intn(len(links))], t)
	}
	r.Sample(map[string]string{"link": "d/l", "target": "n//../../..", "reference": "escapes"})
	r.Sample(map[string]string{"link": "l", "target": "n/../n", "reference": "inside"})

	// Black-box routes: real links on disk through core.Scan and core.Transition.
	c16Disk(r)

	r.Assume("reference = lexical resolution relative to the link's directory with empty and '.' components skipped (POSIX path resolution ignores repeated and trailing slashes)")
	r.Finish("every target over tokens {n . .. empty} up to the bound at link depths 0..3 (exhaustive) plus random long targets with hostile characters; through the verif hook and through real links on disk scanned/created in portable mode; non-trivial = target the reference resolves above the root; distinct by (depth, target)", 100)
}
