package main

import (
	"fmt"

	"github.com/mutagen-io/mutagen/pkg/synchronization/core"

	"verif/internal/gen"
	"verif/internal/laws"
	"verif/internal/vk"
)

func stripExec(e *core.Entry) *core.Entry {
	out := gen.Clone(e)
	var walk func(e *core.Entry)
	walk = func(e *core.Entry) {
		if e == nil {
			return
		}
		e.Executable = false
		for _, c := range e.Contents {
			walk(c)
		}
	}
	walk(out)
	return out
}

func isFile(e *core.Entry) bool { return e != nil && e.Kind == core.EntryKind_File }

// checkPropagated verifies the "only ever takes its notion of executability
// from matching content" rule on the propagated tree.
func checkPropagated(r *vk.Run, a, p, nProp *core.Entry, w map[string]string) {
	for _, q := range gen.Paths(nProp) {
		n := gen.At(nProp, q)
		if !isFile(n) {
			continue
		}
		pe, ae := gen.At(p, q), gen.At(a, q)
		allowed := map[bool]bool{}
		if isFile(pe) && string(pe.Digest) == string(n.Digest) {
			allowed[pe.Executable] = true
		}
		if isFile(ae) && string(ae.Digest) == string(n.Digest) {
			allowed[ae.Executable] = true
		}
		if isFile(pe) && isFile(ae) && string(pe.Digest) == string(ae.Digest) {
			allowed[pe.Executable] = true
		}
		if len(allowed) == 0 {
			allowed[false] = true
		}
		if !allowed[n.Executable] {
			w2 := map[string]string{"path": q, "preserving": gen.Describe(pe), "ancestor": gen.Describe(ae), "propagated": gen.Describe(n)}
			for k, v := range w {
				w2[k] = v
			}
			r.Violation(map[string]string{"rule": "propagated-bit-without-source"}, fmt.Sprintf("non-preserving side's file at %q got executable=%v with no matching source", q, n.Executable), w2)
		}
	}
}

func c18() {
	r := vk.Start("C18", "exploration")
	rng := r.Rand("c18")
	histories := r.Pick(400, 40000)
	cfg := gen.RandomTreeConfig{Names: []string{"a", "ab", "b"}, MaxDepth: 3, DirBias: 0.5, AbsentBias: 0.3}
	var cycles, bitChecks int64
	for h := 0; h < histories; h++ {
		mode := laws.Modes[rng.Intn(len(laws.Modes))]
		pIsAlpha := rng.Intn(2) == 0
		base := gen.RandomEntry(rng, cfg, 0, false)
		if base.Kind != core.EntryKind_Directory {
			base = gen.Dir(map[string]*core.Entry{"a": base})
		}
		var A *core.Entry
		P := gen.Clone(base)
		N := stripExec(base)
		if rng.Intn(2) == 0 {
			A = gen.Clone(base) // already synchronized
		}
		var trace []string
		ncycles := 3 + rng.Intn(r.Pick(6, 18))
		for c := 0; c < ncycles; c++ {
			// edits
			for e := rng.Intn(4); e > 0; e-- {
				if rng.Intn(2) == 0 {
					P = mutateSync(rng, P, cfg, true)
					trace = append(trace, "editP")
				} else {
					N = stripExec(mutateSync(rng, N, cfg, false))
					trace = append(trace, "editN")
				}
			}
			if P == nil || N == nil || P.Kind != core.EntryKind_Directory || N.Kind != core.EntryKind_Directory {
				break
			}
			w := map[string]string{"mode": mode.String(), "preserving_is_alpha": fmt.Sprint(pIsAlpha), "ancestor": gen.Describe(A), "preserving": gen.Describe(P), "nonpreserving": gen.Describe(N), "cycle": fmt.Sprint(c)}
			var ok bool
			r.Guard(w, func() {
				nProp := core.PropagateExecutability(A, P, N)
				checkPropagated(r, A, P, nProp, w)
				var p *laws.Plan
				var pChanges []*core.Change
				if pIsAlpha {
					p = laws.Compute(A, P, nProp, mode)
					pChanges = p.AlphaCh
				} else {
					p = laws.Compute(A, nProp, P, mode)
					pChanges = p.BetaCh
				}
				cycles++
				r.Eval(1)
				// The preserving side's bit must not be changed while the file exists on both sides.
				for _, ch := range pChanges {
					var walk func(q string, cur, nw *core.Entry)
					walk = func(q string, cur, nw *core.Entry) {
						if cur == nil || nw == nil {
							return
						}
						if isFile(cur) && isFile(nw) {
							ae := gen.At(A, q)
							unmodified := isFile(ae) && string(ae.Digest) == string(cur.Digest)
							same := string(cur.Digest) == string(nw.Digest)
							if unmodified || same {
								bitChecks++
								r.Distinct(fmt.Sprintf("%v|%v|%v|%v|%d", cur.Executable, unmodified, same, pIsAlpha, mode))
								if nw.Executable != cur.Executable {
									w2 := map[string]string{"path": q, "current": gen.Describe(cur), "planned": gen.Describe(nw)}
									for k, v := range w {
										w2[k] = v
									}
									r.Violation(map[string]string{"rule": "preserving-bit-changed"}, fmt.Sprintf("plan changes the executable bit of %q on the preserving endpoint from %v to %v", q, cur.Executable, nw.Executable), w2)
								}
							}
							return
						}
						for n, cc := range cur.Contents {
							j := n
							if q != "" {
								j = q + "/" + n
							}
							walk(j, cc, nw.GetContents()[n])
						}
					}
					walk(ch.Path, gen.At(P, ch.Path), ch.New)
				}
				alpha2, beta2, a2, err := laws.IdealApply(p)
				if err != nil {
					return
				}
				A = a2
				if pIsAlpha {
					P, N = alpha2, stripExec(beta2)
				} else {
					N, P = stripExec(alpha2), beta2
				}
				ok = true
			})
			if !ok {
				break
			}
		}
		if h < 3 {
			r.Sample(map[string]any{"mode": mode.String(), "preserving_is_alpha": pIsAlpha, "start": gen.Describe(base), "events": trace})
		}
	}
	r.Count("cycles", cycles)
	l2Exec(r)
	r.Count("bit_checks", bitChecks)
	r.Assume("simulated endpoints: the non-preserving side's snapshot always reports executable=false; transitions are applied ideally; the bit is demanded unchanged where the preserving side's content is unmodified since the last synchronization or equals the incoming content")
	r.Finish("random histories (content edits on either side, chmods on the preserving side, deletes/re-creates) of 3..20 simulated cycles under every mode and both role assignments; each cycle runs the real PropagateExecutability and Reconcile; distinct = (bit, unmodified?, same-content?, role, mode) combinations at which the preserving side's bit was checked", 8)
}

func mutateSync(rng interface{ Intn(int) int }, e *core.Entry, cfg gen.RandomTreeConfig, chmod bool) *core.Entry {
	paths := gen.Paths(e)
	var files []string
	for _, q := range paths {
		if isFile(gen.At(e, q)) {
			files = append(files, q)
		}
	}
	if len(files) > 0 && rng.Intn(3) != 0 {
		q := files[rng.Intn(len(files))]
		f := gen.Clone(gen.At(e, q))
		if chmod && rng.Intn(2) == 0 {
			f.Executable = !f.Executable
		} else {
			f.Digest = [][]byte{gen.D1, gen.D2, gen.D3}[rng.Intn(3)]
		}
		if next, ok := gen.Set(e, q, f); ok {
			return next
		}
		return e
	}
	// structural edit below the root
	names := cfg.Names
	n := names[rng.Intn(len(names))]
	switch rng.Intn(3) {
	case 0:
		if next, ok := gen.Set(e, n, nil); ok {
			return next
		}
	default:
		if next, ok := gen.Set(e, n, gen.File([][]byte{gen.D1, gen.D2}[rng.Intn(2)], chmod && rng.Intn(2) == 0)); ok {
			return next
		}
	}
	return e
}
