package main

import (
	"context"
	"errors"
	"fmt"
	"os"
	"path/filepath"
	"strings"

	"github.com/mutagen-io/mutagen/pkg/synchronization/core"

	"verif/internal/fsx"
	"verif/internal/vk"
)

// Black-box routes for C16: real links on disk, through the real core.Scan and
// the real core.Transition, both in portable symbolic link mode.

type c16case struct {
	link   string // root-relative path of the link
	target string
}

// noFiles is the trivial Provider: link creation never asks for staged files.
type noFiles struct{}

func (noFiles) Provide(path string, digest []byte) (string, error) {
	return "", errors.New("no staged files in this check")
}

func c16cases(r *vk.Run) []c16case {
	dirs := []string{"", "d/", "d/e/"}
	var cases []c16case
	n := 0
	add := func(depth int, target string) {
		n++
		cases = append(cases, c16case{link: fmt.Sprintf("%sl%05d", dirs[depth], n), target: target})
	}
	// every target over the four tokens up to five components, at depths 0..2
	tokens := []string{"n", ".", "..", ""}
	var rec func(prefix []string)
	rec = func(prefix []string) {
		if len(prefix) > 0 {
			t := strings.Join(prefix, "/")
			for depth := range dirs {
				add(depth, t)
			}
		}
		if len(prefix) == 5 {
			return
		}
		for _, tok := range tokens {
			rec(append(append([]string{}, prefix...), tok))
		}
	}
	rec(nil)
	// random hostile targets
	rng := r.Rand("c16-disk")
	extra := []string{"n", ".", "..", "", "...", "a:b", "c\\d", "..n", "n..", " ", "..", ".."}
	for i := 0; i < r.Pick(400, 4000); i++ {
		k := 1 + rng.Intn(12)
		comps := make([]string, k)
		for j := range comps {
			comps[j] = extra[rng.Intn(len(extra))]
		}
		t := strings.Join(comps, "/")
		switch rng.Intn(12) {
		case 0:
			t = strings.Repeat("n/", 122+rng.Intn(4)) + []string{"", "n", "nn"}[rng.Intn(3)] // straddles 247 bytes
		case 1:
			t = "/" + t
		case 2:
			t = strings.Repeat("../", rng.Intn(4)) + t
		case 3:
			t = strings.Repeat("n/", 1+rng.Intn(3)) + strings.Repeat("../", 1+rng.Intn(6)) + "n"
		}
		add(rng.Intn(len(dirs)), t)
	}
	// very many components within the 247-byte limit: runs of repeated slashes
	// (empty components) around a few real ones, and long descents followed by
	// one ascent more (a cap on the number of components examined would hide
	// the tail)
	for i := 0; i < r.Pick(300, 3000); i++ {
		var sb strings.Builder
		switch rng.Intn(3) {
		case 0:
			sb.WriteString([]string{".", "n", ".."}[rng.Intn(3)])
			limit := 150 + rng.Intn(97)
			for sb.Len() < limit {
				sb.WriteString(strings.Repeat("/", 1+rng.Intn(60)))
				sb.WriteString([]string{"..", "n", ".", "../..", "n/.."}[rng.Intn(5)])
			}
		case 1:
			k := 1 + rng.Intn(45)
			sep := []string{"/", "//", "/./"}[rng.Intn(3)]
			sb.WriteString(strings.Repeat("n"+sep, k))
			sb.WriteString(strings.Repeat("../", k+rng.Intn(4)))
			sb.WriteString("n")
		default:
			// all slashes but the ends
			sb.WriteString("n" + strings.Repeat("/", 200+rng.Intn(40)) + []string{"..", "../..", "../../.."}[rng.Intn(3)])
		}
		t := sb.String()
		if len(t) > 247 {
			t = strings.TrimRight(t[:247], "/")
		}
		add(rng.Intn(len(dirs)), t)
	}
	return cases
}

// c16judge applies the oracle to one (route, link, target, accepted) observation.
func c16judge(r *vk.Run, route string, c c16case, accepted bool) {
	r.Eval(1)
	w := map[string]string{"route": route, "link": c.link, "target": c.target}
	ok := fsx.PortableOK(c.link, c.target)
	if accepted {
		r.Count("disk_"+route+"_accepted", 1)
	} else {
		r.Count("disk_"+route+"_rejected", 1)
	}
	if !ok {
		r.Distinct(fmt.Sprintf("disk|%s|%d|%s", route, strings.Count(c.link, "/"), c.target))
		if !accepted {
			r.Count("disk_"+route+"_rejected_nonportable", 1)
		}
	}
	if !accepted || ok {
		return
	}
	if why := mustReject(c.target); why != "" {
		r.Violation(map[string]string{"rule": "accepted-" + why, "route": route},
			fmt.Sprintf("portable mode (%s route) accepted link %q with target %q, which must be rejected (%s)", route, c.link, c.target, why), w)
		return
	}
	r.Violation(map[string]string{"rule": "accepted-escaping", "route": route},
		fmt.Sprintf("portable mode (%s route) accepted link %q with target %q although it resolves above the root", route, c.link, c.target), w)
}

func c16Disk(r *vk.Run) {
	cases := c16cases(r)
	base := filepath.Join(r.Scratch(), "c16disk")
	defer os.RemoveAll(base)

	// ---- route 1: real links found by a real scan
	scanRoot := filepath.Join(base, "scan")
	if err := os.MkdirAll(filepath.Join(scanRoot, "d", "e"), 0o755); err != nil {
		fmt.Println("ERROR: c16Disk:", err)
		r.Inconclusive("c16-disk-setup")
		return
	}
	var onDisk []c16case
	for _, c := range cases {
		if c.target == "" {
			continue // the kernel refuses to create a link with an empty target
		}
		if err := os.Symlink(c.target, filepath.Join(scanRoot, filepath.FromSlash(c.link))); err != nil {
			r.Count("disk_scan_link_not_creatable", 1)
			continue
		}
		onDisk = append(onDisk, c)
	}
	r.Guard(map[string]string{"route": "scan", "links": fmt.Sprint(len(onDisk))}, func() {
		st, err := fsx.Cold(scanRoot, fsx.DefaultScanConfig())
		if err != nil {
			fmt.Println("ERROR: c16Disk: scan failed:", err)
			r.Inconclusive("c16-disk-scan-failed")
			return
		}
		content := st.Snapshot.Content
		seenLink, seenProblem := 0, 0
		for _, c := range onDisk {
			e := content
			for _, comp := range strings.Split(c.link, "/") {
				if e == nil {
					break
				}
				e = e.Contents[comp]
			}
			switch {
			case e == nil:
				// a link the scan does not report at all is a scan defect (C12), not a verdict here
				r.Inconclusive("c16-disk-link-missing-from-snapshot")
				continue
			case e.Kind == core.EntryKind_SymbolicLink:
				seenLink++
				if e.Target != c.target {
					r.Violation(map[string]string{"rule": "normalized-differs", "route": "scan"},
						fmt.Sprintf("scan recorded target %q for link %q whose target on disk is %q", e.Target, c.link, c.target),
						map[string]string{"route": "scan", "link": c.link, "target": c.target, "recorded": e.Target})
				}
				c16judge(r, "scan", c, true)
			default:
				seenProblem++
				c16judge(r, "scan", c, false)
			}
		}
		// liveness of the sensor: both outcomes must occur
		if seenLink == 0 || seenProblem == 0 {
			r.Inconclusive("c16-disk-scan-sensor-dead")
		}
	})

	// ---- route 2: the real Transition is asked to create each link
	transRoot := filepath.Join(base, "transition")
	if err := os.MkdirAll(filepath.Join(transRoot, "d", "e"), 0o755); err != nil {
		fmt.Println("ERROR: c16Disk:", err)
		r.Inconclusive("c16-disk-setup")
		return
	}
	r.Guard(map[string]string{"route": "transition", "links": fmt.Sprint(len(cases))}, func() {
		changes := make([]*core.Change, len(cases))
		for i, c := range cases {
			changes[i] = &core.Change{Path: c.link, New: &core.Entry{Kind: core.EntryKind_SymbolicLink, Target: c.target}}
		}
		results, problems, _ := core.Transition(context.Background(), transRoot, changes, &core.Cache{},
			core.SymbolicLinkMode_SymbolicLinkModePortable, 0o600, 0o700, nil, false, noFiles{})
		if len(results) != len(changes) {
			fmt.Printf("ERROR: c16Disk: Transition returned %d results for %d changes\n", len(results), len(changes))
			r.Inconclusive("c16-disk-transition-results")
			return
		}
		r.Count("disk_transition_problems", int64(len(problems)))
		created, refused := 0, 0
		for i, c := range cases {
			full := filepath.Join(transRoot, filepath.FromSlash(c.link))
			fi, err := os.Lstat(full)
			exists := err == nil && fi.Mode()&os.ModeSymlink != 0
			if err == nil && !exists {
				r.Violation(map[string]string{"rule": "created-other-kind", "route": "transition"},
					fmt.Sprintf("asked to create link %q, Transition left a non-link object there", c.link),
					map[string]string{"route": "transition", "link": c.link, "target": c.target, "mode": fi.Mode().String()})
				continue
			}
			if exists {
				created++
				if got, _ := os.Readlink(full); got != c.target {
					r.Violation(map[string]string{"rule": "normalized-differs", "route": "transition"},
						fmt.Sprintf("Transition created link %q with target %q instead of %q", c.link, got, c.target),
						map[string]string{"route": "transition", "link": c.link, "target": c.target, "created": got})
				}
			} else {
				refused++
			}
			// the reported result and the disk must tell the same story (C09 owns
			// that statement; here it only guards the sensor)
			if (results[i] != nil) != exists {
				r.Count("disk_transition_result_disagrees_with_disk", 1)
			}
			c16judge(r, "transition", c, exists)
		}
		if created == 0 || refused == 0 {
			r.Inconclusive("c16-disk-transition-sensor-dead")
		}
	})
	// ---- route 3: the real Transition is asked to REPLACE an existing valid
	// link (known from a real scan, so Old is the scanned SymbolicLink entry) by
	// a link with each target; accepted iff the new link is on disk afterwards.
	replRoot := filepath.Join(base, "replace")
	if err := os.MkdirAll(filepath.Join(replRoot, "d", "e"), 0o755); err != nil {
		fmt.Println("ERROR: c16Disk:", err)
		r.Inconclusive("c16-disk-setup")
		return
	}
	for _, c := range cases {
		if err := os.Symlink("n", filepath.Join(replRoot, filepath.FromSlash(c.link))); err != nil {
			fmt.Println("ERROR: c16Disk:", err)
			r.Inconclusive("c16-disk-setup")
			return
		}
	}
	r.Guard(map[string]string{"route": "replace", "links": fmt.Sprint(len(cases))}, func() {
		st, err := fsx.Cold(replRoot, fsx.DefaultScanConfig())
		if err != nil {
			fmt.Println("ERROR: c16Disk: scan failed:", err)
			r.Inconclusive("c16-disk-scan-failed")
			return
		}
		var changes []*core.Change
		var used []c16case
		for _, c := range cases {
			old := st.Snapshot.Content
			for _, comp := range strings.Split(c.link, "/") {
				if old == nil {
					break
				}
				old = old.Contents[comp]
			}
			if old == nil || old.Kind != core.EntryKind_SymbolicLink || old.Target != "n" {
				r.Inconclusive("c16-disk-valid-link-not-scanned")
				continue
			}
			if c.target == "n" {
				continue // not a change
			}
			changes = append(changes, &core.Change{Path: c.link, Old: old, New: &core.Entry{Kind: core.EntryKind_SymbolicLink, Target: c.target}})
			used = append(used, c)
		}
		results, problems, _ := core.Transition(context.Background(), replRoot, changes, st.Cache,
			core.SymbolicLinkMode_SymbolicLinkModePortable, 0o600, 0o700, nil, st.Snapshot.DecomposesUnicode, noFiles{})
		if len(results) != len(changes) {
			fmt.Printf("ERROR: c16Disk: Transition returned %d results for %d changes\n", len(results), len(changes))
			r.Inconclusive("c16-disk-transition-results")
			return
		}
		r.Count("disk_replace_problems", int64(len(problems)))
		replaced, refused := 0, 0
		for _, c := range used {
			full := filepath.Join(replRoot, filepath.FromSlash(c.link))
			got, err := os.Readlink(full)
			switch {
			case err == nil && got == c.target:
				replaced++
				c16judge(r, "replace", c, true)
			case err == nil && got != "n":
				r.Violation(map[string]string{"rule": "normalized-differs", "route": "replace"},
					fmt.Sprintf("asked to replace link %q (target \"n\") by target %q, Transition left target %q", c.link, c.target, got),
					map[string]string{"route": "replace", "link": c.link, "target": c.target, "created": got})
			default:
				// old link still there, or nothing there: the new link was not accepted
				refused++
				c16judge(r, "replace", c, false)
			}
		}
		if replaced == 0 || refused == 0 {
			r.Inconclusive("c16-disk-replace-sensor-dead")
		}
	})
	r.Sample(map[string]string{"route": "scan+transition", "links_on_disk": fmt.Sprint(len(onDisk)), "links_requested": fmt.Sprint(len(cases)), "example_link": "d/l", "example_target": "./../..", "reference": "escapes"})
	r.Assume("disk routes: a link is accepted by a scan iff the real core.Scan (portable mode, default probing) reports entry kind SymbolicLink for it, and accepted by a transition iff the link exists on disk after the real core.Transition was asked to create it in portable mode; links with an empty target cannot exist on Linux and are driven through the transition routes only; the replace route starts from a valid link \"n\" at every link path, scanned by the real core.Scan, and asks the real core.Transition to change its target")
}
