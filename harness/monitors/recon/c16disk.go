package main

import "verif/internal/vk"

func c16Disk(r *vk.Run) {}
