package main

import (
	"fmt"
	"runtime"
	"sync"

	"github.com/mutagen-io/mutagen/pkg/synchronization/core"
	"google.golang.org/protobuf/proto"

	"verif/internal/gen"
	"verif/internal/laws"
	"verif/internal/vk"
)

func refCount(e *core.Entry) uint64 {
	s := laws.Sync(e)
	var n uint64
	var walk func(e *core.Entry)
	walk = func(e *core.Entry) {
		if e == nil {
			return
		}
		n++
		for _, c := range e.Contents {
			walk(c)
		}
	}
	walk(s)
	return n
}

// mutateInPlace changes every node of a tree (to detect sharing with copies).
func mutateInPlace(e *core.Entry) {
	if e == nil {
		return
	}
	for _, c := range e.Contents {
		mutateInPlace(c)
	}
	switch e.Kind {
	case core.EntryKind_Directory, core.EntryKind_PhantomDirectory:
		if e.Contents == nil {
			e.Contents = map[string]*core.Entry{}
		}
		e.Contents["zz-injected"] = gen.File(gen.D3, true)
	}
}

func c07() {
	r := vk.Start("C07", "exploration")
	names := []string{"a", "b"}
	all := gen.Enumerate(1, names, gen.AllLeaves())
	// add phantom variants
	all = append(all, gen.Problematic("q"), gen.Dir(map[string]*core.Entry{"a": gen.Problematic("q")}), gen.Phantom(nil), gen.Phantom(map[string]*core.Entry{"a": gen.File(gen.D1, false), "b": gen.Untracked()}),
		gen.Dir(map[string]*core.Entry{"a": gen.Phantom(map[string]*core.Entry{"b": gen.Link("t1")})}))

	checkPair := func(b, t *core.Entry) {
		w := map[string]string{"base": gen.Describe(b), "target": gen.Describe(t)}
		r.Guard(w, func() {
			r.Eval(1)
			d := core.Diff(b, t)
			if len(d) > 0 {
				r.Distinct(fmt.Sprintf("%d|%s|%s", len(d), kindLetter(b), kindLetter(t)) + gen.Describe(d[0].New)[:1])
			}
			res, err := core.Apply(b, d)
			if err != nil {
				r.Violation(map[string]string{"rule": "apply-diff-error"}, "Apply(base, Diff(base,target)) failed: "+err.Error(), w)
			} else if !laws.DeepEq(res, t) {
				w["result"] = gen.Describe(res)
				r.Violation(map[string]string{"rule": "apply-diff-roundtrip"}, "Apply(base, Diff(base,target)) != target", w)
			}
			if laws.DeepEq(b, t) && len(d) != 0 {
				r.Violation(map[string]string{"rule": "diff-equal-nonempty"}, "Diff of deep-equal trees is not empty", w)
			}
			if !laws.DeepEq(b, t) && len(d) == 0 {
				r.Violation(map[string]string{"rule": "diff-unequal-empty"}, "Diff of different trees is empty", w)
			}
			if dd := core.Diff(t, t); len(dd) != 0 {
				r.Violation(map[string]string{"rule": "diff-self-nonempty"}, "Diff(t,t) is not empty", w)
			}
			// Entry.Equal agrees with the independent comparison.
			if b.Equal(t, true) != laws.DeepEq(b, t) {
				r.Violation(map[string]string{"rule": "equal-deep"}, "Entry.Equal(deep) disagrees with reference comparison", w)
			}
		})
	}
	checkOne := func(e *core.Entry) {
		w := map[string]string{"entry": gen.Describe(e)}
		r.Guard(w, func() {
			r.Eval(1)
			// filter and count
			s := core.VerifSynchronizable(e)
			ref := laws.Sync(e)
			if !laws.DeepEq(s, ref) {
				w["got"] = gen.Describe(s)
				w["want"] = gen.Describe(ref)
				r.Violation(map[string]string{"rule": "synchronizable-filter"}, "synchronizable part differs from the reference filter", w)
			}
			if s != nil && s.EnsureValid(true) != nil {
				r.Violation(map[string]string{"rule": "synchronizable-filter-invalid"}, "synchronizable part is not valid synchronizable content", w)
			}
			if e.Count() != refCount(e) {
				w["got"] = fmt.Sprint(e.Count())
				w["want"] = fmt.Sprint(refCount(e))
				r.Violation(map[string]string{"rule": "count"}, "Count differs from number of synchronizable entries", w)
			}
			// copies
			for _, beh := range []core.EntryCopyBehavior{core.EntryCopyBehaviorDeep, core.EntryCopyBehaviorDeepPreservingLeaves, core.EntryCopyBehaviorShallow, core.EntryCopyBehaviorSlim} {
				orig := gen.Clone(e)
				var frozen *core.Entry
				if orig != nil {
					frozen = proto.Clone(orig).(*core.Entry)
				}
				cp := orig.Copy(beh)
				if beh == core.EntryCopyBehaviorSlim {
					slimRef := gen.Clone(e)
					if slimRef != nil {
						slimRef.Contents = nil
					}
					if !laws.DeepEq(cp, slimRef) {
						r.Violation(map[string]string{"rule": "copy-slim"}, "slim copy is not the entry without contents", w)
					}
					continue
				}
				if !laws.DeepEq(cp, frozen) || !cp.Equal(orig, true) {
					r.Violation(map[string]string{"rule": fmt.Sprintf("copy-equal-%d", beh)}, "copy does not compare equal to original", w)
				}
				if beh == core.EntryCopyBehaviorDeep || beh == core.EntryCopyBehaviorDeepPreservingLeaves {
					// Mutating the original's directories must not affect the copy.
					mutateInPlace(orig)
					if !laws.DeepEq(cp, frozen) {
						w["copy_after_mutation"] = gen.Describe(cp)
						r.Violation(map[string]string{"rule": fmt.Sprintf("copy-independent-%d", beh)}, "copy changed when the original's directories were mutated", w)
					}
				}
			}
			// Apply must not mutate its base.
			if e != nil && (e.Kind == core.EntryKind_Directory) {
				orig := gen.Clone(e)
				frozen := gen.Clone(e)
				_, _ = core.Apply(orig, []*core.Change{{Path: "newchild", New: gen.File(gen.D3, false)}, {Path: "a"}})
				if !laws.DeepEq(orig, frozen) {
					r.Violation(map[string]string{"rule": "apply-mutates-base"}, "Apply mutated its base entry", w)
				}
				// Nor may it mutate the change list it is given: a later change that
				// lands two levels inside an earlier change's new content must be
				// applied to Apply's own copy, and the result must be the composition.
				first := gen.Dir(map[string]*core.Entry{"inner": gen.Dir(map[string]*core.Entry{"a": gen.File(gen.D1, false)})})
				second := gen.File(gen.D3, true)
				changes := []*core.Change{{Path: "zz", New: first}, {Path: "zz/inner/b", New: second}, {Path: "zz/inner/a"}}
				firstFrozen, secondFrozen := gen.Clone(first), gen.Clone(second)
				got, err := core.Apply(gen.Clone(e), changes)
				want, _ := gen.Set(e, "zz", gen.Dir(map[string]*core.Entry{"inner": gen.Dir(map[string]*core.Entry{"b": gen.File(gen.D3, true)})}))
				if err != nil || !laws.DeepEq(got, want) {
					w["result"] = gen.Describe(got)
					r.Violation(map[string]string{"rule": "apply-nested-change-list"}, fmt.Sprintf("Apply of a change list whose later changes land inside an earlier change's content gave a wrong result (err=%v)", err), w)
				}
				if !laws.DeepEq(first, firstFrozen) || !laws.DeepEq(second, secondFrozen) {
					w["change_new_after"] = gen.Describe(first)
					r.Violation(map[string]string{"rule": "apply-mutates-changes"}, "Apply mutated the new content of a change it was given", w)
				}
			}
		})
	}
	for _, e := range all {
		checkOne(e)
	}
	for _, b := range all {
		for _, t := range all {
			checkPair(b, t)
		}
	}
	r.Count("bounded_entries", int64(len(all)))
	// random deep pairs
	n := r.Pick(60000, 3000000)
	workers := runtime.NumCPU()
	var wg sync.WaitGroup
	for w := 0; w < workers; w++ {
		wg.Add(1)
		go func(w int) {
			defer wg.Done()
			rng := r.Rand(fmt.Sprintf("c07-%d", w))
			for i := 0; i < n/workers; i++ {
				cfg := gen.RandomTreeConfig{Names: []string{"a", "ab", "b"}, MaxDepth: 1 + rng.Intn(4), DirBias: 0.6, AbsentBias: 0.3, Unsync: true, Phantoms: rng.Intn(3) == 0}
				b := gen.RandomEntry(rng, cfg, 0, true)
				var t *core.Entry
				if rng.Intn(3) == 0 {
					t = gen.RandomEntry(rng, cfg, 0, true)
				} else {
					t = gen.Mutate(rng, b, cfg, 1+rng.Intn(3))
				}
				if b.EnsureValid(false) != nil || t.EnsureValid(false) != nil {
					continue
				}
				checkPair(b, t)
				checkOne(t)
			}
		}(w)
	}
	wg.Wait()
	r.Sample(map[string]string{"base": gen.Describe(all[20]), "target": gen.Describe(all[40]), "diff": fmt.Sprint(gen.DescribeChanges(core.Diff(all[20], all[40])))})
	r.Finish("all pairs of the bounded entry alphabet (incl. untracked, problematic, phantom) plus seeded random deep pairs (mutations of a common tree); distinct = distinct (diff length, root kinds, first new kind) among pairs with a non-empty diff", 10)
}
