package main

import (
	"context"
	"fmt"
	"strings"
	"sync"
	"time"

	"github.com/mutagen-io/mutagen/pkg/synchronization/core"

	"verif/internal/gen"
	"verif/internal/laws"
	"verif/internal/scripted"
	"verif/internal/vk"
)

// L2: the same laws checked against the REAL controller. Scripted, journaling
// endpoints (internal/scripted) replace the local protocol handler; the real
// Manager/controller runs the cycle, saves the archive, and the monitor judges
// the archive loaded from disk and the journal of endpoint calls.

func isDir(e *core.Entry) bool { return e != nil && e.Kind == core.EntryKind_Directory }

// l2Triple generates a triple whose three roots are non-empty directories (so
// that the root-level safety halts of C11 do not interfere).
func l2Triple(rng interface {
	Intn(int) int
	Float64() float64
}, r *vk.Run, stream string, i int) (triple, bool) {
	rr := r.Rand(fmt.Sprintf("%s-%d", stream, i))
	cfgSync := gen.RandomTreeConfig{Names: []string{"a", "ab", "b", "c"}, MaxDepth: 1 + rr.Intn(3), DirBias: 0.5, AbsentBias: 0.3}
	cfgAll := cfgSync
	cfgAll.Unsync = true
	base := gen.RandomEntry(rr, cfgSync, 0, false)
	if !isDir(base) || len(base.Contents) < 2 {
		return triple{}, false
	}
	t := triple{A: base}
	t.Alpha = gen.Mutate(rr, base, cfgAll, rr.Intn(3))
	t.Beta = gen.Mutate(rr, base, cfgAll, rr.Intn(3))
	if rr.Intn(4) == 0 {
		t.A = gen.Mutate(rr, base, cfgSync, 1) // ancestor differs from both (both-modified-same etc.)
	}
	if !isDir(t.A) || !isDir(t.Alpha) || !isDir(t.Beta) || len(t.Alpha.Contents) == 0 || len(t.Beta.Contents) == 0 || len(t.A.Contents) == 0 {
		return triple{}, false
	}
	if t.Alpha.EnsureValid(false) != nil || t.Beta.EnsureValid(false) != nil || t.A.EnsureValid(true) != nil {
		return triple{}, false
	}
	return t, true
}

func hasTransitionOps(evs []scripted.Event) (stage, transition bool) {
	for _, e := range evs {
		switch e.Op {
		case "Stage":
			stage = true
		case "Transition":
			transition = true
		}
	}
	return
}

// l2Cycles runs n real controller cycles and applies the C04 or C05 oracle.
func l2Cycles(r *vk.Run, prop string) {
	n := r.Pick(240, 2400)
	// C05 runs extra indices that are all of the kind "halt-during-transition".
	total := n
	if prop == "C05" {
		total = n + r.Pick(200, 1200)
	}
	workers := 1 // one Manager per process: the scripted world and the protocol handler are process-global
	var wg sync.WaitGroup
	var mu sync.Mutex
	done := 0
	for w := 0; w < workers; w++ {
		wg.Add(1)
		go func(w int) {
			defer wg.Done()
			h, err := scripted.NewHarness(nil)
			if err != nil {
				r.Inconclusive("l2-harness-unavailable")
				return
			}
			defer h.Close()
			for i := w; i < total; i += workers {
				t, ok := l2Triple(nil, r, "l2-"+prop, i)
				if !ok {
					continue
				}
				mode := laws.Modes[i%4]
				plan := laws.Compute(t.A, t.Alpha, t.Beta, mode)
				if len(plan.AlphaCh)+len(plan.BetaCh) == 0 {
					continue
				}
				rr := r.Rand(fmt.Sprintf("l2o-%s-%d", prop, i))
				// choose outcomes
				type rep struct {
					alpha bool
					path  string
					res   *core.Entry
				}
				var repMu sync.Mutex
				var reported []rep
				spec := scripted.CycleSpec{Ancestor: t.A, Alpha: t.Alpha, Beta: t.Beta, Mode: mode,
					AlphaPreservesExecutability: true, BetaPreservesExecutability: true}
				// Cycle kind "halt-during-transition" (C05 only, every third index, so
				// that all four modes take part): while one side's (or both sides')
				// Transition is in flight, Pause cancels the synchronization loop; the
				// endpoint returns its scripted results - full, partial or none, nil
				// error - only after it has seen that cancellation. What the endpoints
				// reported must still be folded into the saved ancestor.
				haltKind := ""
				if prop == "C05" && (i%3 == 1 || i >= n) {
					var sides []string
					if len(plan.AlphaCh) > 0 {
						sides = append(sides, "alpha")
					}
					if len(plan.BetaCh) > 0 {
						sides = append(sides, "beta")
					}
					if len(sides) == 2 {
						sides = append(sides, "both")
					}
					haltKind = sides[r.Rand(fmt.Sprintf("l2halt-%d", i)).Intn(len(sides))]
					spec.HaltAlpha = haltKind == "alpha" || haltKind == "both"
					spec.HaltBeta = haltKind == "beta" || haltKind == "both"
					spec.HaltTimeout = 20 * time.Second
				}
				if prop == "C05" {
					choice := map[string]*core.Entry{}
					for _, c := range plan.AlphaCh {
						o := outcomes(plan.Alpha, c)
						choice["a|"+c.Path] = o[rr.Intn(len(o))]
					}
					for _, c := range plan.BetaCh {
						o := outcomes(plan.Beta, c)
						choice["b|"+c.Path] = o[rr.Intn(len(o))]
					}
					spec.Outcome = func(alpha bool, _ int, c *core.Change) *core.Entry {
						k := "b|" + c.Path
						if alpha {
							k = "a|" + c.Path
						}
						res, ok := choice[k]
						if !ok {
							res = c.New
						}
						repMu.Lock()
						reported = append(reported, rep{alpha, c.Path, res})
						repMu.Unlock()
						return res
					}
				} else {
					spec.FollowUp = true
					spec.Outcome = func(alpha bool, _ int, c *core.Change) *core.Entry {
						repMu.Lock()
						reported = append(reported, rep{alpha, c.Path, c.New})
						repMu.Unlock()
						return c.New
					}
				}
				ctx, cancel := context.WithTimeout(context.Background(), 2*time.Minute)
				res, err := h.RunCycle(ctx, spec)
				cancel()
				w := t.describe()
				w["mode"] = mode.String()
				w["planned_alpha"] = strings.Join(gen.DescribeChanges(plan.AlphaCh), "; ")
				w["planned_beta"] = strings.Join(gen.DescribeChanges(plan.BetaCh), "; ")
				var rs []string
				for _, x := range reported {
					rs = append(rs, fmt.Sprintf("alpha=%v %q=>%s", x.alpha, x.path, gen.Describe(x.res)))
				}
				w["reported"] = strings.Join(rs, "; ")
				if err != nil {
					if res != nil && res.State != nil {
						w["status"] = res.State.Status.String()
						w["last_error"] = res.State.LastError
					}
					w["error"] = err.Error()
					if ctx.Err() != nil {
						r.Inconclusive("l2-cycle-timeout")
						continue
					}
					lastErr := ""
					if res != nil && res.State != nil {
						lastErr = res.State.LastError
					}
					if strings.Contains(lastErr, "ancestor") || strings.Contains(lastErr, "propagate changes") {
						r.Violation(map[string]string{"rule": "l2-cycle-failed-updating-ancestor", "mode": mode.String()}, "real controller cycle failed while updating the last-synchronized state: "+lastErr, w)
					} else {
						r.Inconclusive("l2-cycle-incomplete")
					}
					continue
				}
				if haltKind != "" {
					w["cycle_kind"] = "halt-during-transition:" + haltKind
					w["gated_transitions"] = fmt.Sprint(res.GatedTransitions)
					w["cancellations_observed"] = fmt.Sprint(res.CancellationsObserved)
					if !res.HaltStarted {
						// no Transition call reached the chosen side: an ordinary cycle
						r.Count("l2_halt_cycles_without_transition_call", 1)
						haltKind = ""
					} else if res.CancellationsObserved < res.GatedTransitions {
						// control timeout: the loop's context was never seen done
						r.Inconclusive("cancellation-not-observed")
						continue
					} else if res.PauseErr != nil {
						w["pause_error"] = res.PauseErr.Error()
						r.Inconclusive("l2-pause-failed")
						continue
					} else {
						r.Count("l2_cycles_halted_during_transition", 1)
						r.Count("l2_cycles_halted_during_transition:"+haltKind, 1)
						r.Count("l2_cycles_halted_during_transition:"+mode.String(), 1)
						r.Count("l2_transitions_returning_after_observed_cancellation", int64(res.CancellationsObserved))
					}
				}
				r.Eval(1)
				mu.Lock()
				done++
				mu.Unlock()
				r.Count("l2_real_controller_cycles", 1)
				kindSig := func(m map[string]string) map[string]string {
					if haltKind != "" {
						m["cycle_kind"] = "halt-during-transition"
					}
					return m
				}
				arch := res.Archive.GetContent()
				if err := arch.EnsureValid(true); err != nil {
					r.Violation(kindSig(map[string]string{"rule": "l2-archive-invalid", "mode": mode.String()}), "archive saved by the real controller is invalid: "+err.Error(), w)
					continue
				}
				repMu.Lock()
				for _, x := range reported {
					if !laws.DeepEq(gen.At(arch, x.path), x.res) {
						w["archive_at_path"] = gen.Describe(gen.At(arch, x.path))
						r.Violation(kindSig(map[string]string{"rule": "l2-archive-unfaithful", "mode": mode.String()}),
							fmt.Sprintf("archive at %q is %s but the endpoint reported %s", x.path, gen.Describe(gen.At(arch, x.path)), gen.Describe(x.res)), w)
					}
				}
				nrep := len(reported)
				repMu.Unlock()
				if nrep > 0 {
					r.Distinct(fmt.Sprintf("l2|%s|%d|%s", planSignature(plan), nrep, haltKind))
				}
				if prop == "C04" {
					st, tr := hasTransitionOps(res.Next)
					if st || tr {
						var ops []string
						for _, e := range res.Next {
							if e.Op == "Transition" || e.Op == "Stage" {
								ops = append(ops, fmt.Sprintf("%s alpha=%v %v %v", e.Op, e.Alpha, e.ChangeDesc, e.Paths))
							}
						}
						w["follow_up"] = strings.Join(ops, " | ")
						r.Violation(map[string]string{"rule": "l2-not-a-fixpoint", "mode": mode.String()}, "after an ideally applied cycle the real controller staged or transitioned again", w)
					}
					if !laws.DeepEq(res.NextArchive.GetContent(), arch) {
						w["next_archive"] = gen.Describe(res.NextArchive.GetContent())
						w["archive"] = gen.Describe(arch)
						r.Violation(map[string]string{"rule": "l2-archive-changed-at-fixpoint", "mode": mode.String()}, "the follow-up cycle changed the archive", w)
					}
					// convergence in two-way modes, judged on the simulated endpoint contents
					p2 := &laws.Plan{Mode: mode, A: arch, Alpha: res.AlphaAfter, Beta: res.BetaAfter}
					_ = p2
				}
			}
		}(w)
	}
	wg.Wait()
	r.Assume("L2: scripted endpoints (internal/scripted) replace the local protocol handler inside the monitor process; the cycle, the archive update and its persistence are performed by the real Manager/controller")
}

// l2Exec drives the real controller with endpoints of which exactly one
// preserves executability (C18).
func l2Exec(r *vk.Run) {
	n := r.Pick(120, 1500)
	h, err := scripted.NewHarness(nil)
	if err != nil {
		r.Inconclusive("l2-harness-unavailable")
		return
	}
	defer h.Close()
	for i := 0; i < n; i++ {
		rr := r.Rand(fmt.Sprintf("l2x-%d", i))
		cfg := gen.RandomTreeConfig{Names: []string{"a", "ab", "b"}, MaxDepth: 2, DirBias: 0.4, AbsentBias: 0.2}
		base := gen.RandomEntry(rr, cfg, 0, false)
		if !isDir(base) || len(base.Contents) < 2 {
			continue
		}
		pIsAlpha := rr.Intn(2) == 0
		mode := laws.Modes[rr.Intn(4)]
		// step 1: both sides hold base (N without bits), ancestor nil or base
		P := gen.Clone(base)
		N := stripExec(base)
		// step 2 edits
		P2 := P
		N2 := N
		for e := 1 + rr.Intn(3); e > 0; e-- {
			if rr.Intn(2) == 0 {
				P2 = mutateSync(rr, P2, cfg, true)
			} else {
				N2 = stripExec(mutateSync(rr, N2, cfg, false))
			}
		}
		if !isDir(P2) || !isDir(N2) || len(P2.Contents) == 0 || len(N2.Contents) == 0 {
			continue
		}
		var anc *core.Entry
		if rr.Intn(3) != 0 {
			anc = gen.Clone(base)
		}
		spec := scripted.CycleSpec{Ancestor: anc, Mode: mode, FollowUp: false}
		if pIsAlpha {
			spec.Alpha, spec.Beta = P2, N2
			spec.AlphaPreservesExecutability = true
		} else {
			spec.Alpha, spec.Beta = N2, P2
			spec.BetaPreservesExecutability = true
		}
		ctx, cancel := context.WithTimeout(context.Background(), 2*time.Minute)
		res, err := h.RunCycle(ctx, spec)
		cancel()
		if err != nil {
			r.Inconclusive("l2-cycle-incomplete")
			continue
		}
		r.Eval(1)
		r.Count("l2_real_controller_cycles", 1)
		w := map[string]string{"mode": mode.String(), "preserving_is_alpha": fmt.Sprint(pIsAlpha), "ancestor": gen.Describe(anc), "preserving": gen.Describe(P2), "nonpreserving": gen.Describe(N2)}
		for _, e := range res.Cycle {
			if e.Op != "Transition" || e.Alpha != pIsAlpha {
				continue
			}
			for _, ch := range e.Changes {
				var walk func(q string, cur, nw *core.Entry)
				walk = func(q string, cur, nw *core.Entry) {
					if cur == nil || nw == nil {
						return
					}
					if isFile(cur) && isFile(nw) {
						ae := gen.At(anc, q)
						unmodified := isFile(ae) && string(ae.Digest) == string(cur.Digest)
						same := string(cur.Digest) == string(nw.Digest)
						if unmodified || same {
							r.Distinct(fmt.Sprintf("l2x|%v|%v|%v|%v|%d", cur.Executable, unmodified, same, pIsAlpha, mode))
							if nw.Executable != cur.Executable {
								w["path"] = q
								w["transition"] = strings.Join(e.ChangeDesc, "; ")
								r.Violation(map[string]string{"rule": "l2-preserving-bit-changed"}, fmt.Sprintf("the real controller asks the preserving endpoint to change the executable bit of %q from %v to %v", q, cur.Executable, nw.Executable), w)
							}
						}
						return
					}
					for n, cc := range cur.Contents {
						j := n
						if q != "" {
							j = q + "/" + n
						}
						walk(j, cc, nw.GetContents()[n])
					}
				}
				walk(ch.Path, gen.At(P2, ch.Path), ch.New)
			}
		}
		// The archive must record the preserving side's bits for files both sides hold with equal content.
		arch := res.Archive.GetContent()
		for _, q := range gen.Paths(P2) {
			pe, ne, ae := gen.At(P2, q), gen.At(N2, q), gen.At(arch, q)
			if isFile(pe) && isFile(ne) && isFile(ae) && string(pe.Digest) == string(ne.Digest) && string(ae.Digest) == string(pe.Digest) {
				r.Distinct(fmt.Sprintf("l2xa|%v|%v|%d", pe.Executable, pIsAlpha, mode))
				if ae.Executable != pe.Executable {
					w["path"] = q
					w["archive"] = gen.Describe(arch)
					r.Violation(map[string]string{"rule": "l2-archive-bit-not-from-preserving-side"}, fmt.Sprintf("file %q has equal content on both sides; the archive records executable=%v but the preserving endpoint has %v", q, ae.Executable, pe.Executable), w)
				}
			}
		}
	}
}
