package main

import (
	"fmt"
	"strings"

	"github.com/mutagen-io/mutagen/pkg/synchronization/core"

	"verif/internal/gen"
	"verif/internal/laws"
	"verif/internal/vk"
)

// subtrees lists the prefix-closed sub-trees of e (e itself included), up to
// limit (a negative return in ok means truncated).
func subtrees(e *core.Entry, limit int) []*core.Entry {
	if e == nil {
		return []*core.Entry{nil}
	}
	if e.Kind != core.EntryKind_Directory || len(e.Contents) == 0 {
		return []*core.Entry{e}
	}
	names := make([]string, 0, len(e.Contents))
	for n := range e.Contents {
		names = append(names, n)
	}
	options := make([][]*core.Entry, len(names))
	for i, n := range names {
		options[i] = append([]*core.Entry{nil}, subtrees(e.Contents[n], limit)...)
	}
	var out []*core.Entry
	idx := make([]int, len(names))
	for {
		m := map[string]*core.Entry{}
		for i, n := range names {
			if c := options[i][idx[i]]; c != nil {
				m[n] = c
			}
		}
		if len(m) == 0 {
			m = nil
		}
		out = append(out, &core.Entry{Kind: core.EntryKind_Directory, Contents: m})
		if len(out) >= limit {
			return out
		}
		k := 0
		for k < len(names) {
			idx[k]++
			if idx[k] < len(options[k]) {
				break
			}
			idx[k] = 0
			k++
		}
		if k == len(names) {
			break
		}
	}
	return out
}

func outcomes(x *core.Entry, c *core.Change) []*core.Entry {
	out := []*core.Entry{nil}
	out = append(out, subtrees(c.New, 40)...)
	out = append(out, subtrees(laws.Sync(gen.At(x, c.Path)), 40)...)
	return out
}

func c05() {
	r := vk.Start("C05", "fault_enumeration")
	maxAssign := r.Pick(300, 20000)
	var compositions int64
	check := func(t triple, a *core.Entry, p *laws.Plan, rngKey string) {
		nch := len(p.AlphaCh) + len(p.BetaCh)
		if nch == 0 || nch > 3 {
			return
		}
		type slot struct {
			path string
			opts []*core.Entry
		}
		var slots []slot
		for _, c := range p.AlphaCh {
			slots = append(slots, slot{c.Path, outcomes(p.Alpha, c)})
		}
		for _, c := range p.BetaCh {
			slots = append(slots, slot{c.Path, outcomes(p.Beta, c)})
		}
		total := 1
		for _, s := range slots {
			total *= len(s.opts)
		}
		idx := make([]int, len(slots))
		var rng = r.Rand(rngKey)
		n := total
		if n > maxAssign {
			n = maxAssign
		}
		for it := 0; it < n; it++ {
			if total > maxAssign {
				for i := range idx {
					idx[i] = rng.Intn(len(slots[i].opts))
				}
			}
			all := append([]*core.Change{}, p.Anc...)
			for i, s := range slots {
				all = append(all, &core.Change{Path: s.path, New: s.opts[idx[i]]})
			}
			compositions++
			r.Eval(1)
			desc := func() map[string]string {
				w := t.describe()
				w["mode"] = p.Mode.String()
				var rs []string
				for i, s := range slots {
					rs = append(rs, fmt.Sprintf("%q=>%s", s.path, gen.Describe(s.opts[idx[i]])))
				}
				w["results"] = strings.Join(rs, "; ")
				w["ancestor_changes"] = strings.Join(gen.DescribeChanges(p.Anc), "; ")
				return w
			}
			a2, err := core.Apply(a, all)
			if err != nil {
				r.Violation(map[string]string{"rule": "apply-failed", "mode": p.Mode.String()}, "updating the ancestor failed: "+err.Error(), desc())
			} else if err := a2.EnsureValid(true); err != nil {
				r.Violation(map[string]string{"rule": "ancestor-invalid", "mode": p.Mode.String()}, "new ancestor invalid: "+err.Error(), desc())
			} else {
				for i, s := range slots {
					if !laws.DeepEq(gen.At(a2, s.path), s.opts[idx[i]]) {
						r.Violation(map[string]string{"rule": "ancestor-unfaithful", "mode": p.Mode.String()}, fmt.Sprintf("ancestor at %q is %s, endpoint reported %s", s.path, gen.Describe(gen.At(a2, s.path)), gen.Describe(s.opts[idx[i]])), desc())
					}
				}
				// Everything not transitioned keeps what reconciliation decided for the ancestor.
			}
			if total <= maxAssign {
				k := 0
				for k < len(idx) {
					idx[k]++
					if idx[k] < len(slots[k].opts) {
						break
					}
					idx[k] = 0
					k++
				}
			}
		}
		r.Distinct(fmt.Sprintf("%s|%d", planSignature(p), len(slots)))
	}
	// Sequential over the exhaustive space (the enumeration itself is cheap),
	// sampling plans in quick mode.
	names := []string{"a", "b"}
	ancestors := gen.Enumerate(1, names, gen.SyncLeaves())
	sides := gen.Enumerate(1, names, gen.AllLeaves())
	stride := r.Pick(23, 1)
	k := int(r.Seed % int64(stride))
	cnt := 0
	for _, a := range ancestors {
		for _, al := range sides {
			for _, be := range sides {
				cnt++
				if cnt%stride != k {
					continue
				}
				t := triple{A: a, Alpha: al, Beta: be}
				r.Guard(t.describe(), func() {
					for _, mode := range laws.Modes {
						p := laws.Compute(a, al, be, mode)
						check(t, a, p, fmt.Sprintf("c05-%d", cnt))
					}
				})
			}
		}
	}
	// Random deep triples.
	rng := r.Rand("c05-random")
	for i := 0; i < r.Pick(3000, 200000); i++ {
		cfgSync := gen.RandomTreeConfig{Names: []string{"a", "ab", "b"}, MaxDepth: 1 + rng.Intn(3), DirBias: 0.55, AbsentBias: 0.35}
		cfgAll := cfgSync
		cfgAll.Unsync = true
		base := gen.RandomEntry(rng, cfgSync, 0, true)
		t := triple{A: base, Alpha: gen.Mutate(rng, base, cfgAll, rng.Intn(3)), Beta: gen.Mutate(rng, base, cfgAll, rng.Intn(3))}
		if t.Alpha.EnsureValid(false) != nil || t.Beta.EnsureValid(false) != nil || t.A.EnsureValid(true) != nil {
			continue
		}
		r.Guard(t.describe(), func() {
			for _, mode := range laws.Modes {
				p := laws.Compute(t.A, t.Alpha, t.Beta, mode)
				check(t, t.A, p, fmt.Sprintf("c05r-%d", i))
			}
		})
	}
	r.Count("compositions", compositions)
	l2Cycles(r, "C05")
	r.Sample(map[string]string{"outcome_set_example": "change \"a\": D{} -> D{a:F b:L}: results tried = nil, D{}, D{a:F}, D{b:L}, D{a:F b:L}, plus sub-trees of the endpoint's current content"})
	r.Assume("L1 composes ancestor changes and transition results in the order controller.synchronize uses (reconciliation's ancestor changes, then alpha results, then beta results)")
	r.Finish("plans with 1..3 changes from the bounded space (quick: every 23rd triple, offset by seed; thorough: all) and random deep triples; each change gets every outcome from {nothing, every prefix-closed sub-tree of the planned content, every prefix-closed sub-tree of the endpoint's current content}; all assignments up to a cap, sampled above; distinct = plan-shape signatures explored", 30)
}
