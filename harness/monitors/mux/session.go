package main

import (
	"fmt"
	"math/rand"
	"time"

	"github.com/mutagen-io/mutagen/pkg/multiplexing"
)

// sessCfg is the configuration of one session: two real multiplexers joined by
// a harness carrier with a wire monitor in between.
type sessCfg struct {
	Window    int           `json:"window"`
	WBC       int           `json:"write_buffers"`
	Backlog   int           `json:"backlog"`
	Chunk     int           `json:"carrier_chunk"`
	PipeCap   int           `json:"carrier_capacity"`
	Yield     int           `json:"yield"`
	Heartbeat time.Duration `json:"heartbeat_ns"`
	Propagate bool          `json:"close_propagates"`
	CloseFail bool          `json:"carrier_close_returns_error"`
	Procs     int           `json:"gomaxprocs"`
}

func (c sessCfg) String() string {
	s := fmt.Sprintf("win=%d wbc=%d backlog=%d chunk=%d cap=%d yield=%d hb=%s procs=%d", c.Window, c.WBC, c.Backlog, c.Chunk, c.PipeCap, c.Yield, c.Heartbeat, c.Procs)
	if c.CloseFail {
		s += " carrier-close-fails"
	}
	return s
}

var (
	windowChoices  = []int{1, 7, 64, 1024, 65535}
	wbcChoices     = []int{1, 2, 5}
	backlogChoices = []int{1, 2, 10}
	chunkChoices   = []int{1, 2, 3, 7, 17, 512, 1 << 20}
	capChoices     = []int{1, 64, 4096, 1 << 20}
)

func randomCfg(rng *rand.Rand) sessCfg {
	c := sessCfg{
		Window:    windowChoices[rng.Intn(len(windowChoices))],
		WBC:       wbcChoices[rng.Intn(len(wbcChoices))],
		Backlog:   backlogChoices[rng.Intn(len(backlogChoices))],
		Chunk:     chunkChoices[rng.Intn(len(chunkChoices))],
		PipeCap:   capChoices[rng.Intn(len(capChoices))],
		Propagate: true,
	}
	switch rng.Intn(4) {
	case 0:
		c.Yield = 2
	case 1:
		c.Yield = 16
	}
	switch rng.Intn(3) {
	case 0:
		c.Heartbeat = time.Millisecond
	case 1:
		c.Heartbeat = 20 * time.Millisecond
	}
	return c
}

type session struct {
	cfg sessCfg
	mon *wireMon
	car [2]*pipeCarrier
	mux [2]*multiplexing.Multiplexer
}

func newSession(cfg sessCfg, seed int64) *session {
	s := &session{cfg: cfg, mon: newWireMon()}
	s.car[0], s.car[1] = newCarrierPair(s.mon, cfg.PipeCap, cfg.Chunk, cfg.Yield, cfg.Propagate, seed)
	s.car[0].closeFail, s.car[1].closeFail = cfg.CloseFail, cfg.CloseFail
	for side := 0; side < 2; side++ {
		mc := &multiplexing.Configuration{
			StreamReceiveWindow:       cfg.Window,
			WriteBufferCount:          cfg.WBC,
			AcceptBacklog:             cfg.Backlog,
			HeartbeatTransmitInterval: cfg.Heartbeat,
			// Inbound heartbeats are processed but not required: a receive
			// timeout would turn machine load into a teardown.
			MaximumHeartbeatReceiveInterval: 0,
		}
		s.mux[side] = multiplexing.Multiplex(s.car[side], side == 1, mc)
	}
	return s
}

// alive returns "" if both multiplexers are up, otherwise a description.
func (s *session) alive() (bool, [2]string, [2]bool) {
	var errs [2]string
	var closed [2]bool
	ok := true
	for side := 0; side < 2; side++ {
		closed[side] = isClosedChan(s.mux[side].Closed())
		if e := s.mux[side].InternalError(); e != nil {
			errs[side] = e.Error()
		}
		if closed[side] || errs[side] != "" {
			ok = false
		}
	}
	return ok, errs, closed
}

// rootCause picks the internal error that is not merely the echo of the
// peer's closure.
func (s *session) rootCause() (side int, cause string, text string) {
	side, cause = -1, "none"
	for x := 0; x < 2; x++ {
		e := s.mux[x].InternalError()
		if e == nil {
			continue
		}
		c := teardownCause(e)
		if side == -1 || (cause == "carrier-closed" && c != "carrier-closed") {
			side, cause, text = x, c, e.Error()
		}
	}
	if side == -1 {
		for x := 0; x < 2; x++ {
			if isClosedChan(s.mux[x].Closed()) {
				return x, "closed-without-error", ""
			}
		}
	}
	return
}

func (s *session) shutdown() {
	s.mux[0].Close()
	s.mux[1].Close()
}

// ---------------------------------------------------------------------------
// Position-derived pattern: byte(seed, session, stream, direction, i). Every
// stream direction has its own key, so a byte that is lost, duplicated,
// reordered or delivered to another stream shows in the bytes alone.

func mix64(x uint64) uint64 {
	x += 0x9e3779b97f4a7c15
	x = (x ^ (x >> 30)) * 0xbf58476d1ce4e5b9
	x = (x ^ (x >> 27)) * 0x94d049bb133111eb
	return x ^ (x >> 31)
}

func patKey(seed int64, sess int, id uint64, dir int) uint64 {
	return mix64(mix64(mix64(uint64(seed))^uint64(sess)*0x100000001b3)^id*2654435761) ^ uint64(dir+1)*0xa24baed4963ee407
}

func patByte(key uint64, i int64) byte {
	return byte(mix64(key+uint64(i>>3)) >> (uint(i&7) * 8))
}

func patFill(key uint64, off int64, p []byte) {
	i := 0
	for i < len(p) {
		w := mix64(key + uint64((off+int64(i))>>3))
		for j := (off + int64(i)) & 7; j < 8 && i < len(p); j++ {
			p[i] = byte(w >> (uint(j) * 8))
			i++
		}
	}
}

// patCheck returns the index of the first byte of p that differs from the
// pattern at offset off, or -1.
func patCheck(key uint64, off int64, p []byte) int {
	i := 0
	for i < len(p) {
		w := mix64(key + uint64((off+int64(i))>>3))
		for j := (off + int64(i)) & 7; j < 8 && i < len(p); j++ {
			if p[i] != byte(w>>(uint(j)*8)) {
				return i
			}
			i++
		}
	}
	return -1
}
