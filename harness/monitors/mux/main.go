// Monitor group mux: the stream multiplexer (C23 byte conservation, C24 no
// teardown between conforming peers, C25 bounded progress) and its ring buffer
// (C26). C23–C25 are built with -race, C26 without; this source compiles both
// ways.
package main

import (
	"context"
	"errors"
	"fmt"
	"io"
	"net"
	"os"
	"regexp"
	"runtime"
	"strings"
	"sync"
	"time"

	"github.com/mutagen-io/mutagen/pkg/multiplexing"

	"verif/internal/vk"
)

func main() {
	vk.Main("mux", map[string]func(){
		"C23": c23,
		"C24": c24,
		"C25": c25,
		"C26": c26,
	})
}

// ---------------------------------------------------------------------------
// I5: control heartbeat. A goroutine sleeps in short steps and records every
// gap between two of its own wake-ups that is long enough to matter. A verdict
// that depends on "did not happen within the bound" is only drawn if no gap of
// a second or more overlaps the waiting window.

type heartbeat struct {
	mu   sync.Mutex
	last time.Time
	gaps []hbGap // gaps >= 200ms
}

type hbGap struct {
	from, to time.Time
}

var hb = startHeartbeat()

func startHeartbeat() *heartbeat {
	h := &heartbeat{last: time.Now()}
	go func() {
		for {
			time.Sleep(5 * time.Millisecond)
			now := time.Now()
			h.mu.Lock()
			if now.Sub(h.last) >= 200*time.Millisecond {
				h.gaps = append(h.gaps, hbGap{h.last, now})
				if len(h.gaps) > 4096 {
					h.gaps = h.gaps[len(h.gaps)-2048:]
				}
			}
			h.last = now
			h.mu.Unlock()
		}
	}()
	return h
}

// maxGap returns the largest heartbeat gap overlapping [since, now].
func (h *heartbeat) maxGap(since time.Time) time.Duration {
	now := time.Now()
	h.mu.Lock()
	defer h.mu.Unlock()
	worst := now.Sub(h.last)
	for _, g := range h.gaps {
		if g.to.Before(since) {
			continue
		}
		if d := g.to.Sub(g.from); d > worst {
			worst = d
		}
	}
	return worst
}

// healthy reports whether the scheduler served the control goroutine without
// a gap of one second or more during [since, now].
func (h *heartbeat) healthy(since time.Time) bool {
	return h.maxGap(since) < time.Second
}

// hangBound is the control-relative bound: nominal latencies of every call
// watched here are far below a millisecond on an idle machine, so the floor of
// ten seconds applies (>= 100 x nominal).
const hangBound = 10 * time.Second

// goroutineDump returns a bounded dump of all goroutine stacks (witness of a hang).
func goroutineDump() string {
	buf := make([]byte, 1<<20)
	n := runtime.Stack(buf, true)
	s := string(buf[:n])
	// Keep only goroutines that are inside the multiplexing package or the monitor.
	var keep []string
	for _, g := range strings.Split(s, "\n\n") {
		if strings.Contains(g, "pkg/multiplexing") || strings.Contains(g, "monitors/mux") {
			keep = append(keep, g)
		}
	}
	out := strings.Join(keep, "\n\n")
	if len(out) > 60000 {
		out = out[:60000] + "\n…(truncated)"
	}
	return out
}

// ---------------------------------------------------------------------------
// error classification (stable, few values)

func errClass(err error) string {
	switch {
	case err == nil:
		return "nil"
	case err == io.EOF:
		return "eof"
	case errors.Is(err, os.ErrDeadlineExceeded):
		return "deadline"
	case errors.Is(err, multiplexing.ErrWriteClosed):
		return "write-closed"
	case errors.Is(err, multiplexing.ErrMultiplexerClosed):
		return "mux-closed"
	case errors.Is(err, multiplexing.ErrStreamRejected):
		return "rejected"
	case errors.Is(err, context.Canceled):
		return "canceled"
	case errors.Is(err, net.ErrClosed):
		if strings.HasPrefix(err.Error(), "remote:") {
			return "remote-closed"
		}
		return "closed"
	}
	return "other:" + slug(err.Error())
}

var slugDrop = regexp.MustCompile(`0x[0-9a-fA-F]+|[0-9]+`)
var slugSep = regexp.MustCompile(`[^a-z]+`)

func slug(s string) string {
	s = strings.ToLower(s)
	s = slugDrop.ReplaceAllString(s, "")
	s = slugSep.ReplaceAllString(s, "-")
	s = strings.Trim(s, "-")
	if len(s) > 80 {
		s = s[:80]
	}
	return s
}

// teardownCause maps an internal multiplexer error to a stable cause name.
func teardownCause(err error) string {
	if err == nil {
		return "none"
	}
	m := err.Error()
	switch {
	case strings.Contains(m, "zero-valued window increment"):
		return "zero-window-increment"
	case strings.Contains(m, "not monotonically increasing"):
		return "stream-identifiers-not-monotone"
	case strings.Contains(m, "violated stream receive window"):
		return "receive-window-violated"
	case strings.Contains(m, "heartbeat timeout"):
		return "heartbeat-timeout"
	case strings.Contains(m, "zero-length data"):
		return "zero-length-data"
	case errors.Is(err, io.EOF), errors.Is(err, io.ErrClosedPipe), errors.Is(err, io.ErrUnexpectedEOF):
		return "carrier-closed"
	}
	m = strings.TrimPrefix(m, "read error: ")
	m = strings.TrimPrefix(m, "write error: ")
	return slug(m)
}

func isClosedChan(c <-chan struct{}) bool {
	select {
	case <-c:
		return true
	default:
		return false
	}
}

func streamID(s *multiplexing.Stream) uint64 {
	var id uint64
	fmt.Sscanf(s.LocalAddr().String(), "local:%d", &id)
	return id
}

func errText(err error) string {
	if err == nil {
		return ""
	}
	return err.Error()
}

// setProcs sets GOMAXPROCS (bounded by the CPUs present) and returns the value used.
func setProcs(n int) int {
	if c := runtime.NumCPU(); n > c {
		n = c
	}
	if n < 1 {
		n = 1
	}
	runtime.GOMAXPROCS(n)
	return n
}

func minInt(a, b int) int {
	if a < b {
		return a
	}
	return b
}

func maxInt(a, b int) int {
	if a > b {
		return a
	}
	return b
}
