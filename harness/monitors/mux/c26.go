package main

import (
	"errors"
	"fmt"
	"io"
	"math/rand"
	"reflect"
	"runtime"
	"strings"
	"sync"
	"sync/atomic"
	"time"
	"unsafe"

	"github.com/mutagen-io/mutagen/pkg/multiplexing/ring"

	"verif/internal/vk"
)

// C26: the ring buffer against a slice-backed bounded FIFO queue.
//
// The model is written from the documentation of the methods (bytes.Buffer-like
// Read/ReadByte, ErrBufferFull on lack of space, ReadNFrom's stated treatment
// of EOF and of errors that coincide with completion or with running out of
// space, WriteTo draining until an error). It has no start index and no
// wrap-around: it is a slice.

const (
	opWrite = iota
	opWriteByte
	opRead
	opReadByte
	opReset
	opReadNFrom
	opWriteTo
)

type rop struct {
	Kind int `json:"kind"`
	N    int `json:"n"` // Write/Read size, ReadNFrom n
	// ReadNFrom: the scripted reader.
	Avail int  `json:"avail"` // bytes the reader can supply (-1: more than ever asked for)
	Chunk int  `json:"chunk"` // most bytes per Read call (0: no limit)
	Fail  bool `json:"fail"`  // after the data: a non-EOF error (otherwise io.EOF)
	With  bool `json:"with"`  // the terminal condition is reported together with the last data
	// WriteTo: the scripted writer.
	Budget int `json:"budget"` // bytes accepted before failing (-1: everything)
	WChunk int `json:"wchunk"` // most bytes accepted per Write call, the rest refused with a NIL error (0: no limit)
}

func (o rop) String() string {
	switch o.Kind {
	case opWrite:
		return fmt.Sprintf("Write(%d)", o.N)
	case opWriteByte:
		return "WriteByte"
	case opRead:
		return fmt.Sprintf("Read(%d)", o.N)
	case opReadByte:
		return "ReadByte"
	case opReset:
		return "Reset"
	case opReadNFrom:
		t := "EOF"
		if o.Fail {
			t = "error"
		}
		w := "after"
		if o.With {
			w = "with"
		}
		return fmt.Sprintf("ReadNFrom(n=%d,reader{avail=%d,chunk=%d,%s %s data})", o.N, o.Avail, o.Chunk, t, w)
	case opWriteTo:
		if o.WChunk > 0 {
			return fmt.Sprintf("WriteTo(writer{accepts=%d,at most %d per call without error})", o.Budget, o.WChunk)
		}
		return fmt.Sprintf("WriteTo(writer{accepts=%d})", o.Budget)
	}
	return "?"
}

var errScriptRead = errors.New("scripted reader failure")
var errScriptWrite = errors.New("scripted writer failure")
var errRunaway = errors.New("runaway: too many calls")

type scriptReader struct {
	data  []byte
	pos   int
	chunk int
	term  error
	with  bool
	calls int
}

func (s *scriptReader) Read(p []byte) (int, error) {
	s.calls++
	if s.calls > 1<<20 {
		return 0, errRunaway
	}
	if len(p) == 0 {
		return 0, nil
	}
	rem := len(s.data) - s.pos
	if rem == 0 {
		return 0, s.term
	}
	n := len(p)
	if n > rem {
		n = rem
	}
	if s.chunk > 0 && n > s.chunk {
		n = s.chunk
	}
	copy(p, s.data[s.pos:s.pos+n])
	s.pos += n
	if s.pos == len(s.data) && s.with {
		return n, s.term
	}
	return n, nil
}

type scriptWriter struct {
	budget int // -1 unlimited
	chunk  int // per-call limit; hitting only this limit is reported with a nil error
	got    []byte
	calls  int
}

func (s *scriptWriter) Write(p []byte) (int, error) {
	s.calls++
	if s.calls > 1<<20 {
		return 0, errRunaway
	}
	n := len(p)
	if s.chunk > 0 && n > s.chunk {
		n = s.chunk
	}
	exhausted := false
	if s.budget >= 0 && n >= s.budget && len(p) > s.budget {
		n, exhausted = s.budget, true
	}
	s.got = append(s.got, p[:n]...)
	if s.budget >= 0 {
		s.budget -= n
	}
	if exhausted {
		return n, errScriptWrite
	}
	return n, nil
}

// fifo is the reference model.
type fifo struct {
	cap  int
	q    []byte
	head int
}

func (f *fifo) used() int     { return len(f.q) - f.head }
func (f *fifo) view() []byte  { return f.q[f.head:] }
func (f *fifo) push(p []byte) { f.q = append(f.q, p...) }
func (f *fifo) pop(n int) {
	f.head += n
	if f.head == len(f.q) {
		f.q, f.head = f.q[:0], 0
	} else if f.head > 1<<17 {
		f.q = append(f.q[:0], f.q[f.head:]...)
		f.head = 0
	}
}
func (f *fifo) clone() *fifo {
	return &fifo{cap: f.cap, q: append(make([]byte, 0, f.used()+4), f.view()...)}
}

// bytesrc hands out the bytes that get written: position-derived, so any
// misplaced byte shows.
type bytesrc struct {
	key uint64
	pos int64
}

// next returns the next n bytes in scratch memory of the arena (valid until
// the following call).
func (s *bytesrc) next(n int, ar *arena) []byte {
	if cap(ar.data) < n {
		ar.data = make([]byte, n+n/4+16)
	}
	p := ar.data[:n]
	patFill(s.key, s.pos, p)
	s.pos += int64(n)
	return p
}

// arena holds per-worker scratch memory so that the exhaustive search does not
// allocate per step.
type arena struct {
	data  []byte
	rbuf  []byte
	out   []byte
	rd    scriptReader
	wr    scriptWriter
	drain ring.Buffer
	store []byte
}

func (ar *arena) readBuf(n int) []byte {
	if cap(ar.rbuf) < n {
		ar.rbuf = make([]byte, n+n/4+16)
	}
	return ar.rbuf[:n]
}

type stepResult struct {
	mismatch string
	used     int // fill before the operation
	moved    int
	err      error
}

func errCode(e error) uint64 {
	switch e {
	case nil:
		return 0
	case io.EOF:
		return 1
	case ring.ErrBufferFull:
		return 2
	case errScriptRead:
		return 3
	case errScriptWrite:
		return 4
	}
	return 5
}

func eqBytes(a, b []byte) bool {
	if len(a) != len(b) {
		return false
	}
	for i := range a {
		if a[i] != b[i] {
			return false
		}
	}
	return true
}

func errName(e error) string {
	switch e {
	case nil:
		return "nil"
	case io.EOF:
		return "EOF"
	case ring.ErrBufferFull:
		return "ErrBufferFull"
	case errScriptRead:
		return "reader-error"
	case errScriptWrite:
		return "writer-error"
	}
	return e.Error()
}

// step applies one operation to the real buffer and to the model and compares
// every result.
func step(b *ring.Buffer, f *fifo, o rop, src *bytesrc, ar *arena) (res stepResult) {
	usedBefore := f.used()
	free := f.cap - usedBefore
	fail := func(format string, a ...any) {
		if res.mismatch == "" {
			res.mismatch = fmt.Sprintf(format, a...)
		}
	}
	defer func() {
		if p := recover(); p != nil {
			res.mismatch = fmt.Sprintf("%s with %d of %d bytes used panicked: %v", o, usedBefore, f.cap, p)
		}
	}()
	var gotN, wantN int
	var gotErr, wantErr error
	switch o.Kind {
	case opWrite:
		data := src.next(o.N, ar)
		gotN, gotErr = b.Write(data)
		wantN = minInt(o.N, free)
		if wantN < o.N {
			wantErr = ring.ErrBufferFull
		}
		f.push(data[:wantN])
	case opWriteByte:
		data := src.next(1, ar)
		gotErr = b.WriteByte(data[0])
		if free == 0 {
			wantErr = ring.ErrBufferFull
		} else {
			wantN = 1
			f.push(data)
		}
		if gotErr == nil {
			gotN = 1
		}
	case opRead:
		buf := ar.readBuf(o.N)
		gotN, gotErr = b.Read(buf)
		switch {
		case o.N == 0:
		case usedBefore == 0:
			wantErr = io.EOF
		default:
			wantN = minInt(o.N, usedBefore)
		}
		if gotN == wantN && !eqBytes(buf[:wantN], f.view()[:wantN]) {
			fail("Read returned bytes %x, the queue holds %x", buf[:wantN], f.view()[:wantN])
		}
		f.pop(wantN)
	case opReadByte:
		var v byte
		v, gotErr = b.ReadByte()
		if usedBefore == 0 {
			wantErr = io.EOF
		} else {
			wantN = 1
			if gotErr == nil && v != f.view()[0] {
				fail("ReadByte returned %#02x, the queue starts with %#02x", v, f.view()[0])
			}
			f.pop(1)
		}
		if gotErr == nil {
			gotN = 1
		}
	case opReset:
		b.Reset()
		f.q, f.head = f.q[:0], 0
	case opReadNFrom:
		avail := o.Avail
		if avail < 0 {
			avail = maxInt(o.N, 0) + f.cap + 5
		}
		data := src.next(avail, ar)
		rd := &ar.rd
		*rd = scriptReader{data: data, chunk: o.Chunk, term: io.EOF, with: o.With}
		if o.Fail {
			rd.term = errScriptRead
		}
		gotN, gotErr = b.ReadNFrom(rd, o.N)
		want := maxInt(o.N, 0)
		wantN = minInt(want, minInt(free, avail))
		terminalWithData := o.With && wantN == avail && wantN > 0
		switch {
		case want == 0:
		case wantN == want: // the request completed
			if terminalWithData && o.Fail {
				wantErr = errScriptRead
			}
		case wantN == avail && wantN < free: // the source ran dry first
			wantErr = rd.term
		case wantN == free && wantN < avail: // the buffer filled first
			wantErr = ring.ErrBufferFull
		default: // both at once
			if terminalWithData {
				wantErr = rd.term
			} else {
				wantErr = ring.ErrBufferFull
			}
		}
		f.push(data[:wantN])
		if rd.pos != wantN && gotN == wantN {
			fail("ReadNFrom took %d bytes from the reader but stored %d", rd.pos, gotN)
		}
	case opWriteTo:
		wr := &ar.wr
		wr.budget, wr.chunk, wr.got, wr.calls = o.Budget, o.WChunk, wr.got[:0], 0
		var n64 int64
		n64, gotErr = b.WriteTo(wr)
		gotN = int(n64)
		wantN = usedBefore
		if o.Budget >= 0 && o.Budget < usedBefore {
			wantN = o.Budget
			wantErr = errScriptWrite
		}
		if !eqBytes(wr.got, f.view()[:minInt(wantN, len(wr.got))]) || len(wr.got) != wantN {
			fail("WriteTo handed the writer %x, the queue's first %d bytes are %x", wr.got, wantN, f.view()[:wantN])
		}
		f.pop(wantN)
	}
	if gotN != wantN || gotErr != wantErr {
		fail("%s with %d of %d bytes used returned (%d, %s), the model says (%d, %s)", o, usedBefore, f.cap, gotN, errName(gotErr), wantN, errName(wantErr))
	}
	if b.Used() != f.used() || b.Free() != f.cap-f.used() || b.Size() != f.cap {
		fail("after %s: Used/Free/Size = %d/%d/%d, the model says %d/%d/%d", o, b.Used(), b.Free(), b.Size(), f.used(), f.cap-f.used(), f.cap)
	}
	res.moved, res.used, res.err = wantN, usedBefore, wantErr
	return
}

// drainCheck empties a COPY of the buffer through Read and compares with the model.
func drainCheck(b *ring.Buffer, f *fifo, ar *arena) (out string) {
	defer func() {
		if p := recover(); p != nil {
			out = fmt.Sprintf("draining a copy of the buffer panicked: %v", p)
		}
	}()
	return drainCheck1(b, f, ar)
}

func drainCheck1(b *ring.Buffer, f *fifo, ar *arena) string {
	c := cloneInto(&ar.drain, &ar.store, b)
	if cap(ar.out) < f.used()+2 {
		ar.out = make([]byte, f.used()*2+16)
	}
	out := ar.out[:f.used()+2]
	n, err := c.Read(out)
	if f.used() == 0 {
		if n != 0 || err != io.EOF {
			return fmt.Sprintf("draining an empty buffer returned (%d, %s)", n, errName(err))
		}
		return ""
	}
	if n != f.used() || err != nil || !eqBytes(out[:n], f.view()) {
		return fmt.Sprintf("drained contents %x (n=%d, %s), the model holds %x", out[:maxInt(n, 0)], n, errName(err), f.view())
	}
	return ""
}

// cloneable verifies the layout assumption behind cloneBuffer (storage slice
// first). If it fails the exhaustive search replays prefixes instead.
func cloneable() bool {
	t := reflect.TypeOf(ring.Buffer{})
	if t.NumField() < 1 {
		return false
	}
	f := t.Field(0)
	if f.Offset != 0 || f.Type != reflect.TypeOf([]byte(nil)) {
		return false
	}
	for i := 1; i < t.NumField(); i++ {
		switch t.Field(i).Type.Kind() {
		case reflect.Int, reflect.Int64, reflect.Bool, reflect.Uint, reflect.Uint64:
		default:
			return false
		}
	}
	// Behavioural self-check.
	b := ring.NewBuffer(3)
	b.Write([]byte{1, 2, 3})
	b.ReadByte()
	b.WriteByte(4)
	c := cloneBuffer(b)
	b.Reset()
	b.Write([]byte{9, 9, 9})
	out := make([]byte, 4)
	n, _ := c.Read(out)
	return n == 3 && out[0] == 2 && out[1] == 3 && out[2] == 4
}

// cloneInto copies b into dst, giving dst its own storage taken from *store.
func cloneInto(dst *ring.Buffer, store *[]byte, b *ring.Buffer) *ring.Buffer {
	*dst = *b
	sp := (*[]byte)(unsafe.Pointer(dst))
	if *sp != nil {
		if cap(*store) < len(*sp) {
			*store = make([]byte, len(*sp))
		}
		ns := (*store)[:len(*sp)]
		copy(ns, *sp)
		*sp = ns
	}
	return dst
}

func (f *fifo) cloneInto(dst *fifo) *fifo {
	dst.cap = f.cap
	dst.q = append(dst.q[:0], f.view()...)
	dst.head = 0
	return dst
}

func cloneBuffer(b *ring.Buffer) *ring.Buffer {
	c := *b
	sp := (*[]byte)(unsafe.Pointer(&c))
	if *sp != nil {
		ns := make([]byte, len(*sp))
		copy(ns, *sp)
		*sp = ns
	}
	return &c
}

func fullAlphabet() []rop {
	a := []rop{}
	for n := 0; n <= 3; n++ {
		a = append(a, rop{Kind: opWrite, N: n})
	}
	a = append(a, rop{Kind: opWriteByte})
	for n := 0; n <= 3; n++ {
		a = append(a, rop{Kind: opRead, N: n})
	}
	a = append(a, rop{Kind: opReadByte}, rop{Kind: opReset})
	a = append(a,
		rop{Kind: opReadNFrom, N: 0, Avail: -1},
		rop{Kind: opReadNFrom, N: 3, Avail: -1},
		rop{Kind: opReadNFrom, N: 3, Avail: -1, Chunk: 1},              // short reads
		rop{Kind: opReadNFrom, N: 2, Avail: 2, With: true},             // EOF together with the last data
		rop{Kind: opReadNFrom, N: 3, Avail: 1},                         // EOF on the following call
		rop{Kind: opReadNFrom, N: 2, Avail: 2, With: true, Fail: true}, // error together with the last data
		rop{Kind: opReadNFrom, N: 3, Avail: 2, With: true, Fail: true}, // n > 0 together with an error, request incomplete
		rop{Kind: opReadNFrom, N: 3, Avail: 1, Fail: true},             // error on the following call
		rop{Kind: opReadNFrom, N: 1, Avail: 0},                         // nothing but EOF
	)
	a = append(a,
		rop{Kind: opWriteTo, Budget: -1},
		rop{Kind: opWriteTo, Budget: 0},             // fails outright
		rop{Kind: opWriteTo, Budget: 1},             // short write with error
		rop{Kind: opWriteTo, Budget: -1, WChunk: 1}, // accepts one byte per call, nil error
		rop{Kind: opWriteTo, Budget: -1, WChunk: 2}, // accepts two bytes per call, nil error
	)
	return a
}

func coreAlphabet() []rop {
	return []rop{
		{Kind: opWrite, N: 1}, {Kind: opWrite, N: 2}, {Kind: opWrite, N: 3}, {Kind: opWriteByte},
		{Kind: opRead, N: 1}, {Kind: opRead, N: 2}, {Kind: opRead, N: 3}, {Kind: opReadByte}, {Kind: opReset},
		{Kind: opReadNFrom, N: 3, Avail: -1, Chunk: 1},
		{Kind: opReadNFrom, N: 2, Avail: 2, With: true},
		{Kind: opReadNFrom, N: 3, Avail: 1, Fail: true},
		{Kind: opWriteTo, Budget: -1, WChunk: 1},
		{Kind: opWriteTo, Budget: 1},
	}
}

// probe publishes what a worker is executing, so that an operation that never
// returns (an endless loop inside the buffer) can be reported with its input.
type probe struct {
	ticks    atomic.Int64
	capacity atomic.Int64
	depth    atomic.Int32
	ops      [12]atomic.Int32
	alphabet atomic.Pointer[[]rop]
	note     atomic.Pointer[string]
	idle     atomic.Bool
}

func (st *c26State) newProbe() *probe {
	p := &probe{}
	p.idle.Store(true)
	st.probeMu.Lock()
	st.probes = append(st.probes, p)
	st.probeMu.Unlock()
	return p
}

// watchdog reports a worker that has been inside one operation for the whole
// control-relative bound and ends the run (the goroutine cannot be stopped).
func (st *c26State) watchdog(finish func()) {
	type seen struct {
		ticks int64
		at    time.Time
	}
	last := map[*probe]seen{}
	for {
		time.Sleep(500 * time.Millisecond)
		st.probeMu.Lock()
		probes := append([]*probe(nil), st.probes...)
		st.probeMu.Unlock()
		for _, p := range probes {
			t := p.ticks.Load()
			if p.idle.Load() {
				delete(last, p)
				continue
			}
			l, ok := last[p]
			if !ok || l.ticks != t {
				last[p] = seen{t, time.Now()}
				continue
			}
			if time.Since(l.at) < hangBound {
				continue
			}
			if !hb.healthy(l.at) {
				last[p] = seen{t, time.Now()}
				st.r.Inconclusive("an operation appeared stuck while the control heartbeat was unhealthy")
				continue
			}
			var names []string
			var ops []rop
			method := "?"
			if a := p.alphabet.Load(); a != nil {
				for d := 0; d < int(p.depth.Load()); d++ {
					o := (*a)[p.ops[d].Load()]
					names = append(names, o.String())
					ops = append(ops, o)
				}
			} else if n := p.note.Load(); n != nil {
				names = append(names, *n)
			}
			if len(ops) > 0 {
				method = methodNames[ops[len(ops)-1].Kind]
			} else if len(names) > 0 {
				method = strings.SplitN(names[len(names)-1], "(", 2)[0]
			}
			st.r.Violation(map[string]string{"rule": "operation-does-not-return", "method": method},
				fmt.Sprintf("capacity %d: the last operation of %v has not returned for %s (control heartbeat healthy, max gap %s)", p.capacity.Load(), names, hangBound, hb.maxGap(l.at)),
				map[string]any{"capacity": p.capacity.Load(), "sequence": names, "ops": ops, "goroutines": goroutineDump()})
			finish()
		}
	}
}

var methodNames = []string{"Write", "WriteByte", "Read", "ReadByte", "Reset", "ReadNFrom", "WriteTo"}

type c26State struct {
	probeMu sync.Mutex
	probes  []*probe
	r       *vk.Run
	nodes   atomic.Int64
	sigMu   sync.Mutex
	sigs    map[string]struct{}
	reports atomic.Int64
}

func (st *c26State) addSig(local map[string]struct{}) {
	st.sigMu.Lock()
	for k := range local {
		if _, ok := st.sigs[k]; !ok {
			st.sigs[k] = struct{}{}
			st.r.Distinct(k)
		}
	}
	st.sigMu.Unlock()
}

func (st *c26State) addKeys(capacity int, alphabet []rop, local map[uint64]struct{}) {
	m := map[string]struct{}{}
	for k := range local {
		m[fmt.Sprintf("%d|%d|%s|%d|%d", capacity, (k>>12)&15, alphabet[k>>16], (k>>8)&15, k&255)] = struct{}{}
	}
	st.addSig(m)
}

func sigKey(op int, res stepResult) uint64 {
	return uint64(op)<<16 | uint64(res.used&15)<<12 | uint64(res.moved&15)<<8 | errCode(res.err)
}

func (st *c26State) violation(capacity int, path []rop, what string) {
	if st.reports.Add(1) > 200 {
		return
	}
	names := make([]string, len(path))
	for i, o := range path {
		names[i] = o.String()
	}
	last := path[len(path)-1]
	method := methodNames[last.Kind]
	st.r.Violation(map[string]string{"rule": "model-disagreement", "method": method},
		fmt.Sprintf("capacity %d, after %v: %s", capacity, names, what),
		map[string]any{"capacity": capacity, "sequence": names, "ops": path})
}

// exhaust explores every sequence over alphabet up to maxLen for one capacity.
// The first two operations are fixed by the task so that tasks run in parallel.
func (st *c26State) exhaust(capacity int, alphabet []rop, maxLen int, useClone bool) {
	type task struct{ a, b int }
	tasks := make(chan task, len(alphabet)*len(alphabet))
	for i := range alphabet {
		for j := range alphabet {
			tasks <- task{i, j}
		}
	}
	close(tasks)
	var wg sync.WaitGroup
	for w := 0; w < runtime.NumCPU(); w++ {
		wg.Add(1)
		go func() {
			defer wg.Done()
			local := map[uint64]struct{}{}
			var count int64
			path := make([]rop, 0, maxLen)
			ar := &arena{}
			pr := st.newProbe()
			pr.capacity.Store(int64(capacity))
			pr.alphabet.Store(&alphabet)
			pr.idle.Store(false)
			defer pr.idle.Store(true)
			// Per-depth copies of the buffer and the model (no allocation per node).
			type level struct {
				b     ring.Buffer
				store []byte
				f     fifo
			}
			levels := make([]level, maxLen+1)
			// replay rebuilds the buffer for a prefix (fallback when cloning is unavailable).
			replay := func(p []rop, lv *level) bytesrc {
				lv.b = *ring.NewBuffer(capacity)
				lv.f = fifo{cap: capacity}
				src := bytesrc{key: 0xc26}
				for _, o := range p {
					step(&lv.b, &lv.f, o, &src, ar)
				}
				return src
			}
			var dfs func(b *ring.Buffer, f *fifo, src bytesrc, depth int)
			dfs = func(b *ring.Buffer, f *fifo, src bytesrc, depth int) {
				lv := &levels[depth+1]
				if st.reports.Load() > 200 {
					return // enough witnesses
				}
				for oi, o := range alphabet {
					ns := src
					if useClone {
						cloneInto(&lv.b, &lv.store, b)
						f.cloneInto(&lv.f)
					} else {
						ns = replay(path, lv)
					}
					path = append(path, o)
					pr.ops[depth].Store(int32(oi))
					pr.depth.Store(int32(depth + 1))
					pr.ticks.Add(1)
					res := step(&lv.b, &lv.f, o, &ns, ar)
					count++
					if res.mismatch == "" && useClone {
						res.mismatch = drainCheck(&lv.b, &lv.f, ar)
					}
					if res.mismatch != "" {
						st.violation(capacity, path, res.mismatch)
					} else {
						local[sigKey(oi, res)] = struct{}{}
						if depth+1 < maxLen {
							dfs(&lv.b, &lv.f, ns, depth+1)
						}
					}
					path = path[:len(path)-1]
				}
			}
			for t := range tasks {
				// Depth 1 and 2 nodes are executed (and checked) by every task that
				// shares them; they are counted once below.
				b := ring.NewBuffer(capacity)
				f := &fifo{cap: capacity}
				src := bytesrc{key: 0xc26}
				path = path[:0]
				path = append(path, alphabet[t.a])
				pr.ops[0].Store(int32(t.a))
				pr.ops[1].Store(int32(t.b))
				pr.depth.Store(1)
				pr.ticks.Add(1)
				r1 := step(b, f, alphabet[t.a], &src, ar)
				if r1.mismatch != "" {
					if t.b == 0 {
						st.violation(capacity, path, r1.mismatch)
					}
					continue
				}
				local[sigKey(t.a, r1)] = struct{}{}
				if maxLen < 2 {
					continue
				}
				path = append(path, alphabet[t.b])
				pr.depth.Store(2)
				pr.ticks.Add(1)
				r2 := step(b, f, alphabet[t.b], &src, ar)
				if r2.mismatch == "" && useClone {
					r2.mismatch = drainCheck(b, f, ar)
				}
				if r2.mismatch != "" {
					st.violation(capacity, path, r2.mismatch)
					continue
				}
				local[sigKey(t.b, r2)] = struct{}{}
				count++
				if t.b == 0 {
					count++
				}
				if maxLen > 2 {
					dfs(b, f, src, 2)
				}
			}
			st.nodes.Add(count)
			st.addKeys(capacity, alphabet, local)
		}()
	}
	wg.Wait()
}

func randomOp(rng *rand.Rand, capacity, used int) rop {
	size := func() int {
		switch rng.Intn(8) {
		case 0:
			return 0
		case 1:
			return 1
		case 2:
			return rng.Intn(16)
		case 3:
			return capacity - used // exactly what fits
		case 4:
			return capacity - used + 1 + rng.Intn(4)
		case 5:
			return used
		case 6:
			return rng.Intn(capacity + 1)
		}
		return rng.Intn(capacity+capacity/4+2) + 0
	}
	switch rng.Intn(16) {
	case 0, 1, 2:
		return rop{Kind: opWrite, N: size()}
	case 3:
		return rop{Kind: opWriteByte}
	case 4, 5, 6:
		return rop{Kind: opRead, N: size()}
	case 7:
		return rop{Kind: opReadByte}
	case 8:
		if rng.Intn(8) == 0 {
			return rop{Kind: opReset}
		}
		return rop{Kind: opRead, N: 1 + rng.Intn(3)}
	case 9, 10, 11, 12:
		o := rop{Kind: opReadNFrom, N: size(), Avail: -1}
		switch rng.Intn(4) {
		case 0:
			o.Avail = o.N
		case 1:
			o.Avail = rng.Intn(o.N + 1)
		case 2:
			o.Avail = capacity - used
		}
		o.Chunk = []int{0, 1, 7, 1000}[rng.Intn(4)]
		if o.Chunk == 1 && o.N > 4096 {
			o.Chunk = 61
		}
		o.Fail = rng.Intn(3) == 0
		o.With = rng.Intn(2) == 0
		return o
	}
	o := rop{Kind: opWriteTo, Budget: -1}
	if rng.Intn(2) == 0 {
		o.WChunk = []int{1, 2, 7, 1000}[rng.Intn(4)]
		if o.WChunk < 7 && used > 8192 {
			o.WChunk = 509
		}
	}
	switch rng.Intn(4) {
	case 0:
		o.Budget = rng.Intn(used + 1)
	case 1:
		o.Budget = 0
	case 2:
		o.Budget = used
	}
	return o
}

func (st *c26State) randomSequence(idx int, rng *rand.Rand, ops int) {
	caps := []int{0, 1, 2, 3, 5, 8, 64, 255, 256, 4096, 65535, 65548, 70000}
	capacity := caps[rng.Intn(len(caps))]
	if rng.Intn(3) == 0 {
		capacity = rng.Intn(70001)
	}
	b := ring.NewBuffer(capacity)
	f := &fifo{cap: capacity}
	src := &bytesrc{key: mix64(uint64(idx) + 0x26)}
	local := map[string]struct{}{}
	trail := make([]rop, 0, 24)
	ar := &arena{}
	pr := st.newProbe()
	pr.capacity.Store(int64(capacity))
	pr.idle.Store(false)
	defer pr.idle.Store(true)
	for i := 0; i < ops; i++ {
		o := randomOp(rng, capacity, f.used())
		if len(trail) == cap(trail) {
			copy(trail, trail[1:])
			trail = trail[:len(trail)-1]
		}
		trail = append(trail, o)
		desc := fmt.Sprintf("%s at fill %d (operation %d of random sequence %d)", o, f.used(), i, idx)
		pr.note.Store(&desc)
		pr.ticks.Add(1)
		res := step(b, f, o, src, ar)
		if res.mismatch == "" && (i%64 == 63 || i == ops-1) {
			res.mismatch = drainCheck(b, f, ar)
		}
		if res.mismatch != "" {
			st.violation(capacity, trail, fmt.Sprintf("random sequence %d, operation %d (the sequence shown is its tail): %s", idx, i, res.mismatch))
			return
		}
		if res.moved > 0 || o.Kind == opReset {
			full := "partly"
			if f.used() == capacity {
				full = "full"
			} else if f.used() == 0 {
				full = "empty"
			}
			capClass := "large"
			if capacity <= 3 {
				capClass = "tiny"
			} else if capacity <= 256 {
				capClass = "small"
			}
			o2 := o
			o2.N, o2.Avail, o2.Budget = 0, 0, 0
			if o2.WChunk > 0 {
				o2.WChunk = 1
			}
			local[fmt.Sprintf("rnd|%s|%s|%s|%v", capClass, full, o2, errName(nil))] = struct{}{}
		}
	}
	st.nodes.Add(int64(ops))
	st.addSig(local)
}

const c26Rule = "every operation sequence over the listed alphabet up to the stated length (6 quick / 7 thorough for capacities 2 and 3, one less for capacities 0 and 1; thorough adds length 8 over a 14-operation core alphabet) (depth-first with a copy of the buffer per branch) plus random 10^4-operation sequences on capacities up to 70000, each step compared with a slice-backed FIFO model (n, err, Used, Free, Size, bytes returned, bytes handed to the writer, bytes taken from the reader, drained copy); evaluations = operations executed at distinct sequence positions; distinct = distinct (capacity, fill before, operation, result) tuples of the exhaustive part and (capacity class, fill state, operation shape) of the random part"

func c26() {
	r := vk.Start("C26", "exploration")
	st := &c26State{r: r, sigs: map[string]struct{}{}}
	go st.watchdog(func() {
		r.Eval(int(st.nodes.Load()) + 1)
		r.Sample(map[string]any{"note": "run ended by the watchdog: an operation did not return"})
		r.Finish(c26Rule, 200)
	})
	mp := st.newProbe()
	selfCheck := "Read(4) [self-check on capacity 3: Write(3), ReadByte, WriteByte, copy, Reset, Write(3), Read(4) of the copy]"
	mp.capacity.Store(3)
	mp.note.Store(&selfCheck)
	mp.idle.Store(false)
	useClone := cloneable()
	mp.idle.Store(true)
	r.Note("buffer_cloning", useClone)
	full, core := fullAlphabet(), coreAlphabet()
	lenFull := r.Pick(6, 7)
	if !useClone {
		lenFull = 5
		r.Note("degraded", "ring.Buffer's layout is not the expected one; prefixes are replayed and the bound is 5")
	}
	for capacity := 0; capacity <= 3; capacity++ {
		// Capacities 0 and 1 have no wrap-around and two fill states at most;
		// one operation less loses nothing there and halves the cost.
		l := lenFull
		if capacity < 2 {
			l--
		}
		fmt.Printf("case exhaustive capacity=%d alphabet=%d length<=%d\n", capacity, len(full), l)
		st.exhaust(capacity, full, l, useClone)
	}
	r.Note("exhaustive_full_alphabet", map[string]any{"operations": len(full), "max_length_capacity_2_3": lenFull, "max_length_capacity_0_1": lenFull - 1})
	if !r.Quick() && useClone {
		for capacity := 2; capacity <= 3; capacity++ {
			fmt.Printf("case exhaustive capacity=%d alphabet=%d length<=8\n", capacity, len(core))
			st.exhaust(capacity, core, 8, true)
		}
		r.Note("exhaustive_core_alphabet", map[string]any{"operations": len(core), "max_length": 8, "capacities": "2..3"})
	}
	r.Count("exhaustive_sequences", st.nodes.Load())
	exh := st.nodes.Load()

	seqs := r.Pick(300, 6000)
	var wg sync.WaitGroup
	next := atomic.Int64{}
	for w := 0; w < runtime.NumCPU(); w++ {
		wg.Add(1)
		go func() {
			defer wg.Done()
			for {
				i := int(next.Add(1)) - 1
				if i >= seqs {
					return
				}
				st.randomSequence(i, r.Rand(fmt.Sprintf("c26-random-%d", i)), 10000)
			}
		}()
	}
	wg.Wait()
	r.Count("random_sequences", int64(seqs))
	r.Count("random_operations", st.nodes.Load()-exh)
	r.Eval(int(st.nodes.Load()))
	names := []string{}
	for _, o := range full {
		names = append(names, o.String())
	}
	r.Note("alphabet", names)
	r.Sample(map[string]any{"capacity": 2, "sequence": []string{"Write(2)", "ReadByte", "ReadNFrom(n=3,reader{avail=-1,chunk=1,EOF after data})", "WriteTo(writer{accepts=1})", "Read(3)"}, "checked": "n, err, Used, Free, Size after every operation and a drained copy"})
	r.Sample(map[string]any{"capacity": 65548, "random": "10000 operations with sizes around 0, 1, what fits, one more than fits, capacity; readers with chunk 1/7/1000, EOF or error with or after the data; writers accepting a prefix"})
	r.Assume("ReadNFrom and WriteTo are exercised with scripted readers/writers that move at least one byte per call while they can; readers report EOF or an error either together with the last data (n > 0 and err != nil on the same call, with the request complete or not) or on the following call; writers accept everything, a prefix and then fail (short write with error, or outright failure), or at most 1/2 (random part: 1/2/7/509/1000) bytes per call with a NIL error, for which the model is: everything is drained in FIFO order")
	r.Finish(c26Rule, 200)
}
