package main

import (
	"errors"
	"io"
	"math/rand"
	"runtime"
	"sync"
)

// halfPipe is one direction of the in-memory carrier: a bounded byte queue.
type halfPipe struct {
	mu      sync.Mutex
	cond    *sync.Cond
	buf     []byte
	head    int
	limit   int  // capacity in bytes (>= 1)
	wclosed bool // writing end closed and the closure is visible to the reader
	wgone   bool // writing end closed (always set on writer close)
	rclosed bool // reading end closed
	rng     *rand.Rand
	chunk   int // largest number of bytes one Read returns
	yield   int // 1 in `yield` calls yields the processor first (0 = never)
}

func newHalfPipe(limit, chunk, yield int, seed int64) *halfPipe {
	h := &halfPipe{limit: limit, chunk: chunk, yield: yield, rng: rand.New(rand.NewSource(seed))}
	h.cond = sync.NewCond(&h.mu)
	return h
}

func (h *halfPipe) used() int { return len(h.buf) - h.head }

// pipeCarrier is one end of the duplex carrier. It implements
// multiplexing.Carrier (Read, ReadByte, Discard, Write, Close). Every byte
// passed to Write is shown to the wire monitor as "sent" when the Write call
// starts, and every byte handed out by Read/ReadByte/Discard is shown to it as
// "delivered" before the call returns.
type pipeCarrier struct {
	side      int // 0 = odd multiplexer, 1 = even multiplexer
	in, out   *halfPipe
	mon       *wireMon
	propagate bool // closing this end is visible to the peer (EOF / closed pipe)
	closeFail bool // the first Close shuts the transport down AND returns an error
	closeOnce sync.Once
}

// newCarrierPair builds the two ends. chunk: maximum bytes per Read; limit:
// queue capacity per direction; yield: scheduling noise.
func newCarrierPair(mon *wireMon, limit, chunk, yield int, propagate bool, seed int64) (*pipeCarrier, *pipeCarrier) {
	ab := newHalfPipe(limit, chunk, yield, seed*2+1)
	ba := newHalfPipe(limit, chunk, yield, seed*2+2)
	a := &pipeCarrier{side: 0, in: ba, out: ab, mon: mon, propagate: propagate}
	b := &pipeCarrier{side: 1, in: ab, out: ba, mon: mon, propagate: propagate}
	return a, b
}

func (c *pipeCarrier) noise(h *halfPipe) {
	if h.yield > 0 {
		h.mu.Lock()
		y := h.rng.Intn(h.yield) == 0
		h.mu.Unlock()
		if y {
			runtime.Gosched()
		}
	}
}

// take removes up to max bytes (at least one unless closed) into dst (which may
// be nil for Discard) and reports them to the monitor.
func (c *pipeCarrier) take(dst []byte, max int, exact bool) (int, error) {
	h := c.in
	h.mu.Lock()
	for h.used() == 0 && !h.wclosed && !h.rclosed {
		h.cond.Wait()
	}
	if h.rclosed {
		h.mu.Unlock()
		return 0, io.ErrClosedPipe
	}
	if h.used() == 0 {
		h.mu.Unlock()
		return 0, io.EOF
	}
	n := h.used()
	if n > max {
		n = max
	}
	if !exact && h.chunk > 0 {
		// Random fragmentation: mostly small pieces, sometimes everything there is.
		k := h.chunk
		switch h.rng.Intn(4) {
		case 0:
			k = 1
		case 1:
			k = 1 + h.rng.Intn(h.chunk)
		case 2:
			k = 1 + h.rng.Intn(minInt(h.chunk, 16))
		}
		if n > k {
			n = k
		}
	}
	seg := h.buf[h.head : h.head+n]
	if dst != nil {
		copy(dst, seg)
	}
	c.mon.delivered(1-c.side, seg)
	h.head += n
	if h.head == len(h.buf) {
		h.buf = h.buf[:0]
		h.head = 0
	} else if h.head > 1<<16 && h.head > len(h.buf)/2 {
		h.buf = append(h.buf[:0], h.buf[h.head:]...)
		h.head = 0
	}
	h.cond.Broadcast()
	h.mu.Unlock()
	return n, nil
}

// Read implements io.Reader with random fragmentation.
func (c *pipeCarrier) Read(p []byte) (int, error) {
	if len(p) == 0 {
		return 0, nil
	}
	c.noise(c.in)
	return c.take(p, len(p), false)
}

// ReadByte implements io.ByteReader.
func (c *pipeCarrier) ReadByte() (byte, error) {
	var b [1]byte
	n, err := c.take(b[:], 1, true)
	if n == 1 {
		return b[0], nil
	}
	return 0, err
}

// Discard drops the next n bytes; the error is non-nil iff fewer were dropped.
func (c *pipeCarrier) Discard(n int) (int, error) {
	done := 0
	for done < n {
		k, err := c.take(nil, n-done, false)
		done += k
		if err != nil {
			return done, err
		}
	}
	return done, nil
}

// Write implements io.Writer; it blocks while the queue is full.
func (c *pipeCarrier) Write(p []byte) (int, error) {
	c.noise(c.out)
	c.mon.sent(c.side, p)
	h := c.out
	h.mu.Lock()
	defer h.mu.Unlock()
	done := 0
	for done < len(p) {
		for h.used() >= h.limit && !h.wgone && !h.rclosed {
			h.cond.Wait()
		}
		if h.wgone {
			return done, io.ErrClosedPipe
		}
		if h.rclosed {
			if c.propagate {
				return done, io.ErrClosedPipe
			}
			// The peer is gone but must not be noticed: swallow the bytes.
			return len(p), nil
		}
		k := h.limit - h.used()
		if k > len(p)-done {
			k = len(p) - done
		}
		h.buf = append(h.buf, p[done:done+k]...)
		done += k
		h.cond.Broadcast()
	}
	return done, nil
}

// Close unblocks every pending operation of this end. With propagate the peer
// sees EOF after draining and failing writes; without it the peer simply
// never hears from this end again.
func (c *pipeCarrier) Close() error {
	var err error
	c.closeOnce.Do(func() {
		if c.closeFail {
			// Like a process- or SSH-backed transport whose wait/exit status is
			// reported by Close although the transport is gone afterwards.
			err = errCarrierClose
		}
		c.in.mu.Lock()
		c.in.rclosed = true
		c.in.cond.Broadcast()
		c.in.mu.Unlock()
		c.out.mu.Lock()
		c.out.wgone = true
		if c.propagate {
			c.out.wclosed = true
		}
		c.out.cond.Broadcast()
		c.out.mu.Unlock()
	})
	return err
}

var errCarrierClose = errors.New("carrier: transport process exited with status 1")
