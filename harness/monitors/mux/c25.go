package main

import (
	"context"
	"fmt"
	"math/rand"
	"os"
	"sync"
	"sync/atomic"
	"time"

	"github.com/mutagen-io/mutagen/pkg/multiplexing"

	"verif/internal/vk"
)

// C25, bounded-progress restatement: every blocked call returns within the
// control-relative bound AFTER its enabling event has been recorded; a stalled
// stream does not stop another stream; opens beyond the backlog are rejected.

// watched is one call of the code under test running in its own goroutine.
type watched struct {
	name   string
	issued time.Time
	done   chan struct{}
	n      int
	err    error
	ret    time.Time
}

func watch(name string, f func() (int, error)) *watched {
	w := &watched{name: name, issued: time.Now(), done: make(chan struct{})}
	go func() {
		w.n, w.err = f()
		w.ret = time.Now()
		close(w.done)
	}()
	return w
}

func (w *watched) returned() bool { return isClosedChan(w.done) }

type scen struct {
	r    *vk.Run
	name string
	cfg  sessCfg
	s    *session
	rng  *rand.Rand
	log  []string
	mu   sync.Mutex
}

func (sc *scen) logf(format string, a ...any) {
	sc.mu.Lock()
	if len(sc.log) < 200 {
		sc.log = append(sc.log, fmt.Sprintf(format, a...))
	}
	sc.mu.Unlock()
}

func (sc *scen) witness(extra map[string]any) map[string]any {
	sc.mu.Lock()
	lg := append([]string(nil), sc.log...)
	sc.mu.Unlock()
	w := map[string]any{"scenario": sc.name, "config": sc.cfg, "journal": lg, "wire": sc.s.mon.summary(true)}
	for k, v := range extra {
		w[k] = v
	}
	return w
}

// expect demands that w returns within the bound after the enabling event
// (recorded at enabledAt). blocked tells whether the call was still
// outstanding when the enabling event was produced (non-trivial case).
func (sc *scen) expect(w *watched, enabling string, enabledAt time.Time, blocked bool) bool {
	sc.r.Eval(1)
	timer := time.NewTimer(time.Until(enabledAt.Add(hangBound)))
	defer timer.Stop()
	select {
	case <-w.done:
		sc.logf("%s returned (%d, %s) %s after enabling event %q", w.name, w.n, errClass(w.err), w.ret.Sub(enabledAt), enabling)
		if blocked {
			sc.r.Count("blocked_calls_released", 1)
			sc.r.Distinct(fmt.Sprintf("%s|%s|%s|%s|win=%d|wbc=%d", sc.name, w.name, enabling, errClass(w.err), sc.cfg.Window, sc.cfg.WBC))
		} else {
			sc.r.Count("returned_before_enabling_event", 1)
		}
		return true
	case <-timer.C:
	}
	if !hb.healthy(enabledAt) {
		sc.r.Inconclusive("call outstanding past the bound while the control heartbeat was unhealthy")
		sc.logf("%s outstanding, heartbeat unhealthy (max gap %s)", w.name, hb.maxGap(enabledAt))
		return false
	}
	sc.r.Violation(map[string]string{"rule": "hang", "call": w.name, "enabling": enabling},
		fmt.Sprintf("%s (%s): %s issued %s ago has not returned %s after its enabling event (%s); control heartbeat healthy (max gap %s)",
			sc.name, sc.cfg, w.name, time.Since(w.issued).Round(time.Millisecond), hangBound, enabling, hb.maxGap(enabledAt)),
		sc.witness(map[string]any{"goroutines": goroutineDump()}))
	return false
}

// mustReturn runs a call that has no enabling condition other than being
// issued (Close, CloseWrite, Set*Deadline, multiplexer Close).
func (sc *scen) mustReturn(name string, f func() error) bool {
	w := watch(name, func() (int, error) { return 0, f() })
	return sc.expect(w, "issued", w.issued, true)
}

func (sc *scen) connect(from int) (a, b *multiplexing.Stream, ok bool) {
	type res struct {
		st  *multiplexing.Stream
		err error
	}
	ch := make(chan res, 1)
	go func() {
		ctx, cancel := ctxT(2 * hangBound)
		defer cancel()
		st, err := sc.s.mux[1-from].AcceptStream(ctx)
		ch <- res{st, err}
	}()
	ctx, cancel := ctxT(2 * hangBound)
	defer cancel()
	a, err := sc.s.mux[from].OpenStream(ctx)
	rb := <-ch
	if err != nil || rb.err != nil {
		sc.logf("setup: open/accept failed: %v / %v", err, rb.err)
		sc.r.Inconclusive("scenario setup failed (open/accept)")
		return nil, nil, false
	}
	return a, rb.st, true
}

// blockWriter starts a Write that exceeds the peer's window on a stream whose
// peer never reads, and waits until the window is used up.
func (sc *scen) blockWriter(st *multiplexing.Stream, side int, pre func()) *watched {
	id := streamID(st)
	size := sc.cfg.Window + 1 + sc.rng.Intn(5000)
	if pre != nil {
		pre()
	}
	w := watch("Write", func() (int, error) { return st.Write(make([]byte, size)) })
	sc.s.mon.await(2*time.Second, func(m *wireMon) bool {
		ws := m.streams[id]
		return ws != nil && ws.side[side].dataSent >= uint64(sc.cfg.Window)
	})
	time.Sleep(time.Duration(1+sc.rng.Intn(3)) * time.Millisecond)
	sc.logf("Write(%d) on stream %d issued; window of %d used up; returned already: %v", size, id, sc.cfg.Window, w.returned())
	return w
}

func (sc *scen) blockReader(st *multiplexing.Stream, pre func()) *watched {
	if pre != nil {
		pre()
	}
	size := 1 + sc.rng.Intn(4096)
	w := watch("Read", func() (int, error) { return st.Read(make([]byte, size)) })
	time.Sleep(time.Duration(2+sc.rng.Intn(4)) * time.Millisecond)
	sc.logf("Read on stream %d issued; returned already: %v", streamID(st), w.returned())
	return w
}

// release produces the enabling event `how` for a call blocked on stream st
// (local side `side`, peer stream pst) and judges the call.
func (sc *scen) release(w *watched, how string, st, pst *multiplexing.Stream, side int, read bool) {
	id := streamID(st)
	switch how {
	case "deadline-preset":
		// The deadline was set before the call; nothing to do but wait for it.
		// (handled by the caller through `pre`; enabling instant passed in w.name's journal)
	case "deadline-by-other-goroutine", "past-deadline-by-other-goroutine":
		d := time.Now().Add(time.Duration(5+sc.rng.Intn(20)) * time.Millisecond)
		if how == "past-deadline-by-other-goroutine" {
			d = time.Now().Add(-time.Minute)
		}
		blocked := !w.returned()
		ok := sc.mustReturn("Set"+map[bool]string{true: "Read", false: "Write"}[read]+"Deadline", func() error {
			if read {
				return st.SetReadDeadline(d)
			}
			return st.SetWriteDeadline(d)
		})
		if !ok {
			return
		}
		at := time.Now()
		if d.After(at) {
			time.Sleep(time.Until(d))
			at = d
		}
		sc.logf("deadline instant %s passed", how)
		sc.expect(w, how, at, blocked)
	case "local-close", "local-close-write":
		blocked := !w.returned()
		name := "Close"
		f := st.Close
		if how == "local-close-write" {
			name, f = "CloseWrite", st.CloseWrite
		}
		if !sc.mustReturn(name, f) {
			return
		}
		sc.logf("%s returned", name)
		sc.expect(w, how, time.Now(), blocked)
	case "mux-close":
		blocked := !w.returned()
		if !sc.mustReturn("Multiplexer.Close", sc.s.mux[side].Close) {
			return
		}
		sc.logf("local Multiplexer.Close returned")
		sc.expect(w, how, time.Now(), blocked)
	case "peer-close", "peer-close-write":
		blocked := !w.returned()
		name := "peer Close"
		f := pst.Close
		if how == "peer-close-write" {
			name, f = "peer CloseWrite", pst.CloseWrite
		}
		if !sc.mustReturn(name, f) {
			return
		}
		seen, at := sc.s.mon.await(hangBound, func(m *wireMon) bool {
			ws := m.streams[id]
			if ws == nil {
				return false
			}
			if how == "peer-close" {
				return ws.side[side].closeSeen
			}
			return ws.side[side].closeWSeen
		})
		if !seen {
			sc.r.Inconclusive("the peer's close message was not seen on the wire within the bound")
			sc.logf("%s returned but its message never reached side %d", name, side)
			return
		}
		sc.logf("sniffer: %s message delivered to side %d", name, side)
		sc.expect(w, how, at, blocked)
	case "peer-mux-close":
		blocked := !w.returned()
		if !sc.mustReturn("peer Multiplexer.Close", sc.s.mux[1-side].Close) {
			return
		}
		select {
		case <-sc.s.mux[side].Closed():
		case <-time.After(hangBound):
			sc.r.Count("local_multiplexer_did_not_notice_carrier_closure", 1)
			sc.logf("local multiplexer still open %s after the carrier was closed by the peer", hangBound)
			return
		}
		sc.logf("local multiplexer closed after carrier closure")
		sc.expect(w, how, time.Now(), blocked)
	}
}

var writerReleases = []string{"deadline-preset", "deadline-by-other-goroutine", "past-deadline-by-other-goroutine", "local-close", "local-close-write", "mux-close", "peer-close", "peer-mux-close"}
var readerReleases = []string{"deadline-preset", "deadline-by-other-goroutine", "past-deadline-by-other-goroutine", "local-close", "mux-close", "peer-close", "peer-close-write", "peer-mux-close"}

func (sc *scen) blockedCall(read bool, how string) {
	from := sc.rng.Intn(2)
	a, b, ok := sc.connect(from)
	if !ok {
		return
	}
	st, pst, side := a, b, from
	if sc.rng.Intn(2) == 0 {
		st, pst, side = b, a, 1-from
	}
	var d time.Time
	pre := func() {}
	if how == "deadline-preset" {
		pre = func() {
			d = time.Now().Add(time.Duration(10+sc.rng.Intn(30)) * time.Millisecond)
			if read {
				st.SetReadDeadline(d)
			} else {
				st.SetWriteDeadline(d)
			}
		}
	}
	var w *watched
	if read {
		w = sc.blockReader(st, pre)
	} else {
		w = sc.blockWriter(st, side, pre)
	}
	if how == "deadline-preset" {
		blocked := !w.returned()
		time.Sleep(time.Until(d))
		sc.logf("preset deadline instant passed")
		sc.expect(w, how, d, blocked)
		return
	}
	sc.release(w, how, st, pst, side, read)
}

// followers: a deadline fires while a call is blocked; a second call queued
// behind it and a third one issued afterwards (the deadline is NOT re-armed)
// must come back as well, because the expired deadline is still in force.
func (sc *scen) followers(read bool, how string, queued bool) {
	from := sc.rng.Intn(2)
	a, b, ok := sc.connect(from)
	if !ok {
		return
	}
	st, side := a, from
	if sc.rng.Intn(2) == 0 {
		st, side = b, 1-from
	}
	setDeadline := func(d time.Time) error {
		if read {
			return st.SetReadDeadline(d)
		}
		return st.SetWriteDeadline(d)
	}
	call := func(name string) *watched {
		size := 1 + sc.rng.Intn(2000)
		if read {
			return watch(name, func() (int, error) { return st.Read(make([]byte, size)) })
		}
		return watch(name, func() (int, error) { return st.Write(make([]byte, size)) })
	}
	verb := map[bool]string{true: "Read", false: "Write"}[read]
	var d time.Time
	var first *watched
	if how == "deadline-preset" {
		pre := func() {
			d = time.Now().Add(time.Duration(15+sc.rng.Intn(30)) * time.Millisecond)
			setDeadline(d)
		}
		if read {
			first = sc.blockReader(st, pre)
		} else {
			first = sc.blockWriter(st, side, pre)
		}
	} else {
		if read {
			first = sc.blockReader(st, nil)
		} else {
			first = sc.blockWriter(st, side, nil)
		}
	}
	var second *watched
	if queued {
		second = call(verb)
		time.Sleep(time.Duration(1+sc.rng.Intn(3)) * time.Millisecond)
		sc.logf("second %s queued behind the first; returned already: first %v, second %v", verb, first.returned(), second.returned())
	}
	if how != "deadline-preset" {
		d = time.Now().Add(time.Duration(5+sc.rng.Intn(20)) * time.Millisecond)
		if !sc.mustReturn("Set"+verb+"Deadline", func() error { return setDeadline(d) }) {
			return
		}
	}
	b1 := !first.returned()
	b2 := queued && !second.returned()
	time.Sleep(time.Until(d))
	sc.logf("deadline instant passed (%s)", how)
	// Whichever of the two holds the stream sees the timer fire; the other one
	// gets its turn afterwards. Both are enabled by the deadline instant.
	if !sc.expect(first, "deadline-passed", d, b1) {
		return
	}
	if queued && !sc.expect(second, "deadline-passed-while-queued", d, b2) {
		return
	}
	// A further call, issued after the deadline expired and without re-arming it.
	third := call(verb)
	sc.logf("third %s issued after the deadline expired, deadline not re-armed", verb)
	if sc.expect(third, "issued-after-deadline-expired", third.issued, true) {
		if cls := errClass(third.err); cls == "deadline" {
			sc.r.Count("calls_after_expiry_failed_with_deadline_error", 1)
		} else {
			sc.logf("third call returned %s", cls)
		}
	}
}

// closeEverything: one multiplexer with a blocked Read, a blocked Write, a
// pending OpenStream and a blocked AcceptStream is closed; every call must
// return and Closed() must fire, also when the carrier's Close reports an error.
func (sc *scen) closeEverything() {
	x := sc.rng.Intn(2)
	m := sc.s.mux[x]
	ra, rb, ok := sc.connect(x)
	if !ok {
		return
	}
	wa, wb, ok := sc.connect(1 - x)
	if !ok {
		return
	}
	_, _ = rb, wa
	rd := sc.blockReader(ra, nil)
	wr := sc.blockWriter(wb, x, nil)
	ctx, cancel := context.WithCancel(context.Background())
	defer cancel()
	op := watch("OpenStream", func() (int, error) {
		st, err := m.OpenStream(ctx)
		if st != nil {
			st.Close()
		}
		return 0, err
	})
	ac := watch("AcceptStream", func() (int, error) {
		st, err := m.AcceptStream(ctx)
		if st != nil {
			st.Close()
		}
		return 0, err
	})
	closed := watch("Closed()", func() (int, error) { <-m.Closed(); return 0, nil })
	sc.s.mon.await(2*time.Second, func(w *wireMon) bool { return w.counts[phDelivered][x][kOpen] >= 2 })
	time.Sleep(time.Duration(2+sc.rng.Intn(3)) * time.Millisecond)
	blocked := map[*watched]bool{}
	for _, w := range []*watched{rd, wr, op, ac, closed} {
		blocked[w] = !w.returned()
	}
	var closeErr error
	if !sc.mustReturn("Multiplexer.Close", func() error { closeErr = m.Close(); return nil }) {
		return
	}
	at := time.Now()
	sc.logf("Multiplexer.Close returned %q (carrier Close fails: %v)", errText(closeErr), sc.cfg.CloseFail)
	how := "mux-close"
	if sc.cfg.CloseFail {
		how = "mux-close-with-failing-carrier-close"
	}
	for _, w := range []*watched{closed, rd, wr, op, ac} {
		if !sc.expect(w, how, at, blocked[w]) {
			return // one witness is enough
		}
	}
}

// backlog: opens against a peer that never accepts.
func (sc *scen) backlog() {
	b := sc.cfg.Backlog
	extra := 1 + sc.rng.Intn(3)
	opener := sc.rng.Intn(2)
	m := sc.s.mux[opener]
	type pending struct {
		w      *watched
		cancel context.CancelFunc
	}
	var calls []pending
	for i := 0; i < b+extra; i++ {
		ctx, cancel := context.WithCancel(context.Background())
		w := watch("OpenStream", func() (int, error) {
			st, err := m.OpenStream(ctx)
			if st != nil {
				st.Close()
			}
			return 0, err
		})
		calls = append(calls, pending{w, cancel})
		// Start the next open only when this one's message reached the peer, so
		// that "the first b" is well defined.
		n := int64(i + 1)
		ok, _ := sc.s.mon.await(hangBound, func(m *wireMon) bool { return m.counts[phDelivered][opener][kOpen] >= n })
		if !ok {
			sc.r.Inconclusive("an open message did not reach the peer within the bound")
			for _, c := range calls {
				c.cancel()
			}
			return
		}
	}
	enabled := time.Now()
	sc.logf("%d open messages delivered to a peer with backlog %d that never accepts", b+extra, b)
	// Opens b+1.. must be rejected.
	for i := b; i < b+extra; i++ {
		w := calls[i].w
		sc.r.Eval(1)
		select {
		case <-w.done:
		case <-time.After(time.Until(enabled.Add(hangBound))):
			if !hb.healthy(enabled) {
				sc.r.Inconclusive("open beyond the backlog outstanding while the control heartbeat was unhealthy")
				continue
			}
			sc.r.Violation(map[string]string{"rule": "open-beyond-backlog-left-pending"},
				fmt.Sprintf("%s (%s): open number %d against a peer with accept backlog %d that never accepts is still pending %s after its open message was delivered (heartbeat max gap %s)", sc.name, sc.cfg, i+1, b, hangBound, hb.maxGap(enabled)),
				sc.witness(map[string]any{"goroutines": goroutineDump()}))
			continue
		}
		cls := errClass(w.err)
		sc.logf("%s returned %s", w.name, cls)
		if cls != "rejected" {
			sc.r.Violation(map[string]string{"rule": "open-beyond-backlog-not-rejected", "result": cls},
				fmt.Sprintf("%s (%s): open number %d against a peer with accept backlog %d that never accepts returned %q instead of a rejection", sc.name, sc.cfg, i+1, b, cls), sc.witness(nil))
			continue
		}
		sc.r.Count("opens_rejected_beyond_backlog", 1)
		sc.r.Distinct(fmt.Sprintf("backlog|rejected|b=%d|n=%d|wbc=%d", b, i+1, sc.cfg.WBC))
	}
	// Opens 1..b: pending until their context is cancelled (or, for the last
	// one, until the multiplexer is closed).
	for i := 0; i < b; i++ {
		w := calls[i].w
		if w.returned() {
			sc.r.Count("open_within_backlog_not_pending", 1)
			sc.logf("%s (within the backlog) returned %s before being cancelled", w.name, errClass(w.err))
			continue
		}
		if i == b-1 && sc.rng.Intn(2) == 0 {
			if sc.mustReturn("Multiplexer.Close", m.Close) {
				sc.expect(w, "mux-close", time.Now(), true)
			}
			continue
		}
		calls[i].cancel()
		if !sc.expect(w, "context-cancelled", time.Now(), true) {
			break // one witness is enough; every further one would cost another bound
		}
	}
	for _, c := range calls {
		c.cancel()
	}
}

func (sc *scen) accept(how string) {
	side := sc.rng.Intn(2)
	m := sc.s.mux[side]
	ctx, cancel := context.WithCancel(context.Background())
	defer cancel()
	if how == "context-precancelled" {
		cancel()
	}
	w := watch("AcceptStream", func() (int, error) {
		st, err := m.AcceptStream(ctx)
		if st != nil {
			st.Close()
		}
		return 0, err
	})
	switch how {
	case "context-precancelled":
		sc.expect(w, how, w.issued, true)
	case "context-cancelled":
		time.Sleep(time.Duration(2+sc.rng.Intn(4)) * time.Millisecond)
		blocked := !w.returned()
		cancel()
		sc.expect(w, how, time.Now(), blocked)
	case "mux-close":
		time.Sleep(time.Duration(2+sc.rng.Intn(4)) * time.Millisecond)
		blocked := !w.returned()
		if sc.mustReturn("Multiplexer.Close", m.Close) {
			sc.expect(w, how, time.Now(), blocked)
		}
	case "peer-mux-close":
		time.Sleep(time.Duration(2+sc.rng.Intn(4)) * time.Millisecond)
		blocked := !w.returned()
		if !sc.mustReturn("peer Multiplexer.Close", sc.s.mux[1-side].Close) {
			return
		}
		select {
		case <-m.Closed():
			sc.expect(w, how, time.Now(), blocked)
		case <-time.After(hangBound):
			sc.r.Count("local_multiplexer_did_not_notice_carrier_closure", 1)
		}
	}
}

// headOfLine: streams whose readers never read must not stop another stream.
func (sc *scen) headOfLine(volume int64) {
	from := sc.rng.Intn(2)
	var stalled []*watched
	var stalledStreams []*multiplexing.Stream
	nStalled := 1 + sc.rng.Intn(3)
	// Establish every stream first, so that the setup itself cannot be what a
	// stalled stream blocks.
	type est struct {
		st   *multiplexing.Stream
		side int
	}
	var ests []est
	for i := 0; i < nStalled; i++ {
		a, b, ok := sc.connect(from)
		if !ok {
			return
		}
		// Alternate the stalled direction, starting with the bulk direction.
		if i%2 == 1 {
			ests = append(ests, est{b, 1 - from})
		} else {
			ests = append(ests, est{a, from})
		}
	}
	a, b, ok := sc.connect(from)
	if !ok {
		return
	}
	for _, e := range ests {
		stalled = append(stalled, sc.blockWriter(e.st, e.side, nil))
		stalledStreams = append(stalledStreams, e.st)
	}
	for _, w := range stalled {
		if w.returned() {
			sc.logf("a stalled writer returned early: (%d, %s)", w.n, errClass(w.err))
		}
	}
	key := patKey(sc.r.Seed, 25, streamID(a), from)
	var moved atomic.Int64
	var wErr, rErr atomic.Value
	start := time.Now()
	done := make(chan struct{})
	go func() {
		buf := make([]byte, 64<<10)
		var off int64
		for off < volume {
			n := int64(len(buf))
			if volume-off < n {
				n = volume - off
			}
			patFill(key, off, buf[:n])
			k, err := a.Write(buf[:n])
			off += int64(k)
			if err != nil {
				wErr.Store(errClass(err))
				return
			}
		}
		a.CloseWrite()
	}()
	corrupt := int64(-1)
	go func() {
		defer close(done)
		buf := make([]byte, 32<<10)
		var off int64
		for {
			n, err := b.Read(buf)
			if n > 0 {
				if bad := patCheck(key, off, buf[:n]); bad >= 0 && corrupt < 0 {
					corrupt = off + int64(bad)
				}
				off += int64(n)
				moved.Store(off)
			}
			if err != nil {
				rErr.Store(errClass(err))
				return
			}
		}
	}()
	sc.r.Eval(1)
	last, lastAt := int64(-1), time.Now()
	tick := time.NewTicker(20 * time.Millisecond)
	defer tick.Stop()
	finished := false
	for !finished {
		select {
		case <-done:
			finished = true
		case <-tick.C:
			ws, wd := sc.s.mon.idleSnapshot()
			if m := moved.Load() + ws + wd; m != last {
				last, lastAt = m, time.Now()
				continue
			}
			if time.Since(lastAt) < hangBound {
				continue
			}
			if !hb.healthy(lastAt) {
				sc.r.Inconclusive("bulk stream made no progress while the control heartbeat was unhealthy")
				return
			}
			sc.r.Violation(map[string]string{"rule": "head-of-line-blocking"},
				fmt.Sprintf("%s (%s): with %d stream(s) whose reader never reads, another stream moved %d of %d bytes and then nothing (no byte read, no message or payload byte on the wire) for %s (heartbeat max gap %s)", sc.name, sc.cfg, nStalled, moved.Load(), volume, hangBound, hb.maxGap(lastAt)),
				sc.witness(map[string]any{"goroutines": goroutineDump(), "stalled_streams": nStalled, "moved": moved.Load(), "volume": volume}))
			return
		}
	}
	got := moved.Load()
	re, _ := rErr.Load().(string)
	we, _ := wErr.Load().(string)
	sc.logf("bulk stream: %d of %d bytes in %s (reader ended with %s, writer error %q)", got, volume, time.Since(start), re, we)
	if got != volume || re != "eof" || corrupt >= 0 {
		sc.r.Violation(map[string]string{"rule": "bulk-stream-incomplete"},
			fmt.Sprintf("%s (%s): the bulk stream delivered %d of %d bytes (reader ended with %q, writer error %q, first wrong byte at %d) while %d other stream(s) were stalled", sc.name, sc.cfg, got, volume, re, we, corrupt, nStalled), sc.witness(nil))
		return
	}
	stillStalled := 0
	for _, w := range stalled {
		if !w.returned() {
			stillStalled++
		}
	}
	sc.r.Count("bulk_bytes_moved_past_stalled_streams", got)
	if stillStalled > 0 {
		sc.r.Distinct(fmt.Sprintf("hol|win=%d|wbc=%d|stalled=%d|chunk=%d", sc.cfg.Window, sc.cfg.WBC, nStalled, sc.cfg.Chunk))
	}
	// Finally the stalled writers are released by closing their streams.
	for i, w := range stalled {
		blocked := !w.returned()
		if sc.mustReturn("Close", stalledStreams[i].Close) {
			sc.expect(w, "local-close", time.Now(), blocked)
		}
	}
}

type c25Case struct {
	kind   string
	how    string
	read   bool
	queued bool
	cfg    sessCfg
	volume int64
}

func (c c25Case) label() string {
	switch c.kind {
	case "blocked":
		if c.read {
			return "blocked-read/" + c.how
		}
		return "blocked-write/" + c.how
	case "accept":
		return "blocked-accept/" + c.how
	case "followers":
		q := map[bool]string{true: "+queued", false: ""}[c.queued]
		if c.read {
			return "reads-after-fired-deadline/" + c.how + q
		}
		return "writes-after-fired-deadline/" + c.how + q
	}
	return c.kind
}

func c25() {
	r := vk.Start("C25", "exploration")
	rng := r.Rand("c25")
	reps := r.Pick(3, 40)
	var cases []c25Case
	cfgFor := func(win int) sessCfg {
		c := randomCfg(rng)
		if win > 0 {
			c.Window = win
		}
		c.CloseFail = rng.Intn(3) == 0
		return c
	}
	for rep := 0; rep < reps; rep++ {
		for _, how := range writerReleases {
			cases = append(cases, c25Case{kind: "blocked", how: how, cfg: cfgFor(0)})
		}
		for _, how := range readerReleases {
			cases = append(cases, c25Case{kind: "blocked", how: how, read: true, cfg: cfgFor(0)})
		}
		for _, how := range []string{"context-precancelled", "context-cancelled", "mux-close", "peer-mux-close"} {
			cases = append(cases, c25Case{kind: "accept", how: how, cfg: cfgFor(0)})
		}
		for _, b := range backlogChoices {
			c := cfgFor(0)
			c.Backlog = b
			cases = append(cases, c25Case{kind: "backlog", cfg: c})
		}
		for _, how := range []string{"deadline-preset", "deadline-by-other-goroutine"} {
			for _, queued := range []bool{true, false} {
				cases = append(cases, c25Case{kind: "followers", how: how, queued: queued, cfg: cfgFor(0)})
				cases = append(cases, c25Case{kind: "followers", how: how, queued: queued, read: true, cfg: cfgFor(0)})
			}
		}
		for _, fail := range []bool{true, false, true} {
			c := cfgFor(0)
			c.CloseFail = fail
			if c.Backlog < 2 {
				c.Backlog = 2
			}
			cases = append(cases, c25Case{kind: "close-everything", cfg: c})
		}
	}
	// Head-of-line: the full 8 MiB at the default window, scaled volumes below.
	holWindows := []int{65535, 1024, 64, 7, 1, 65535}
	if !r.Quick() {
		for i := 0; i < 6; i++ {
			holWindows = append(holWindows, 65535, 1024, 64, 7, 1)
		}
	}
	for i, win := range holWindows {
		c := cfgFor(win)
		c.WBC = wbcChoices[i%len(wbcChoices)]
		vol := int64(win) * 2048
		if !r.Quick() && win >= 1024 {
			vol = 8 << 20
		}
		if vol > 8<<20 {
			vol = 8 << 20
		}
		if c.Chunk < 17 && vol > 1<<20 {
			c.Chunk = 512 // a one-byte-per-read carrier makes megabytes take minutes under -race
		}
		if c.PipeCap < 64 && vol > 1<<20 {
			c.PipeCap = 4096
		}
		cases = append(cases, c25Case{kind: "head-of-line", cfg: c, volume: vol})
	}
	only := os.Getenv("VERIF_MUX_ONLY")

	procsChoices := []int{2, 4, 16, 8}
	perRound := 12
	idx := 0
	for base := 0; base < len(cases); base += perRound {
		procs := setProcs(procsChoices[(base/perRound)%len(procsChoices)])
		var wg sync.WaitGroup
		for k := 0; k < perRound && base+k < len(cases); k++ {
			cs := cases[base+k]
			if only != "" && only != cs.kind && only != cs.label() {
				continue
			}
			cs.cfg.Procs = procs
			idx++
			seed := rng.Int63()
			fmt.Printf("case %d %s %s volume=%d\n", base+k, cs.label(), cs.cfg, cs.volume)
			wg.Add(1)
			go func(n int) {
				defer wg.Done()
				sc := &scen{r: r, name: cs.label(), cfg: cs.cfg, rng: rand.New(rand.NewSource(seed))}
				sc.s = newSession(cs.cfg, seed)
				t0 := time.Now()
				switch cs.kind {
				case "blocked":
					sc.blockedCall(cs.read, cs.how)
				case "accept":
					sc.accept(cs.how)
				case "backlog":
					sc.backlog()
				case "followers":
					sc.followers(cs.read, cs.how, cs.queued)
				case "close-everything":
					sc.closeEverything()
				case "head-of-line":
					sc.headOfLine(cs.volume)
				}
				sc.s.shutdown()
				r.Count("scenarios", 1)
				fmt.Printf("done %d %s wall=%.2fs\n", n, cs.label(), time.Since(t0).Seconds())
				if n%9 == 0 {
					sc.mu.Lock()
					r.Sample(map[string]any{"scenario": sc.name, "config": cs.cfg, "journal": append([]string(nil), sc.log...)})
					sc.mu.Unlock()
				}
			}(base + k)
		}
		wg.Wait()
		if r.Violations() > 25 {
			r.Note("stopped_early", "more than 25 violations; remaining scenarios skipped")
			break
		}
	}
	setProcs(16)
	r.Assume("bounded-progress restatement of 'never hang': a call must return within 10 s (>= 100x its nominal latency) after its enabling event was recorded; outstanding calls count as violations only if the control heartbeat had no gap of 1 s or more since the enabling event")
	r.Assume("enabling events are recorded on one monotonic clock: deadline instant passed, local Close/CloseWrite/Multiplexer.Close returned, the peer's close or close-write message delivered according to the wire sniffer, local multiplexer observed closed after the peer closed the carrier, context cancelled")
	r.Finish("scenarios on two real multiplexers over the harness carrier: a Write blocked on an exhausted window / a Read blocked on an empty stream released by a preset deadline, a deadline set by another goroutine (future or past), local Close or CloseWrite by a third goroutine, local Multiplexer.Close, the peer's Close or CloseWrite (as seen by the sniffer), closure of the carrier by the peer; AcceptStream released by context cancellation or closure; a second call queued behind a call whose deadline fires and a third call issued afterwards without re-arming the deadline (reads and writes); Multiplexer.Close with a blocked Read, Write, OpenStream and AcceptStream outstanding, Closed() included, on carriers whose Close succeeds or returns an error while shutting down (a third of all scenarios use such a carrier); OpenStream against a peer that never accepts (first b pending until cancelled, the rest rejected); 1..3 stalled streams while another stream moves up to 8 MiB. evaluations = calls judged; a case is non-trivial if the call was still outstanding when its enabling event was produced; distinct = distinct (scenario, call, enabling event, result class, window, write buffers)", 15)
}
