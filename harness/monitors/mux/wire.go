package main

import (
	"fmt"
	"hash/fnv"
	"sync"
	"time"
)

// I4: wire sniffer. An independent decoder of the seven-message protocol
// (written from the protocol description in protocol.go's comments, sharing no
// code with it) and a conformance monitor over the decoded trace.
//
// Every byte is seen twice: when the sending multiplexer hands it to the
// carrier ("sent", stamped when that Write call starts) and when the carrier
// hands it to the receiving multiplexer ("delivered", stamped before the Read
// returns). All events of one session are processed under one mutex, so they
// form one total order consistent with causality: a side can only react to
// what was delivered to it before, and whatever it sends is seen after it
// decided to send it. Rules that compare the two directions are therefore
// necessary conditions for every conforming sender (never over-demanding).

const (
	kHeartbeat = iota
	kOpen
	kAccept
	kData
	kIncrement
	kCloseWrite
	kClose
	kKinds
)

var kindNames = [kKinds]string{"heartbeat", "open", "accept", "data", "increment", "close-write", "close"}

const (
	phSent = iota
	phDelivered
)

// decoder is an incremental decoder for one direction and one phase.
type decoder struct {
	state    int // 0 kind, 1 id, 2 second uvarint, 3/4 data length, 5 payload
	kind     byte
	id, val  uint64
	shift    uint
	nvar     int
	length   int
	left     int
	dead     bool
	deadWhy  string
	messages int64
}

type decEvents struct {
	header  func(kind byte, id, val uint64, length int) // complete header (for data: before payload)
	payload func(id uint64, n int)                      // n more payload bytes of the current data message
	bad     func(why string)
}

func (d *decoder) uvarint(b byte) (done bool, bad bool) {
	if d.nvar == 9 && b > 1 {
		return false, true
	}
	d.val |= uint64(b&0x7f) << d.shift
	d.shift += 7
	d.nvar++
	if b < 0x80 {
		return true, false
	}
	if d.nvar >= 10 {
		return false, true
	}
	return false, false
}

func (d *decoder) feed(p []byte, ev decEvents) {
	for len(p) > 0 && !d.dead {
		switch d.state {
		case 0:
			d.kind = p[0]
			p = p[1:]
			if d.kind >= kKinds {
				d.dead, d.deadWhy = true, fmt.Sprintf("unknown message kind %#02x", d.kind)
				ev.bad("unknown-kind")
				return
			}
			if d.kind == kHeartbeat {
				d.messages++
				ev.header(kHeartbeat, 0, 0, 0)
				continue
			}
			d.state, d.val, d.shift, d.nvar = 1, 0, 0, 0
		case 1:
			done, bad := d.uvarint(p[0])
			p = p[1:]
			if bad {
				d.dead, d.deadWhy = true, "malformed stream identifier"
				ev.bad("malformed-uvarint")
				return
			}
			if done {
				d.id = d.val
				switch d.kind {
				case kOpen, kAccept, kIncrement:
					d.state, d.val, d.shift, d.nvar = 2, 0, 0, 0
				case kData:
					d.state, d.length = 3, 0
				default:
					d.messages++
					ev.header(d.kind, d.id, 0, 0)
					d.state = 0
				}
			}
		case 2:
			done, bad := d.uvarint(p[0])
			p = p[1:]
			if bad {
				d.dead, d.deadWhy = true, "malformed uvarint operand"
				ev.bad("malformed-uvarint")
				return
			}
			if done {
				d.messages++
				ev.header(d.kind, d.id, d.val, 0)
				d.state = 0
			}
		case 3:
			d.length = int(p[0]) << 8
			p = p[1:]
			d.state = 4
		case 4:
			d.length |= int(p[0])
			p = p[1:]
			d.messages++
			ev.header(kData, d.id, 0, d.length)
			d.left = d.length
			if d.left == 0 {
				d.state = 0
			} else {
				d.state = 5
			}
		case 5:
			n := d.left
			if n > len(p) {
				n = len(p)
			}
			ev.payload(d.id, n)
			d.left -= n
			p = p[n:]
			if d.left == 0 {
				d.state = 0
			}
		}
	}
}

// wside is what one side did on one stream.
type wside struct {
	dataSent      uint64 // payload bytes in data messages this side sent
	dataDelivered uint64 // payload bytes delivered TO this side
	incSent       uint64 // sum of increments this side sent
	incDelivered  uint64 // sum of increments delivered TO this side
	closeWrite    bool   // this side sent close-write
	closed        bool   // this side sent close
	closeSeen     bool   // the peer's close was delivered to this side
	closeWSeen    bool   // the peer's close-write was delivered to this side
}

type wstream struct {
	opener          int // side that owns the identifier (0 odd, 1 even)
	openSent        bool
	openDelivered   bool
	openWindow      uint64 // receive window advertised by the opener
	acceptSent      bool
	acceptDelivered bool
	acceptWindow    uint64 // receive window advertised by the acceptor
	side            [2]wside
}

type wireFlag struct {
	Rule   string `json:"rule"`
	Sender int    `json:"sender"`
	Kind   string `json:"kind"`
	Stream uint64 `json:"stream"`
	Detail string `json:"detail"`
	Seq    int64  `json:"seq"`
}

type wireMon struct {
	mu        sync.Mutex
	dec       [2][2]*decoder // [phase][sender]
	streams   map[uint64]*wstream
	lastOpen  [2]uint64
	flags     []wireFlag
	flagRules map[string]int
	counts    [2][2][kKinds]int64 // [phase][sender][kind]
	payload   [2][2]int64
	order     uint64 // running hash of (sender, kind) in sent order, heartbeats excluded
	recent    []string
	seq       int64
	changed   chan struct{}
	trace     bool
}

func newWireMon() *wireMon {
	m := &wireMon{streams: map[uint64]*wstream{}, flagRules: map[string]int{}, changed: make(chan struct{}), order: 14695981039346656037}
	for ph := 0; ph < 2; ph++ {
		for s := 0; s < 2; s++ {
			m.dec[ph][s] = &decoder{}
		}
	}
	return m
}

func (m *wireMon) flag(rule string, sender int, kind byte, id uint64, detail string) {
	m.flagRules[rule]++
	if len(m.flags) < 20 {
		m.flags = append(m.flags, wireFlag{rule, sender, kindNames[kind%kKinds], id, detail, m.seq})
	}
}

func (m *wireMon) stream(id uint64) *wstream {
	st := m.streams[id]
	if st == nil {
		st = &wstream{opener: 0}
		if id%2 == 0 {
			st.opener = 1
		}
		m.streams[id] = st
	}
	return st
}

func (m *wireMon) note(ph, sender int, kind byte, id, val uint64, length int) {
	tag := "s"
	if ph == phDelivered {
		tag = "d"
	}
	s := fmt.Sprintf("%s%d:%s(%d", tag, sender, kindNames[kind], id)
	switch kind {
	case kOpen, kAccept, kIncrement:
		s += fmt.Sprintf(",%d", val)
	case kData:
		s += fmt.Sprintf(",len=%d", length)
	}
	s += ")"
	if len(m.recent) >= 80 {
		copy(m.recent, m.recent[1:])
		m.recent = m.recent[:79]
	}
	m.recent = append(m.recent, s)
}

func (m *wireMon) wake() {
	close(m.changed)
	m.changed = make(chan struct{})
}

// sent processes bytes the multiplexer of side `sender` handed to its carrier.
func (m *wireMon) sent(sender int, p []byte) {
	m.mu.Lock()
	defer m.mu.Unlock()
	m.seq++
	m.dec[phSent][sender].feed(p, decEvents{
		header: func(kind byte, id, val uint64, length int) {
			m.counts[phSent][sender][kind]++
			if kind != kHeartbeat {
				m.order = (m.order ^ uint64(sender)<<4 ^ uint64(kind)) * 1099511628211
				m.note(phSent, sender, kind, id, val, length)
				m.checkSent(sender, kind, id, val, length)
			}
		},
		payload: func(id uint64, n int) { m.payload[phSent][sender] += int64(n) },
		bad:     func(why string) { m.flag(why, sender, 0, 0, m.dec[phSent][sender].deadWhy) },
	})
	m.wake()
}

// delivered processes bytes the carrier handed to the multiplexer opposite `sender`.
func (m *wireMon) delivered(sender int, p []byte) {
	m.mu.Lock()
	defer m.mu.Unlock()
	m.seq++
	rcv := 1 - sender
	m.dec[phDelivered][sender].feed(p, decEvents{
		header: func(kind byte, id, val uint64, length int) {
			m.counts[phDelivered][sender][kind]++
			if kind == kHeartbeat || id == 0 {
				return
			}
			m.note(phDelivered, sender, kind, id, val, length)
			st := m.stream(id)
			switch kind {
			case kOpen:
				st.openDelivered = true
			case kAccept:
				st.acceptDelivered = true
			case kIncrement:
				st.side[rcv].incDelivered += val
			case kCloseWrite:
				st.side[rcv].closeWSeen = true
			case kClose:
				st.side[rcv].closeSeen = true
			}
		},
		payload: func(id uint64, n int) {
			m.payload[phDelivered][sender] += int64(n)
			if id != 0 {
				m.stream(id).side[rcv].dataDelivered += uint64(n)
			}
		},
		bad: func(string) {},
	})
	m.wake()
}

// checkSent applies the conformance rules to one message of side `x`.
func (m *wireMon) checkSent(x int, kind byte, id, val uint64, length int) {
	if id == 0 {
		m.flag("zero-stream-identifier", x, kind, id, "")
		return
	}
	st := m.stream(id)
	me := &st.side[x]
	switch kind {
	case kOpen:
		if st.opener != x {
			m.flag("open-wrong-parity", x, kind, id, "")
		}
		if id <= m.lastOpen[x] {
			m.flag("open-not-monotone", x, kind, id, fmt.Sprintf("previous open used %d", m.lastOpen[x]))
		} else {
			m.lastOpen[x] = id
		}
		if st.openSent {
			m.flag("open-twice", x, kind, id, "")
		}
		st.openSent, st.openWindow = true, val
		return
	case kAccept:
		if st.opener == x {
			m.flag("accept-own-identifier", x, kind, id, "")
		}
		if !st.openDelivered {
			m.flag("accept-before-open", x, kind, id, "no open for this identifier had been delivered to the accepting side")
		}
		if st.acceptSent {
			m.flag("accept-twice", x, kind, id, "")
		}
		if me.closed {
			m.flag("accept-after-close", x, kind, id, "")
		}
		st.acceptSent, st.acceptWindow = true, val
		return
	}
	// data, increment, close-write, close
	if st.opener == x {
		if !st.openSent {
			m.flag(kindNames[kind]+"-before-open", x, kind, id, "sender never opened this identifier")
		}
	} else if !st.openDelivered {
		m.flag(kindNames[kind]+"-for-unopened-stream", x, kind, id, "no open for this identifier had been delivered to the sender")
	}
	if me.closed {
		m.flag(kindNames[kind]+"-after-close", x, kind, id, "")
	}
	if kind != kClose {
		established := st.acceptSent
		if st.opener == x {
			established = st.acceptDelivered
		}
		if !established {
			m.flag(kindNames[kind]+"-before-established", x, kind, id, "")
		}
	}
	switch kind {
	case kData:
		if length == 0 {
			m.flag("zero-length-data", x, kind, id, "")
		}
		if me.closeWrite {
			m.flag("data-after-close-write", x, kind, id, "")
		}
		window := st.openWindow
		if st.opener == x {
			window = st.acceptWindow
		}
		me.dataSent += uint64(length)
		if me.dataSent > window+me.incDelivered {
			m.flag("window-exceeded", x, kind, id, fmt.Sprintf("%d bytes sent in total, advertised window %d + increments delivered %d", me.dataSent, window, me.incDelivered))
		}
	case kIncrement:
		if val == 0 {
			m.flag("zero-window-increment", x, kind, id, "")
		}
		me.incSent += val
		if me.incSent > me.dataDelivered {
			m.flag("increment-exceeds-received", x, kind, id, fmt.Sprintf("increments total %d, payload delivered to the sender %d", me.incSent, me.dataDelivered))
		}
	case kCloseWrite:
		if me.closeWrite {
			m.flag("close-write-twice", x, kind, id, "")
		}
		me.closeWrite = true
	case kClose:
		me.closed = true
	}
}

// await blocks until pred holds (evaluated under the monitor's lock) or the
// timeout passes; it returns whether pred held and the time at which that was
// observed (an upper bound of when it became true).
func (m *wireMon) await(timeout time.Duration, pred func(m *wireMon) bool) (bool, time.Time) {
	deadline := time.NewTimer(timeout)
	defer deadline.Stop()
	for {
		m.mu.Lock()
		ok := pred(m)
		ch := m.changed
		m.mu.Unlock()
		if ok {
			return true, time.Now()
		}
		select {
		case <-ch:
		case <-deadline.C:
			return false, time.Now()
		}
	}
}

// idle reports whether every non-heartbeat message sent was delivered.
func (m *wireMon) idleSnapshot() (sent, delivered int64) {
	m.mu.Lock()
	defer m.mu.Unlock()
	for s := 0; s < 2; s++ {
		for k := 1; k < kKinds; k++ {
			sent += m.counts[phSent][s][k]
			delivered += m.counts[phDelivered][s][k]
		}
		sent += m.payload[phSent][s]
		delivered += m.payload[phDelivered][s]
	}
	return
}

// quiesce waits until the wire has been silent (everything sent was delivered
// and nothing new was sent) for a few consecutive polls. It only affects how
// much of the aftermath of a program is observed, never a verdict.
func (m *wireMon) quiesce(max time.Duration) bool {
	end := time.Now().Add(max)
	stable := 0
	var lastS, lastD int64 = -1, -1
	for time.Now().Before(end) {
		s, d := m.idleSnapshot()
		if s == d && s == lastS && d == lastD {
			stable++
			if stable >= 4 {
				return true
			}
		} else {
			stable = 0
		}
		lastS, lastD = s, d
		time.Sleep(3 * time.Millisecond)
	}
	return false
}

type wireSummary struct {
	Messages map[string]int64 `json:"messages_sent_by_kind"`
	Payload  int64            `json:"payload_bytes"`
	Streams  int              `json:"stream_identifiers"`
	Order    string           `json:"order_hash"`
	Flags    []wireFlag       `json:"flags,omitempty"`
	Recent   []string         `json:"recent,omitempty"`
}

func (m *wireMon) summary(withRecent bool) wireSummary {
	m.mu.Lock()
	defer m.mu.Unlock()
	s := wireSummary{Messages: map[string]int64{}, Streams: len(m.streams), Order: fmt.Sprintf("%016x", m.order)}
	for k := 0; k < kKinds; k++ {
		s.Messages[kindNames[k]] = m.counts[phSent][0][k] + m.counts[phSent][1][k]
	}
	s.Payload = m.payload[phSent][0] + m.payload[phSent][1]
	s.Flags = append(s.Flags, m.flags...)
	if withRecent {
		s.Recent = append(s.Recent, m.recent...)
	}
	return s
}

func (m *wireMon) flagged() map[string]int {
	m.mu.Lock()
	defer m.mu.Unlock()
	out := map[string]int{}
	for k, v := range m.flagRules {
		out[k] = v
	}
	return out
}

func hashString(s string) uint64 {
	h := fnv.New64a()
	h.Write([]byte(s))
	return h.Sum64()
}
