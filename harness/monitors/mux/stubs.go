package main

func c24() {}
func c25() {}
