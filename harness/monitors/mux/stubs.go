package main

func c25() {}
