package main

import (
	"context"
	"fmt"
	"math/rand"
	"sort"
	"sync"
	"sync/atomic"
	"time"

	"github.com/mutagen-io/mutagen/pkg/multiplexing"

	"verif/internal/vk"
)

// C23: conservation of bytes per stream and direction.

// epPlan is what one endpoint (one side of one stream) does. It is a pure
// function of (seed, session, stream identifier, side).
type epPlan struct {
	Total      int   `json:"total"`       // bytes the writer intends to write
	MaxWrite   int   `json:"max_write"`   // largest single Write
	MaxRead    int   `json:"max_read"`    // largest read buffer
	End        int   `json:"end"`         // after the writes: 0 CloseWrite, 1 Close
	EarlyClose int64 `json:"early_close"` // reader closes the stream after this many bytes (-1: reads to EOF)
	WDeadline  bool  `json:"write_deadlines"`
	RDeadline  bool  `json:"read_deadlines"`
	SlowRead   int   `json:"slow_read"` // 1 in n reads pauses (0 never)
	Third      int   `json:"third"`     // 0 none, 1 another goroutine calls Close, 2 another goroutine calls CloseWrite
	ThirdDelay int   `json:"third_delay_us"`
	AfterEOF   bool  `json:"read_after_eof"`
	BigWrites  bool  `json:"big_deadline_writes"` // single Writes larger than the window under a near deadline, resumed from the returned count
	ZeroReads  int   `json:"zero_length_reads"`   // 1 in n reads uses a nil/empty buffer (0 never)
}

// opsCap bounds the number of Write calls one direction needs.
const opsCap = 120

// maxWriteCalls is where a writer gives up (plans need a few hundred calls).
const maxWriteCalls = 5000

// planEndpoint is the plan of one endpoint. The read buffer is widened so
// that draining what the peer plans to write takes a bounded number of calls.
func planEndpoint(seed int64, sess int, id uint64, side int, budget int, window int) epPlan {
	p := rawPlan(seed, sess, id, side, budget, window)
	peer := rawPlan(seed, sess, id, 1-side, budget, window)
	if need := peer.Total / opsCap; p.MaxRead < need {
		p.MaxRead = need
	}
	return p
}

func rawPlan(seed int64, sess int, id uint64, side int, budget int, window int) epPlan {
	rng := rand.New(rand.NewSource(int64(mix64(uint64(seed) ^ mix64(uint64(sess)) ^ mix64(id*2+uint64(side))))))
	p := epPlan{EarlyClose: -1}
	switch rng.Intn(6) {
	case 0:
		p.Total = 0
	case 1:
		p.Total = rng.Intn(minInt(budget, 64) + 1)
	default:
		p.Total = rng.Intn(budget + 1)
	}
	p.MaxWrite = []int{1, 16, 4096, 200 << 10}[rng.Intn(4)]
	p.MaxRead = []int{1, 64, 4096, 100 << 10}[rng.Intn(4)]
	if window > 65535 && rng.Intn(2) == 0 {
		// Single Writes above 65535 bytes while that much window is free.
		p.MaxWrite = 200 << 10
		if want := minInt(budget, 70000+rng.Intn(200000)); p.Total < want {
			p.Total = want
		}
	}
	// Bound the number of calls, not only the bytes: about opsCap writes.
	full := p.Total
	if lim := opsCap * p.MaxWrite / 2; p.Total > lim {
		p.Total = lim
	}
	if rng.Intn(4) == 0 {
		p.End = 1
	}
	if rng.Intn(6) == 0 {
		p.EarlyClose = int64(rng.Intn(budget + 1))
	}
	p.WDeadline = rng.Intn(3) == 0
	p.RDeadline = rng.Intn(5) == 0
	if p.WDeadline && rng.Intn(3) != 0 {
		// Writes larger than the window whose deadline expires after part of
		// them went out; they need a total of several windows.
		p.BigWrites = true
		if want := minInt(full, 6*window+8); p.Total < want {
			p.Total = want
		}
	}
	if rng.Intn(2) == 0 {
		p.ZeroReads = 2 + 2*rng.Intn(2)
	}
	if rng.Intn(4) == 0 {
		p.SlowRead = 1 + rng.Intn(8)
	}
	if rng.Intn(5) == 0 {
		p.Third = 1 + rng.Intn(2)
		p.ThirdDelay = rng.Intn(8000)
	}
	p.AfterEOF = rng.Intn(3) == 0
	return p
}

// endpoint is the journal of one side of one stream.
type endpoint struct {
	id     uint64
	side   int
	opener bool
	plan   epPlan
	stream *multiplexing.Stream

	mu           sync.Mutex
	tCloseWrite  time.Time // when the first CloseWrite call was ISSUED (before the call)
	tClose       time.Time // when the first Close call was issued
	writes       int
	written      int64 // sum of the counts returned by Write
	wErr         string
	wErrAt       time.Time
	reads        int
	readBytes    int64
	sawEOF       bool
	tEOF         time.Time
	rErr         string
	rErrAt       time.Time
	problems     []problem
	zeroWrites   int
	partialWrite int
	wDone, rDone bool // the writer / reader goroutine has returned
	dlPartial    int  // Writes that returned 0 < n < len with a deadline error
	dlPartialBig int  // ... of a Write larger than the window
	zeroReads    int  // Reads with a nil/empty buffer that returned (0, nil)
	hugeWrites   int  // Writes of more than 65535 bytes that completed
}

type problem struct {
	Rule   string `json:"rule"`
	Detail string `json:"detail"`
}

func (e *endpoint) issueClose() {
	e.mu.Lock()
	if e.tClose.IsZero() {
		e.tClose = time.Now()
	}
	e.mu.Unlock()
	e.stream.Close()
}

func (e *endpoint) issueCloseWrite() {
	e.mu.Lock()
	if e.tCloseWrite.IsZero() {
		e.tCloseWrite = time.Now()
	}
	e.mu.Unlock()
	e.stream.CloseWrite()
}

func (e *endpoint) addProblem(rule, detail string) {
	e.mu.Lock()
	if len(e.problems) < 8 {
		e.problems = append(e.problems, problem{rule, detail})
	}
	e.mu.Unlock()
}

type c23Session struct {
	r        *vk.Run
	idx      int
	seed     int64
	s        *session
	budget   int
	progress atomic.Int64
	aborted  atomic.Bool

	mu       sync.Mutex
	streams  map[uint64]*[2]*endpoint
	started  int
	finished atomic.Int64
	rejected atomic.Int64
}

func writeSize(rng *rand.Rand, max int) int {
	switch rng.Intn(10) {
	case 0:
		return 0
	case 1, 2, 3:
		return 1 + rng.Intn(minInt(max, 16))
	case 4, 5, 6:
		return 1 + rng.Intn(minInt(max, 4096))
	}
	return 1 + rng.Intn(max)
}

func readSize(rng *rand.Rand, max int) int {
	switch rng.Intn(4) {
	case 0:
		return 1 + rng.Intn(minInt(max, 2))
	case 1:
		return 1 + rng.Intn(minInt(max, 64))
	}
	return 1 + rng.Intn(max)
}

func (cs *c23Session) writer(e *endpoint, rng *rand.Rand) {
	keyOut := patKey(cs.seed, cs.idx, e.id, e.side)
	buf := make([]byte, minInt(e.plan.MaxWrite, maxInt(e.plan.Total, 1)))
	var off int64
	deadlineSet := false
	calls := 0
	for off < int64(e.plan.Total) && !cs.aborted.Load() {
		if calls++; calls > maxWriteCalls {
			// Far more calls than any plan needs (only possible if Write keeps
			// reporting less than it queued): stop instead of spinning.
			cs.r.Count("writers_gave_up", 1)
			break
		}
		size := writeSize(rng, e.plan.MaxWrite)
		if rem := int64(e.plan.Total) - off; int64(size) > rem {
			size = int(rem)
		}
		if size > len(buf) {
			size = len(buf)
		}
		window := cs.s.cfg.Window
		if rem := int64(e.plan.Total) - off; e.plan.BigWrites && rem > 1 && rng.Intn(3) == 0 {
			// One Write larger than the send window with a deadline that will
			// expire while it waits for window: it must report what it queued.
			size = minInt(int(rem), minInt(window+1+rng.Intn(2*window+1), 256<<10))
			if size > len(buf) {
				buf = make([]byte, size)
			}
			e.stream.SetWriteDeadline(time.Now().Add(time.Duration(100+rng.Intn(2000)) * time.Microsecond))
			deadlineSet = true
		} else if e.plan.WDeadline && rng.Intn(3) == 0 {
			e.stream.SetWriteDeadline(time.Now().Add(time.Duration(1+rng.Intn(3000)) * time.Microsecond))
			deadlineSet = true
		}
		patFill(keyOut, off, buf[:size])
		n, err := e.stream.Write(buf[:size])
		now := time.Now()
		cs.progress.Add(1)
		cls := errClass(err)
		e.mu.Lock()
		e.writes++
		if size == 0 {
			e.zeroWrites++
		}
		if n < 0 || n > size {
			e.problems = append(e.problems, problem{"write-count-out-of-range", fmt.Sprintf("Write of %d bytes returned %d", size, n)})
			n = 0
		}
		e.written += int64(n)
		if err == nil && n > 65535 {
			e.hugeWrites++
		}
		if err != nil && n > 0 {
			e.partialWrite++
			if cls == "deadline" && n < size {
				e.dlPartial++
				if size > window {
					e.dlPartialBig++
				}
			}
		}
		if err == nil && n < size {
			e.problems = append(e.problems, problem{"short-write-without-error", fmt.Sprintf("Write of %d bytes returned %d, nil", size, n)})
		}
		e.mu.Unlock()
		off += int64(n)
		if err != nil {
			if cls == "deadline" && deadlineSet {
				e.stream.SetWriteDeadline(time.Time{})
				deadlineSet = false
				continue
			}
			e.mu.Lock()
			e.wErr, e.wErrAt = cls, now
			e.mu.Unlock()
			return // the stream cannot be written any more; whoever caused that also ends it
		}
	}
	if cs.aborted.Load() {
		return
	}
	if e.plan.End == 1 {
		e.issueClose()
	} else {
		e.issueCloseWrite()
	}
}

func (cs *c23Session) reader(e *endpoint, rng *rand.Rand) {
	keyIn := patKey(cs.seed, cs.idx, e.id, 1-e.side)
	buf := make([]byte, e.plan.MaxRead)
	deadlineSet := false
	extra := 0
	for !cs.aborted.Load() {
		size := readSize(rng, e.plan.MaxRead)
		target := buf[:size]
		if e.plan.ZeroReads > 0 && rng.Intn(e.plan.ZeroReads) == 0 {
			// A Read with an empty (or nil) buffer: it waits for data like any
			// other Read but must consume nothing, also not the readiness of
			// the data that is buffered.
			size, target = 0, buf[:0]
			if rng.Intn(2) == 0 {
				target = nil
			}
		}
		if e.plan.RDeadline && rng.Intn(3) == 0 {
			e.stream.SetReadDeadline(time.Now().Add(time.Duration(1+rng.Intn(3000)) * time.Microsecond))
			deadlineSet = true
		}
		n, err := e.stream.Read(target)
		now := time.Now()
		cs.progress.Add(1)
		cls := errClass(err)
		e.mu.Lock()
		e.reads++
		if size == 0 && err == nil {
			e.zeroReads++
		}
		pos := e.readBytes
		if n < 0 || n > size {
			e.problems = append(e.problems, problem{"read-count-out-of-range", fmt.Sprintf("Read into %d bytes returned %d", size, n)})
			n = 0
		}
		e.readBytes += int64(n)
		e.mu.Unlock()
		if n > 0 {
			if bad := patCheck(keyIn, pos, buf[:n]); bad >= 0 {
				e.addProblem("corrupt", cs.diagnose(e, pos, buf[:n], bad))
			}
			if e.sawEOF {
				e.addProblem("data-after-eof", fmt.Sprintf("%d bytes returned by a Read after end-of-stream had been reported", n))
			}
		}
		if err == nil && n == 0 && size > 0 {
			cs.r.Count("reads_returning_0_nil", 1)
		}
		if err != nil {
			if cls == "deadline" && deadlineSet {
				e.stream.SetReadDeadline(time.Time{})
				deadlineSet = false
				continue
			}
			if cls == "eof" {
				e.mu.Lock()
				if !e.sawEOF {
					e.sawEOF, e.tEOF = true, now
				}
				e.mu.Unlock()
				if e.plan.AfterEOF && extra < 2 {
					extra++
					continue
				}
				return
			}
			e.mu.Lock()
			e.rErr, e.rErrAt = cls, now
			e.mu.Unlock()
			return
		}
		if e.plan.EarlyClose >= 0 && pos+int64(n) >= e.plan.EarlyClose {
			e.issueClose()
			return
		}
		if e.plan.SlowRead > 0 && rng.Intn(e.plan.SlowRead) == 0 {
			time.Sleep(time.Duration(rng.Intn(300)) * time.Microsecond)
		}
	}
}

// diagnose describes where a wrong chunk comes from, if that can be told.
func (cs *c23Session) diagnose(e *endpoint, pos int64, chunk []byte, bad int) string {
	d := fmt.Sprintf("stream %d direction %d->%d: byte at position %d is %#02x, pattern has %#02x (chunk of %d bytes starting at %d)",
		e.id, 1-e.side, e.side, pos+int64(bad), chunk[bad], patByte(patKey(cs.seed, cs.idx, e.id, 1-e.side), pos+int64(bad)), len(chunk), pos)
	probe := chunk[bad:]
	if len(probe) > 16 {
		probe = probe[:16]
	}
	if len(probe) >= 4 {
		own := patKey(cs.seed, cs.idx, e.id, 1-e.side)
		for off := int64(0); off < int64(cs.budget)+(1<<16); off++ {
			if patCheck(own, off, probe) < 0 {
				return d + fmt.Sprintf("; the bytes match position %d of the same stream direction (displaced by %d)", off, off-(pos+int64(bad)))
			}
		}
		cs.mu.Lock()
		ids := make([]uint64, 0, len(cs.streams))
		for id := range cs.streams {
			ids = append(ids, id)
		}
		cs.mu.Unlock()
		for _, id := range ids {
			for dir := 0; dir < 2; dir++ {
				k := patKey(cs.seed, cs.idx, id, dir)
				if k == own {
					continue
				}
				for off := int64(0); off < int64(cs.budget)+(1<<16); off++ {
					if patCheck(k, off, probe) < 0 {
						return d + fmt.Sprintf("; the bytes match position %d of stream %d written by side %d (cross-stream leak)", off, id, dir)
					}
				}
			}
		}
	}
	return d
}

func (cs *c23Session) startEndpoint(st *multiplexing.Stream, side int, opener bool) {
	id := streamID(st)
	e := &endpoint{id: id, side: side, opener: opener, stream: st, plan: planEndpoint(cs.seed, cs.idx, id, side, cs.budget, cs.s.cfg.Window)}
	cs.mu.Lock()
	pair := cs.streams[id]
	if pair == nil {
		pair = &[2]*endpoint{}
		cs.streams[id] = pair
	}
	pair[side] = e
	cs.started++
	cs.mu.Unlock()
	base := int64(mix64(uint64(cs.seed) ^ mix64(uint64(cs.idx)*7919+id*4+uint64(side))))
	var wg sync.WaitGroup
	wg.Add(2)
	go func() {
		defer wg.Done()
		cs.writer(e, rand.New(rand.NewSource(base+1)))
		e.mu.Lock()
		e.wDone = true
		e.mu.Unlock()
	}()
	go func() {
		defer wg.Done()
		cs.reader(e, rand.New(rand.NewSource(base+2)))
		e.mu.Lock()
		e.rDone = true
		e.mu.Unlock()
	}()
	if e.plan.Third != 0 {
		wg.Add(1)
		go func() {
			defer wg.Done()
			time.Sleep(time.Duration(e.plan.ThirdDelay) * time.Microsecond)
			if e.plan.Third == 1 {
				e.issueClose()
			} else {
				e.issueCloseWrite()
			}
		}()
	}
	go func() {
		wg.Wait()
		e.issueClose()
		cs.finished.Add(1)
	}()
}

type c23Result struct {
	Session  int         `json:"session"`
	Cfg      sessCfg     `json:"config"`
	Streams  int         `json:"streams"`
	Opened   int         `json:"opened"`
	Rejected int64       `json:"opens_rejected"`
	Bytes    int64       `json:"bytes_read"`
	EOFs     int         `json:"eofs"`
	Wire     wireSummary `json:"wire"`
	Outcome  string      `json:"outcome"`
}

func runC23Session(r *vk.Run, idx int, cfg sessCfg, nStreams int, budget int, srng *rand.Rand) c23Result {
	cs := &c23Session{r: r, idx: idx, seed: r.Seed, budget: budget, streams: map[uint64]*[2]*endpoint{}}
	cs.s = newSession(cfg, srng.Int63())
	s := cs.s
	ctx, cancel := context.WithCancel(context.Background())
	defer cancel()
	res := c23Result{Session: idx, Cfg: cfg, Streams: nStreams, Outcome: "completed"}

	// Acceptors.
	var accWG sync.WaitGroup
	for side := 0; side < 2; side++ {
		for k := 0; k < 1+srng.Intn(2); k++ {
			accWG.Add(1)
			go func(side int) {
				defer accWG.Done()
				for {
					st, err := s.mux[side].AcceptStream(ctx)
					if err != nil {
						return
					}
					cs.progress.Add(1)
					cs.startEndpoint(st, side, false)
				}
			}(side)
		}
	}

	// Openers: the streams of each side are opened by 1–3 goroutines.
	var openWG sync.WaitGroup
	var opened atomic.Int64
	perSide := [2]int{}
	for i := 0; i < nStreams; i++ {
		perSide[srng.Intn(2)]++
	}
	for side := 0; side < 2; side++ {
		work := make(chan struct{}, perSide[side])
		for i := 0; i < perSide[side]; i++ {
			work <- struct{}{}
		}
		close(work)
		for k := 0; k < 1+srng.Intn(3); k++ {
			openWG.Add(1)
			go func(side int, pause int) {
				defer openWG.Done()
				for range work {
					for tries := 0; ; tries++ {
						st, err := s.mux[side].OpenStream(ctx)
						cs.progress.Add(1)
						if err == nil {
							opened.Add(1)
							cs.startEndpoint(st, side, true)
							break
						}
						if errClass(err) != "rejected" || cs.aborted.Load() {
							return
						}
						cs.rejected.Add(1)
						time.Sleep(time.Duration(50+pause) * time.Microsecond)
					}
				}
			}(side, srng.Intn(500))
		}
	}

	// Wait for completion under a progress watchdog.
	done := make(chan struct{})
	go func() {
		openWG.Wait()
		// Every successful open has exactly one accepted counterpart; the
		// session is complete when both endpoints of every stream are done.
		for !cs.aborted.Load() {
			cs.mu.Lock()
			st := cs.started
			cs.mu.Unlock()
			if int64(st) >= 2*opened.Load() && cs.finished.Load() >= int64(st) {
				break
			}
			time.Sleep(500 * time.Microsecond)
		}
		close(done)
	}()
	// Progress = calls returned + non-heartbeat traffic on the wire (messages
	// and payload bytes, sent and delivered). One large Write or Read over a
	// byte-at-a-time carrier can legitimately take longer than the bound, so
	// returned calls alone would mistake slow for stuck.
	progressNow := func() int64 {
		ws, wd := s.mon.idleSnapshot()
		return cs.progress.Load() + ws + wd
	}
	last, lastAt := progressNow(), time.Now()
	sessionStart := time.Now()
	tick := time.NewTicker(50 * time.Millisecond)
	defer tick.Stop()
wait:
	for {
		select {
		case <-done:
			break wait
		case <-tick.C:
			if time.Since(sessionStart) > 5*time.Minute {
				// Calls keep returning but the plans (a few hundred calls per
				// direction) do not end: not judged, and not allowed to eat the run.
				res.Outcome = "over-budget"
				break wait
			}
			if p := progressNow(); p != last {
				last, lastAt = p, time.Now()
				continue
			}
			if ok, _, _ := s.alive(); !ok {
				res.Outcome = "torn-down"
				break wait
			}
			if time.Since(lastAt) >= hangBound {
				if hb.healthy(lastAt) {
					res.Outcome = "stalled"
				} else {
					res.Outcome = "stalled-unhealthy"
				}
				break wait
			}
		}
	}

	witness := func() map[string]any {
		return map[string]any{"session": idx, "config": cfg, "streams": nStreams, "budget_per_direction": budget, "wire": s.mon.summary(true)}
	}
	switch res.Outcome {
	case "stalled":
		w := witness()
		w["goroutines"] = goroutineDump()
		w["unfinished"] = cs.unfinished()
		r.Violation(map[string]string{"rule": "stalled"}, fmt.Sprintf("session %d (%s): no Read, Write, open or accept returned and no message or payload byte moved on the wire for %s although the control heartbeat was healthy (max gap %s); written data cannot be read", idx, cfg, hangBound, hb.maxGap(lastAt)), w)
	case "stalled-unhealthy":
		r.Inconclusive("session stalled while the control heartbeat was unhealthy")
	case "over-budget":
		r.Inconclusive("session still busy after five minutes")
	}
	if res.Outcome == "completed" {
		s.mon.quiesce(200 * time.Millisecond)
	}
	if ok, errs, closed := s.alive(); !ok {
		side, cause, text := s.rootCause()
		w := witness()
		w["internal_errors"] = errs
		w["closed"] = closed
		r.Violation(map[string]string{"rule": "teardown", "cause": cause}, fmt.Sprintf("session %d (%s): multiplexer of side %d went down during a byte-transfer workload without being closed: %q", idx, cfg, side, text), w)
		res.Outcome = "torn-down"
	}
	cs.aborted.Store(true)
	tShutdown := time.Now()
	cancel()
	if res.Outcome != "completed" {
		s.shutdown()
		// Let the calls that the shutdown released return, so that the journals are final.
		for end := time.Now().Add(3 * time.Second); time.Now().Before(end); time.Sleep(2 * time.Millisecond) {
			cs.mu.Lock()
			st := cs.started
			cs.mu.Unlock()
			if cs.finished.Load() >= int64(st) {
				break
			}
		}
	}

	// The oracle over the journals.
	cs.mu.Lock()
	ids := make([]uint64, 0, len(cs.streams))
	for id := range cs.streams {
		ids = append(ids, id)
	}
	cs.mu.Unlock()
	sort.Slice(ids, func(i, j int) bool { return ids[i] < ids[j] })
	for _, id := range ids {
		cs.mu.Lock()
		pair := *cs.streams[id]
		cs.mu.Unlock()
		if pair[0] == nil || pair[1] == nil {
			continue
		}
		for wside := 0; wside < 2; wside++ {
			w, rd := pair[wside], pair[1-wside]
			n, eof := cs.judge(w, rd, res.Outcome == "completed", tShutdown, witness)
			res.Bytes += n
			if eof {
				res.EOFs++
			}
		}
	}
	res.Opened = int(opened.Load())
	res.Rejected = cs.rejected.Load()
	res.Wire = s.mon.summary(false)
	if res.Outcome == "completed" {
		s.shutdown()
	}
	accWG.Wait()
	return res
}

func (cs *c23Session) unfinished() []string {
	cs.mu.Lock()
	defer cs.mu.Unlock()
	var out []string
	for id, pair := range cs.streams {
		for side := 0; side < 2; side++ {
			e := pair[side]
			if e == nil {
				continue
			}
			e.mu.Lock()
			out = append(out, fmt.Sprintf("stream %d side %d: written %d of %d (err %q), read %d (eof %v err %q) plan %s", id, side, e.written, e.plan.Total, e.wErr, e.readBytes, e.sawEOF, e.rErr, vk.JSON(e.plan)))
			e.mu.Unlock()
			if len(out) > 40 {
				return out
			}
		}
	}
	sort.Strings(out)
	return out
}

// judge decides one stream direction: w wrote, rd read.
func (cs *c23Session) judge(w, rd *endpoint, completed bool, tShutdown time.Time, witness func() map[string]any) (int64, bool) {
	r := cs.r
	w.mu.Lock()
	rd.mu.Lock()
	defer w.mu.Unlock()
	defer rd.mu.Unlock()
	if !w.wDone || !rd.rDone {
		// A call is still outstanding (only possible in an aborted session):
		// the journals are not final and cannot be compared.
		r.Count("directions_not_judged", 1)
		return rd.readBytes, rd.sawEOF
	}
	r.Eval(1)
	report := func(rule, what string) {
		wt := witness()
		wt["stream"] = w.id
		wt["writer_side"] = w.side
		wt["writer_plan"] = w.plan
		wt["reader_plan"] = rd.plan
		wt["writer"] = map[string]any{"writes": w.writes, "sum_returned": w.written, "error": w.wErr}
		wt["reader"] = map[string]any{"reads": rd.reads, "bytes": rd.readBytes, "eof": rd.sawEOF, "error": rd.rErr}
		r.Violation(map[string]string{"rule": rule}, fmt.Sprintf("session %d (%s) stream %d direction %d->%d: %s", cs.idx, cs.s.cfg, w.id, w.side, rd.side, what), wt)
	}
	readerRule := map[string]bool{"corrupt": true, "data-after-eof": true, "read-count-out-of-range": true}
	for _, p := range rd.problems {
		if readerRule[p.Rule] {
			report(p.Rule, p.Detail)
		}
	}
	for _, p := range w.problems {
		if !readerRule[p.Rule] {
			report(p.Rule, p.Detail)
		}
	}
	if rd.readBytes > w.written {
		report("excess", fmt.Sprintf("%d bytes read but the writes returned only %d in total", rd.readBytes, w.written))
	}
	// First close of the writing side, as issued.
	var tIssued time.Time
	for _, t := range []time.Time{w.tCloseWrite, w.tClose} {
		if !t.IsZero() && (tIssued.IsZero() || t.Before(tIssued)) {
			tIssued = t
		}
	}
	if rd.sawEOF {
		if tIssued.IsZero() {
			report("early-eof", "the reader saw end-of-stream although the peer never called CloseWrite or Close")
		} else if rd.tEOF.Before(tIssued) {
			report("early-eof", fmt.Sprintf("the reader saw end-of-stream %s before the peer's first CloseWrite/Close call was issued", tIssued.Sub(rd.tEOF)))
		}
		if completed && rd.readBytes < w.written {
			report("eof-short", fmt.Sprintf("end-of-stream after %d bytes, but the peer's writes had returned %d", rd.readBytes, w.written))
		}
	}
	// Errors must be explained by a recorded cause.
	explain := func(kind, cls string, at time.Time, own, peer *endpoint) {
		ok := false
		switch cls {
		case "", "eof":
			ok = true
		case "closed":
			ok = !own.tClose.IsZero() && !at.Before(own.tClose)
		case "write-closed":
			ok = (!own.tCloseWrite.IsZero() && !at.Before(own.tCloseWrite)) || (!own.tClose.IsZero() && !at.Before(own.tClose))
		case "remote-closed":
			ok = !peer.tClose.IsZero() && !at.Before(peer.tClose)
		case "mux-closed":
			ok = !completed || !at.Before(tShutdown)
		}
		if !ok {
			report("unexplained-error", fmt.Sprintf("%s returned %q with no recorded cause (own Close issued: %v, own CloseWrite issued: %v, peer Close issued: %v)", kind, cls, !own.tClose.IsZero(), !own.tCloseWrite.IsZero(), !peer.tClose.IsZero()))
		}
	}
	explain("Write", w.wErr, w.wErrAt, w, rd)
	explain("Read", rd.rErr, rd.rErrAt, rd, w)
	if rd.readBytes > 0 {
		r.Count("stream_directions_with_data", 1)
	}
	if rd.sawEOF {
		r.Count("eof_observed", 1)
	}
	r.Count("bytes_verified", rd.readBytes)
	r.Count("writes", int64(w.writes))
	r.Count("reads", int64(rd.reads))
	r.Count("zero_length_writes", int64(w.zeroWrites))
	r.Count("partial_writes_with_error", int64(w.partialWrite))
	r.Count("deadline_partial_writes", int64(w.dlPartial))
	r.Count("deadline_partial_writes_larger_than_window", int64(w.dlPartialBig))
	r.Count("zero_length_reads", int64(rd.zeroReads))
	r.Count("single_writes_above_65535_bytes", int64(w.hugeWrites))
	if w.wErr != "" {
		r.Count("write_ended_by:"+w.wErr, 1)
	}
	if rd.rErr != "" {
		r.Count("read_ended_by:"+rd.rErr, 1)
	}
	return rd.readBytes, rd.sawEOF
}

func c23() {
	r := vk.Start("C23", "exploration")
	sessions := r.Pick(60, 1500)
	perRound := r.Pick(6, 12)
	procsChoices := []int{1, 2, 4, 8, 16}
	rng := r.Rand("c23-sessions")
	var mu sync.Mutex
	kindTotals := map[string]int64{}
	stalled := 0
	for base := 0; base < sessions; base += perRound {
		procs := setProcs(procsChoices[rng.Intn(len(procsChoices))])
		var wg sync.WaitGroup
		for k := 0; k < perRound && base+k < sessions; k++ {
			idx := base + k
			cfg := randomCfg(rng)
			cfg.Procs = procs
			if rng.Intn(4) == 0 {
				// Receive windows above the 65535-byte data-block limit, so that a
				// single Write has to be split into several blocks by the sender
				// while the window itself does not cap them.
				cfg.Window = []int{128 << 10, 1 << 20}[rng.Intn(2)]
			}
			nStreams := 2 + rng.Intn(7)
			if rng.Intn(4) == 0 {
				nStreams = 2 + rng.Intn(63)
			}
			// Scale the volume to the window: a window of w bytes costs about one
			// carrier round trip per w bytes, and round trips are what takes time.
			roundTrips := 400 / nStreams
			if roundTrips < 8 {
				roundTrips = 8
			}
			budget := cfg.Window * roundTrips
			// ... and to the carrier: every byte through a carrier that hands out
			// one to three bytes at a time costs a goroutine hand-off.
			unit := minInt(minInt(cfg.Chunk, cfg.PipeCap), 16)
			if cap := minInt(2<<20, 150000*unit) / nStreams; budget > cap {
				budget = cap
			}
			srng := rand.New(rand.NewSource(rng.Int63()))
			fmt.Printf("case session=%d %s streams=%d budget=%d\n", idx, cfg, nStreams, budget)
			wg.Add(1)
			go func() {
				defer wg.Done()
				t0 := time.Now()
				res := runC23Session(r, idx, cfg, nStreams, budget, srng)
				fmt.Printf("done session=%d wall=%.1fs outcome=%s opened=%d rejected=%d bytes=%d eofs=%d\n", idx, time.Since(t0).Seconds(), res.Outcome, res.Opened, res.Rejected, res.Bytes, res.EOFs)
				mu.Lock()
				for k, v := range res.Wire.Messages {
					kindTotals[k] += v
				}
				if res.Outcome == "stalled" {
					stalled++
				}
				mu.Unlock()
				r.Count("streams", int64(res.Opened))
				r.Count("opens_rejected", res.Rejected)
				r.Count("sessions_"+res.Outcome, 1)
				for rule, n := range s2flags(res.Wire) {
					r.Count("wire_flag:"+rule, int64(n))
				}
				if res.Outcome == "completed" && res.Bytes > 0 {
					// Interleaving signature: the order of (sender, kind) of all
					// messages on the wire.
					r.Distinct("order:" + res.Wire.Order)
				}
				res.Wire.Flags = nil
				r.Sample(res)
			}()
		}
		wg.Wait()
		mu.Lock()
		st := stalled
		mu.Unlock()
		if st >= 3 {
			r.Note("stopped_early", "three sessions stalled; remaining sessions skipped")
			break
		}
		if r.Violations() >= 60 {
			r.Note("stopped_early", "60 violations recorded; remaining sessions skipped")
			break
		}
	}
	setProcs(16)
	r.Note("messages_by_kind", kindTotals)
	r.Assume("the carrier is an in-memory duplex byte queue written for this monitor (random fragmentation, bounded capacity, scheduling noise); it never loses, duplicates or reorders bytes")
	r.Assume("a multiplexer going down or a session making no progress for 10 s under a healthy control heartbeat is reported here as well, because the bytes written can then not be read")
	r.Finish("sessions of two real multiplexers over a harness carrier; per session 2..64 streams opened from both sides by 1..3 goroutines each, per stream direction a position-derived pattern, random write sizes 0..200 KiB, read buffers 1..100 KiB, CloseWrite/Close by the writer, early Close by the reader or by a third goroutine, near deadlines with retry, single Writes larger than the send window under a deadline that expires mid-write (the writer resumes from the returned count), Reads with nil/empty buffers interleaved while data is buffered; carrier reads fragmented at 1, 2, 3, 7, 17, 512 bytes or unfragmented; receive windows {1,7,64,1024,65535} and, in a quarter of the sessions, 128 KiB or 1 MiB with single Writes above 65535 bytes; volumes scaled to the receive window; GOMAXPROCS varied per round of sessions. evaluations = stream directions judged; a session is non-trivial if it completed and moved data; distinct = distinct hashes of the order of (sender, message kind) on the wire", 10)
}

func s2flags(w wireSummary) map[string]int {
	out := map[string]int{}
	for _, f := range w.Flags {
		out[f.Rule]++
	}
	return out
}
