package main

import (
	"context"
	"fmt"
	"math/rand"
	"os"
	"sort"
	"strings"
	"sync"
	"sync/atomic"
	"time"

	"github.com/mutagen-io/mutagen/pkg/multiplexing"

	"verif/internal/vk"
)

// C24: two multiplexers driven only through their public API never tear each
// other down and never put a forbidden message on the wire.

type opRec struct {
	Side   int    `json:"side"`
	Actor  int    `json:"actor"`
	Op     string `json:"op"`
	Stream uint64 `json:"stream,omitempty"`
	Arg    string `json:"arg,omitempty"`
	Result string `json:"result"`
}

// c24Session holds the shared state of one program run.
type c24Session struct {
	s       *session
	mu      sync.Mutex
	streams [2][]*multiplexing.Stream
	log     []opRec
	pairs   map[string]int // "op:result" counts

	inflightMu sync.Mutex
	inflight   map[int64]*flight
	nextFlight int64
	stuck      atomic.Int64
}

type flight struct {
	st     *multiplexing.Stream
	read   bool
	since  time.Time
	kicked time.Time
	what   string
}

func (c *c24Session) record(side, actor int, op string, id uint64, arg, result string) {
	c.mu.Lock()
	if len(c.log) < 4000 {
		c.log = append(c.log, opRec{side, actor, op, id, arg, result})
	}
	c.pairs[op+":"+result]++
	c.mu.Unlock()
}

func (c *c24Session) addStream(side int, st *multiplexing.Stream) {
	c.mu.Lock()
	c.streams[side] = append(c.streams[side], st)
	c.mu.Unlock()
}

func (c *c24Session) pick(side int, rng *rand.Rand) *multiplexing.Stream {
	c.mu.Lock()
	defer c.mu.Unlock()
	n := len(c.streams[side])
	if n == 0 {
		return nil
	}
	if rng.Intn(2) == 0 { // prefer recent streams
		k := n - 1 - rng.Intn(minInt(n, 3))
		return c.streams[side][k]
	}
	return c.streams[side][rng.Intn(n)]
}

// blocking runs a call that may block and registers it with the rescuer.
func (c *c24Session) blocking(st *multiplexing.Stream, read bool, what string, f func()) {
	c.inflightMu.Lock()
	c.nextFlight++
	id := c.nextFlight
	c.inflight[id] = &flight{st: st, read: read, since: time.Now(), what: what}
	c.inflightMu.Unlock()
	f()
	c.inflightMu.Lock()
	delete(c.inflight, id)
	c.inflightMu.Unlock()
}

// rescuer ends calls that would otherwise wait for ever, using the public API
// only: it sets an expired deadline from another goroutine.
func (c *c24Session) rescuer(stop <-chan struct{}) {
	t := time.NewTicker(5 * time.Millisecond)
	defer t.Stop()
	for {
		select {
		case <-stop:
			return
		case <-t.C:
		}
		now := time.Now()
		var kick []*flight
		c.inflightMu.Lock()
		for _, f := range c.inflight {
			if now.Sub(f.since) > 30*time.Millisecond && now.Sub(f.kicked) > 50*time.Millisecond {
				f.kicked = now
				kick = append(kick, f)
			}
		}
		c.inflightMu.Unlock()
		for _, f := range kick {
			if f.read {
				f.st.SetReadDeadline(time.Now().Add(-time.Second))
			} else {
				f.st.SetWriteDeadline(time.Now().Add(-time.Second))
			}
		}
	}
}

func (c *c24Session) oldestFlight() (time.Time, string) {
	c.inflightMu.Lock()
	defer c.inflightMu.Unlock()
	var oldest time.Time
	var what string
	for _, f := range c.inflight {
		if oldest.IsZero() || f.since.Before(oldest) {
			oldest, what = f.since, f.what
		}
	}
	return oldest, what
}

func deadlineArg(rng *rand.Rand) (time.Time, string) {
	switch rng.Intn(4) {
	case 0:
		return time.Now().Add(-time.Second), "past"
	case 1:
		return time.Now().Add(time.Duration(1+rng.Intn(15)) * time.Millisecond), "near"
	case 2:
		return time.Now().Add(time.Hour), "far"
	}
	return time.Time{}, "zero"
}

func sizeArg(rng *rand.Rand, window int, zeroBias int) int {
	if rng.Intn(100) < zeroBias {
		return 0
	}
	switch rng.Intn(5) {
	case 0:
		return 1
	case 1:
		return 1 + rng.Intn(64)
	case 2:
		return 1 + rng.Intn(4096)
	case 3:
		return 1 + rng.Intn(minInt(64<<10, window*8+16))
	}
	return 1 + rng.Intn(minInt(64<<10, window+1))
}

// actor runs one random program of public API calls on one side.
func (c *c24Session) actor(side, actor, length int, rng *rand.Rand, zeroReads bool) {
	m := c.s.mux[side]
	window := c.s.cfg.Window
	buf := make([]byte, 64<<10)
	for i := 0; i < length; i++ {
		if isClosedChan(m.Closed()) {
			c.record(side, actor, "stop", 0, "", "multiplexer-closed")
			return
		}
		switch w := rng.Intn(100); {
		case w < 10: // open
			var ctx context.Context
			var cancel context.CancelFunc
			arg := "timeout"
			if rng.Intn(5) == 0 {
				ctx, cancel = context.WithCancel(context.Background())
				cancel()
				arg = "cancelled"
			} else {
				ctx, cancel = context.WithTimeout(context.Background(), time.Duration(1+rng.Intn(25))*time.Millisecond)
			}
			st, err := m.OpenStream(ctx)
			cancel()
			var id uint64
			if err == nil {
				id = streamID(st)
				c.addStream(side, st)
			}
			c.record(side, actor, "open", id, arg, errClass(err))
		case w < 22: // accept
			var ctx context.Context
			var cancel context.CancelFunc
			arg := "timeout"
			if rng.Intn(6) == 0 {
				ctx, cancel = context.WithCancel(context.Background())
				cancel()
				arg = "cancelled"
			} else {
				ctx, cancel = context.WithTimeout(context.Background(), time.Duration(1+rng.Intn(25))*time.Millisecond)
			}
			st, err := m.AcceptStream(ctx)
			cancel()
			var id uint64
			if err == nil {
				id = streamID(st)
				c.addStream(side, st)
			}
			c.record(side, actor, "accept", id, arg, errClass(err))
		case w < 45: // read
			st := c.pick(side, rng)
			if st == nil {
				continue
			}
			zb := 0
			if zeroReads {
				zb = 18
			}
			size := sizeArg(rng, window, zb)
			if rng.Intn(2) == 0 {
				st.SetReadDeadline(time.Now().Add(time.Duration(1+rng.Intn(10)) * time.Millisecond))
			}
			var n int
			var err error
			c.blocking(st, true, fmt.Sprintf("side %d Read(%d) stream %d", side, size, streamID(st)), func() { n, err = st.Read(buf[:size]) })
			res := errClass(err)
			if n > 0 {
				res += "+data"
			}
			arg := "n>0"
			if size == 0 {
				arg = "zero-length"
			}
			c.record(side, actor, "read", streamID(st), arg, res)
		case w < 68: // write
			st := c.pick(side, rng)
			if st == nil {
				continue
			}
			size := sizeArg(rng, window, 10)
			if rng.Intn(2) == 0 {
				st.SetWriteDeadline(time.Now().Add(time.Duration(1+rng.Intn(10)) * time.Millisecond))
			}
			var n int
			var err error
			c.blocking(st, false, fmt.Sprintf("side %d Write(%d) stream %d", side, size, streamID(st)), func() { n, err = st.Write(buf[:size]) })
			res := errClass(err)
			if err != nil && n > 0 {
				res += "+partial"
			}
			arg := "n>0"
			if size == 0 {
				arg = "zero-length"
			}
			c.record(side, actor, "write", streamID(st), arg, res)
		case w < 73:
			if st := c.pick(side, rng); st != nil {
				c.record(side, actor, "close-write", streamID(st), "", errClass(st.CloseWrite()))
			}
		case w < 78:
			if st := c.pick(side, rng); st != nil {
				c.record(side, actor, "close", streamID(st), "", errClass(st.Close()))
			}
		case w < 92:
			st := c.pick(side, rng)
			if st == nil {
				continue
			}
			t, arg := deadlineArg(rng)
			var err error
			var op string
			switch rng.Intn(3) {
			case 0:
				op, err = "set-deadline", st.SetDeadline(t)
			case 1:
				op, err = "set-read-deadline", st.SetReadDeadline(t)
			default:
				op, err = "set-write-deadline", st.SetWriteDeadline(t)
			}
			res := "nil"
			if err != nil {
				res = "error"
			}
			c.record(side, actor, op, streamID(st), arg, res)
		default:
			time.Sleep(time.Duration(rng.Intn(1500)) * time.Microsecond)
		}
	}
}

// verdict checks what C24 demands after a program has quiesced: both
// multiplexers alive, nothing flagged on the wire; then closes explicitly and
// checks that an explicit close reports no internal error.
func (c *c24Session) verdict(r *vk.Run, label string, detail any, closeFirst int) (held bool) {
	s := c.s
	s.mon.quiesce(300 * time.Millisecond)
	held = true
	witness := func() map[string]any {
		c.mu.Lock()
		logCopy := append([]opRec(nil), c.log...)
		c.mu.Unlock()
		if len(logCopy) > 400 {
			logCopy = logCopy[len(logCopy)-400:]
		}
		return map[string]any{"case": label, "config": s.cfg, "detail": detail, "wire": s.mon.summary(true), "calls_tail": logCopy}
	}
	if ok, errs, closed := s.alive(); !ok {
		side, cause, text := s.rootCause()
		w := witness()
		w["internal_errors"] = errs
		w["closed"] = closed
		r.Violation(map[string]string{"rule": "teardown", "cause": cause},
			fmt.Sprintf("%s (%s): multiplexer of side %d is down after a program of public API calls, nothing was closed explicitly and the carrier is intact: %q", label, s.cfg, side, text), w)
		held = false
	}
	flags := s.mon.flagged()
	rules := make([]string, 0, len(flags))
	for rule := range flags {
		rules = append(rules, rule)
	}
	sort.Strings(rules)
	for _, rule := range rules {
		var first wireFlag
		for _, f := range s.mon.summary(false).Flags {
			if f.Rule == rule {
				first = f
				break
			}
		}
		r.Violation(map[string]string{"rule": "wire", "cause": rule},
			fmt.Sprintf("%s (%s): side %d sent a message the protocol forbids: %s on stream %d (%s) %s", label, s.cfg, first.Sender, rule, first.Stream, first.Kind, first.Detail), witness())
		held = false
	}
	// Explicit close.
	if held {
		first := s.mux[closeFirst]
		first.Close()
		if e := first.InternalError(); e != nil {
			r.Violation(map[string]string{"rule": "explicit-close", "cause": teardownCause(e)},
				fmt.Sprintf("%s (%s): explicit Close of a healthy multiplexer reports internal error %q", label, s.cfg, errText(e)), witness())
			held = false
		} else if !isClosedChan(first.Closed()) {
			r.Violation(map[string]string{"rule": "explicit-close", "cause": "closed-channel-not-closed"},
				fmt.Sprintf("%s (%s): Multiplexer.Close returned but the channel returned by Closed() is still open", label, s.cfg), witness())
			held = false
		}
		second := s.mux[1-closeFirst]
		second.Close()
		if !s.cfg.Propagate {
			if e := second.InternalError(); e != nil {
				r.Violation(map[string]string{"rule": "explicit-close", "cause": teardownCause(e)},
					fmt.Sprintf("%s (%s): explicit Close of a healthy multiplexer reports internal error %q", label, s.cfg, errText(e)), witness())
				held = false
			}
		}
	}
	s.shutdown()
	return
}

func newC24Session(cfg sessCfg, seed int64) *c24Session {
	return &c24Session{s: newSession(cfg, seed), pairs: map[string]int{}, inflight: map[int64]*flight{}}
}

// runProgram runs one random session: several actors per side.
func runProgram(r *vk.Run, idx int, cfg sessCfg, rng *rand.Rand, pairTotals *sync.Map) {
	c := newC24Session(cfg, rng.Int63())
	zeroReads := true
	actors := 1 + rng.Intn(3)
	length := 15 + rng.Intn(50)
	stop := make(chan struct{})
	go c.rescuer(stop)
	var wg sync.WaitGroup
	for side := 0; side < 2; side++ {
		for a := 0; a < actors; a++ {
			wg.Add(1)
			arng := rand.New(rand.NewSource(rng.Int63()))
			go func(side, a int) {
				defer wg.Done()
				c.actor(side, a, length, arng, zeroReads)
			}(side, a)
		}
	}
	done := make(chan struct{})
	go func() { wg.Wait(); close(done) }()
	stuck := false
	tick := time.NewTicker(100 * time.Millisecond)
wait:
	for {
		select {
		case <-done:
			break wait
		case <-tick.C:
			if since, what := c.oldestFlight(); !since.IsZero() && time.Since(since) > hangBound {
				stuck = true
				fmt.Printf("stuck program=%d: %s outstanding for %s (heartbeat max gap %s)\n%s\n", idx, what, time.Since(since), hb.maxGap(since), goroutineDump())
				break wait
			}
		}
	}
	tick.Stop()
	close(stop)
	label := fmt.Sprintf("program %d (%d actors per side, %d calls each)", idx, actors, length)
	if stuck {
		// Not C24's concern (C25 decides hangs); the program cannot be judged.
		r.Inconclusive("a call of a random program did not return (see log)")
		c.s.shutdown()
		return
	}
	held := c.verdict(r, label, nil, rng.Intn(2))
	r.Eval(2 * actors)
	c.mu.Lock()
	keys := make([]string, 0, len(c.pairs))
	for k, v := range c.pairs {
		keys = append(keys, k)
		n, _ := pairTotals.LoadOrStore(k, new(atomic.Int64))
		n.(*atomic.Int64).Add(int64(v))
	}
	sample := append([]opRec(nil), c.log[:minInt(len(c.log), 25)]...)
	c.mu.Unlock()
	sort.Strings(keys)
	if held {
		r.Distinct(strings.Join(keys, ","))
	}
	sum := c.s.mon.summary(false)
	for k, v := range sum.Messages {
		r.Count("messages:"+k, v)
	}
	r.Count("stream_identifiers", int64(sum.Streams))
	if idx < 2 {
		r.Sample(map[string]any{"program": idx, "config": cfg, "actors_per_side": actors, "calls_per_actor": length, "first_calls": sample, "outcomes": keys})
	}
}

// ---------------------------------------------------------------------------
// Directed programs: the degenerate calls, one at a time.

type directed struct {
	name string
	run  func(c *c24Session, rng *rand.Rand) string // returns a note ("" if it ran as intended)
}

func ctxT(d time.Duration) (context.Context, context.CancelFunc) {
	return context.WithTimeout(context.Background(), d)
}

// connect opens a stream from side `from` and accepts it on the other side.
// Streams accepted on the way that are not the one just opened (leftovers of
// cancelled opens) are closed.
func (c *c24Session) connect(from int) (a, b *multiplexing.Stream, err error) {
	accepted := make(chan *multiplexing.Stream, 64)
	actx, acancel := ctxT(20 * time.Second)
	defer acancel()
	go func() {
		defer close(accepted)
		for {
			st, err := c.s.mux[1-from].AcceptStream(actx)
			if err != nil {
				return
			}
			accepted <- st
		}
	}()
	ctx, cancel := ctxT(20 * time.Second)
	defer cancel()
	for tries := 0; ; tries++ {
		a, err = c.s.mux[from].OpenStream(ctx)
		if err != nil && errClass(err) == "rejected" && tries < 200 {
			// The backlog still holds leftovers of cancelled opens.
			c.record(from, 0, "open", 0, "retry", "rejected")
			time.Sleep(time.Millisecond)
			continue
		}
		break
	}
	if err != nil {
		return nil, nil, err
	}
	id := streamID(a)
	for st := range accepted {
		if streamID(st) == id {
			acancel()
			c.record(from, 0, "open", id, "", "nil")
			c.record(1-from, 0, "accept", id, "", "nil")
			return a, st, nil
		}
		c.record(1-from, 0, "accept", streamID(st), "leftover", "nil")
		st.Close()
	}
	return nil, nil, fmt.Errorf("opened stream %d was never accepted", id)
}

func (c *c24Session) call(side int, op string, st *multiplexing.Stream, arg string, n int, err error) {
	res := errClass(err)
	if n > 0 {
		res += fmt.Sprintf("+%d", n)
	}
	c.record(side, 0, op, streamID(st), arg, res)
}

func directedPrograms() []directed {
	return []directed{
		{"zero-length-read-with-buffered-data", func(c *c24Session, rng *rand.Rand) string {
			a, b, err := c.connect(0)
			if err != nil {
				return "connect: " + err.Error()
			}
			k := minInt(2, c.s.cfg.Window)
			if k < 2 {
				// A window of one byte: one byte is all that can be buffered.
				n, err := a.Write([]byte{1})
				c.call(0, "write", a, "1", n, err)
				ok, _ := c.s.mon.await(5*time.Second, func(m *wireMon) bool { return m.payload[phDelivered][0] >= 1 })
				if !ok {
					return "data never delivered"
				}
				time.Sleep(2 * time.Millisecond)
			} else {
				n, err := a.Write([]byte{1, 2})
				c.call(0, "write", a, "2", n, err)
				one := make([]byte, 1)
				n, err = b.Read(one)
				c.call(1, "read", b, "1", n, err)
			}
			b.SetReadDeadline(time.Now().Add(2 * time.Second))
			n, err := b.Read([]byte{})
			c.call(1, "read", b, "zero-length", n, err)
			return ""
		}},
		{"zero-length-read-without-data", func(c *c24Session, rng *rand.Rand) string {
			_, b, err := c.connect(1)
			if err != nil {
				return "connect: " + err.Error()
			}
			b.SetReadDeadline(time.Now().Add(5 * time.Millisecond))
			n, err := b.Read(nil)
			c.call(0, "read", b, "zero-length", n, err)
			return ""
		}},
		{"zero-length-write-half-close-read-after-eof", func(c *c24Session, rng *rand.Rand) string {
			a, b, err := c.connect(0)
			if err != nil {
				return "connect: " + err.Error()
			}
			n, err := a.Write(nil)
			c.call(0, "write", a, "zero-length", n, err)
			c.call(0, "close-write", a, "", 0, a.CloseWrite())
			n, err = a.Write([]byte{1})
			c.call(0, "write", a, "after-close-write", n, err)
			buf := make([]byte, 8)
			for i := 0; i < 3; i++ {
				b.SetReadDeadline(time.Now().Add(5 * time.Second))
				n, err = b.Read(buf)
				c.call(1, "read", b, "after-eof", n, err)
			}
			n, err = b.Write([]byte{7})
			c.call(1, "write", b, "1", n, err)
			a.SetReadDeadline(time.Now().Add(5 * time.Second))
			n, err = a.Read(buf)
			c.call(0, "read", a, "8", n, err)
			c.call(0, "close-write", a, "again", 0, a.CloseWrite())
			c.call(0, "close", a, "", 0, a.Close())
			c.call(0, "close", a, "again", 0, a.Close())
			return ""
		}},
		{"write-after-remote-close", func(c *c24Session, rng *rand.Rand) string {
			a, b, err := c.connect(1)
			if err != nil {
				return "connect: " + err.Error()
			}
			id := streamID(a)
			c.call(1, "close", a, "", 0, a.Close())
			ok, _ := c.s.mon.await(5*time.Second, func(m *wireMon) bool { st := m.streams[id]; return st != nil && st.side[0].closeSeen })
			if !ok {
				return "close never delivered"
			}
			time.Sleep(time.Millisecond)
			for i := 0; i < 2; i++ {
				b.SetWriteDeadline(time.Now().Add(50 * time.Millisecond))
				n, err := b.Write(make([]byte, 1+c.s.cfg.Window*2))
				c.call(0, "write", b, "after-remote-close", n, err)
			}
			b.SetReadDeadline(time.Now().Add(time.Second))
			n, err := b.Read(make([]byte, 4))
			c.call(0, "read", b, "after-remote-close", n, err)
			n, err = a.Read(make([]byte, 4))
			c.call(1, "read", a, "after-close", n, err)
			n, err = a.Write([]byte{1})
			c.call(1, "write", a, "after-close", n, err)
			c.record(1, 0, "set-deadline", id, "after-close", errClass(a.SetDeadline(time.Now())))
			c.call(0, "close-write", b, "after-remote-close", 0, b.CloseWrite())
			c.call(0, "close", b, "", 0, b.Close())
			return ""
		}},
		{"cancelled-open-then-open", func(c *c24Session, rng *rand.Rand) string {
			ctx, cancel := context.WithCancel(context.Background())
			cancel()
			for i := 0; i < 3; i++ {
				st, err := c.s.mux[0].OpenStream(ctx)
				c.record(0, 0, "open", 0, "cancelled", errClass(err))
				if st != nil {
					st.Close()
				}
			}
			st, err := c.s.mux[1].AcceptStream(ctx)
			c.record(1, 0, "accept", 0, "cancelled", errClass(err))
			if st != nil {
				st.Close()
			}
			a, b, err := c.connect(0)
			if err != nil {
				return "connect: " + err.Error()
			}
			n, err := a.Write([]byte{5})
			c.call(0, "write", a, "1", n, err)
			b.SetReadDeadline(time.Now().Add(5 * time.Second))
			n, err = b.Read(make([]byte, 2))
			c.call(1, "read", b, "2", n, err)
			return ""
		}},
		{"opens-beyond-backlog", func(c *c24Session, rng *rand.Rand) string {
			backlog := c.s.cfg.Backlog
			var wg sync.WaitGroup
			for i := 0; i < backlog+3; i++ {
				wg.Add(1)
				go func() {
					defer wg.Done()
					ctx, cancel := ctxT(60 * time.Millisecond)
					defer cancel()
					st, err := c.s.mux[0].OpenStream(ctx)
					c.record(0, 0, "open", 0, "never-accepted", errClass(err))
					if st != nil {
						c.addStream(0, st)
					}
				}()
				time.Sleep(time.Millisecond)
			}
			wg.Wait()
			for i := 0; i < backlog+1; i++ {
				ctx, cancel := ctxT(10 * time.Millisecond)
				st, err := c.s.mux[1].AcceptStream(ctx)
				cancel()
				c.record(1, 0, "accept", 0, "stale", errClass(err))
				if st != nil {
					st.SetReadDeadline(time.Now().Add(20 * time.Millisecond))
					n, err := st.Read(make([]byte, 1))
					c.call(1, "read", st, "stale", n, err)
					st.Close()
				}
			}
			_, _, err := c.connect(0)
			if err != nil {
				return "connect afterwards: " + err.Error()
			}
			return ""
		}},
		{"deadlines-past-zero-recover", func(c *c24Session, rng *rand.Rand) string {
			a, b, err := c.connect(0)
			if err != nil {
				return "connect: " + err.Error()
			}
			a.SetDeadline(time.Now().Add(-time.Hour))
			n, err := a.Write([]byte{1})
			c.call(0, "write", a, "past-deadline", n, err)
			n, err = a.Read(make([]byte, 1))
			c.call(0, "read", a, "past-deadline", n, err)
			n, err = a.Read(nil)
			c.call(0, "read", a, "zero-length,past-deadline", n, err)
			a.SetDeadline(time.Time{})
			n, err = a.Write([]byte{2})
			c.call(0, "write", a, "zero-deadline", n, err)
			b.SetReadDeadline(time.Now().Add(time.Hour))
			n, err = b.Read(make([]byte, 3))
			c.call(1, "read", b, "far-deadline", n, err)
			b.SetWriteDeadline(time.Now().Add(3 * time.Millisecond))
			n, err = b.Write(make([]byte, c.s.cfg.Window*3+5)) // more than the window: must time out
			c.call(1, "write", b, "near-deadline", n, err)
			return ""
		}},
		{"close-while-peer-writes", func(c *c24Session, rng *rand.Rand) string {
			a, b, err := c.connect(1)
			if err != nil {
				return "connect: " + err.Error()
			}
			done := make(chan struct{})
			go func() {
				defer close(done)
				a.SetWriteDeadline(time.Now().Add(3 * time.Second))
				n, err := a.Write(make([]byte, minInt(c.s.cfg.Window*6+10, 400<<10)))
				c.call(1, "write", a, "large", n, err)
			}()
			b.SetReadDeadline(time.Now().Add(time.Second))
			n, err := b.Read(make([]byte, 3))
			c.call(0, "read", b, "3", n, err)
			c.call(0, "close", b, "", 0, b.Close())
			<-done
			return ""
		}},
		{"concurrent-opens", func(c *c24Session, rng *rand.Rand) string {
			const goroutines, each = 10, 8
			stopAccept := make(chan struct{})
			var acc sync.WaitGroup
			acc.Add(1)
			go func() {
				defer acc.Done()
				for {
					ctx, cancel := ctxT(30 * time.Millisecond)
					st, err := c.s.mux[1].AcceptStream(ctx)
					cancel()
					if st != nil {
						c.record(1, 0, "accept", streamID(st), "", "nil")
						c.addStream(1, st)
					} else if errClass(err) == "mux-closed" {
						return
					}
					select {
					case <-stopAccept:
						return
					default:
					}
				}
			}()
			var wg sync.WaitGroup
			for g := 0; g < goroutines; g++ {
				wg.Add(1)
				go func(g int) {
					defer wg.Done()
					for i := 0; i < each; i++ {
						ctx, cancel := ctxT(2 * time.Second)
						st, err := c.s.mux[0].OpenStream(ctx)
						cancel()
						var id uint64
						if st != nil {
							id = streamID(st)
							c.addStream(0, st)
						}
						c.record(0, g, "open", id, "concurrent", errClass(err))
						if errClass(err) == "mux-closed" {
							return
						}
					}
				}(g)
			}
			wg.Wait()
			close(stopAccept)
			acc.Wait()
			return ""
		}},
		{"close-write-during-write", func(c *c24Session, rng *rand.Rand) string {
			for round := 0; round < 8; round++ {
				a, b, err := c.connect(round % 2)
				if err != nil {
					return "connect: " + err.Error()
				}
				var wg sync.WaitGroup
				wg.Add(3)
				go func() { // reader on the other side drains until EOF
					defer wg.Done()
					buf := make([]byte, 1+rng.Intn(512))
					b.SetReadDeadline(time.Now().Add(3 * time.Second))
					total := 0
					for {
						n, err := b.Read(buf)
						total += n
						if err != nil {
							c.call(1-round%2, "read", b, "drain", total, err)
							return
						}
					}
				}()
				size := minInt(c.s.cfg.Window*4+64, 24<<10)
				go func() {
					defer wg.Done()
					a.SetWriteDeadline(time.Now().Add(3 * time.Second))
					for i := 0; i < 4; i++ {
						n, err := a.Write(make([]byte, size))
						c.call(round%2, "write", a, "racing-close-write", n, err)
						if err != nil {
							return
						}
					}
				}()
				go func() {
					defer wg.Done()
					time.Sleep(time.Duration(round*150) * time.Microsecond)
					c.call(round%2, "close-write", a, "during-write", 0, a.CloseWrite())
				}()
				wg.Wait()
				a.Close()
				b.Close()
			}
			return ""
		}},
		{"deadline-set-by-another-goroutine", func(c *c24Session, rng *rand.Rand) string {
			a, _, err := c.connect(0)
			if err != nil {
				return "connect: " + err.Error()
			}
			done := make(chan struct{})
			go func() {
				defer close(done)
				n, err := a.Read(make([]byte, 4))
				c.call(0, "read", a, "blocked", n, err)
				n, err = a.Read(nil)
				c.call(0, "read", a, "zero-length,expired", n, err)
			}()
			time.Sleep(2 * time.Millisecond)
			a.SetReadDeadline(time.Now().Add(2 * time.Millisecond))
			select {
			case <-done:
			case <-time.After(hangBound):
				return "blocked read did not return after its deadline was set by another goroutine"
			}
			return ""
		}},
	}
}

func c24() {
	r := vk.Start("C24", "exploration")
	var pairTotals sync.Map
	rng := r.Rand("c24")

	// Directed programs under several configurations.
	setProcs(8)
	dirs := directedPrograms()
	type dcase struct {
		d   directed
		cfg sessCfg
	}
	var dcases []dcase
	for _, d := range dirs {
		if only := os.Getenv("VERIF_MUX_ONLY"); only != "" && only != d.name {
			continue
		}
		for _, win := range []int{1, 7, 65535} {
			for _, wbc := range []int{1, 5} {
				cfg := randomCfg(rng)
				cfg.Window, cfg.WBC = win, wbc
				cfg.Backlog = []int{1, 2}[rng.Intn(2)]
				cfg.Propagate = rng.Intn(2) == 0
				cfg.CloseFail = rng.Intn(3) == 0
				cfg.Procs = 8
				dcases = append(dcases, dcase{d, cfg})
			}
		}
	}
	var wg sync.WaitGroup
	sem := make(chan struct{}, 6)
	for i, dc := range dcases {
		wg.Add(1)
		sem <- struct{}{}
		seed := rng.Int63()
		fmt.Printf("case directed=%s %s\n", dc.d.name, dc.cfg)
		go func(i int, dc dcase) {
			defer wg.Done()
			defer func() { <-sem }()
			c := newC24Session(dc.cfg, seed)
			note := dc.d.run(c, rand.New(rand.NewSource(seed)))
			if note != "" {
				fmt.Printf("note directed=%s: %s\n%s\n", dc.d.name, note, vk.JSON(c.s.mon.summary(true).Recent))
				r.Count("directed_notes", 1)
			}
			c.mu.Lock()
			calls := append([]opRec(nil), c.log...)
			for k, v := range c.pairs {
				n, _ := pairTotals.LoadOrStore(k, new(atomic.Int64))
				n.(*atomic.Int64).Add(int64(v))
			}
			c.mu.Unlock()
			held := c.verdict(r, "directed program "+dc.d.name, calls, i%2)
			r.Eval(1)
			r.Count("directed_programs", 1)
			if held {
				r.Distinct(fmt.Sprintf("directed|%s|%d|%d", dc.d.name, dc.cfg.Window, dc.cfg.WBC))
			}
			if i%6 == 0 && i < 30 {
				r.Sample(map[string]any{"directed": dc.d.name, "config": dc.cfg, "calls": calls})
			}
		}(i, dc)
	}
	wg.Wait()

	// Random programs.
	programs := r.Pick(110, 6000)
	if os.Getenv("VERIF_MUX_ONLY") != "" {
		programs = 0
	}
	perRound := r.Pick(10, 24)
	procsChoices := []int{1, 2, 4, 8, 16}
	for base := 0; base < programs; base += perRound {
		procs := setProcs(procsChoices[rng.Intn(len(procsChoices))])
		var wg sync.WaitGroup
		for k := 0; k < perRound && base+k < programs; k++ {
			idx := base + k
			cfg := randomCfg(rng)
			cfg.Procs = procs
			cfg.Propagate = rng.Intn(2) == 0
			cfg.CloseFail = rng.Intn(3) == 0
			prng := rand.New(rand.NewSource(rng.Int63()))
			fmt.Printf("case program=%d %s\n", idx, cfg)
			wg.Add(1)
			go func() {
				defer wg.Done()
				runProgram(r, idx, cfg, prng, &pairTotals)
				r.Count("random_sessions", 1)
			}()
		}
		wg.Wait()
		if r.Violations() > 40 {
			r.Note("stopped_early", "more than 40 violations; remaining programs skipped")
			break
		}
	}
	setProcs(16)
	outcomes := map[string]int64{}
	pairTotals.Range(func(k, v any) bool { outcomes[k.(string)] = v.(*atomic.Int64).Load(); return true })
	r.Note("call_outcomes", outcomes)
	r.Assume("a program is conforming if it uses only exported methods of Multiplexer and Stream, from any number of goroutines; calls that would wait for ever are ended by an expired deadline set from another goroutine (also a public call)")
	r.Assume("heartbeat reception is not required in these sessions, so machine load cannot cause a teardown")
	r.Finish("directed programs (one degenerate call pattern each: zero-length reads with and without buffered data, zero-length writes, reads after EOF, writes after remote close, cancelled opens, opens beyond the backlog, past/zero deadlines, close under load, concurrent opens, deadline set by another goroutine) under windows {1,7,65535} x write buffers {1,5}, then random programs: 1..3 goroutines per side each issuing 15..64 random calls (open/accept with timeouts or cancelled contexts, Read with buffers 0..64 KiB, Write 0..64 KiB, CloseWrite, Close, Set*Deadline past/near/far/zero); after the wire is quiet both multiplexers must be alive with nil InternalError and the independent wire monitor must have flagged nothing, then explicit Close must leave InternalError nil. evaluations = programs (one per actor goroutine, one per directed case); distinct = distinct sets of (call, outcome) pairs per session that held", 20)
}
