package main

// C35 — closing an agent connection always terminates the agent (DESIGN §5 C35).
//
// The real transport.NewStream (with a non-nil standard error receiver, as
// agent.Dial passes one) wraps an exec.Cmd of this binary in role fake-agent.
// The agent announces READY on stdout once its signal disposition is installed,
// reports on stderr what it noticed (EOF on stdin, SIGTERM), and terminates
// according to one of four behaviours. Workload dimensions besides behaviour and
// delays:
//   - a descendant of the agent (role stderr-holder) that inherited the agent's
//     stderr and outlives it, like an ssh ControlMaster helper;
//   - a Write that is blocked on a full stdin pipe (agent not reading) at the
//     moment Close is called;
//   - a second Close issued while the first is still waiting for the agent;
//   - an agent that closes its stdout early but keeps running, with the stream
//     read to io.EOF before Close, or by a Read concurrent with Close.
//
// Every Close() must return (control-relative bound, DESIGN §1) and, when it
// returns, the agent process must be gone. Close latency is recorded, never judged.

import (
	"bytes"
	"fmt"
	"io"
	"os"
	"os/exec"
	"os/signal"
	"sort"
	"strconv"
	"strings"
	"sync"
	"syscall"
	"time"

	"github.com/mutagen-io/mutagen/pkg/agent/transport"

	"verif/internal/vk"
)

// ---------------------------------------------------------------- child roles

// stderrHolderMain is the agent's descendant: it keeps the inherited stderr open
// and outlives the agent (the monitor removes it when the case is over).
func stderrHolderMain() {
	signal.Ignore(syscall.SIGTERM, syscall.SIGHUP, syscall.SIGPIPE, syscall.SIGINT)
	time.Sleep(150 * time.Second)
	os.Exit(0)
}

// Behaviours: self (exits by itself after DELAY ms), stdin (exits DELAY ms after
// stdin reaches EOF), term (ignores stdin EOF, exits DELAY ms after SIGTERM),
// stubborn (ignores both).
func fakeAgentMain() {
	behaviour := os.Getenv("VERIF_C35_BEHAVIOUR")
	delayMs, _ := strconv.Atoi(os.Getenv("VERIF_C35_DELAY_MS"))
	delay := time.Duration(delayMs) * time.Millisecond
	note := func(s string) { os.Stderr.WriteString(s + "\n") }
	terms := make(chan os.Signal, 4)
	signal.Notify(terms, syscall.SIGTERM)
	signal.Ignore(syscall.SIGPIPE, syscall.SIGHUP)
	if os.Getenv("VERIF_C35_GRANDCHILD") == "1" {
		gc := exec.Command(selfBin())
		gc.Env = childEnv(roleEnv+"=stderr-holder", "VERIF_C35_GC_MARK="+os.Getenv("VERIF_C35_GC_MARK"))
		gc.Stderr = os.Stderr // inherited; stdin and stdout are /dev/null
		if err := gc.Start(); err == nil {
			os.Stdout.WriteString(fmt.Sprintf("GC %d\n", gc.Process.Pid))
			gc.Process.Release()
		} else {
			os.Stdout.WriteString("GC 0\n")
		}
	}
	eof := make(chan struct{})
	if os.Getenv("VERIF_C35_NOREAD") != "1" {
		go func() {
			buf := make([]byte, 4096)
			for {
				n, err := os.Stdin.Read(buf)
				if n > 0 {
					// echo, so the parent can check that the stream carries data
					os.Stdout.Write(buf[:n])
				}
				if err != nil {
					note("GOT-EOF")
					close(eof)
					return
				}
			}
		}()
	}
	os.Stdout.WriteString("READY\n")
	if os.Getenv("VERIF_C35_CLOSE_STDOUT") == "1" {
		// prints a line and closes its stdout, but keeps running: a Read on the stream sees io.EOF
		os.Stdout.WriteString("BYE\n")
		os.Stdout.Close()
		note("CLOSED-STDOUT")
	}
	switch behaviour {
	case "self":
		time.Sleep(delay)
		note("EXIT-SELF")
		os.Exit(0)
	case "stdin":
		for {
			select {
			case <-eof:
				time.Sleep(delay)
				note("EXIT-EOF")
				os.Exit(0)
			case <-terms:
				note("GOT-TERM")
			}
		}
	case "term":
		for {
			<-terms
			note("GOT-TERM")
			time.Sleep(delay)
			note("EXIT-TERM")
			os.Exit(0)
		}
	default: // stubborn
		for {
			<-terms
			note("GOT-TERM")
		}
	}
}

// ---------------------------------------------------------------- parent

type c35Case struct {
	Index         int    `json:"case"`
	Behaviour     string `json:"behaviour"`
	DelayMs       int    `json:"agent_delay_ms"`
	TermDelayMs   int    `json:"termination_delay_ms"`
	PendingRead   bool   `json:"pending_read"`
	WriteBytes    int    `json:"write_bytes"`
	CloseAtStart  bool   `json:"close_before_ready"`
	Grandchild    bool   `json:"descendant_holds_stderr"`
	BlockedWrite  bool   `json:"write_blocked_on_full_pipe"`
	SecondCloseMs int    `json:"second_close_after_ms"` // -1: a single Close
	CloseStdout   string `json:"agent_closes_stdout"`   // "" | "read-to-eof-before-close" | "concurrent-read"
}

type lockedBuffer struct {
	mu sync.Mutex
	b  bytes.Buffer
}

func (l *lockedBuffer) Write(p []byte) (int, error) {
	l.mu.Lock()
	defer l.mu.Unlock()
	return l.b.Write(p)
}
func (l *lockedBuffer) String() string {
	l.mu.Lock()
	defer l.mu.Unlock()
	return l.b.String()
}

// closeReturn is what one Close() call observed when it returned.
type closeReturn struct {
	Err     error
	Latency time.Duration
	State   string // /proc state of the agent pid at the moment of return
	Ours    bool   // the pid exists and is (still) a child of this process
	Exists  bool
	Reaped  bool
}

// killMarked kills the processes whose environment carries VERIF_C35_GC_MARK=mark.
// pid > 0 restricts the search to that process.
func killMarked(mark string, pid int) int {
	want := "VERIF_C35_GC_MARK=" + mark + "\x00"
	check := func(p int) bool {
		env, err := os.ReadFile(fmt.Sprintf("/proc/%d/environ", p))
		if err != nil || !strings.Contains(string(env)+"\x00", want) {
			return false
		}
		return syscall.Kill(p, syscall.SIGKILL) == nil
	}
	if pid > 0 {
		if check(pid) {
			return 1
		}
		return 0
	}
	n := 0
	ents, _ := os.ReadDir("/proc")
	for _, e := range ents {
		if p, err := strconv.Atoi(e.Name()); err == nil && p != os.Getpid() && check(p) {
			n++
		}
	}
	return n
}

func c35() {
	r := vk.Start("C35", "exploration")
	hb := startHeartbeat()
	defer hb.Stop()
	n := r.Pick(96, 480)
	rng := r.Rand("cases")
	behaviours := []string{"self", "stdin", "term", "stubborn"}
	cases := make([]c35Case, n)
	for i := range cases {
		c := c35Case{Index: i, Behaviour: behaviours[i%4], SecondCloseMs: -1}
		switch rng.Intn(4) {
		case 0:
			c.DelayMs = 0
		case 1:
			c.DelayMs = rng.Intn(50)
		case 2:
			c.DelayMs = 200 + rng.Intn(600)
		default:
			c.DelayMs = 900 + rng.Intn(400) // straddles the one-second escalation steps
		}
		if c.Behaviour == "self" && rng.Intn(3) == 0 {
			c.DelayMs = 2500 + rng.Intn(1500) // "exits by itself", but only after Close has escalated
		}
		switch rng.Intn(3) {
		case 0:
			c.TermDelayMs = 0
		case 1:
			c.TermDelayMs = rng.Intn(100)
		default:
			c.TermDelayMs = 300 + rng.Intn(500)
		}
		c.PendingRead = rng.Intn(2) == 0
		c.WriteBytes = []int{0, 1, 100, 5000}[rng.Intn(4)]
		c.CloseAtStart = rng.Intn(10) == 0
		// the three extra dimensions cycle deterministically so that every behaviour meets each of them
		block := (i / 4) % 8
		c.Grandchild = block == 1 || block == 4 || rng.Intn(6) == 0
		if (block == 2 || block == 4) && c.Behaviour != "stdin" {
			// the agent never reads its stdin; "exits when stdin closes" cannot be combined with that
			c.BlockedWrite, c.WriteBytes, c.CloseAtStart = true, 0, false
		}
		if block == 3 || block == 5 || rng.Intn(8) == 0 {
			c.SecondCloseMs = []int{0, 20, 300, 1100, 1900}[rng.Intn(5)] + rng.Intn(50)
		}
		if !c.BlockedWrite && (block == 6 || block == 7 || rng.Intn(10) == 0) {
			// the agent closes its stdout right after announcing itself and keeps running
			c.CloseStdout, c.WriteBytes, c.CloseAtStart = "read-to-eof-before-close", 0, false
			c.PendingRead = false
			if block == 7 || (block != 6 && rng.Intn(2) == 0) {
				c.CloseStdout, c.PendingRead = "concurrent-read", true
			}
		}
		cases[i] = c
	}
	const bound = 30 * time.Second // nominal worst case of Close: termination delay + 1 s + 1 s + kill
	r.Assume("Close is given 30 s (nominal worst case about 2.5 s); a missing return counts only if the heartbeat control shows no scheduling gap >= 1 s in that window")
	r.Assume("a zombie counts as exited (the property speaks of the process having exited)")
	r.Assume("descendants of the agent are outside the property (the code documents that it cannot terminate them); only the agent process itself must be gone")
	var latMu sync.Mutex
	latencies := map[string][]float64{}
	mark := r.Scratch()

	parallel(n, workerCount(), func(i int) {
		c := cases[i]
		fmt.Printf("case %d: %s\n", i, vk.JSON(c))
		cmd := exec.Command(selfBin())
		env := childEnv(roleEnv+"=fake-agent", "VERIF_C35_BEHAVIOUR="+c.Behaviour, fmt.Sprintf("VERIF_C35_DELAY_MS=%d", c.DelayMs), "VERIF_C35_GC_MARK="+mark)
		if c.Grandchild {
			env = append(env, "VERIF_C35_GRANDCHILD=1")
		}
		if c.BlockedWrite {
			env = append(env, "VERIF_C35_NOREAD=1")
		}
		if c.CloseStdout != "" {
			env = append(env, "VERIF_C35_CLOSE_STDOUT=1")
		}
		cmd.Env = env
		stderr := &lockedBuffer{}
		var st *transport.Stream
		var err error
		r.Guard(c, func() { st, err = transport.NewStream(cmd, stderr) })
		if st == nil || err != nil {
			r.Inconclusive("NewStream failed")
			return
		}
		if err := cmd.Start(); err != nil {
			r.Inconclusive("fake agent did not start")
			return
		}
		pid := cmd.Process.Pid
		gcPid := 0
		defer func() {
			if c.Grandchild {
				if gcPid > 0 {
					r.Count("descendants_removed", int64(killMarked(mark, gcPid)))
				}
			}
		}()
		r.Eval(1)
		ready := false
		if !c.CloseAtStart {
			// read the announcement lines byte by byte (nothing else may be consumed)
			var line []byte
			one := make([]byte, 1)
			for len(line) < 64 {
				if _, err := st.Read(one); err != nil {
					break
				}
				line = append(line, one[0])
				if one[0] != '\n' {
					continue
				}
				s := strings.TrimSpace(string(line))
				line = line[:0]
				if strings.HasPrefix(s, "GC ") {
					gcPid, _ = strconv.Atoi(strings.TrimPrefix(s, "GC "))
					if gcPid > 0 {
						r.Count("descendants_holding_stderr", 1)
					}
					continue
				}
				if s == "READY" {
					ready = true
				}
				break
			}
			if c.WriteBytes > 0 && ready {
				payload := bytes.Repeat([]byte{'x'}, c.WriteBytes)
				st.Write(payload)
				echo := make([]byte, c.WriteBytes)
				got := 0
				for got < len(echo) {
					k, err := st.Read(echo[got:])
					got += k
					if err != nil {
						break
					}
				}
				if got == len(echo) && bytes.Equal(echo, payload) {
					r.Count("echo_roundtrips", 1)
				}
			}
		}
		sawEOF := false
		if c.CloseStdout == "read-to-eof-before-close" && ready {
			// read the stream to its end BEFORE Close is called
			eofCh := make(chan error, 1)
			go func() {
				b := make([]byte, 64)
				for {
					if _, err := st.Read(b); err != nil {
						eofCh <- err
						return
					}
				}
			}()
			select {
			case err := <-eofCh:
				if err == io.EOF {
					sawEOF = true
					r.Count("stdout_eof_before_close:"+c.Behaviour, 1)
				}
			case <-time.After(20 * time.Second):
				r.Count("stdout_eof_not_seen_before_close", 1)
			}
		}
		if c.TermDelayMs > 0 {
			st.SetTerminationDelay(time.Duration(c.TermDelayMs) * time.Millisecond)
		}
		readReturned := make(chan struct{})
		if c.PendingRead {
			go func() {
				b := make([]byte, 16)
				for {
					if _, err := st.Read(b); err != nil {
						if err == io.EOF && c.CloseStdout != "" {
							r.Count("stdout_eof_in_concurrent_read:"+c.Behaviour, 1)
						}
						break
					}
				}
				close(readReturned)
			}()
		}
		writeReturned := make(chan int, 1)
		writeBlocked := false
		if c.BlockedWrite && ready {
			go func() {
				k, _ := st.Write(make([]byte, 256*1024)) // the pipe takes 64 KiB, nobody reads
				writeReturned <- k
			}()
			select {
			case <-writeReturned:
			case <-time.After(150 * time.Millisecond):
				writeBlocked = true
				r.Count("writes_blocked_when_close_was_called", 1)
			}
		}

		// One or two overlapping Close calls.
		nClose := 1
		if c.SecondCloseMs >= 0 {
			nClose = 2
		}
		t0 := time.Now()
		done := make([]chan closeReturn, nClose)
		for k := 0; k < nClose; k++ {
			done[k] = make(chan closeReturn, 1)
			go func(k int) {
				if k == 1 {
					time.Sleep(time.Duration(c.SecondCloseMs) * time.Millisecond)
				}
				start := time.Now()
				var cr closeReturn
				r.Guard(c, func() { cr.Err = st.Close() })
				state, ppid, exists := procState(pid) // one snapshot, taken as Close returns
				cr.State, cr.Exists = state, exists
				cr.Ours = exists && ppid == os.Getpid()
				cr.Reaped = !cr.Exists
				cr.Latency = time.Since(start)
				done[k] <- cr
			}(k)
		}
		returns := make([]*closeReturn, nClose)
		hung := false
		for k := 0; k < nClose && !hung; k++ {
			// control-relative watchdog: a window of `bound` counts only if the heartbeat shows no
			// scheduling gap >= 1 s inside it; otherwise another window is waited (at most five)
			for window := 0; window < 5 && returns[k] == nil && !hung; window++ {
				w0 := time.Now()
				select {
				case cr := <-done[k]:
					returns[k] = &cr
				case <-time.After(bound):
					gap := hb.MaxGapSince(w0)
					if gap >= time.Second {
						r.Count("watchdog_windows_discarded_unhealthy", 1)
						continue
					}
					state, _, alive := procState(pid)
					r.Violation(map[string]string{"rule": "close-did-not-return", "behaviour": c.Behaviour, "descendant": fmt.Sprint(c.Grandchild), "blocked_write": fmt.Sprint(writeBlocked), "stdout_closed": fmt.Sprint(c.CloseStdout != ""), "close_call": fmt.Sprint(k + 1)},
						fmt.Sprintf("Close() call %d of %d on the stream of a %q agent did not return within %v (heartbeat max gap in that window %v; agent process alive=%v state=%s; descendant holding stderr=%v; write blocked=%v)", k+1, nClose, c.Behaviour, time.Since(t0).Round(time.Second), gap, alive, state, c.Grandchild, writeBlocked),
						map[string]any{"case": c, "agent_stderr": stderr.String()})
					hung = true
				}
			}
			if returns[k] == nil && !hung {
				r.Inconclusive("Close did not return on an unhealthy machine")
				hung = true
			}
		}
		if hung {
			syscall.Kill(pid, syscall.SIGKILL)
			if gcPid > 0 {
				killMarked(mark, gcPid) // lets a Close that waits for the stderr copy finish
			}
			for k := range done {
				if returns[k] == nil {
					select {
					case <-done[k]:
					case <-time.After(10 * time.Second):
					}
				}
			}
			return
		}
		// Every Close that returned must have found the agent process gone.
		for k, cr := range returns {
			if cr.Ours && cr.State != "Z" {
				r.Violation(map[string]string{"rule": "process-alive-after-close", "behaviour": c.Behaviour, "close_call": fmt.Sprint(k + 1), "of": fmt.Sprint(nClose)},
					fmt.Sprintf("Close() call %d of %d returned (error %v) after %v but the %q agent process %d was still running (state %s)", k+1, nClose, cr.Err, cr.Latency, c.Behaviour, pid, cr.State),
					map[string]any{"case": c, "agent_stderr": stderr.String(), "latency_ms": cr.Latency.Milliseconds()})
			} else if cr.Ours {
				r.Count("exited_but_not_reaped_at_return", 1)
			}
			r.Count(fmt.Sprintf("close_call_%d_returns", k+1), 1)
		}
		if state, ppid, exists := procState(pid); exists && ppid == os.Getpid() && state != "Z" {
			syscall.Kill(pid, syscall.SIGKILL) // already reported above
		}
		if err := syscall.Kill(pid, 0); err == syscall.ESRCH {
			r.Count("kill0_esrch", 1)
		} else {
			r.Count("kill0_other", 1) // pid reuse by an unrelated process, or a zombie
		}
		how := "?"
		if cmd.ProcessState != nil {
			if ws, ok := cmd.ProcessState.Sys().(syscall.WaitStatus); ok {
				if ws.Signaled() {
					how = "signal:" + ws.Signal().String()
				} else {
					how = fmt.Sprintf("exit:%d", ws.ExitStatus())
				}
			}
		}
		if c.PendingRead {
			select {
			case <-readReturned:
				r.Count("pending_read_unblocked", 1)
			case <-time.After(5 * time.Second):
				r.Count("pending_read_still_blocked_5s_after_close", 1) // recorded only
			}
		}
		if writeBlocked {
			select {
			case <-writeReturned:
				r.Count("blocked_write_unblocked", 1)
			case <-time.After(5 * time.Second):
				r.Count("blocked_write_still_blocked_5s_after_close", 1) // recorded only
			}
		}
		// give the stderr forwarder a moment to drain (recorded coverage only)
		time.Sleep(10 * time.Millisecond)
		seen := stderr.String()
		var marks []string
		for _, m := range []string{"GOT-EOF", "GOT-TERM", "EXIT-SELF", "EXIT-EOF", "EXIT-TERM"} {
			if strings.Contains(seen, m) {
				marks = append(marks, m)
				r.Count("agent_"+m, 1)
			}
		}
		r.Count("ended:"+c.Behaviour+":"+how, 1)
		if gcPid > 0 {
			if _, _, alive := procState(gcPid); alive {
				r.Count("descendants_alive_after_close", 1) // expected: they outlive the agent
			}
			r.Count("descendant:"+c.Behaviour, 1)
		}
		if writeBlocked {
			r.Count("blocked_write:"+c.Behaviour, 1)
		}
		if nClose == 2 {
			r.Count("double_close:"+c.Behaviour, 1)
		}
		r.Distinct(strings.Join([]string{c.Behaviour, how, strings.Join(marks, "+"), bucket(c.DelayMs, 0, 100, 850, 1500), bucket(c.TermDelayMs, 0, 100), fmt.Sprint(c.PendingRead), fmt.Sprint(ready),
			fmt.Sprint(gcPid > 0), fmt.Sprint(writeBlocked), bucket(c.SecondCloseMs, -1, 100, 1000), c.CloseStdout, fmt.Sprint(sawEOF)}, "|"))
		latMu.Lock()
		latencies[c.Behaviour] = append(latencies[c.Behaviour], returns[0].Latency.Seconds())
		latMu.Unlock()
		errs := make([]string, len(returns))
		for k, cr := range returns {
			errs[k] = fmt.Sprint(cr.Err)
		}
		r.Sample(map[string]any{"case": c, "close_latency_ms": returns[0].Latency.Milliseconds(), "ended": how, "agent_saw": marks, "close_errors": errs})
	})
	// descendants of agents that were closed before they announced themselves
	r.Count("descendants_removed_by_final_scan", int64(killMarked(mark, 0)))
	lat := map[string]any{}
	for b, v := range latencies {
		sort.Float64s(v)
		lat[b] = map[string]any{"n": len(v), "min_s": v[0], "median_s": v[len(v)/2], "max_s": v[len(v)-1]}
	}
	r.Note("close_latency_recorded_not_judged", lat)
	r.Note("heartbeat_max_gap_ms", hb.Max().Milliseconds())
	// liveness of the sensors
	if r.Violations() == 0 {
		for _, need := range []string{"ended:stubborn:signal:killed", "descendant:stubborn", "descendant:self", "blocked_write:stubborn", "blocked_write:term", "double_close:stubborn", "close_call_2_returns",
			"stdout_eof_before_close:stubborn", "stdout_eof_before_close:term", "stdout_eof_before_close:self", "stdout_eof_before_close:stdin", "stdout_eof_in_concurrent_read:stubborn", "stdout_eof_in_concurrent_read:term"} {
			if r.Counter(need) == 0 {
				r.Inconclusive("workload dimension never reached: " + need)
				fmt.Println("ERROR: C35 never observed " + need)
			}
		}
	}
	r.Finish("one case = real transport.NewStream (with a stderr receiver) over a fake agent process (behaviour × agent delay × termination delay × pending Read × payload × descendant holding stderr × Write blocked on a full pipe × second overlapping Close), every Close() under the control-relative watchdog, /proc state of the agent at each return; distinct = (behaviour, how the agent ended, what the agent noticed, delay buckets, pending read, descendant, blocked write, second-close delay bucket)", r.Pick(12, 20))
}
