package main

// C35 — closing an agent connection always terminates the agent (DESIGN §5 C35).
//
// The real transport.NewStream wraps an exec.Cmd of this binary in role
// fake-agent. The agent announces READY on stdout once its signal disposition is
// installed, reports on stderr what it noticed (EOF on stdin, SIGTERM), and
// terminates according to one of four behaviours. Close() must return
// (control-relative bound, DESIGN §1) and the process must be gone afterwards.
// Close latency is recorded, never judged.

import (
	"bytes"
	"fmt"
	"io"
	"os"
	"os/exec"
	"os/signal"
	"sort"
	"strconv"
	"strings"
	"sync"
	"syscall"
	"time"

	"github.com/mutagen-io/mutagen/pkg/agent/transport"

	"verif/internal/vk"
)

// ---------------------------------------------------------------- child role

// Behaviours: self (exits by itself after DELAY ms), stdin (exits DELAY ms after
// stdin reaches EOF), term (ignores stdin EOF, exits DELAY ms after SIGTERM),
// stubborn (ignores both).
func fakeAgentMain() {
	behaviour := os.Getenv("VERIF_C35_BEHAVIOUR")
	delayMs, _ := strconv.Atoi(os.Getenv("VERIF_C35_DELAY_MS"))
	delay := time.Duration(delayMs) * time.Millisecond
	note := func(s string) { os.Stderr.WriteString(s + "\n") }
	terms := make(chan os.Signal, 4)
	signal.Notify(terms, syscall.SIGTERM)
	signal.Ignore(syscall.SIGPIPE, syscall.SIGHUP)
	eof := make(chan struct{})
	go func() {
		buf := make([]byte, 4096)
		for {
			n, err := os.Stdin.Read(buf)
			if n > 0 {
				// echo, so the parent can check that the stream carries data
				os.Stdout.Write(buf[:n])
			}
			if err != nil {
				note("GOT-EOF")
				close(eof)
				return
			}
		}
	}()
	os.Stdout.WriteString("READY\n")
	switch behaviour {
	case "self":
		time.Sleep(delay)
		note("EXIT-SELF")
		os.Exit(0)
	case "stdin":
		for {
			select {
			case <-eof:
				time.Sleep(delay)
				note("EXIT-EOF")
				os.Exit(0)
			case <-terms:
				note("GOT-TERM")
			}
		}
	case "term":
		for {
			<-terms
			note("GOT-TERM")
			time.Sleep(delay)
			note("EXIT-TERM")
			os.Exit(0)
		}
	default: // stubborn
		for {
			<-terms
			note("GOT-TERM")
		}
	}
}

// ---------------------------------------------------------------- parent

type c35Case struct {
	Index        int    `json:"case"`
	Behaviour    string `json:"behaviour"`
	DelayMs      int    `json:"agent_delay_ms"`
	TermDelayMs  int    `json:"termination_delay_ms"`
	PendingRead  bool   `json:"pending_read"`
	WriteBytes   int    `json:"write_bytes"`
	CloseAtStart bool   `json:"close_before_ready"`
}

type lockedBuffer struct {
	mu sync.Mutex
	b  bytes.Buffer
}

func (l *lockedBuffer) Write(p []byte) (int, error) {
	l.mu.Lock()
	defer l.mu.Unlock()
	return l.b.Write(p)
}
func (l *lockedBuffer) String() string {
	l.mu.Lock()
	defer l.mu.Unlock()
	return l.b.String()
}

func c35() {
	r := vk.Start("C35", "exploration")
	hb := startHeartbeat()
	defer hb.Stop()
	n := r.Pick(64, 400)
	rng := r.Rand("cases")
	behaviours := []string{"self", "stdin", "term", "stubborn"}
	cases := make([]c35Case, n)
	for i := range cases {
		c := c35Case{Index: i, Behaviour: behaviours[i%4]}
		switch rng.Intn(4) {
		case 0:
			c.DelayMs = 0
		case 1:
			c.DelayMs = rng.Intn(50)
		case 2:
			c.DelayMs = 200 + rng.Intn(600)
		default:
			c.DelayMs = 900 + rng.Intn(400) // straddles the one-second escalation steps
		}
		if c.Behaviour == "self" && rng.Intn(3) == 0 {
			c.DelayMs = 2500 + rng.Intn(1500) // "exits by itself", but only after Close has escalated
		}
		switch rng.Intn(3) {
		case 0:
			c.TermDelayMs = 0
		case 1:
			c.TermDelayMs = rng.Intn(100)
		default:
			c.TermDelayMs = 300 + rng.Intn(500)
		}
		c.PendingRead = rng.Intn(2) == 0
		c.WriteBytes = []int{0, 1, 100, 5000}[rng.Intn(4)]
		c.CloseAtStart = rng.Intn(8) == 0
		cases[i] = c
	}
	const bound = 30 * time.Second // nominal worst case of Close: termination delay + 1 s + 1 s + kill
	r.Assume("Close is given 30 s (nominal worst case about 2.5 s); a missing return counts only if the heartbeat control shows no scheduling gap >= 1 s in that window")
	r.Assume("a zombie counts as exited (the property speaks of the process having exited)")
	var latMu sync.Mutex
	latencies := map[string][]float64{}

	parallel(n, workerCount(), func(i int) {
		c := cases[i]
		fmt.Printf("case %d: %s\n", i, vk.JSON(c))
		cmd := exec.Command(selfBin())
		cmd.Env = childEnv(roleEnv+"=fake-agent", "VERIF_C35_BEHAVIOUR="+c.Behaviour, fmt.Sprintf("VERIF_C35_DELAY_MS=%d", c.DelayMs))
		stderr := &lockedBuffer{}
		var st *transport.Stream
		var err error
		r.Guard(c, func() { st, err = transport.NewStream(cmd, stderr) })
		if st == nil || err != nil {
			r.Inconclusive("NewStream failed")
			return
		}
		if err := cmd.Start(); err != nil {
			r.Inconclusive("fake agent did not start")
			return
		}
		pid := cmd.Process.Pid
		r.Eval(1)
		ready := false
		if !c.CloseAtStart {
			// wait for READY so that the agent's signal disposition is in place
			buf := make([]byte, 6)
			if _, err := io.ReadFull(st, buf); err == nil && string(buf) == "READY\n" {
				ready = true
			}
			if c.WriteBytes > 0 && ready {
				payload := bytes.Repeat([]byte{'x'}, c.WriteBytes)
				st.Write(payload)
				echo := make([]byte, c.WriteBytes)
				if _, err := io.ReadFull(st, echo); err == nil && bytes.Equal(echo, payload) {
					r.Count("echo_roundtrips", 1)
				}
			}
		}
		if c.TermDelayMs > 0 {
			st.SetTerminationDelay(time.Duration(c.TermDelayMs) * time.Millisecond)
		}
		readReturned := make(chan struct{})
		if c.PendingRead {
			go func() {
				b := make([]byte, 16)
				for {
					if _, err := st.Read(b); err != nil {
						break
					}
				}
				close(readReturned)
			}()
		}
		closed := make(chan error, 1)
		t0 := time.Now()
		go func() {
			var cerr error
			r.Guard(c, func() { cerr = st.Close() })
			closed <- cerr
		}()
		var closeErr error
		returned := false
		// control-relative watchdog: a window of `bound` counts only if the heartbeat shows no
		// scheduling gap >= 1 s inside it; otherwise another window is waited (at most five)
		for window := 0; window < 5 && !returned; window++ {
			w0 := time.Now()
			select {
			case closeErr = <-closed:
				returned = true
			case <-time.After(bound):
				gap := hb.MaxGapSince(w0)
				if gap >= time.Second {
					r.Count("watchdog_windows_discarded_unhealthy", 1)
					continue
				}
				state, _, alive := procState(pid)
				r.Violation(map[string]string{"rule": "close-did-not-return", "behaviour": c.Behaviour},
					fmt.Sprintf("Close() on the stream of a %q agent did not return within %v (heartbeat max gap in that window %v; agent process alive=%v state=%s)", c.Behaviour, time.Since(t0).Round(time.Second), gap, alive, state),
					map[string]any{"case": c, "agent_stderr": stderr.String()})
				window = 99
			}
		}
		if !returned {
			if r.Violations() == 0 {
				r.Inconclusive("Close did not return on an unhealthy machine")
			}
			syscall.Kill(pid, syscall.SIGKILL)
			select {
			case <-closed:
			case <-time.After(10 * time.Second):
			}
			return
		}
		lat := time.Since(t0)
		// The process must be gone: reaped by Close (ProcessState set), or at least exited.
		state, ppid, exists := procState(pid)
		reaped := cmd.ProcessState != nil
		ours := exists && ppid == os.Getpid()
		if !reaped && ours && state != "Z" {
			r.Violation(map[string]string{"rule": "process-alive-after-close", "behaviour": c.Behaviour},
				fmt.Sprintf("Close() returned (error %v) after %v but the %q agent process %d is still running (state %s)", closeErr, lat, c.Behaviour, pid, state),
				map[string]any{"case": c, "agent_stderr": stderr.String(), "latency_ms": lat.Milliseconds()})
			syscall.Kill(pid, syscall.SIGKILL)
		} else if !reaped && ours {
			r.Count("exited_but_not_reaped", 1)
		}
		if reaped && ours {
			// cannot happen: a reaped pid that is again our child would be a new process
			r.Count("pid_reused_by_own_child", 1)
		}
		if err := syscall.Kill(pid, 0); err == syscall.ESRCH {
			r.Count("kill0_esrch", 1)
		} else {
			r.Count("kill0_other", 1) // pid reuse by an unrelated process, or a zombie
		}
		how := "?"
		if cmd.ProcessState != nil {
			if ws, ok := cmd.ProcessState.Sys().(syscall.WaitStatus); ok {
				if ws.Signaled() {
					how = "signal:" + ws.Signal().String()
				} else {
					how = fmt.Sprintf("exit:%d", ws.ExitStatus())
				}
			}
		}
		if c.PendingRead {
			select {
			case <-readReturned:
				r.Count("pending_read_unblocked", 1)
			case <-time.After(5 * time.Second):
				r.Count("pending_read_still_blocked_5s_after_close", 1) // recorded only
			}
		}
		// give the stderr forwarder a moment to drain (recorded coverage only)
		time.Sleep(10 * time.Millisecond)
		seen := stderr.String()
		var marks []string
		for _, m := range []string{"GOT-EOF", "GOT-TERM", "EXIT-SELF", "EXIT-EOF", "EXIT-TERM"} {
			if strings.Contains(seen, m) {
				marks = append(marks, m)
				r.Count("agent_"+m, 1)
			}
		}
		r.Count("ended:"+c.Behaviour+":"+how, 1)
		r.Distinct(strings.Join([]string{c.Behaviour, how, strings.Join(marks, "+"), bucket(c.DelayMs, 0, 100, 850, 1500), bucket(c.TermDelayMs, 0, 100), fmt.Sprint(c.PendingRead), fmt.Sprint(ready)}, "|"))
		latMu.Lock()
		latencies[c.Behaviour] = append(latencies[c.Behaviour], lat.Seconds())
		latMu.Unlock()
		r.Sample(map[string]any{"case": c, "close_latency_ms": lat.Milliseconds(), "ended": how, "agent_saw": marks, "close_error": fmt.Sprint(closeErr)})
	})
	lat := map[string]any{}
	for b, v := range latencies {
		sort.Float64s(v)
		lat[b] = map[string]any{"n": len(v), "min_s": v[0], "median_s": v[len(v)/2], "max_s": v[len(v)-1]}
	}
	r.Note("close_latency_recorded_not_judged", lat)
	r.Note("heartbeat_max_gap_ms", hb.Max().Milliseconds())
	// liveness of the escalation sensor: stubborn agents must have been killed by a signal
	if r.Counter("ended:stubborn:signal:killed") == 0 && r.Violations() == 0 {
		r.Inconclusive("no stubborn agent was observed to be killed")
		fmt.Println("ERROR: C35 never observed the kill escalation")
	}
	r.Finish("one case = real transport.NewStream over a fake agent process (behaviour × agent delay × termination delay × pending Read × payload), Close() under the control-relative watchdog, then /proc and wait status of the agent; distinct = (behaviour, how the agent ended, what the agent noticed, delay buckets, pending read)", r.Pick(10, 16))
}
