package main

// C28 — at most one daemon holds the daemon lock (DESIGN §5 C28).
//
// Child role lock-contender: loops over the real daemon.AcquireLock()/Release()
// on a shared MUTAGEN_DATA_DIRECTORY and journals TRY / ACQ / FAIL / RELC / RELR
// with CLOCK_MONOTONIC timestamps (call events are stamped and written BEFORE
// the call, return events are stamped AFTER the return), one write(2) per record
// on an O_APPEND file so that records survive SIGKILL. While holding, a child
// writes its pid into a shared cell and re-reads it after the hold. In a few
// holds it also starts a long-lived subprocess (os/exec defaults, never waited
// for), as the daemon does with its ssh/docker transports; the subprocess
// survives the holder's release, exit or SIGKILL and is not a lock holder.
//
// The parent kills random children, journals KILL-sent / reaped, and decides:
//  (1) exclusion: definite-hold intervals of different processes are disjoint;
//  (2) availability: every refusal overlaps a possible-hold interval of another process;
//  (3) porcupine cross-check with a nondeterministic lock model.

import (
	"bufio"
	"fmt"
	"math/rand"
	"os"
	"os/exec"
	"path/filepath"
	"sort"
	"strconv"
	"strings"
	"sync"
	"syscall"
	"time"

	"github.com/anishathalye/porcupine"

	"github.com/mutagen-io/mutagen/pkg/daemon"

	"verif/internal/vk"
)

// ---------------------------------------------------------------- child role

func lockContenderMain() {
	journalPath := os.Getenv("VERIF_C28_JOURNAL")
	cellPath := os.Getenv("VERIF_C28_CELL")
	seed, _ := strconv.ParseInt(os.Getenv("VERIF_C28_SEED"), 10, 64)
	wantAcq, _ := strconv.Atoi(os.Getenv("VERIF_C28_ACQ"))
	maxTry, _ := strconv.Atoi(os.Getenv("VERIF_C28_TRIES"))
	holdMax, _ := strconv.Atoi(os.Getenv("VERIF_C28_HOLD_US"))
	j, err := os.OpenFile(journalPath, os.O_WRONLY|os.O_CREATE|os.O_APPEND, 0o600)
	if err != nil {
		os.Exit(3)
	}
	cell, err := os.OpenFile(cellPath, os.O_RDWR|os.O_CREATE, 0o600)
	if err != nil {
		os.Exit(3)
	}
	rng := rand.New(rand.NewSource(seed))
	pid := os.Getpid()
	rec := func(ts int64, ev string, n int, extra string) {
		j.WriteString(fmt.Sprintf("%d %s %d %s\n", ts, ev, n, extra))
	}
	pause := func(maxUs int) {
		if maxUs <= 0 {
			return
		}
		switch rng.Intn(3) {
		case 0: // no pause
		case 1:
			syscall.Syscall(syscall.SYS_SCHED_YIELD, 0, 0, 0)
		default:
			time.Sleep(time.Duration(rng.Intn(maxUs)+1) * time.Microsecond)
		}
	}
	mine := []byte(fmt.Sprintf("%010d", pid))
	spawnPct, _ := strconv.Atoi(os.Getenv("VERIF_C28_SPAWN_PCT"))
	orphanMark := os.Getenv("VERIF_C28_ORPHAN_MARK")
	sleepPath, _ := exec.LookPath("sleep")
	mode := os.Getenv("VERIF_C28_MODE")
	// idle contenders: after their f-th refusal they stay alive for 0.5-1.5 s without touching the
	// lock (a process that gave up must not influence the lock any more)
	idleAt := map[int]bool{}
	if os.Getenv("VERIF_C28_IDLE") == "1" {
		idleAt[1+rng.Intn(15)] = true
		idleAt[20+rng.Intn(120)] = true
	}
	totalFails := 0
	acquired := 0
	consecutiveFails := 0
	for n := 0; n < maxTry && acquired < wantAcq; n++ {
		rec(monoNow(), "TRY", n, "-")
		lock, err := daemon.AcquireLock()
		if err != nil {
			rec(monoNow(), "FAIL", n, strings.ReplaceAll(err.Error(), " ", "_"))
			totalFails++
			if mode == "once-idle" {
				// gives up after one refusal and stays alive without touching the lock again
				rec(monoNow(), "IDLE", n, "4000")
				time.Sleep(4 * time.Second)
				rec(monoNow(), "IDLEEND", n, "-")
				break
			}
			if idleAt[totalFails] {
				ms := 500 + rng.Intn(1000)
				rec(monoNow(), "IDLE", n, strconv.Itoa(ms))
				time.Sleep(time.Duration(ms) * time.Millisecond)
				rec(monoNow(), "IDLEEND", n, "-")
			}
			// back off while the lock stays taken, so that a long hold does not burn the attempt budget
			consecutiveFails++
			if consecutiveFails > 8 {
				back := consecutiveFails - 8
				if back > 40 {
					back = 40
				}
				time.Sleep(time.Duration(back) * 50 * time.Microsecond)
			}
			pause(holdMax)
			continue
		}
		consecutiveFails = 0
		rec(monoNow(), "ACQ", n, "-")
		acquired++
		cell.WriteAt(mine, 0)
		if mode == "hold" {
			// holds until the monitor kills it, or for the given time
			if ms, err := strconv.Atoi(os.Getenv("VERIF_C28_HOLD_MS")); err == nil && ms > 0 {
				time.Sleep(time.Duration(ms) * time.Millisecond)
			} else {
				time.Sleep(150 * time.Second)
			}
		}
		if sleepPath != "" && spawnPct > 0 && rng.Intn(100) < spawnPct {
			// Like the daemon starting an ssh/docker transport while it holds the lock: a
			// long-lived subprocess started through os/exec with its default descriptor
			// inheritance. It is never waited for and outlives this process; the monitor
			// removes it at the end of the round.
			sub := exec.Command(sleepPath, "60")
			sub.Env = append(os.Environ(), "VERIF_C28_ORPHAN="+orphanMark)
			if err := sub.Start(); err == nil {
				rec(monoNow(), "SPAWN", n, strconv.Itoa(sub.Process.Pid))
				sub.Process.Release()
				// hold long enough for the monitor's killer to find this state
				time.Sleep(time.Duration(20+rng.Intn(60)) * time.Millisecond)
			}
		}
		pause(holdMax)
		buf := make([]byte, 10)
		if _, err := cell.ReadAt(buf, 0); err == nil && string(buf) != string(mine) {
			rec(monoNow(), "FOREIGN", n, string(buf))
		}
		rec(monoNow(), "RELC", n, "-")
		err = lock.Release()
		if err != nil {
			rec(monoNow(), "RELR", n, strings.ReplaceAll(err.Error(), " ", "_"))
		} else {
			rec(monoNow(), "RELR", n, "-")
		}
		pause(holdMax / 2)
	}
	rec(monoNow(), "DONE", acquired, "-")
	os.Exit(0)
}

// ---------------------------------------------------------------- parent

type lockEvent struct {
	TS    int64
	Ev    string
	N     int
	Extra string
}

type contender struct {
	ID       int // index within the round
	Pid      int
	Events   []lockEvent
	KillSent int64 // 0 if never killed; stamped BEFORE kill(2)
	Reaped   int64 // stamped AFTER wait returned
	Done     bool
	Role     string // "" | "idler" | "epilogue-holder" | "epilogue-fresh"
}

type interval struct {
	Proc       int // contender ID
	Pid        int
	N          int
	Start, End int64
	Kind       string
}

type c28Round struct {
	Index      int
	K          int
	Contenders []*contender
}

func readJournal(path string) []lockEvent {
	f, err := os.Open(path)
	if err != nil {
		return nil
	}
	defer f.Close()
	var out []lockEvent
	sc := bufio.NewScanner(f)
	for sc.Scan() {
		p := strings.Fields(sc.Text())
		if len(p) < 4 {
			continue // torn last record of a killed process
		}
		ts, err1 := strconv.ParseInt(p[0], 10, 64)
		n, err2 := strconv.Atoi(p[2])
		if err1 != nil || err2 != nil {
			continue
		}
		out = append(out, lockEvent{ts, p[1], n, p[3]})
	}
	return out
}

// runRound runs one history: K contenders (killed ones are replaced) until every
// live contender has reached its acquisition/attempt counts.
func runRound(r *vk.Run, idx, K, wantAcq, maxTry, kills int, rng *rand.Rand, hb *heartbeat) (*c28Round, bool) {
	dir := filepath.Join(r.Scratch(), fmt.Sprintf("round-%03d", idx))
	must(os.MkdirAll(filepath.Join(dir, "data"), 0o755))
	must(os.MkdirAll(filepath.Join(dir, "journals"), 0o755))
	round := &c28Round{Index: idx, K: K}
	holdUs := []int{20, 100, 500, 2000}[rng.Intn(4)]
	spawnPct := []int{2, 4, 8}[rng.Intn(3)]
	defer func() { killRoundOrphans(r, dir) }()
	var mu sync.Mutex
	var wg sync.WaitGroup
	alive := map[int]*live{}
	var spawnRole func(role string, acq, tries int) *live
	spawn := func() { spawnRole("", wantAcq, maxTry) }
	spawnRole = func(role string, acq, tries int) *live {
		mu.Lock()
		id := len(round.Contenders)
		c := &contender{ID: id, Role: role}
		if role == "" && id%2 == 1 {
			c.Role = "idler"
		}
		round.Contenders = append(round.Contenders, c)
		mu.Unlock()
		wantAcq, maxTry := acq, tries
		roleEnvs := []string{}
		switch c.Role {
		case "idler":
			roleEnvs = append(roleEnvs, "VERIF_C28_IDLE=1")
		case "epilogue-holder":
			roleEnvs = append(roleEnvs, "VERIF_C28_MODE=hold")
		case "epilogue-holder-releasing":
			roleEnvs = append(roleEnvs, "VERIF_C28_MODE=hold", "VERIF_C28_HOLD_MS=1500")
		case "epilogue-idler":
			roleEnvs = append(roleEnvs, "VERIF_C28_MODE=once-idle")
		}
		cmd := exec.Command(selfBin())
		cmd.Env = childEnv(roleEnv+"=lock-contender",
			"MUTAGEN_DATA_DIRECTORY="+filepath.Join(dir, "data"),
			"VERIF_C28_JOURNAL="+filepath.Join(dir, "journals", fmt.Sprintf("%03d.log", id)),
			"VERIF_C28_CELL="+filepath.Join(dir, "cell"),
			fmt.Sprintf("VERIF_C28_SEED=%d", rng.Int63()),
			fmt.Sprintf("VERIF_C28_ACQ=%d", wantAcq),
			fmt.Sprintf("VERIF_C28_TRIES=%d", maxTry),
			fmt.Sprintf("VERIF_C28_HOLD_US=%d", holdUs),
			fmt.Sprintf("VERIF_C28_SPAWN_PCT=%d", spawnPct),
			"VERIF_C28_ORPHAN_MARK="+dir,
			"GOMAXPROCS=2")
		cmd.Env = append(cmd.Env, roleEnvs...)
		if err := cmd.Start(); err != nil {
			return nil
		}
		c.Pid = cmd.Process.Pid
		l := &live{c, cmd, make(chan struct{})}
		mu.Lock()
		alive[id] = l
		mu.Unlock()
		wg.Add(1)
		go func() {
			defer wg.Done()
			cmd.Wait()
			c.Reaped = monoNow()
			mu.Lock()
			delete(alive, id)
			mu.Unlock()
			close(l.done)
		}()
		return l
	}
	for i := 0; i < K; i++ {
		spawn()
	}
	// Killer: `kills` kills at seeded random delays; each victim is replaced.
	killerDone := make(chan struct{})
	go func() {
		defer close(killerDone)
		for k := 0; k < kills; k++ {
			// rng is used by one goroutine at a time: the spawning loop above has finished
			d := time.Duration(rng.Intn(30)+1) * time.Millisecond
			pick := rng.Int()
			time.Sleep(d)
			// victims are contenders that have started their loop (journal not empty); waiting
			// for one is scheduling of the workload, not part of any verdict
			var victim *live
			for tries := 0; tries < 4000 && victim == nil; tries++ {
				mu.Lock()
				var ids []int
				for id := range alive {
					if alive[id].c.KillSent != 0 {
						continue // already killed, not yet reaped: its KILL-sent stamp must stay the first one
					}
					jp := filepath.Join(dir, "journals", fmt.Sprintf("%03d.log", id))
					if k%2 == 0 && tries < 150 {
						// every other kill aims at a holder that has a live subprocess
						if lastJournalEvent(jp) == "SPAWN" {
							ids = append(ids, id)
						}
						continue
					}
					if st, err := os.Stat(jp); err == nil && st.Size() > 0 {
						ids = append(ids, id)
					}
				}
				nAlive := len(alive)
				sort.Ints(ids)
				if len(ids) > 0 {
					victim = alive[ids[pick%len(ids)]]
				}
				mu.Unlock()
				if nAlive == 0 {
					return
				}
				if victim == nil {
					time.Sleep(2 * time.Millisecond)
				}
			}
			if victim == nil {
				return
			}
			victim.c.KillSent = monoNow()
			victim.cmd.Process.Kill()
			spawn()
		}
	}()
	<-killerDone
	finished := make(chan struct{})
	go func() { wg.Wait(); close(finished) }()
	t0 := time.Now()
	select {
	case <-finished:
	case <-time.After(5 * time.Minute):
		mu.Lock()
		for _, l := range alive {
			l.cmd.Process.Kill()
		}
		mu.Unlock()
		<-finished
		fmt.Printf("round %d: contenders did not finish within 5 min (heartbeat max gap %v)\n", idx, hb.MaxGapSince(t0))
		os.RemoveAll(dir)
		return nil, false
	}
	// Epilogue, with nobody else left: a holder is killed and reaped, then a fresh process must
	// be able to acquire. The attempts are judged by the general rules below.
	if h := spawnRole("epilogue-holder", 1, 50); h != nil {
		jp := filepath.Join(dir, "journals", fmt.Sprintf("%03d.log", h.c.ID))
		for tries := 0; tries < 15000; tries++ { // workload scheduling, not a verdict
			ev := lastJournalEvent(jp)
			mu.Lock()
			_, running := alive[h.c.ID]
			mu.Unlock()
			if ev == "ACQ" || !running {
				break
			}
			time.Sleep(2 * time.Millisecond)
		}
		h.c.KillSent = monoNow()
		h.cmd.Process.Kill()
		wg.Wait() // reaped
		spawnRole("epilogue-fresh", 1, 3)
		wg.Wait()
	}
	// Second epilogue: while a holder holds, another process is refused once and then stays
	// alive WITHOUT touching the lock again; the holder is killed (even rounds) or releases and
	// exits (odd rounds); then a fresh process must be able to acquire although the refused
	// process is still around.
	waitEvent := func(l *live, want string) {
		jp := filepath.Join(dir, "journals", fmt.Sprintf("%03d.log", l.c.ID))
		for tries := 0; tries < 15000; tries++ { // workload scheduling, not a verdict
			select {
			case <-l.done:
				return
			default:
			}
			if lastJournalEvent(jp) == want {
				return
			}
			time.Sleep(2 * time.Millisecond)
		}
	}
	holderRole := "epilogue-holder"
	if idx%2 == 1 {
		holderRole = "epilogue-holder-releasing"
	}
	if h := spawnRole(holderRole, 1, 50); h != nil {
		waitEvent(h, "ACQ")
		idler := spawnRole("epilogue-idler", 1, 1)
		if idler != nil {
			waitEvent(idler, "IDLE")
		}
		if holderRole == "epilogue-holder" {
			h.c.KillSent = monoNow()
			h.cmd.Process.Kill()
		}
		<-h.done
		if f := spawnRole("epilogue-fresh-beside-idler", 1, 3); f != nil {
			<-f.done
		}
		if idler != nil {
			select {
			case <-idler.done:
			default:
				idler.c.KillSent = monoNow()
				idler.cmd.Process.Kill()
				<-idler.done
			}
		}
		wg.Wait()
	}
	for _, c := range round.Contenders {
		c.Events = readJournal(filepath.Join(dir, "journals", fmt.Sprintf("%03d.log", c.ID)))
		for _, e := range c.Events {
			if e.Ev == "DONE" {
				c.Done = true
			}
		}
	}
	os.RemoveAll(dir)
	return round, true
}

// lastJournalEvent returns the event name of the last complete record of a journal.
func lastJournalEvent(path string) string {
	f, err := os.Open(path)
	if err != nil {
		return ""
	}
	defer f.Close()
	st, err := f.Stat()
	if err != nil || st.Size() == 0 {
		return ""
	}
	off := st.Size() - 200
	if off < 0 {
		off = 0
	}
	buf := make([]byte, st.Size()-off)
	n, _ := f.ReadAt(buf, off)
	lines := strings.Split(strings.TrimRight(string(buf[:n]), "\n"), "\n")
	if !strings.HasSuffix(string(buf[:n]), "\n") && len(lines) > 1 {
		lines = lines[:len(lines)-1] // torn record
	}
	p := strings.Fields(lines[len(lines)-1])
	if len(p) >= 2 {
		return p[1]
	}
	return ""
}

// killRoundOrphans kills the subprocesses that contenders of this round left behind
// (found by their environment marker, so that pid reuse cannot hit a stranger).
func killRoundOrphans(r *vk.Run, mark string) {
	ents, err := os.ReadDir("/proc")
	if err != nil {
		return
	}
	want := []byte("VERIF_C28_ORPHAN=" + mark + "\x00")
	killed := 0
	for _, e := range ents {
		pid, err := strconv.Atoi(e.Name())
		if err != nil || pid == os.Getpid() {
			continue
		}
		env, err := os.ReadFile("/proc/" + e.Name() + "/environ")
		if err != nil || !strings.Contains(string(env)+"\x00", string(want)) {
			continue
		}
		if syscall.Kill(pid, syscall.SIGKILL) == nil {
			killed++
		}
	}
	r.Count("subprocesses_removed_at_round_end", int64(killed))
}

type live struct {
	c    *contender
	cmd  *exec.Cmd
	done chan struct{} // closed once the process has been reaped
}

type attempt struct {
	Proc, Pid, N           int // Pid: identity within the round (contender index + 1; OS pids may be reused)
	OsPid                  int
	Role                   string
	Try, Acq, Fail         int64
	RelC, RelR             int64
	FailText, RelText      string
	Foreign                string
	Spawned                string // pid of the subprocess started during this hold ("" if none)
	KillSent, Reaped       int64
	HasAcq, HasFail        bool
	HasRelC, HasRelR, Dead bool // Dead: the process was killed (or died) with this attempt unfinished
}

func attemptsOf(c *contender) []*attempt {
	var out []*attempt
	var cur *attempt
	for _, e := range c.Events {
		switch e.Ev {
		case "TRY":
			cur = &attempt{Proc: c.ID, Pid: c.ID + 1, OsPid: c.Pid, Role: c.Role, N: e.N, Try: e.TS}
			out = append(out, cur)
		case "ACQ":
			if cur != nil {
				cur.Acq, cur.HasAcq = e.TS, true
			}
		case "FAIL":
			if cur != nil {
				cur.Fail, cur.HasFail, cur.FailText = e.TS, true, e.Extra
			}
		case "FOREIGN":
			if cur != nil {
				cur.Foreign = e.Extra
			}
		case "SPAWN":
			if cur != nil {
				cur.Spawned = e.Extra
			}
		case "RELC":
			if cur != nil {
				cur.RelC, cur.HasRelC = e.TS, true
			}
		case "RELR":
			if cur != nil {
				cur.RelR, cur.HasRelR, cur.RelText = e.TS, true, e.Extra
			}
		}
	}
	if n := len(out); n > 0 {
		last := out[n-1]
		if !last.HasFail && !last.HasRelR {
			last.Dead = true
			last.KillSent, last.Reaped = c.KillSent, c.Reaped
		}
	}
	return out
}

type lockIn struct {
	Op  string // acquire | release | die
	Pid int
}

type lockState struct {
	Holder int
	Dead   string // sorted ",pid," list of processes known to be dead
}

func lockModel() porcupine.Model {
	nm := porcupine.NondeterministicModel{
		Init: func() []interface{} { return []interface{}{lockState{}} },
		Step: func(state, input, output interface{}) []interface{} {
			s := state.(lockState)
			in := input.(lockIn)
			out := output.(string)
			switch in.Op {
			case "acquire":
				switch out {
				case "ok":
					if s.Holder == 0 {
						return []interface{}{lockState{in.Pid, s.Dead}}
					}
					return nil
				case "fail":
					if s.Holder != 0 && s.Holder != in.Pid {
						return []interface{}{s}
					}
					return nil
				default: // unknown: the process was killed before it could report
					if s.Holder == 0 && !strings.Contains(s.Dead, fmt.Sprintf(",%d,", in.Pid)) {
						return []interface{}{s, lockState{in.Pid, s.Dead}}
					}
					return []interface{}{s}
				}
			case "release":
				if s.Holder == in.Pid {
					return []interface{}{lockState{0, s.Dead}}
				}
				return nil
			case "die":
				ns := lockState{s.Holder, s.Dead}
				if ns.Holder == in.Pid {
					ns.Holder = 0
				}
				if ns.Dead == "" {
					ns.Dead = ","
				}
				ns.Dead += fmt.Sprintf("%d,", in.Pid)
				return []interface{}{ns}
			}
			return nil
		},
		Equal: func(a, b interface{}) bool { return a.(lockState) == b.(lockState) },
	}
	return nm.ToModel()
}

func c28() {
	r := vk.Start("C28", "fault_enumeration")
	hb := startHeartbeat()
	defer hb.Stop()
	rounds := r.Pick(8, 16)
	K := r.Pick(8, 32)
	wantAcq := r.Pick(60, 120)
	maxTry := r.Pick(1500, 4000)
	killsPerRound := r.Pick(6, 24)
	rng := r.Rand("rounds")
	model := lockModel()
	r.Assume("timestamps are CLOCK_MONOTONIC read in each process; call events are stamped before the call and return events after the return")
	r.Assume("a killed process releases its locks before its parent's wait returns")

	var totalAcq, totalFail, totalTry, totalKillsHolding, totalKillsInflight int64
	for ri := 0; ri < rounds; ri++ {
		k := K
		if ri%3 == 1 && K > 4 {
			k = K / 2
		}
		if ri%4 == 3 {
			k = 2 // low contention: long uninterrupted alternation
		}
		fmt.Printf("round %d: K=%d acquisitions/contender=%d attempt cap=%d kills=%d\n", ri, k, wantAcq, maxTry, killsPerRound)
		round, ok := runRound(r, ri, k, wantAcq, maxTry, killsPerRound, rng, hb)
		r.Eval(1)
		if !ok {
			if hb.Max() >= time.Second {
				r.Inconclusive("round did not finish on an unhealthy machine")
			} else {
				// Contenders stop after a bounded number of attempts; not finishing at
				// all means a call never returned.
				r.Violation(map[string]string{"rule": "contender-hung"}, "lock contenders did not finish their bounded attempt loops within 5 minutes on a healthy machine (an AcquireLock/Release call did not return)", map[string]any{"round": ri})
			}
			continue
		}
		var atts []*attempt
		for _, c := range round.Contenders {
			atts = append(atts, attemptsOf(c)...)
		}
		var definite, possible []interval
		var fails []*attempt
		var ops []porcupine.Operation
		died := map[int]bool{}
		var orphanedAt []int64 // reap times of holders that died leaving a live subprocess behind
		idles := idleIntervals(round)
		r.Count("idle_periods_of_refused_processes", int64(len(idles)))
		nAcq, nFail, nOtherErr := 0, 0, 0
		for _, a := range atts {
			totalTry++
			if a.Foreign != "" {
				r.Violation(map[string]string{"rule": "foreign-pid-in-cell"}, fmt.Sprintf("process %d held the daemon lock, wrote its pid into the shared cell and read back %q", a.Pid, a.Foreign),
					map[string]any{"round": ri, "attempt": a})
			}
			in := lockIn{"acquire", a.Pid}
			switch {
			case a.HasFail:
				// Every error of AcquireLock is a refusal, whatever its text: the property
				// promises the lock to whoever asks while nobody holds it.
				nFail++
				fails = append(fails, a)
				ops = append(ops, porcupine.Operation{ClientId: a.Proc, Input: in, Call: a.Try, Output: "fail", Return: a.Fail})
				if !strings.Contains(a.FailText, "temporarily_unavailable") && !strings.Contains(a.FailText, "permission_denied") {
					nOtherErr++
					r.Count("refusals_with_another_error_text", 1)
					r.Note("refusal_other_error_example", a.FailText)
				}
			case a.HasAcq:
				nAcq++
				switch a.Role {
				case "epilogue-fresh":
					r.Count("fresh_process_acquired_after_killed_holder_was_reaped", 1)
				case "epilogue-fresh-beside-idler":
					r.Count("fresh_process_acquired_while_a_refused_process_idles", 1)
				case "epilogue-holder":
					r.Count("epilogue_holders_killed_while_holding", 1)
				case "epilogue-holder-releasing":
					r.Count("epilogue_holders_released_and_exited", 1)
				case "epilogue-idler":
					r.Count("epilogue_idlers_that_acquired_instead_of_being_refused", 1)
				}
				ops = append(ops, porcupine.Operation{ClientId: a.Proc, Input: in, Call: a.Try, Output: "ok", Return: a.Acq})
				switch {
				case a.HasRelC:
					definite = append(definite, interval{a.Proc, a.Pid, a.N, a.Acq, a.RelC, "released"})
				case a.KillSent != 0 && a.KillSent > a.Acq:
					definite = append(definite, interval{a.Proc, a.Pid, a.N, a.Acq, a.KillSent, "killed-holding"})
					totalKillsHolding++
				}
				if a.Spawned != "" {
					r.Count("holds_with_live_subprocess", 1)
					switch {
					case a.HasRelR:
						r.Count("releases_with_live_subprocess", 1)
					case !a.HasRelC && a.KillSent != 0 && a.KillSent > a.Acq:
						r.Count("kills_of_holder_with_live_subprocess", 1)
						orphanedAt = append(orphanedAt, a.Reaped)
					}
				}
				if a.HasRelR {
					possible = append(possible, interval{a.Proc, a.Pid, a.N, a.Try, a.RelR, "released"})
					ops = append(ops, porcupine.Operation{ClientId: a.Proc, Input: lockIn{"release", a.Pid}, Call: a.RelC, Output: "ok", Return: a.RelR})
					if a.RelText != "-" {
						r.Count("release_errors", 1)
						r.Note("release_error_example", a.RelText)
					}
				} else {
					possible = append(possible, interval{a.Proc, a.Pid, a.N, a.Try, a.Reaped, "died"})
					// the death must be ordered after the acquisition it ends
					call := a.Acq
					if a.HasRelC {
						call = a.RelC
					} else if a.KillSent > call {
						call = a.KillSent
					}
					if !died[a.Pid] {
						died[a.Pid] = true
						ops = append(ops, porcupine.Operation{ClientId: a.Proc, Input: lockIn{"die", a.Pid}, Call: call, Output: "dead", Return: a.Reaped})
					}
				}
			default: // TRY only: killed in flight
				totalKillsInflight++
				possible = append(possible, interval{a.Proc, a.Pid, a.N, a.Try, a.Reaped, "in-flight"})
				ops = append(ops, porcupine.Operation{ClientId: a.Proc, Input: in, Call: a.Try, Output: "unknown", Return: a.Reaped})
				if !died[a.Pid] {
					died[a.Pid] = true
					ops = append(ops, porcupine.Operation{ClientId: a.Proc, Input: lockIn{"die", a.Pid}, Call: a.Try, Output: "dead", Return: a.Reaped})
				}
			}
		}
		totalAcq += int64(nAcq)
		totalFail += int64(nFail)
		// sanity of the recorded history: a dead attempt needs a reap stamp
		bad := false
		for _, p := range possible {
			if p.End == 0 || p.End < p.Start {
				bad = true
			}
		}
		if bad {
			r.Inconclusive("history incomplete (a contender died without being reaped by the monitor)")
			continue
		}

		// (1) exclusion
		sort.Slice(definite, func(i, j int) bool { return definite[i].Start < definite[j].Start })
		exclusionViolations := 0
		for i := 0; i < len(definite); i++ {
			for j := i + 1; j < len(definite) && definite[j].Start < definite[i].End; j++ {
				if definite[j].Pid != definite[i].Pid {
					exclusionViolations++
					if exclusionViolations <= 2 {
						r.Violation(map[string]string{"rule": "exclusion"}, fmt.Sprintf("processes %d and %d both held the daemon lock: definite-hold intervals [%d,%d] and [%d,%d] (monotonic ns) overlap",
							definite[i].Pid, definite[j].Pid, definite[i].Start, definite[i].End, definite[j].Start, definite[j].End),
							map[string]any{"round": ri, "a": definite[i], "b": definite[j]})
					}
				}
			}
		}
		// (2) availability
		sort.Slice(possible, func(i, j int) bool { return possible[i].Start < possible[j].Start })
		// best[i]: the two latest interval ends among possible[0..i] that belong to different processes
		type endOf struct {
			end int64
			pid int
		}
		best := make([][2]endOf, len(possible))
		var b [2]endOf
		for i, p := range possible {
			switch {
			case p.Pid == b[0].pid:
				if p.End > b[0].end {
					b[0].end = p.End
				}
			case p.End > b[0].end:
				b[1] = b[0]
				b[0] = endOf{p.End, p.Pid}
			case p.Pid == b[1].pid:
				if p.End > b[1].end {
					b[1].end = p.End
				}
			case p.End > b[1].end:
				b[1] = endOf{p.End, p.Pid}
			}
			best[i] = b
		}
		availabilityViolations := 0
		for _, f := range fails {
			explained := false
			// last possible interval starting no later than the refusal returned
			idx := sort.Search(len(possible), func(i int) bool { return possible[i].Start > f.Fail }) - 1
			if idx >= 0 {
				for _, c := range best[idx] {
					if c.pid != 0 && c.pid != f.Pid && c.end >= f.Try {
						explained = true
					}
				}
			}
			if !explained {
				availabilityViolations++
				if availabilityViolations <= 2 {
					context, orphans := "no-holder", 0
					for _, t := range orphanedAt {
						if t != 0 && t < f.Try {
							orphans++
						}
					}
					if orphans > 0 {
						// a subprocess of a dead holder is not a daemon: the lock must be free once the holder is gone
						context = "dead-holder-left-subprocess"
					}
					if f.Role == "epilogue-fresh-beside-idler" {
						context = "fresh-process-while-a-refused-process-idles"
					} else if f.Role == "epilogue-fresh" {
						context = "fresh-process-after-killed-holder-was-reaped"
					} else if idleDuring(idles, f) > 0 {
						context = "while-a-refused-process-idles"
					}
					r.Violation(map[string]string{"rule": "availability", "context": context}, fmt.Sprintf("process %d was refused the daemon lock during [%d,%d] although no other process could have held it then (%d holder(s) had been killed and reaped before, leaving a subprocess alive)", f.Pid, f.Try, f.Fail, orphans),
						map[string]any{"round": ri, "refused": f, "dead_holders_with_live_subprocess_reaped_before": orphans})
				}
			}
		}
		// (3) porcupine
		res := porcupine.CheckOperationsTimeout(model, ops, 60*time.Second)
		switch res {
		case porcupine.Illegal:
			if exclusionViolations == 0 && availabilityViolations == 0 {
				r.Violation(map[string]string{"rule": "not-linearizable"}, "the recorded acquire/release/kill history is not linearizable with respect to a lock that is free after release or death of its holder",
					map[string]any{"round": ri, "operations": len(ops)})
			}
			r.Count("porcupine_illegal", 1)
		case porcupine.Unknown:
			r.Inconclusive("porcupine timeout")
		default:
			r.Count("porcupine_ok", 1)
		}
		killed := 0
		for _, c := range round.Contenders {
			if c.KillSent != 0 {
				killed++
			}
		}
		r.Count("contender_processes", int64(len(round.Contenders)))
		r.Count("kills_sent", int64(killed))
		r.Distinct(fmt.Sprintf("K=%d|acq=%s|fail=%s|killsHolding=%d", k, bucket(nAcq, 10, 100, 300, 1000, 3000), bucket(nFail, 10, 100, 1000, 10000), len(definite)-countKind(definite, "released")))
		fmt.Printf("round %d: processes=%d attempts=%d acquired=%d refused=%d other-errors=%d killed=%d definite=%d possible=%d porcupine=%s ops=%d\n",
			ri, len(round.Contenders), len(atts), nAcq, nFail, nOtherErr, killed, len(definite), len(possible), res, len(ops))
		r.Sample(map[string]any{"round": ri, "K": k, "processes": len(round.Contenders), "attempts": len(atts), "acquired": nAcq, "refused": nFail, "killed": killed, "porcupine": string(res)})
	}
	r.Count("attempts", totalTry)
	r.Count("acquisitions", totalAcq)
	r.Count("refusals", totalFail)
	r.Count("kills_while_holding", totalKillsHolding)
	r.Count("kills_in_flight", totalKillsInflight)
	r.Note("heartbeat_max_gap_ms", hb.Max().Milliseconds())
	if r.Counter("kills_of_holder_with_live_subprocess") == 0 && r.Violations() == 0 {
		r.Inconclusive("no holder with a live subprocess was killed")
		fmt.Println("ERROR: C28 never killed a holder that had started a subprocess")
	}
	if totalAcq < int64(r.Pick(200, 10000)) || totalFail == 0 {
		r.Inconclusive("too few acquisitions or no contention observed")
		fmt.Printf("ERROR: C28 observed too little: acquisitions=%d refusals=%d\n", totalAcq, totalFail)
	}
	r.Finish("one evaluation = one history of K contender processes looping over the real daemon.AcquireLock/Release on one data directory with seeded random kills (victims replaced); distinct = (K, acquisition bucket, refusal bucket, number of kills that hit a holder)", r.Pick(3, 5))
}

// idleIntervals lists the periods during which a refused contender stayed alive
// without touching the lock (IDLE .. IDLEEND, or .. reaped if it was killed meanwhile).
func idleIntervals(round *c28Round) []interval {
	var out []interval
	for _, c := range round.Contenders {
		var open *interval
		for _, e := range c.Events {
			switch e.Ev {
			case "IDLE":
				open = &interval{Proc: c.ID, Pid: c.ID + 1, N: e.N, Start: e.TS, Kind: "idle"}
			case "IDLEEND":
				if open != nil {
					open.End = e.TS
					out = append(out, *open)
					open = nil
				}
			}
		}
		if open != nil {
			open.End = c.Reaped
			out = append(out, *open)
		}
	}
	return out
}

// idleDuring counts idle periods of OTHER processes that overlap the refusal f.
func idleDuring(idles []interval, f *attempt) int {
	n := 0
	for _, iv := range idles {
		if iv.Pid != f.Pid && iv.Start <= f.Fail && iv.End >= f.Try {
			n++
		}
	}
	return n
}

func countKind(iv []interval, kind string) int {
	n := 0
	for _, i := range iv {
		if i.Kind == kind {
			n++
		}
	}
	return n
}
