package main

import (
	"crypto/sha1"
	"encoding/hex"
	"fmt"
	"os"
	"runtime"
	"strings"
	"sync"
	"sync/atomic"
	"time"

	"golang.org/x/sys/unix"
)

// monoNow returns CLOCK_MONOTONIC in nanoseconds. The clock is system wide, so
// values taken in different processes are comparable.
func monoNow() int64 {
	var ts unix.Timespec
	if err := unix.ClockGettime(unix.CLOCK_MONOTONIC, &ts); err != nil {
		panic(err)
	}
	return ts.Sec*1e9 + ts.Nsec
}

// selfBin is the path of the monitor binary used for child roles.
func selfBin() string {
	if p := os.Getenv("VERIF_BIN"); p != "" {
		return p
	}
	p, err := os.Executable()
	if err != nil {
		panic(err)
	}
	return p
}

// childEnv is the parent's environment without role/recorder variables, plus extra.
func childEnv(extra ...string) []string {
	var env []string
	for _, e := range os.Environ() {
		if strings.HasPrefix(e, roleEnv+"=") || strings.HasPrefix(e, "VERIF_C") || strings.HasPrefix(e, "VERIF_REC_") {
			continue
		}
		env = append(env, e)
	}
	return append(env, extra...)
}

// heartbeat is the control of the control-relative watchdog (DESIGN §1): a
// goroutine that wakes every 20 ms and records the largest gap between wake-ups.
type heartbeat struct {
	stop   chan struct{}
	done   chan struct{}
	mu     sync.Mutex
	last   time.Time
	gaps   []hbGap // gaps >= 250 ms with the time they ended
	maxGap time.Duration
}

type hbGap struct {
	end time.Time
	gap time.Duration
}

func startHeartbeat() *heartbeat {
	h := &heartbeat{stop: make(chan struct{}), done: make(chan struct{}), last: time.Now()}
	go func() {
		defer close(h.done)
		t := time.NewTicker(20 * time.Millisecond)
		defer t.Stop()
		for {
			select {
			case <-h.stop:
				return
			case now := <-t.C:
				now = time.Now()
				h.mu.Lock()
				g := now.Sub(h.last)
				if g > h.maxGap {
					h.maxGap = g
				}
				if g >= 250*time.Millisecond {
					h.gaps = append(h.gaps, hbGap{now, g})
				}
				h.last = now
				h.mu.Unlock()
			}
		}
	}()
	return h
}

// MaxGapSince is the largest heartbeat gap that ended after t (including the
// currently open gap).
func (h *heartbeat) MaxGapSince(t time.Time) time.Duration {
	h.mu.Lock()
	defer h.mu.Unlock()
	max := time.Since(h.last)
	for _, g := range h.gaps {
		if g.end.After(t) && g.gap > max {
			max = g.gap
		}
	}
	return max
}

func (h *heartbeat) Max() time.Duration {
	h.mu.Lock()
	defer h.mu.Unlock()
	return h.maxGap
}

func (h *heartbeat) Stop() { close(h.stop); <-h.done }

// parallel runs f(0..n-1) on up to `workers` goroutines.
func parallel(n, workers int, f func(i int)) {
	if workers > n {
		workers = n
	}
	if workers < 1 {
		workers = 1
	}
	var next int64 = -1
	var wg sync.WaitGroup
	for w := 0; w < workers; w++ {
		wg.Add(1)
		go func() {
			defer wg.Done()
			for {
				i := int(atomic.AddInt64(&next, 1))
				if i >= n {
					return
				}
				f(i)
			}
		}()
	}
	wg.Wait()
}

func workerCount() int {
	n := runtime.NumCPU()
	if n > 16 {
		n = 16
	}
	if n < 2 {
		n = 2
	}
	return n
}

func sha1hex(b []byte) string {
	s := sha1.Sum(b)
	return hex.EncodeToString(s[:])
}

func bucket(n int, bounds ...int) string {
	for _, b := range bounds {
		if n <= b {
			return fmt.Sprintf("<=%d", b)
		}
	}
	return fmt.Sprintf(">%d", bounds[len(bounds)-1])
}

func must(err error) {
	if err != nil {
		panic(err)
	}
}

// procState returns the one-letter state and parent pid of pid from /proc, or
// ok=false if the process does not exist.
func procState(pid int) (state string, ppid int, ok bool) {
	data, err := os.ReadFile(fmt.Sprintf("/proc/%d/stat", pid))
	if err != nil {
		return "", 0, false
	}
	s := string(data)
	i := strings.LastIndexByte(s, ')')
	if i < 0 || i+2 >= len(s) {
		return "", 0, false
	}
	f := strings.Fields(s[i+2:])
	if len(f) < 2 {
		return "", 0, false
	}
	fmt.Sscanf(f[1], "%d", &ppid)
	return f[0], ppid, true
}
