package main

// Documented command-line grammars of the tools the transports invoke, written
// from the tools' manuals (OpenSSH ssh(1)/scp(1) getopt strings; Docker CLI
// reference for exec/cp/stop/start and the top-level options). They are used by
// the fake docker (to decide what it was asked to do) and by the C36 judge.
// Checked against the real binaries in this sandbox: `ssh -Zfoo@h true` →
// "unknown option -- Z"; `scp file -Zfoo@h:x` treats the last argument as an
// operand; `docker exec --interactive --privileged env` → "requires at least 2
// arguments".

import (
	"fmt"
	"strings"
)

const (
	sshOptstring = "1246ab:c:e:fgi:kl:m:no:p:qstvxAB:CD:E:F:GI:J:KL:MNO:P:Q:R:S:TVw:W:XYy"
	scpOptstring = "12346ABCTdfOpqRrstvD:F:J:M:P:S:c:i:l:o:X:"
)

// bsdGetopt parses leading options of args the way getopt(3) without
// permutation does: stops at the first non-option argument or after "--".
// Options are returned normalized as "c" or "c=value"; unknown option
// characters are returned as "?c".
func bsdGetopt(args []string, optstring string) (opts []string, rest []string) {
	i := 0
	for i < len(args) {
		a := args[i]
		if a == "--" {
			i++
			break
		}
		if len(a) < 2 || a[0] != '-' {
			break
		}
		i++
		cluster := a[1:]
		for len(cluster) > 0 {
			c := cluster[0]
			cluster = cluster[1:]
			pos := strings.IndexByte(optstring, c)
			if pos < 0 || c == ':' {
				opts = append(opts, "?"+string(c))
				continue
			}
			takesArg := pos+1 < len(optstring) && optstring[pos+1] == ':'
			if !takesArg {
				opts = append(opts, string(c))
				continue
			}
			if cluster != "" {
				opts = append(opts, string(c)+"="+cluster)
				cluster = ""
			} else if i < len(args) {
				opts = append(opts, string(c)+"="+args[i])
				i++
			} else {
				opts = append(opts, "?"+string(c)+":missing-argument")
			}
		}
	}
	return opts, args[i:]
}

type sshParsed struct {
	Opts        []string
	Destination string
	HasDest     bool
	Command     []string
}

// parseSSH: options, destination, then options are parsed again after the
// destination (ssh.c re-runs getopt), the rest is the remote command.
func parseSSH(args []string) sshParsed {
	var p sshParsed
	opts, rest := bsdGetopt(args, sshOptstring)
	p.Opts = opts
	if len(rest) == 0 {
		return p
	}
	p.Destination, p.HasDest = rest[0], true
	opts, rest = bsdGetopt(rest[1:], sshOptstring)
	p.Opts = append(p.Opts, opts...)
	p.Command = rest
	return p
}

type scpParsed struct {
	Opts     []string
	Operands []string
}

func parseSCP(args []string) scpParsed {
	opts, rest := bsdGetopt(args, scpOptstring)
	return scpParsed{opts, rest}
}

// flagSet describes the options of one docker (sub)command in pflag terms.
type flagSet struct {
	long         map[string]bool // long name -> takes a value
	short        map[byte]string // shorthand -> long name
	interspersed bool            // options may follow operands
}

var (
	dockerGlobal = flagSet{
		long: map[string]bool{"config": true, "context": true, "debug": false, "host": true, "log-level": true, "tls": false,
			"tlscacert": true, "tlscert": true, "tlskey": true, "tlsverify": false, "version": false, "help": false},
		short: map[byte]string{'c': "context", 'D': "debug", 'H': "host", 'l': "log-level", 'v': "version"},
	}
	dockerSub = map[string]flagSet{
		"exec": {long: map[string]bool{"detach": false, "detach-keys": true, "env": true, "env-file": true, "interactive": false,
			"privileged": false, "tty": false, "user": true, "workdir": true, "help": false},
			short: map[byte]string{'d': "detach", 'e': "env", 'i': "interactive", 't': "tty", 'u': "user", 'w': "workdir"}},
		"cp": {long: map[string]bool{"archive": false, "follow-link": false, "quiet": false, "help": false},
			short: map[byte]string{'a': "archive", 'L': "follow-link", 'q': "quiet"}, interspersed: true},
		"stop": {long: map[string]bool{"signal": true, "time": true, "timeout": true, "help": false},
			short: map[byte]string{'s': "signal", 't': "timeout"}, interspersed: true},
		"start": {long: map[string]bool{"attach": false, "interactive": false, "detach-keys": true, "checkpoint": true, "checkpoint-dir": true, "help": false},
			short: map[byte]string{'a': "attach", 'i': "interactive"}, interspersed: true},
	}
)

// pflagParse parses args against fs. It returns normalized options
// ("name" / "name=value", unknown ones as "?token"), the operands and the
// unparsed remainder (non-empty only when stopAtFirstOperand is set: the first
// operand and everything after it).
func pflagParse(args []string, fs flagSet, stopAtFirstOperand bool) (opts, operands, remainder []string) {
	i := 0
	for i < len(args) {
		a := args[i]
		i++
		switch {
		case a == "--":
			operands = append(operands, args[i:]...)
			return
		case strings.HasPrefix(a, "--"):
			name, value, hasValue := strings.Cut(a[2:], "=")
			takes, known := fs.long[name]
			if !known {
				opts = append(opts, "?"+a)
				continue
			}
			switch {
			case hasValue:
				opts = append(opts, name+"="+value)
			case !takes:
				opts = append(opts, name)
			case i < len(args):
				opts = append(opts, name+"="+args[i])
				i++
			default:
				opts = append(opts, "?"+a+":missing-argument")
			}
		case len(a) >= 2 && a[0] == '-':
			cluster := a[1:]
			for len(cluster) > 0 {
				c := cluster[0]
				cluster = cluster[1:]
				name, known := fs.short[c]
				if !known {
					opts = append(opts, "?-"+string(c))
					continue
				}
				if !fs.long[name] {
					opts = append(opts, name)
					continue
				}
				switch {
				case cluster != "":
					opts = append(opts, name+"="+strings.TrimPrefix(cluster, "="))
					cluster = ""
				case i < len(args):
					opts = append(opts, name+"="+args[i])
					i++
				default:
					opts = append(opts, "?-"+string(c)+":missing-argument")
				}
			}
		default:
			if stopAtFirstOperand || !fs.interspersed {
				if stopAtFirstOperand {
					remainder = args[i-1:]
				} else {
					operands = append(operands, args[i-1:]...)
				}
				return
			}
			operands = append(operands, a)
		}
	}
	return
}

type dockerParsed struct {
	Globals  []string
	Sub      string
	Opts     []string
	Operands []string
}

func parseDockerArgv(args []string) dockerParsed {
	var p dockerParsed
	var rem []string
	p.Globals, _, rem = pflagParse(args, dockerGlobal, true)
	if len(rem) == 0 {
		return p
	}
	p.Sub = rem[0]
	fs, ok := dockerSub[p.Sub]
	if !ok {
		p.Operands = rem[1:]
		return p
	}
	p.Opts, p.Operands, _ = pflagParse(rem[1:], fs, false)
	return p
}

func (p dockerParsed) String() string {
	return fmt.Sprintf("globals=%q sub=%s opts=%q operands=%q", p.Globals, p.Sub, p.Opts, p.Operands)
}
