// Monitor group procs: properties decided at the process boundary.
//
//	C27 atomic replacement of persistent files (strace crash/fault sweep over a child writer)
//	C28 daemon lock exclusion/availability (many contender processes, kills, interval + porcupine checkers)
//	C35 transport stream Close terminates the agent (fake agents with four termination behaviours)
//	C36 URL components never become ssh/scp/docker options (recording fake executables)
//	C43 housekeeping removes only stale artifacts (populated data directory, canary tree, inotify)
//	C46 agent bundle search order and exact extraction (bundle layouts around a copy of this binary)
//
// The same binary re-executes itself in child roles. The role is selected by the
// environment variable VERIF_ROLE, or — for the recorders found through
// MUTAGEN_SSH_PATH / MUTAGEN_DOCKER_PATH — by the base name of argv[0]
// (ssh, scp, docker are symbolic links to this binary).
package main

import (
	"os"
	"path/filepath"
	"runtime"

	"verif/internal/vk"
)

const roleEnv = "VERIF_ROLE"

func init() {
	// I2: the crash-writer's main goroutine stays on the main thread so that
	// strace's per-thread syscall ordinals are reproducible between runs.
	if os.Getenv(roleEnv) == "crash-writer" {
		runtime.LockOSThread()
	}
}

func main() {
	// Recorder roles first: their argv is hostile by construction and must not
	// be interpreted by anything else in this binary.
	switch base := filepath.Base(os.Args[0]); base {
	case "ssh", "scp", "docker":
		if os.Getenv(recFileEnv) != "" {
			recorderMain(base)
			return
		}
		os.Stderr.WriteString("verif recorder invoked without " + recFileEnv + "\n")
		os.Exit(97)
	}
	switch os.Getenv(roleEnv) {
	case "crash-writer":
		crashWriterMain()
		return
	case "lock-contender":
		lockContenderMain()
		return
	case "fake-agent":
		fakeAgentMain()
		return
	case "stderr-holder":
		stderrHolderMain()
		return
	case "c36-worker":
		c36WorkerMain()
		return
	case "housekeeper":
		housekeeperMain()
		return
	case "bundle-probe":
		bundleProbeMain()
		return
	}
	vk.Main("procs", map[string]func(){
		"C27": c27,
		"C28": c28,
		"C35": c35,
		"C36": c36,
		"C43": c43,
		"C46": c46,
	})
}
