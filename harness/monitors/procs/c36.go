package main

// C36 — URL components are never treated as command-line options (DESIGN §5 C36, I7).
//
// Worker processes (role c36-worker) push generated SSH and Docker URLs through
// the real url.Parse → EnsureValid → ssh.NewTransport / docker.NewTransport →
// Command (the returned command is run) and Copy, with MUTAGEN_SSH_PATH and
// MUTAGEN_DOCKER_PATH pointing at a directory whose ssh, scp and docker are this
// binary (recorder role): every invocation appends argv, cwd and environment to
// a per-case file and answers like the scripted tool. Each URL is paired with a
// control run of the same shape whose components are harmless; the judge parses
// hostile and control argv with the tool's documented grammar and demands that
// the hostile argv has the control's options (after substituting the components
// where the transport intends them, e.g. --user) and that the destination /
// container operands are exactly the URL components.

import (
	"bufio"
	"context"
	"encoding/json"
	"fmt"
	"math/rand"
	"os"
	"os/exec"
	"path/filepath"
	"reflect"
	"sort"
	"strings"
	"time"

	"github.com/mutagen-io/mutagen/pkg/agent"
	dockertransport "github.com/mutagen-io/mutagen/pkg/agent/transport/docker"
	sshtransport "github.com/mutagen-io/mutagen/pkg/agent/transport/ssh"
	"github.com/mutagen-io/mutagen/pkg/prompting"
	urlpkg "github.com/mutagen-io/mutagen/pkg/url"

	"verif/internal/vk"
)

const (
	recFileEnv   = "VERIF_REC_FILE"
	recScriptEnv = "VERIF_REC_SCRIPT"

	ctlUser      = "ctluser7"
	ctlHost      = "ctlhost7"
	ctlContainer = "ctlbox7"
)

// ---------------------------------------------------------------- recorder role

type recScript struct {
	Mode  string `json:"mode"` // posix | windows | notrunning | nosuch
	Home  string `json:"home"`
	User  string `json:"user"`
	Group string `json:"group"`
}

type recRecord struct {
	Tool   string   `json:"tool"`
	Argv   [][]byte `json:"argv"` // exact bytes
	Cwd    string   `json:"cwd"`
	Env    []string `json:"env"` // DOCKER_*, SSH_ASKPASS*, DISPLAY, MUTAGEN_* variables
	Action string   `json:"action"`
}

func (r recRecord) args() []string {
	out := make([]string, len(r.Argv))
	for i, a := range r.Argv {
		out[i] = string(a)
	}
	return out
}

func recorderMain(tool string) {
	rec := recRecord{Tool: tool}
	for _, a := range os.Args[1:] {
		rec.Argv = append(rec.Argv, []byte(a))
	}
	rec.Cwd, _ = os.Getwd()
	for _, e := range os.Environ() {
		if strings.HasPrefix(e, "DOCKER_") || strings.HasPrefix(e, "SSH_ASKPASS") || strings.HasPrefix(e, "DISPLAY=") || strings.HasPrefix(e, "MUTAGEN_") {
			rec.Env = append(rec.Env, e)
		}
	}
	var script recScript
	json.Unmarshal([]byte(os.Getenv(recScriptEnv)), &script)
	code, stdout, stderr := 0, "", ""
	if tool == "docker" {
		code, stdout, stderr, rec.Action = fakeDocker(os.Args[1:], script)
	} else {
		rec.Action = "ok"
	}
	data, _ := json.Marshal(rec)
	f, err := os.OpenFile(os.Getenv(recFileEnv), os.O_WRONLY|os.O_CREATE|os.O_APPEND, 0o600)
	if err != nil {
		os.Stderr.WriteString("recorder: " + err.Error() + "\n")
		os.Exit(98)
	}
	f.Write(append(data, '\n'))
	f.Close()
	os.Stdout.WriteString(stdout)
	os.Stderr.WriteString(stderr)
	os.Exit(code)
}

// fakeDocker answers like the docker CLI would for what the argv MEANS under
// docker's own grammar.
func fakeDocker(args []string, s recScript) (code int, stdout, stderr, action string) {
	p := parseDockerArgv(args)
	for _, o := range append(append([]string{}, p.Globals...), p.Opts...) {
		if strings.HasPrefix(o, "?") {
			return 125, "", "unknown flag: " + o[1:] + "\nSee 'docker " + p.Sub + " --help'.\n", "usage-error"
		}
	}
	switch p.Sub {
	case "exec":
		if len(p.Operands) < 2 {
			return 1, "", "docker: 'docker exec' requires at least 2 arguments\n", "usage-error"
		}
		container, cmd := p.Operands[0], strings.Join(p.Operands[1:], " ")
		switch s.Mode {
		case "nosuch":
			return 1, "", "Error response from daemon: No such container: " + container + "\n", "nosuch"
		case "notrunning":
			return 1, "", "Error response from daemon: container " + container + " is not running\n", "notrunning"
		}
		switch {
		case cmd == "env":
			if s.Mode == "windows" {
				return 126, "", "exec failed: env: executable file not found\n", "env-fails"
			}
			return 0, "PATH=/usr/bin:/bin\nHOME=" + s.Home + "\nTERM=dumb\n", "", "env"
		case cmd == "cmd /c set":
			if s.Mode == "windows" {
				return 0, "ALLUSERSPROFILE=C:\\ProgramData\r\nUSERPROFILE=" + s.Home + "\r\n", "", "set"
			}
			return 126, "", "exec failed: cmd: executable file not found\n", "set-fails"
		case cmd == "id -un":
			return 0, s.User + "\n", "", "id-un"
		case cmd == "id -gn":
			return 0, s.Group + "\n", "", "id-gn"
		case strings.HasPrefix(cmd, "chown "):
			return 0, "", "", "chown"
		}
		return 0, "", "", "exec"
	case "cp":
		if len(p.Operands) != 2 {
			return 1, "", "docker: 'docker cp' requires 2 arguments\n", "usage-error"
		}
		return 0, "", "", "cp"
	case "stop", "start":
		if len(p.Operands) < 1 {
			return 1, "", "docker: 'docker " + p.Sub + "' requires at least 1 argument\n", "usage-error"
		}
		return 0, "", "", p.Sub
	}
	return 1, "", "docker: unknown command\n", "usage-error"
}

// ---------------------------------------------------------------- worker role

type c36Case struct {
	Index      int               `json:"case"`
	Tool       string            `json:"tool"` // ssh | docker
	Raw        string            `json:"url"`
	Parameters map[string]string `json:"parameters,omitempty"`
	Script     recScript         `json:"script"`
	Prompter   bool              `json:"prompter"`
	Shape      string            `json:"shape"` // cases of one shape share a control run
}

type c36Op struct {
	Name    string      `json:"op"` // command | copy
	Error   string      `json:"error,omitempty"`
	Hostile []recRecord `json:"hostile"`
	Control []recRecord `json:"control"`
	CtlErr  string      `json:"control_error,omitempty"`
}

type c36Result struct {
	Case     c36Case `json:"case"`
	Stage    string  `json:"stage"` // parse-rejected | invalid | transport-rejected | ran | panic
	Error    string  `json:"error,omitempty"`
	User     string  `json:"user"`
	Host     string  `json:"host"`
	Port     uint32  `json:"port"`
	Path     string  `json:"path"`
	Ops      []c36Op `json:"ops,omitempty"`
	StrayRec int     `json:"stray_records"`
}

type yesPrompter struct{}

func (yesPrompter) Message(string) error          { return nil }
func (yesPrompter) Prompt(string) (string, error) { return "yes", nil }

func readRecords(path string) []recRecord {
	f, err := os.Open(path)
	if err != nil {
		return nil
	}
	defer f.Close()
	var out []recRecord
	sc := bufio.NewScanner(f)
	sc.Buffer(make([]byte, 1<<20), 1<<24)
	for sc.Scan() {
		var r recRecord
		if json.Unmarshal(sc.Bytes(), &r) == nil {
			out = append(out, r)
		}
	}
	return out
}

func c36WorkerMain() {
	casesPath := os.Getenv("VERIF_C36_CASES")
	outPath := os.Getenv("VERIF_C36_OUT")
	work := os.Getenv("VERIF_C36_WORK")
	data, err := os.ReadFile(casesPath)
	must(err)
	var cases []c36Case
	must(json.Unmarshal(data, &cases))
	out, err := os.Create(outPath)
	must(err)
	w := bufio.NewWriter(out)
	prompter, err := prompting.RegisterPrompter(yesPrompter{})
	must(err)
	localAgent := filepath.Join(work, "agent-to-copy")
	must(os.WriteFile(localAgent, []byte("agent"), 0o700))
	seq := 0
	// runOps drives Command (and runs what it returns) and Copy on fresh transports.
	runOps := func(mk func() (agent.Transport, error), script recScript) (ops []c36Op, rejected string) {
		sdata, _ := json.Marshal(script)
		os.Setenv(recScriptEnv, string(sdata))
		// one transport for both operations (the Docker transport probes the container once)
		os.Setenv(recFileEnv, filepath.Join(work, "stray.jsonl"))
		t, err := mk()
		if err != nil {
			return nil, err.Error()
		}
		for _, name := range []string{"command", "copy"} {
			seq++
			recFile := filepath.Join(work, fmt.Sprintf("rec-%06d.jsonl", seq))
			os.Setenv(recFileEnv, recFile)
			op := c36Op{Name: name}
			if name == "command" {
				cmd, err := t.Command("mutagen-agent synchronizer --log-level=info")
				if err != nil {
					op.Error = err.Error()
				} else {
					ctx, cancel := context.WithTimeout(context.Background(), 60*time.Second)
					c2 := exec.CommandContext(ctx, cmd.Path, cmd.Args[1:]...)
					c2.Env, c2.Dir, c2.SysProcAttr = cmd.Env, cmd.Dir, cmd.SysProcAttr
					if err := c2.Run(); err != nil {
						op.Error = "run: " + err.Error()
					}
					cancel()
				}
			} else {
				if err := t.Copy(localAgent, ".mutagen-agent-3f1c"); err != nil {
					op.Error = err.Error()
				}
			}
			op.Hostile = readRecords(recFile)
			os.Remove(recFile)
			ops = append(ops, op)
		}
		return ops, ""
	}
	controlCache := map[string][]c36Op{}
	for _, c := range cases {
		res := c36Result{Case: c}
		func() {
			defer func() {
				if p := recover(); p != nil {
					res.Stage, res.Error = "panic", fmt.Sprint(p)
				}
			}()
			// anything recorded outside an operation would land here
			stray := filepath.Join(work, "stray.jsonl")
			os.Setenv(recFileEnv, stray)
			u, err := urlpkg.Parse(c.Raw, urlpkg.Kind_Synchronization, true)
			if err != nil {
				res.Stage, res.Error = "parse-rejected", err.Error()
				return
			}
			if c.Tool == "docker" {
				u.Parameters = c.Parameters
			}
			res.User, res.Host, res.Port, res.Path = u.User, u.Host, u.Port, u.Path
			wantProtocol := urlpkg.Protocol_SSH
			if c.Tool == "docker" {
				wantProtocol = urlpkg.Protocol_Docker
			}
			if u.Protocol != wantProtocol {
				res.Stage, res.Error = "parse-rejected", "parsed as another protocol: "+u.Protocol.String()
				return
			}
			if err := u.EnsureValid(); err != nil {
				res.Stage, res.Error = "invalid", err.Error()
				return
			}
			p := ""
			if c.Prompter {
				p = prompter
			}
			script := c.Script
			if u.User != "" {
				script.User = u.User
			}
			mkFor := func(user, host string) func() (agent.Transport, error) {
				if c.Tool == "ssh" {
					return func() (agent.Transport, error) { return sshtransport.NewTransport(user, host, uint16(u.Port), p) }
				}
				return func() (agent.Transport, error) {
					return dockertransport.NewTransport(host, user, u.Environment, u.Parameters, p)
				}
			}
			ops, rejected := runOps(mkFor(u.User, u.Host), script)
			if rejected != "" {
				res.Stage, res.Error = "transport-rejected", rejected
				return
			}
			// control of the same shape
			cu, ch := "", ctlHost
			cscript := c.Script
			if u.User != "" {
				cu = ctlUser
				cscript.User = ctlUser
			}
			if c.Tool == "docker" {
				ch = ctlContainer
			}
			pj, _ := json.Marshal(u.Parameters)
			key := fmt.Sprintf("%s|%v|%d|%s|%s|%v", c.Tool, cu != "", u.Port, pj, vk.JSON(cscript), c.Prompter)
			ctl, ok := controlCache[key]
			if !ok {
				var crej string
				ctl, crej = runOps(mkFor(cu, ch), cscript)
				if crej != "" {
					ctl = []c36Op{{Name: "command", CtlErr: crej}, {Name: "copy", CtlErr: crej}}
				}
				controlCache[key] = ctl
			}
			for i := range ops {
				if i < len(ctl) {
					ops[i].Control = ctl[i].Hostile
					ops[i].CtlErr = ctl[i].Error + ctl[i].CtlErr
				}
			}
			res.Stage, res.Ops = "ran", ops
		}()
		// anything a recorder wrote outside an operation (during Parse, EnsureValid or NewTransport)
		res.StrayRec = len(readRecords(filepath.Join(work, "stray.jsonl")))
		os.Remove(filepath.Join(work, "stray.jsonl"))
		line, _ := json.Marshal(res)
		w.Write(line)
		w.WriteByte('\n')
		w.Flush()
	}
	out.Close()
	os.Exit(0)
}

// ---------------------------------------------------------------- parent

var (
	hostileLeads = []string{"-", "--", "-o", "-oProxyCommand=touch${IFS}x", "-oProxyCommand=id", "-l", "-lroot", "-luser", "-F/dev/null", "-i", "-p", "-P22", "-v", "-E/tmp/x",
		"--privileged", "--user=root", "--user", "-u", "-uroot", "-it", "-d", "-e", "-eX=1", "--env=X=1", "--workdir=/", "-w/", "--help", "--rm", "-D", "-H", "--host=tcp://evil:1", "--detach-keys=a", "-a", "-L", "-q", "-s", "-t", "-t9", "--time=0", "--signal=KILL", "-Z", "--nosuchflag"}
	benignParts = []string{"host", "h", "box", "my-host", "a-b", "web_1", "h=1", "x=y", "ho st", "a b", "10.0.0.1", "h.example.org", "=", "a=-b", "é", "c%41", "name--x", "+x", "\\-x", "'q'", "\"q\"", "$(id)", "a;b", "a|b", "*"}
)

// wrappers a parser or transport might normalise away before building argv
// (SCP-style brackets, surrounding whitespace, quotes, a trailing dot)
var c36Wrappers = []string{"[%s]", " %s", "%s ", "\t%s", "'%s'", "\"%s\"", "[%s].", " [%s] ", "[[%s]]", "(%s)", "<%s>"}

func c36Wrap(s string, k int) string {
	return fmt.Sprintf(c36Wrappers[k%len(c36Wrappers)], s)
}

// c36Canon strips such wrappers: what a normalising transport could end up passing.
func c36Canon(s string) string {
	for {
		t := strings.TrimRight(strings.TrimSpace(s), ".")
		if len(t) >= 2 {
			switch t[:1] + t[len(t)-1:] {
			case "[]", "''", "\"\"", "()", "<>":
				t = t[1 : len(t)-1]
			}
		}
		if t == s {
			return s
		}
		s = t
	}
}

func c36Component(rng *rand.Rand, hostileBias int) string {
	if rng.Intn(100) < hostileBias {
		s := hostileLeads[rng.Intn(len(hostileLeads))]
		switch rng.Intn(4) {
		case 0:
			s += benignParts[rng.Intn(len(benignParts))]
		case 1:
			s += " " + benignParts[rng.Intn(len(benignParts))]
		}
		if rng.Intn(3) == 0 {
			s = c36Wrap(s, rng.Intn(len(c36Wrappers)))
		}
		return s
	}
	s := benignParts[rng.Intn(len(benignParts))]
	if rng.Intn(6) == 0 {
		s += hostileLeads[rng.Intn(len(hostileLeads))] // option-like text that is NOT leading
	}
	return s
}

func c36Generate(r *vk.Run, n, systematicLeads int) []c36Case {
	rng := r.Rand("urls")
	cases := make([]c36Case, 0, n)
	// systematic part: each of the first `systematicLeads` (shuffled) option-like
	// leads as SSH user, SSH host, Docker user and Docker container
	type forced struct{ user, host string }
	var plan []forced
	for _, li := range rng.Perm(len(hostileLeads))[:systematicLeads] {
		l := hostileLeads[li]
		plan = append(plan, forced{l, "host"}, forced{l, "box"}, forced{"", l}, forced{"", l})
		// the same lead hidden in a wrapper: SSH user, Docker container, SSH host, Docker user
		w := c36Wrap(l, li)
		plan = append(plan, forced{w, "host"}, forced{"", w}, forced{"", c36Wrap(l, li+1)}, forced{w, "box"})
	}
	for i := 0; i < n; i++ {
		c := c36Case{Index: i, Script: recScript{Mode: "posix", Home: "/home/u", User: "root", Group: "staff"}}
		user, host := "", c36Component(rng, 50)
		if rng.Intn(3) > 0 {
			user = c36Component(rng, 50)
		}
		if i < len(plan) {
			// plan entries alternate ssh (even i) / docker (odd i): user-position pair, then host-position pair
			user, host = plan[i].user, plan[i].host
		}
		if i%2 == 0 {
			c.Tool = "ssh"
			raw := host
			if user != "" {
				raw = user + "@" + host
			}
			port := 0
			if rng.Intn(3) == 0 {
				port = []int{2222, 65535}[rng.Intn(2)]
				raw += fmt.Sprintf(":%d", port)
			}
			c.Shape = fmt.Sprintf("ssh|%v|%d", user != "", port)
			raw += ":" + []string{"/srv/data", "~/x", "rel/path", "/p with space", "-path"}[rng.Intn(5)]
			c.Raw = raw
		} else {
			c.Tool = "docker"
			raw := "docker://"
			if rng.Intn(8) == 0 {
				raw = "DOCKER://"
			}
			if user != "" {
				raw += user + "@"
			}
			raw += host + []string{"/srv/data", "/~/x", "/~other/x", "/C:\\data", "/p with space"}[rng.Intn(5)]
			c.Raw = raw
			switch rng.Intn(10) {
			case 0, 1:
				c.Script.Mode, c.Script.Home = "windows", "C:\\Users\\u"
			case 2:
				c.Script.Mode = "notrunning"
			case 3:
				c.Script.Mode = "nosuch"
			}
			// few distinct shapes, so that control runs are shared
			pset := 0
			if rng.Intn(3) == 0 {
				pset = 1 + rng.Intn(2)
				c.Parameters = []map[string]string{nil, {"host": "tcp://10.1.1.1:2375", "tlsverify": ""}, {"context": "ctx", "config": "/etc/dk", "tls": "", "tlscacert": "/ca.pem"}}[pset]
			}
			c.Prompter = c.Script.Mode == "windows"
			c.Shape = fmt.Sprintf("docker|%v|%s|%d", user != "", c.Script.Mode, pset)
		}
		if c.Tool == "ssh" {
			c.Prompter = i%8 == 6
			c.Shape += fmt.Sprint(c.Prompter)
		}
		cases = append(cases, c)
	}
	return cases
}

func substAll(ss []string, rep *strings.Replacer) []string {
	out := make([]string, len(ss))
	for i, s := range ss {
		out[i] = rep.Replace(s)
	}
	return out
}

func sameStrings(a, b []string) bool {
	if len(a) == 0 && len(b) == 0 {
		return true
	}
	return reflect.DeepEqual(a, b)
}

// c36Judge compares one hostile record with its control record. It returns ""
// if the argv means what the transport intends, else a description.
func c36Judge(res *c36Result, h, c recRecord) (problem string, consumed bool) {
	rep := strings.NewReplacer(ctlUser, res.User, ctlHost, res.Host, ctlContainer, res.Host)
	switch h.Tool {
	case "ssh":
		hp, cp := parseSSH(h.args()), parseSSH(c.args())
		target := res.Host
		if res.User != "" {
			target = res.User + "@" + res.Host
		}
		switch {
		case !sameStrings(hp.Opts, cp.Opts):
			return fmt.Sprintf("ssh parses options %q, the transport intends %q", hp.Opts, cp.Opts), true
		case !hp.HasDest || !c36SameOperand(hp.Destination, target):
			return fmt.Sprintf("ssh takes %q as destination, the URL says %q", hp.Destination, target), true
		case !sameStrings(hp.Command, cp.Command):
			return fmt.Sprintf("ssh runs remote command %q instead of %q", hp.Command, cp.Command), false
		}
	case "scp":
		hp, cp := parseSCP(h.args()), parseSCP(c.args())
		want := substAll(cp.Operands, rep)
		switch {
		case !sameStrings(hp.Opts, cp.Opts):
			return fmt.Sprintf("scp parses options %q, the transport intends %q", hp.Opts, cp.Opts), true
		case !c36SameOperands(hp.Operands, want):
			return fmt.Sprintf("scp operands %q, intended %q", hp.Operands, want), false
		}
	case "docker":
		hp, cp := parseDockerArgv(h.args()), parseDockerArgv(c.args())
		wantOpts := substAll(cp.Opts, rep)
		switch {
		case !sameStrings(hp.Globals, cp.Globals) || hp.Sub != cp.Sub:
			return fmt.Sprintf("docker top level parses as %q %s, intended %q %s", hp.Globals, hp.Sub, cp.Globals, cp.Sub), true
		case !sameStrings(hp.Opts, wantOpts):
			return fmt.Sprintf("docker %s parses options %q, the transport intends %q", hp.Sub, hp.Opts, wantOpts), true
		}
		switch hp.Sub {
		case "exec":
			if len(hp.Operands) == 0 || !c36SameOperand(hp.Operands[0], res.Host) {
				return fmt.Sprintf("docker exec takes %q as container, the URL says %q", first(hp.Operands), res.Host), true
			}
			// the command is compared as text: the transport splits it on spaces
			if len(cp.Operands) > 0 && strings.Join(hp.Operands[1:], " ") != rep.Replace(strings.Join(cp.Operands[1:], " ")) {
				return fmt.Sprintf("docker exec runs %q instead of %q", hp.Operands[1:], substAll(cp.Operands[1:], rep)), false
			}
		default:
			if want := substAll(cp.Operands, rep); !c36SameOperands(hp.Operands, want) {
				return fmt.Sprintf("docker %s operands %q, intended %q", hp.Sub, hp.Operands, want), true
			}
		}
	}
	return "", false
}

// c36SameOperand: the operand is the URL component, verbatim or with wrappers
// (brackets, quotes, surrounding blanks, trailing dot) normalised away per part.
func c36SameOperand(operand, component string) bool {
	if operand == component {
		return true
	}
	canonParts := func(s string) string {
		parts := strings.Split(s, "@")
		for i := range parts {
			parts[i] = c36Canon(parts[i])
		}
		return c36Canon(strings.Join(parts, "@"))
	}
	return canonParts(operand) == canonParts(component)
}

// c36SameOperands compares operand lists; a "target:path" operand may carry a
// wrapper-normalised target.
func c36SameOperands(got, want []string) bool {
	if len(got) != len(want) {
		return false
	}
	for i := range got {
		if got[i] == want[i] {
			continue
		}
		gi, wi := strings.LastIndex(got[i], ":"), strings.LastIndex(want[i], ":")
		if gi < 0 || wi < 0 {
			if !c36SameOperand(got[i], want[i]) {
				return false
			}
			continue
		}
		if got[i][gi:] != want[i][wi:] || !c36SameOperand(got[i][:gi], want[i][:wi]) {
			return false
		}
	}
	return true
}

func first(s []string) string {
	if len(s) == 0 {
		return ""
	}
	return s[0]
}

func c36() {
	r := vk.Start("C36", "exploration")
	// every case costs 2 (ssh) to 6 (docker) process starts of this binary
	n := r.Pick(120, 1200)
	cases := c36Generate(r, n, r.Pick(10, len(hostileLeads)))
	scratch := r.Scratch()
	fakeDir := filepath.Join(scratch, "fakebin")
	must(os.MkdirAll(fakeDir, 0o755))
	for _, tool := range []string{"ssh", "scp", "docker"} {
		must(os.Symlink(selfBin(), filepath.Join(fakeDir, tool)))
	}
	workers := workerCount()
	results := make([][]c36Result, workers)
	byShape := append([]c36Case(nil), cases...)
	sort.SliceStable(byShape, func(i, j int) bool { return byShape[i].Shape < byShape[j].Shape })
	parallel(workers, workers, func(w int) {
		// contiguous chunks of the shape-sorted list: one worker sees few shapes
		lo, hi := w*len(byShape)/workers, (w+1)*len(byShape)/workers
		mine := byShape[lo:hi]
		if len(mine) == 0 {
			return
		}
		work := filepath.Join(scratch, fmt.Sprintf("worker-%d", w))
		must(os.MkdirAll(work, 0o755))
		data, _ := json.Marshal(mine)
		must(os.WriteFile(filepath.Join(work, "cases.json"), data, 0o600))
		cmd := exec.Command(selfBin())
		cmd.Env = childEnv(roleEnv+"=c36-worker",
			"VERIF_C36_CASES="+filepath.Join(work, "cases.json"),
			"VERIF_C36_OUT="+filepath.Join(work, "results.jsonl"),
			"VERIF_C36_WORK="+work,
			"MUTAGEN_SSH_PATH="+fakeDir, "MUTAGEN_DOCKER_PATH="+fakeDir,
			"PATH="+fakeDir+":/usr/bin:/bin",
			"DOCKER_HOST=", "HOME="+work)
		cmd.Stdout, cmd.Stderr = os.Stdout, os.Stderr
		if err := cmd.Run(); err != nil {
			fmt.Printf("worker %d ended with %v\n", w, err)
		}
		f, err := os.Open(filepath.Join(work, "results.jsonl"))
		if err != nil {
			return
		}
		defer f.Close()
		sc := bufio.NewScanner(f)
		sc.Buffer(make([]byte, 1<<20), 1<<26)
		for sc.Scan() {
			var res c36Result
			if json.Unmarshal(sc.Bytes(), &res) == nil {
				results[w] = append(results[w], res)
			}
		}
	})
	var all []c36Result
	for _, rs := range results {
		all = append(all, rs...)
	}
	sort.Slice(all, func(i, j int) bool { return all[i].Case.Index < all[j].Case.Index })
	if len(all) < len(cases) {
		r.Count("cases_without_result", int64(len(cases)-len(all)))
		for i := 0; i < len(cases)-len(all); i++ {
			r.Inconclusive("worker produced no result for a case")
		}
	}
	for i := range all {
		res := &all[i]
		r.Eval(1)
		r.Count("stage:"+res.Stage, 1)
		lead := func(s string) string {
			switch {
			case s == "":
				return "empty"
			case strings.HasPrefix(s, "--"):
				return "--"
			case strings.HasPrefix(s, "-"):
				return "-"
			case strings.HasPrefix(c36Canon(s), "-"):
				return "wrapped-" + s[:1]
			}
			return "plain"
		}
		switch res.Stage {
		case "panic":
			r.Violation(map[string]string{"rule": "panic", "tool": res.Case.Tool}, "panic while parsing/validating the URL or driving the transport: "+res.Error, res)
			continue
		case "parse-rejected", "invalid", "transport-rejected":
			// rejected: then no command may have run
			if res.StrayRec > 0 {
				r.Violation(map[string]string{"rule": "rejected-after-running-a-command", "tool": res.Case.Tool}, fmt.Sprintf("URL %q was rejected (%s: %s) but %d command(s) had already been run", res.Case.Raw, res.Stage, res.Error, res.StrayRec), res)
			}
			if res.Stage != "parse-rejected" {
				r.Count("rejected_and_nothing_ran", 1)
				if strings.HasPrefix(res.User, "-") || strings.HasPrefix(res.Host, "-") {
					r.Count("rejected_with_leading_dash_component", 1)
				}
				r.Distinct(strings.Join([]string{res.Case.Tool, lead(res.User), lead(res.Host), res.Stage}, "|"))
				r.Sample(map[string]any{"url": res.Case.Raw, "user": res.User, "host": res.Host, "rejected_by": res.Stage, "error": res.Error, "commands_run": 0})
			}
			continue
		}
		if res.StrayRec > 0 {
			r.Count("records_outside_operations", int64(res.StrayRec))
		}
		records := 0
		problems := 0
		for _, op := range res.Ops {
			records += len(op.Hostile)
			r.Count("recorded_invocations", int64(len(op.Hostile)))
			if len(op.Hostile) == 0 {
				if op.Error != "" {
					r.Count("operation_rejected_without_running_anything", 1)
				} else {
					r.Inconclusive("operation succeeded but nothing was recorded")
				}
				continue
			}
			if len(op.Control) == 0 {
				r.Inconclusive("control run recorded nothing")
				continue
			}
			for k, h := range op.Hostile {
				r.Count("tool:"+h.Tool, 1)
				// control record of the same tool at the same position (the replies are identical, so
				// the sequences agree up to the first misparse)
				var ctl *recRecord
				if k < len(op.Control) && op.Control[k].Tool == h.Tool {
					ctl = &op.Control[k]
				} else {
					for j := range op.Control {
						if op.Control[j].Tool == h.Tool {
							ctl = &op.Control[j]
						}
					}
				}
				if ctl == nil {
					r.Inconclusive("no control record for tool")
					continue
				}
				problem, consumed := c36Judge(res, h, *ctl)
				if problem == "" {
					continue
				}
				problems++
				sig := map[string]string{"tool": h.Tool}
				token := res.Host
				component := "host"
				if res.Case.Tool == "docker" {
					component = "container"
				} else if res.User != "" {
					token, component = res.User+"@"+res.Host, "user"
				}
				if consumed && (strings.HasPrefix(c36Canon(token), "-") || strings.HasPrefix(strings.TrimLeft(token, "[(<'\" \t"), "-")) {
					sig["rule"], sig["component"] = "component-parsed-as-option", component
				} else {
					sig["rule"], sig["operation"] = "argv-differs-from-intent", op.Name
				}
				r.Violation(sig, fmt.Sprintf("URL %q (user %q, host/container %q) reaches %s as argv %q: %s", res.Case.Raw, res.User, res.Host, h.Tool, h.args(), problem),
					map[string]any{"case": res.Case, "user": res.User, "host": res.Host, "operation": op.Name, "operation_error": op.Error,
						"argv": h.args(), "control_argv": ctl.args(), "fake_tool_action": h.Action})
			}
		}
		if records > 0 {
			r.Count("accepted_and_ran", 1)
			r.Distinct(strings.Join([]string{res.Case.Tool, lead(res.User), lead(res.Host), res.Case.Script.Mode, fmt.Sprint(res.Port != 0), fmt.Sprint(len(res.Case.Parameters) > 0), fmt.Sprint(problems > 0)}, "|"))
			if problems == 0 {
				var argvs [][]string
				for _, op := range res.Ops {
					for _, h := range op.Hostile {
						if len(argvs) < 3 {
							argvs = append(argvs, h.args())
						}
					}
				}
				if lead(res.User) != "plain" || lead(res.Host) != "plain" || strings.ContainsAny(res.User+res.Host, " =") {
					r.Sample(map[string]any{"url": res.Case.Raw, "user": res.User, "host": res.Host, "argv": argvs})
				}
			}
			if strings.HasPrefix(res.User, "-") || strings.HasPrefix(res.Host, "-") {
				r.Count("accepted_with_leading_dash_component", 1)
			} else if strings.HasPrefix(c36Canon(res.User), "-") || strings.HasPrefix(c36Canon(res.Host), "-") {
				r.Count("accepted_with_wrapped_leading_dash_component", 1)
			}
		}
	}
	r.Finish("one case = one generated SSH or Docker URL through the real Parse/EnsureValid/NewTransport, Command (run) and Copy against recording fake ssh/scp/docker, judged against a control run of the same shape with harmless components; distinct = (tool, leading characters of user and host/container, container kind, port, parameters, judged ok/violating)", r.Pick(8, 12))
}
