package main

// C27 — persistent files are replaced atomically (DESIGN §5 C27, instrument I2).
//
// Child role crash-writer: writes `old` to the target with a plain write, then —
// between two getppid marker syscalls — calls the real
// filesystem.WriteFileAtomic / encoding.MarshalAndSaveProtobuf with `new` and
// reports the returned error on stdout. The parent first traces a baseline run,
// then re-runs the child once per (syscall in the bracket × fault kind) with
// strace injecting SIGKILL (crash just before that operation), an errno, or a
// zero-byte write; for every failing run it also sweeps the clean-up path that
// the failure exposed (second-order faults). Two further fault kinds use
// RLIMIT_FSIZE, which makes the kernel really write only a prefix of the
// temporary file: the following write then fails with EFBIG, or (under strace)
// the process is killed on entry of that following write, i.e. it crashes with
// a partially written temporary file.
//
// Oracle (disk state after the child is gone): target bytes are exactly `old`
// (or the target is absent if there was no old file) or exactly `new`; every
// other name in the directory starts with ".mutagen-temporary-"; a reported nil
// implies `new`; a reported error implies `old`.

import (
	"bufio"
	"bytes"
	"context"
	"fmt"
	"math/rand"
	"os"
	"os/exec"
	"os/signal"
	"path/filepath"
	"regexp"
	"strconv"
	"strings"
	"syscall"
	"time"

	"google.golang.org/protobuf/proto"
	"google.golang.org/protobuf/types/known/wrapperspb"

	"github.com/mutagen-io/mutagen/pkg/encoding"
	"github.com/mutagen-io/mutagen/pkg/filesystem"

	"verif/internal/vk"
)

const c27Trace = "openat,write,close,fchmod,fchmodat,chmod,rename,renameat,renameat2,unlink,unlinkat,fsync,getppid"

// ---------------------------------------------------------------- child role

func crashWriterMain() {
	target := os.Getenv("VERIF_C27_TARGET")
	oldPath := os.Getenv("VERIF_C27_OLD")
	newPath := os.Getenv("VERIF_C27_NEW")
	mode := os.Getenv("VERIF_C27_MODE")
	os.Stdout.WriteString(fmt.Sprintf("PID %d\n", os.Getpid()))
	newData, err := os.ReadFile(newPath)
	if err != nil {
		os.Stdout.WriteString("SETUP-ERROR " + err.Error() + "\n")
		os.Exit(3)
	}
	if oldPath != "" {
		oldData, err := os.ReadFile(oldPath)
		if err == nil {
			err = os.WriteFile(target, oldData, 0o600)
		}
		if err != nil {
			os.Stdout.WriteString("SETUP-ERROR " + err.Error() + "\n")
			os.Exit(3)
		}
	}
	var message proto.Message
	if mode == "proto" {
		message = wrapperspb.Bytes(newData)
	}
	if s := os.Getenv("VERIF_C27_FSIZE"); s != "" {
		limit, _ := strconv.ParseUint(s, 10, 64)
		if os.Getenv("VERIF_C27_XFSZ") == "ignore" {
			signal.Ignore(syscall.SIGXFSZ)
		}
		lim := syscall.Rlimit{Cur: limit, Max: limit}
		if err := syscall.Setrlimit(syscall.RLIMIT_FSIZE, &lim); err != nil {
			os.Stdout.WriteString("SETUP-ERROR " + err.Error() + "\n")
			os.Exit(3)
		}
	}
	os.Stdout.WriteString("READY\n")

	syscall.Getppid() // marker 1
	if mode == "proto" {
		err = encoding.MarshalAndSaveProtobuf(target, message)
	} else {
		err = filesystem.WriteFileAtomic(target, newData, 0o600)
	}
	syscall.Getppid() // marker 2

	if err == nil {
		os.Stdout.WriteString("RESULT nil\n")
	} else {
		os.Stdout.WriteString("RESULT error " + strings.ReplaceAll(err.Error(), "\n", " ") + "\n")
	}
	os.Exit(0)
}

// ---------------------------------------------------------------- strace log

type scEntry struct {
	Name    string
	Ordinal int    // per-thread ordinal of this syscall name, counted from process start
	Line    string // the entry line (truncated)
	Inject  bool   // (INJECTED) seen on the entry or its resumption
	Result  string
}

type traceInfo struct {
	MainPid     int
	Entries     []scEntry // main-thread syscall entries, in order
	M1, M2      int       // indices of the marker entries in Entries (-1 if absent)
	KilledBy    string    // "+++ killed by X +++" of the main thread
	Exited      bool
	LinesParsed int
}

var (
	reLine    = regexp.MustCompile(`^(\d+)\s+(.*)$`)
	reEntry   = regexp.MustCompile(`^([a-z_0-9]+)\(`)
	reResumed = regexp.MustCompile(`^<\.\.\. ([a-z_0-9]+) resumed>`)
	reKilled  = regexp.MustCompile(`^\+\+\+ killed by (\w+)`)
)

func parseTrace(path string, mainPid int) (*traceInfo, error) {
	f, err := os.Open(path)
	if err != nil {
		return nil, err
	}
	defer f.Close()
	ti := &traceInfo{MainPid: mainPid, M1: -1, M2: -1}
	counts := map[string]int{}
	pending := map[string]int{} // name -> index of the unfinished entry of the main thread
	sc := bufio.NewScanner(f)
	sc.Buffer(make([]byte, 1<<20), 1<<24)
	markers := 0
	for sc.Scan() {
		m := reLine.FindStringSubmatch(sc.Text())
		if m == nil {
			continue
		}
		ti.LinesParsed++
		pid, _ := strconv.Atoi(m[1])
		if pid != mainPid {
			continue
		}
		rest := m[2]
		if k := reKilled.FindStringSubmatch(rest); k != nil {
			ti.KilledBy = k[1]
			continue
		}
		if strings.HasPrefix(rest, "+++ exited") {
			ti.Exited = true
			continue
		}
		if r := reResumed.FindStringSubmatch(rest); r != nil {
			if idx, ok := pending[r[1]]; ok {
				if strings.Contains(rest, "(INJECTED)") {
					ti.Entries[idx].Inject = true
				}
				if i := strings.LastIndex(rest, " = "); i >= 0 {
					ti.Entries[idx].Result = rest[i+3:]
				}
				delete(pending, r[1])
			}
			continue
		}
		e := reEntry.FindStringSubmatch(rest)
		if e == nil {
			continue
		}
		name := e[1]
		counts[name]++
		ent := scEntry{Name: name, Ordinal: counts[name], Line: rest}
		if len(ent.Line) > 160 {
			ent.Line = ent.Line[:160] + "…"
		}
		if strings.Contains(rest, "(INJECTED)") {
			ent.Inject = true
		}
		if strings.Contains(rest, "<unfinished ...>") {
			pending[name] = len(ti.Entries)
		} else if i := strings.LastIndex(rest, " = "); i >= 0 {
			ent.Result = rest[i+3:]
		}
		if name == "getppid" {
			markers++
			if markers == 1 {
				ti.M1 = len(ti.Entries)
			} else if markers == 2 {
				ti.M2 = len(ti.Entries)
			}
		}
		ti.Entries = append(ti.Entries, ent)
	}
	return ti, sc.Err()
}

// bracket returns the entries strictly between the markers (to the end if the
// second marker was never reached).
func (ti *traceInfo) bracket() []scEntry {
	if ti.M1 < 0 {
		return nil
	}
	end := len(ti.Entries)
	if ti.M2 >= 0 {
		end = ti.M2
	}
	return ti.Entries[ti.M1+1 : end]
}

// ---------------------------------------------------------------- parent

type c27Case struct {
	Index   int    `json:"case"`
	Mode    string `json:"mode"`
	OldSize int    `json:"old_size"` // -1: no previous file
	NewSize int    `json:"new_size"`
	dir     string
	oldData []byte // nil if absent
	newData []byte // the bytes expected at the target after success
	follow  string // non-empty: input file of a follow-up write into the SAME directory (nothing is reset, no old content is written)
}

type c27Fault struct {
	Kind    string `json:"kind"` // kill | errno | zero-write | fsize-efbig | fsize-short-write-then-kill
	Syscall string `json:"syscall,omitempty"`
	When    int    `json:"when,omitempty"`
	Errno   string `json:"errno,omitempty"`
	// Persistent: every occurrence from When on fails (strace when=k+), so a retry fails too
	Persistent bool `json:"persistent,omitempty"`
	// second fault (clean-up path), optional
	Kind2    string `json:"kind2,omitempty"`
	Syscall2 string `json:"syscall2,omitempty"`
	When2    int    `json:"when2,omitempty"`
	Errno2   string `json:"errno2,omitempty"`
	Limit    int    `json:"fsize_limit,omitempty"`
}

func (f c27Fault) injectArgs() []string {
	one := func(kind, sc string, when int, errno string) string {
		switch kind {
		case "kill":
			return fmt.Sprintf("%s:signal=SIGKILL:when=%d", sc, when)
		case "errno":
			return fmt.Sprintf("%s:error=%s:when=%d", sc, errno, when)
		case "zero-write":
			return fmt.Sprintf("%s:retval=0:when=%d", sc, when)
		}
		return ""
	}
	var out []string
	if s := one(f.Kind, f.Syscall, f.When, f.Errno); s != "" {
		if f.Persistent {
			s += "+"
		}
		out = append(out, s)
	}
	if f.Kind2 != "" {
		out = append(out, one(f.Kind2, f.Syscall2, f.When2, f.Errno2))
	}
	return out
}

type c27Outcome struct {
	Stdout   string
	Pid      int
	Ready    bool
	Reported string // "", "nil", "error"
	ErrText  string
	Trace    *traceInfo
	WaitSig  string
	TimedOut bool
}

func (c *c27Case) target() string { return filepath.Join(c.dir, "d", "target.bin") }

// runChild runs the crash-writer once (under strace unless noStrace).
func (c *c27Case) runChild(tag string, inject []string, extraEnv []string, noStrace bool) c27Outcome {
	// fresh target directory for every run, except for follow-up writes
	d := filepath.Join(c.dir, "d")
	newIn := filepath.Join(c.dir, "new.in")
	if c.follow == "" {
		os.RemoveAll(d)
		must(os.MkdirAll(d, 0o755))
	} else {
		newIn = c.follow
	}
	logPath := filepath.Join(c.dir, "strace-"+tag+".log")
	env := childEnv(roleEnv+"=crash-writer",
		"VERIF_C27_TARGET="+c.target(),
		"VERIF_C27_NEW="+newIn,
		"VERIF_C27_MODE="+c.Mode)
	if c.oldData != nil && c.follow == "" {
		env = append(env, "VERIF_C27_OLD="+filepath.Join(c.dir, "old.in"))
	} else {
		env = append(env, "VERIF_C27_OLD=")
	}
	env = append(env, extraEnv...)
	ctx, cancel := context.WithTimeout(context.Background(), 5*time.Minute)
	defer cancel()
	var cmd *exec.Cmd
	if noStrace {
		cmd = exec.CommandContext(ctx, selfBin())
	} else {
		args := []string{"-f", "-o", logPath, "-e", "trace=" + c27Trace}
		for _, i := range inject {
			args = append(args, "-e", "inject="+i)
		}
		args = append(args, selfBin())
		cmd = exec.CommandContext(ctx, "strace", args...)
	}
	cmd.Env = env
	cmd.SysProcAttr = &syscall.SysProcAttr{Setpgid: true}
	cmd.Cancel = func() error { return syscall.Kill(-cmd.Process.Pid, syscall.SIGKILL) }
	var stderr bytes.Buffer
	cmd.Stderr = &stderr
	out, err := cmd.Output()
	o := c27Outcome{Stdout: string(out)}
	if ctx.Err() != nil {
		o.TimedOut = true
	}
	if ee, ok := err.(*exec.ExitError); ok {
		if ws, ok := ee.Sys().(syscall.WaitStatus); ok && ws.Signaled() {
			o.WaitSig = ws.Signal().String()
		}
	}
	for _, line := range strings.Split(o.Stdout, "\n") {
		switch {
		case strings.HasPrefix(line, "PID "):
			o.Pid, _ = strconv.Atoi(strings.TrimPrefix(line, "PID "))
		case line == "READY":
			o.Ready = true
		case line == "RESULT nil":
			o.Reported = "nil"
		case strings.HasPrefix(line, "RESULT error"):
			o.Reported = "error"
			o.ErrText = strings.TrimPrefix(line, "RESULT error ")
		}
	}
	if !noStrace && o.Pid != 0 {
		if ti, err := parseTrace(logPath, o.Pid); err == nil {
			o.Trace = ti
		}
	}
	if !noStrace {
		os.Remove(logPath)
	}
	return o
}

// judge applies the disk oracle. hit describes the fault that was observed.
func (c *c27Case) judge(r *vk.Run, f c27Fault, o c27Outcome, hit string) {
	names, err := os.ReadDir(filepath.Join(c.dir, "d"))
	if err != nil {
		r.Inconclusive("target directory unreadable")
		return
	}
	var listing []string
	var stray []string
	leftover := 0
	for _, n := range names {
		listing = append(listing, n.Name())
		if n.Name() == "target.bin" {
			continue
		}
		if strings.HasPrefix(n.Name(), filesystem.TemporaryNamePrefix) {
			leftover++
		} else {
			stray = append(stray, n.Name())
		}
	}
	got, rerr := os.ReadFile(c.target())
	absent := rerr != nil && os.IsNotExist(rerr)
	if rerr != nil && !absent {
		r.Inconclusive("target unreadable")
		return
	}
	isOld := (c.oldData == nil && absent) || (c.oldData != nil && !absent && bytes.Equal(got, c.oldData))
	isNew := !absent && bytes.Equal(got, c.newData)
	witness := func() map[string]any {
		w := map[string]any{"case": c, "fault": f, "hit": hit, "reported": o.Reported, "error_text": o.ErrText,
			"directory": listing, "target_absent": absent, "target_size": len(got),
			"old_sha1": sha1hex(c.oldData), "new_sha1": sha1hex(c.newData), "target_sha1": sha1hex(got)}
		if !absent {
			w["common_prefix_with_new"] = commonPrefix(got, c.newData)
			w["common_prefix_with_old"] = commonPrefix(got, c.oldData)
		}
		return w
	}
	sigBase := func(rule string) map[string]string {
		return map[string]string{"rule": rule, "fault": f.Kind, "syscall": f.Syscall}
	}
	if !isOld && !isNew {
		what := fmt.Sprintf("after %s the target holds %d bytes that are neither the previous content (%d bytes) nor the new content (%d bytes)", hit, len(got), c.OldSize, len(c.newData))
		if absent {
			what = fmt.Sprintf("after %s the target is missing although a previous version (%d bytes) existed", hit, c.OldSize)
		}
		r.Violation(sigBase("partial-or-foreign-content"), what, witness())
	}
	if len(stray) > 0 {
		r.Violation(sigBase("stray-file"), fmt.Sprintf("after %s the directory holds %v, which is neither the target nor a Mutagen temporary file", hit, stray), witness())
	}
	if o.Reported == "nil" && !isNew {
		r.Violation(sigBase("success-reported-without-new-content"), fmt.Sprintf("the write reported success (%s) but the target does not hold the new content", hit), witness())
	}
	if o.Reported == "error" && !isOld {
		r.Violation(sigBase("error-reported-but-target-changed"), fmt.Sprintf("the write reported an error (%s: %s) but the target no longer holds the previous content", hit, o.ErrText), witness())
	}
	if leftover > 0 {
		r.Count("runs_leaving_temporary_files", 1)
		if o.Reported == "error" && f.Kind2 == "" && f.Kind != "kill" {
			// recorded, not judged: the property allows Mutagen temporary files
			r.Count("temporary_left_after_reported_error_without_cleanup_fault", 1)
		}
	}
	switch {
	case isNew && isOld:
		r.Count("outcome_old_equals_new", 1)
	case isNew:
		r.Count("outcome_new", 1)
	case isOld:
		r.Count("outcome_old", 1)
	}
	r.Count("reported_"+map[string]string{"": "nothing", "nil": "nil", "error": "error"}[o.Reported], 1)
}

// secondWrite performs a clean follow-up write of different content into the same
// directory and target after a crashed attempt, and judges it: whatever the crashed
// attempt left behind, a successful write must leave exactly its own content.
func (c *c27Case) secondWrite(r *vk.Run, rng *rand.Rand, after string, variant int) {
	n1 := c.NewSize
	var n2 int
	kind := [...]string{"shorter", "longer", "empty"}[variant%3]
	switch kind {
	case "shorter":
		if n1 > 1 {
			n2 = 1 + rng.Intn(n1-1)
		}
	case "longer":
		n2 = n1 + 1 + rng.Intn(n1+100)
	}
	payload := make([]byte, n2)
	rng.Read(payload)
	in2 := filepath.Join(c.dir, "new2.in")
	must(os.WriteFile(in2, payload, 0o600))
	expected := payload
	if c.Mode == "proto" {
		enc, err := proto.Marshal(wrapperspb.Bytes(payload))
		must(err)
		expected = enc
	}
	c2 := *c
	c2.NewSize, c2.newData, c2.oldData = n2, expected, nil
	if cur, err := os.ReadFile(c.target()); err == nil {
		c2.oldData = append([]byte{}, cur...)
		c2.OldSize = len(cur)
	} else {
		c2.OldSize = -1
	}
	c.follow = in2
	o := c.runChild("second", nil, nil, true)
	c.follow = ""
	r.Eval(1)
	f := c27Fault{Kind: "second-write-after-crash", Syscall: after}
	hit := fmt.Sprintf("clean %s write (%d bytes) after an attempt of %d bytes crashed at %s", kind, len(expected), len(c.newData), after)
	c2.judge(r, f, o, hit)
	if o.Reported == "nil" {
		r.Count("second_writes_after_crash_succeeded", 1)
		r.Distinct(strings.Join([]string{c.Mode, "second-write", kind, after, fmt.Sprint(c.oldData == nil)}, "|"))
	} else {
		r.Count("second_writes_after_crash_not_successful", 1) // unexpected for a clean write; the oracle above still applies
		fmt.Printf("case %d: clean second write did not report nil: %q\n", c.Index, o.Stdout)
	}
}

func commonPrefix(a, b []byte) int {
	n := 0
	for n < len(a) && n < len(b) && a[n] == b[n] {
		n++
	}
	return n
}

// hitOf decides from the injected run's own log whether the fault landed
// inside the bracket and on what.
func hitOf(f c27Fault, o c27Outcome) (desc string, ok bool) {
	ti := o.Trace
	if ti == nil || ti.M1 < 0 {
		return "", false
	}
	br := ti.bracket()
	nth := func(idx int) int { // 1-based position among same-named entries of the bracket
		n := 0
		for i := 0; i <= idx; i++ {
			if br[i].Name == br[idx].Name {
				n++
			}
		}
		return n
	}
	var parts []string
	injected := 0
	for i, e := range br {
		if e.Inject {
			injected++
			res := e.Result
			if j := strings.Index(res, " ("); j >= 0 {
				res = res[:j]
			}
			parts = append(parts, fmt.Sprintf("%s#%d=>%s", e.Name, nth(i), strings.TrimSpace(res)))
		}
	}
	wantInjected := 0
	if f.Kind == "errno" || f.Kind == "zero-write" {
		wantInjected++
	}
	if f.Kind2 == "errno" {
		wantInjected++
	}
	if injected < wantInjected {
		return "", false
	}
	if f.Kind == "kill" || f.Kind2 == "kill" {
		if ti.KilledBy != "SIGKILL" || ti.M2 >= 0 || len(br) == 0 {
			return "", false
		}
		last := br[len(br)-1]
		wantName := f.Syscall
		if f.Kind2 == "kill" {
			wantName = f.Syscall2
		}
		if last.Name != wantName {
			return "", false
		}
		parts = append(parts, fmt.Sprintf("SIGKILL-before-%s#%d", last.Name, nth(len(br)-1)))
	}
	return strings.Join(parts, "+"), true
}

func c27Sizes(r *vk.Run, n int) [][2]int {
	rng := r.Rand("sizes")
	quick := r.Quick()
	pick := func() int {
		switch rng.Intn(8) {
		case 0:
			return 0
		case 1:
			return 1 + rng.Intn(100)
		case 2:
			return 4096 + rng.Intn(3) - 1
		case 3:
			return 32*1024 + rng.Intn(3) - 1
		case 4, 5:
			return rng.Intn(256 * 1024)
		default:
			if quick && rng.Intn(2) == 0 {
				return rng.Intn(512 * 1024)
			}
			return rng.Intn(3*1024*1024 + 1)
		}
	}
	out := make([][2]int, n)
	for i := range out {
		o, nw := pick(), pick()
		if rng.Intn(5) == 0 {
			o = -1
		}
		if i == 0 {
			o, nw = 3*1024*1024, 3*1024*1024-7 // always one maximal case
		}
		if i == 1 {
			o, nw = 1000, 0 // replacing by an empty file
		}
		if i%4 >= 2 {
			o = -1 // first save: nothing at the target yet (covers both modes: case index mod 3 picks the mode)
		}
		if o <= 0 && nw == 0 {
			nw = 1 + rng.Intn(5000)
		}
		out[i] = [2]int{o, nw}
	}
	return out
}

func c27() {
	r := vk.Start("C27", "fault_enumeration")
	if _, err := exec.LookPath("strace"); err != nil {
		r.Inconclusive("strace not installed")
		r.Finish("strace missing", 1)
	}
	nCases := r.Pick(8, 80)
	sizes := c27Sizes(r, nCases)
	scratch := r.Scratch()
	errnos := []string{"EIO", "ENOSPC", "EACCES", "EINTR", "EDQUOT", "EROFS"}
	r.Assume("process crash (SIGKILL delivered on syscall entry) and failing syscalls, not power loss: no claim about durability without fsync")
	r.Assume("strace error injection suppresses the syscall and returns the errno; write(2) returning 0 and RLIMIT_FSIZE (real short write, then EFBIG or SIGXFSZ) stand for partial writes")

	parallel(nCases, workerCount(), func(i int) {
		rng := r.Rand(fmt.Sprintf("case-%d", i))
		c := &c27Case{Index: i, OldSize: sizes[i][0], NewSize: sizes[i][1], Mode: "atomic"}
		if i%3 == 2 {
			c.Mode = "proto"
		}
		c.dir = filepath.Join(scratch, fmt.Sprintf("case-%03d", i))
		must(os.MkdirAll(c.dir, 0o755))
		defer os.RemoveAll(c.dir)
		payload := make([]byte, c.NewSize)
		rng.Read(payload)
		must(os.WriteFile(filepath.Join(c.dir, "new.in"), payload, 0o600))
		c.newData = payload
		if c.Mode == "proto" {
			enc, err := proto.Marshal(wrapperspb.Bytes(payload))
			must(err)
			c.newData = enc
		}
		if c.OldSize >= 0 {
			c.oldData = make([]byte, c.OldSize)
			rng.Read(c.oldData)
			must(os.WriteFile(filepath.Join(c.dir, "old.in"), c.oldData, 0o600))
		}
		fmt.Printf("case %d: mode=%s old=%d new=%d (target bytes %d)\n", i, c.Mode, c.OldSize, c.NewSize, len(c.newData))

		// Baseline.
		base := c.runChild("base", nil, nil, false)
		r.Eval(1)
		if base.Trace == nil || base.Trace.M1 < 0 || base.Trace.M2 < 0 || base.Reported != "nil" {
			r.Inconclusive("baseline run unusable")
			fmt.Printf("case %d: baseline unusable: stdout=%q sig=%s\n", i, base.Stdout, base.WaitSig)
			return
		}
		c.judge(r, c27Fault{Kind: "none"}, base, "no fault")
		steps := base.Trace.bracket()
		r.Count("baseline_bracket_syscalls", int64(len(steps)))
		var names []string
		for _, s := range steps {
			names = append(names, s.Name)
		}
		r.Distinct("baseline|" + c.Mode + "|" + strings.Join(names, ","))
		if i < 2 {
			r.Note(fmt.Sprintf("baseline_bracket_case%d", i), names)
		}

		followUps := i // rotates shorter / longer / empty
		run := func(f c27Fault) (c27Outcome, bool) {
			fmt.Printf("case %d: fault %s\n", i, vk.JSON(f))
			tag := fmt.Sprintf("%s-%s-%d%v-%s-%s-%d", f.Kind, f.Syscall, f.When, f.Persistent, f.Kind2, f.Syscall2, f.When2)
			var o c27Outcome
			var hit string
			ok := false
			for attempt := 0; attempt < 2 && !ok; attempt++ {
				o = c.runChild(tag, f.injectArgs(), nil, false)
				r.Eval(1)
				if o.TimedOut {
					break
				}
				hit, ok = hitOf(f, o)
			}
			if !ok {
				r.Inconclusive("injection not observed inside the bracket")
				fmt.Printf("case %d: fault %s not observed (stdout=%q)\n", i, vk.JSON(f), o.Stdout)
				return o, false
			}
			c.judge(r, f, o, hit)
			r.Count("faults_hit", 1)
			r.Count("hit:"+f.Kind+f.Kind2+":"+f.Syscall+map[bool]string{true: "+" + f.Syscall2, false: ""}[f.Syscall2 != ""], 1)
			oldKind := "old"
			if c.oldData == nil {
				oldKind = "noold"
			}
			r.Distinct(strings.Join([]string{c.Mode, oldKind, hit, f.Errno, fmt.Sprint(f.Persistent), f.Errno2, o.Reported}, "|"))
			r.Sample(map[string]any{"case": c, "fault": f, "hit": hit, "reported": o.Reported, "error": o.ErrText})
			if f.Kind == "kill" && f.Kind2 == "" {
				// multi-step history: the crashed attempt is followed by a clean write of other content
				followUps++
				c.secondWrite(r, rng, hit, followUps)
			}
			return o, true
		}

		secondOrder := !r.Quick() || i%2 == 0
		for _, s := range steps {
			// crash just before the operation
			run(c27Fault{Kind: "kill", Syscall: s.Name, When: s.Ordinal})
			// the operation fails
			var first []c27Fault
			e := errnos[rng.Intn(len(errnos))]
			if s.Name == "openat" && rng.Intn(3) == 0 {
				e = "EEXIST" // os.CreateTemp retries with another name
			}
			first = append(first, c27Fault{Kind: "errno", Syscall: s.Name, When: s.Ordinal, Errno: e})
			if s.Name == "write" {
				first = append(first, c27Fault{Kind: "zero-write", Syscall: s.Name, When: s.Ordinal})
			}
			if strings.HasPrefix(s.Name, "rename") {
				// errnos a rename "over an existing file" might be (mis)taken for, once and persistently
				renameErrnos := []string{"EACCES", "EPERM", "EEXIST", "EROFS"}
				if r.Quick() {
					renameErrnos = renameErrnos[(i%2)*2 : (i%2)*2+2]
				}
				for _, e := range renameErrnos {
					run(c27Fault{Kind: "errno", Syscall: s.Name, When: s.Ordinal, Errno: e})
					run(c27Fault{Kind: "errno", Syscall: s.Name, When: s.Ordinal, Errno: e, Persistent: true})
				}
			}
			for _, f := range first {
				o, ok := run(f)
				if !ok {
					continue
				}
				// second-order faults: every syscall the failure path executed after the injected one
				if !secondOrder {
					continue
				}
				br := o.Trace.bracket()
				after := false
				for _, e2 := range br {
					if e2.Inject {
						after = true
						continue
					}
					if !after {
						continue
					}
					if e2.Name == f.Syscall {
						r.Count("second_order_skipped_same_syscall", 1)
						continue
					}
					f2 := f
					f2.Kind2, f2.Syscall2, f2.When2 = "kill", e2.Name, e2.Ordinal
					run(f2)
					f2.Kind2, f2.Errno2 = "errno", errnos[rng.Intn(len(errnos))]
					run(f2)
				}
			}
		}

		// Real partial writes through RLIMIT_FSIZE: the kernel writes only a prefix of the
		// temporary file; then either the next write fails with EFBIG (no strace needed), or the
		// process is killed on entry of that next write (crash with a partially written file).
		if len(c.newData) > 1 {
			var writeOrdinal int
			for _, s := range steps {
				if s.Name == "write" {
					writeOrdinal = s.Ordinal
					break
				}
			}
			for _, variant := range []string{"efbig", "kill"} {
				limit := 1 + rng.Intn(len(c.newData)-1)
				if variant == "efbig" && rng.Intn(4) == 0 {
					limit = 0
				}
				env := []string{fmt.Sprintf("VERIF_C27_FSIZE=%d", limit), "VERIF_C27_XFSZ=ignore"}
				f := c27Fault{Kind: "fsize-efbig", Syscall: "write", Limit: limit}
				var o c27Outcome
				live := false
				if variant == "efbig" {
					fmt.Printf("case %d: fault %s\n", i, vk.JSON(f))
					o = c.runChild("fsize", nil, env, true)
					live = o.Ready && o.Reported == "error" && strings.Contains(o.ErrText, "file too large")
				} else {
					if writeOrdinal == 0 {
						continue
					}
					f = c27Fault{Kind: "fsize-short-write-then-kill", Syscall: "write", When: writeOrdinal + 1, Limit: limit}
					fmt.Printf("case %d: fault %s\n", i, vk.JSON(f))
					o = c.runChild("fsizekill", []string{fmt.Sprintf("write:signal=SIGKILL:when=%d", writeOrdinal+1)}, env, false)
					if o.Trace != nil && o.Trace.M1 >= 0 && o.Trace.M2 < 0 && o.Trace.KilledBy == "SIGKILL" {
						br := o.Trace.bracket()
						nw := 0
						for _, e := range br {
							if e.Name == "write" {
								nw++
							}
						}
						// first write returned short, the process died entering the second one
						live = nw == 2 && len(br) > 0 && br[len(br)-1].Name == "write" && strings.HasPrefix(strings.TrimSpace(br[len(br)-2].Result), fmt.Sprint(limit))
					}
				}
				r.Eval(1)
				if !live {
					r.Inconclusive("file-size limit did not take effect as expected")
					fmt.Printf("case %d: fsize %s limit=%d: ready=%v reported=%q err=%q sig=%q\n", i, variant, limit, o.Ready, o.Reported, o.ErrText, o.WaitSig)
					// still judge the disk: whatever happened, the oracle applies
				}
				hit := fmt.Sprintf("%s after %d of %d bytes", f.Kind, limit, len(c.newData))
				c.judge(r, f, o, hit)
				if live && variant == "kill" {
					// the crashed attempt left real data in its temporary file
					followUps++
					c.secondWrite(r, rng, "write#2 (after a short write)", 0) // shorter
				}
				if live {
					r.Count("faults_hit", 1)
					r.Count("hit:"+f.Kind, 1)
					r.Distinct(strings.Join([]string{c.Mode, f.Kind, bucket(limit, 0, 4096, 65536, 1<<20)}, "|"))
				}
			}
		}
	})

	fmt.Printf("C27 summary: faults_hit=%d\n", r.Counter("faults_hit"))
	floor := r.Pick(12, 30)
	r.Finish("one case = one run of the real WriteFileAtomic / MarshalAndSaveProtobuf in a child process with one fault (SIGKILL on entry of, or errno from, the k-th syscall of the bracket; zero-byte write; RLIMIT_FSIZE partial write) or a fault pair (failure + fault in the clean-up path it exposes); distinct = (mode, previous file present, syscall(s) actually hit according to the run's own strace log, errno, reported result)", floor)
}
