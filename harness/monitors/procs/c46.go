package main

// C46 — agent bundle lookup honours the search order and extracts exactly
// (DESIGN §5 C46).
//
// The monitor binary is copied to <layout>/bin/ (hard links for further
// layouts); bundles named agent.BundleName (tar.gz with one entry per platform,
// payloads distinct per platform AND per location) are placed in the
// executable's directory, in <layout>/libexec/, in both, in neither. The copy
// runs in role bundle-probe and calls the real agent.ExecutableForPlatform for
// a list of requests. Oracle: the extracted bytes are the executable-directory
// bundle's entry when that bundle exists, else libexec's entry; a platform the
// deciding bundle does not contain, or no bundle at all, is an error; the
// extracted file is executable (for non-Windows targets).

import (
	"archive/tar"
	"bufio"
	"bytes"
	"compress/gzip"
	"encoding/json"
	"fmt"
	"io"
	"math/rand"
	"os"
	"os/exec"
	"path/filepath"
	"strings"

	"github.com/mutagen-io/mutagen/pkg/agent"

	"verif/internal/vk"
)

// ---------------------------------------------------------------- child role

type bundleRequest struct {
	GOOS   string `json:"goos"`
	GOARCH string `json:"goarch"`
	Output string `json:"output"` // "" = temporary file chosen by the code under test
}

type bundleReply struct {
	Path  string `json:"path"`
	Error string `json:"error"`
	Panic string `json:"panic,omitempty"`
}

func bundleProbeMain() {
	var reqs []bundleRequest
	must(json.Unmarshal([]byte(os.Getenv("VERIF_C46_REQUESTS")), &reqs))
	w := bufio.NewWriter(os.Stdout)
	for _, q := range reqs {
		var rep bundleReply
		func() {
			defer func() {
				if p := recover(); p != nil {
					rep.Panic = fmt.Sprint(p)
				}
			}()
			path, err := agent.ExecutableForPlatform(q.GOOS, q.GOARCH, q.Output)
			rep.Path = path
			if err != nil {
				rep.Error = err.Error()
			}
		}()
		line, _ := json.Marshal(rep)
		w.Write(line)
		w.WriteByte('\n')
	}
	w.Flush()
	os.Exit(0)
}

// ---------------------------------------------------------------- parent

type bundleSpec struct {
	Location string            // exe | libexec
	Entries  []string          // entry names in archive order
	Payload  map[string][]byte // entry name -> content
}

func makeBundle(rng *rand.Rand, location string, platforms []string) (*bundleSpec, []byte) {
	b := &bundleSpec{Location: location, Payload: map[string][]byte{}}
	order := rng.Perm(len(platforms))
	var buf bytes.Buffer
	level := []int{gzip.BestSpeed, gzip.DefaultCompression, gzip.BestCompression, gzip.NoCompression}[rng.Intn(4)]
	gz, _ := gzip.NewWriterLevel(&buf, level)
	tw := tar.NewWriter(gz)
	for _, i := range order {
		name := platforms[i]
		size := []int{0, 1, 511, 512, 513, 4096, 30000, 150000}[rng.Intn(8)]
		if size > 1 {
			size += rng.Intn(size)
		}
		body := make([]byte, size)
		rng.Read(body)
		header := []byte(fmt.Sprintf("LOCATION=%s ENTRY=%s\n", location, name))
		if size >= len(header) {
			copy(body, header)
		} else if size > 0 {
			body[0] = location[0]
		}
		b.Entries = append(b.Entries, name)
		b.Payload[name] = body
		must(tw.WriteHeader(&tar.Header{Name: name, Mode: int64([]int{0o644, 0o755, 0o600}[rng.Intn(3)]), Size: int64(len(body)), Typeflag: tar.TypeReg}))
		_, err := tw.Write(body)
		must(err)
	}
	must(tw.Close())
	must(gz.Close())
	return b, buf.Bytes()
}

func copyFile(dst, src string, mode os.FileMode) error {
	in, err := os.Open(src)
	if err != nil {
		return err
	}
	defer in.Close()
	out, err := os.OpenFile(dst, os.O_WRONLY|os.O_CREATE|os.O_TRUNC, mode)
	if err != nil {
		return err
	}
	if _, err := io.Copy(out, in); err != nil {
		out.Close()
		return err
	}
	return out.Close()
}

var (
	knownPlatforms = []string{"linux_amd64", "linux_arm64", "linux_arm", "linux_386", "darwin_amd64", "darwin_arm64", "windows_amd64", "windows_386", "freebsd_amd64", "openbsd_amd64", "netbsd_amd64", "solaris_amd64", "aix_ppc64", "linux_riscv64", "plan9_amd64"}
	oddRequests    = [][2]string{{"", ""}, {"linux", ""}, {"", "amd64"}, {"linux_amd64", ""}, {"linux", "amd64 "}, {"Linux", "amd64"}, {"linux", "AMD64"}, {"linux", "amd"}, {"linux", "amd6"}, {"lin", "ux_amd64"}, {"beos", "m68k"}, {"linux_amd64", "linux_amd64"}, {"../linux", "amd64"}, {"linux", "amd64/.."}, {"*", "*"}, {"linux", "*"}}
)

func c46() {
	r := vk.Start("C46", "exploration")
	nLayouts := r.Pick(24, 200)
	scratch := r.Scratch()
	// one real copy of the binary; further layouts hard-link it
	master := filepath.Join(scratch, "master-copy")
	must(copyFile(master, selfBin(), 0o755))
	rng0 := r.Rand("layouts")
	type layoutPlan struct {
		kind string
		seed int64
	}
	kinds := []string{"both", "exe-only", "libexec-only", "neither"}
	plans := make([]layoutPlan, nLayouts)
	for i := range plans {
		plans[i] = layoutPlan{kinds[i%4], rng0.Int63()}
		if i%8 >= 4 && rng0.Intn(2) == 0 {
			plans[i].kind = "both" // the interesting layout gets extra weight
		}
	}
	r.Assume("the executable's directory is <layout>/bin, so that <layout>/libexec is the second search location (filesystem.LibexecPath)")
	r.Assume("executability is demanded only for non-Windows targets (the code documents that Windows targets get no mode change)")

	parallel(nLayouts, workerCount(), func(li int) {
		plan := plans[li]
		rng := rand.New(rand.NewSource(plan.seed))
		root := filepath.Join(scratch, fmt.Sprintf("layout-%03d", li))
		binDir, libexec, tmp, outDir := filepath.Join(root, "bin"), filepath.Join(root, "libexec"), filepath.Join(root, "tmp"), filepath.Join(root, "out")
		for _, d := range []string{binDir, tmp, outDir} {
			must(os.MkdirAll(d, 0o755))
		}
		defer os.RemoveAll(root)
		exe := filepath.Join(binDir, "mutagen")
		if err := os.Link(master, exe); err != nil {
			must(copyFile(exe, master, 0o755))
		}
		// platform sets: the two bundles overlap only partially
		pick := func() []string {
			var ps []string
			for _, p := range knownPlatforms {
				if rng.Intn(3) > 0 {
					ps = append(ps, p)
				}
			}
			// names that have a real platform as prefix/suffix must not match it
			if rng.Intn(2) == 0 {
				ps = append(ps, "linux_amd64x", "xlinux_amd64", "linux_amd64/agent", "./linux_amd64")
			}
			if len(ps) == 0 {
				ps = []string{"linux_amd64"}
			}
			return ps
		}
		var exeB, libB *bundleSpec
		if plan.kind == "both" || plan.kind == "exe-only" {
			var data []byte
			exeB, data = makeBundle(rng, "exe", pick())
			must(os.WriteFile(filepath.Join(binDir, agent.BundleName), data, 0o644))
		}
		if plan.kind == "both" || plan.kind == "libexec-only" {
			must(os.MkdirAll(libexec, 0o755))
			var data []byte
			libB, data = makeBundle(rng, "libexec", pick())
			must(os.WriteFile(filepath.Join(libexec, agent.BundleName), data, 0o644))
		} else if rng.Intn(2) == 0 {
			must(os.MkdirAll(libexec, 0o755)) // an empty libexec directory
		}
		deciding := exeB
		if deciding == nil {
			deciding = libB
		}
		// requests: every known platform plus odd names
		var reqs []bundleRequest
		for _, p := range knownPlatforms {
			goos, goarch, _ := strings.Cut(p, "_")
			q := bundleRequest{GOOS: goos, GOARCH: goarch}
			if rng.Intn(3) == 0 {
				q.Output = filepath.Join(outDir, fmt.Sprintf("explicit-%d", len(reqs)))
				if rng.Intn(2) == 0 {
					// an existing, longer file at the output path must be replaced entirely
					must(os.WriteFile(q.Output, bytes.Repeat([]byte("stale"), 200000), 0o600))
				}
			}
			reqs = append(reqs, q)
		}
		for _, o := range oddRequests {
			if rng.Intn(2) == 0 {
				reqs = append(reqs, bundleRequest{GOOS: o[0], GOARCH: o[1]})
			}
		}
		reqJSON, _ := json.Marshal(reqs)
		fmt.Printf("layout %d: %s, %d requests\n", li, plan.kind, len(reqs))
		cmd := exec.Command(exe)
		cmd.Env = childEnv(roleEnv+"=bundle-probe", "VERIF_C46_REQUESTS="+string(reqJSON), "TMPDIR="+tmp)
		cmd.Dir = root
		var stderr bytes.Buffer
		cmd.Stderr = &stderr
		out, err := cmd.Output()
		var replies []bundleReply
		for _, line := range strings.Split(strings.TrimSpace(string(out)), "\n") {
			var rep bundleReply
			if json.Unmarshal([]byte(line), &rep) == nil {
				replies = append(replies, rep)
			}
		}
		if err != nil || len(replies) != len(reqs) {
			if strings.Contains(stderr.String(), "mutagen-io/mutagen/pkg") {
				r.Violation(map[string]string{"rule": "crash", "layout": plan.kind}, "the bundle probe crashed inside mutagen code", map[string]any{"layout": plan.kind, "stderr": stderr.String()})
			} else {
				r.Inconclusive("bundle probe failed")
				fmt.Printf("layout %d: probe failed: %v %s\n", li, err, stderr.String())
			}
			return
		}
		for qi, q := range reqs {
			rep := replies[qi]
			r.Eval(1)
			name := q.GOOS + "_" + q.GOARCH
			wit := map[string]any{"layout": plan.kind, "request": q, "reply": rep, "entry": name}
			if exeB != nil {
				wit["exe_bundle_entries"] = exeB.Entries
			}
			if libB != nil {
				wit["libexec_bundle_entries"] = libB.Entries
			}
			sig := func(rule string) map[string]string { return map[string]string{"rule": rule, "layout": plan.kind} }
			if rep.Panic != "" {
				r.Violation(sig("panic"), "ExecutableForPlatform panicked: "+rep.Panic, wit)
				continue
			}
			var want []byte
			wantOK := false
			if deciding != nil {
				want, wantOK = deciding.Payload[name]
			}
			other := libB
			if deciding == libB {
				other = nil
			}
			inOther := false
			if other != nil {
				_, inOther = other.Payload[name]
			}
			class := "match"
			switch {
			case deciding == nil:
				class = "no-bundle"
			case !wantOK && inOther:
				class = "only-in-later-bundle"
			case !wantOK:
				class = "unknown-platform"
			case inOther:
				class = "in-both-bundles"
			}
			r.Distinct(fmt.Sprintf("%s|%s|%v|%v", plan.kind, class, q.Output != "", q.GOOS == "windows"))
			if !wantOK {
				if rep.Error == "" {
					rule := "unknown-platform-accepted"
					if deciding == nil {
						rule = "no-bundle-accepted"
					} else if inOther {
						rule = "search-order"
					}
					got, _ := os.ReadFile(rep.Path)
					wit["extracted_head"] = string(got[:minInt(len(got), 60)])
					r.Violation(sig(rule), fmt.Sprintf("layout %s: request %q returned %s without error although %s", plan.kind, name, rep.Path,
						map[string]string{"unknown-platform-accepted": "the deciding bundle has no such entry", "no-bundle-accepted": "no bundle exists", "search-order": "the executable-directory bundle (first location) has no such entry — the entry came from the libexec bundle"}[rule]), wit)
					if rep.Path != "" && strings.HasPrefix(rep.Path, root) {
						os.Remove(rep.Path)
					}
				} else {
					r.Count("rejected_as_expected", 1)
				}
				continue
			}
			if rep.Error != "" {
				rule := "known-platform-rejected"
				if other != nil && !inOther {
					rule = "search-order" // consistent with the later (libexec) bundle having been used
				}
				r.Violation(sig(rule), fmt.Sprintf("layout %s: request %q failed (%s) although the deciding bundle (%s) has that entry", plan.kind, name, rep.Error, deciding.Location), wit)
				continue
			}
			if q.Output != "" && rep.Path != q.Output {
				r.Violation(sig("wrong-output-path"), fmt.Sprintf("requested output %s, got %s", q.Output, rep.Path), wit)
			}
			if q.Output == "" && !strings.HasPrefix(rep.Path, tmp+"/") {
				r.Count("temporary_outside_TMPDIR", 1)
			}
			got, rerr := os.ReadFile(rep.Path)
			st, serr := os.Stat(rep.Path)
			if rerr != nil || serr != nil {
				r.Violation(sig("extracted-file-missing"), fmt.Sprintf("layout %s: request %q reported %s, which cannot be read", plan.kind, name, rep.Path), wit)
				continue
			}
			if !bytes.Equal(got, want) {
				wit["extracted_head"] = string(got[:minInt(len(got), 60)])
				wit["extracted_size"], wit["expected_size"] = len(got), len(want)
				rule := "content-differs"
				what := fmt.Sprintf("layout %s: extracted %q differs from the %s bundle's entry (%d vs %d bytes)", plan.kind, name, deciding.Location, len(got), len(want))
				if inOther && bytes.Equal(got, other.Payload[name]) {
					rule = "search-order"
					what = fmt.Sprintf("layout %s: extracted %q is the libexec bundle's entry although the executable's directory (first search location) holds a bundle with that entry", plan.kind, name)
				}
				r.Violation(sig(rule), what, wit)
			} else {
				r.Count("extracted_exact", 1)
				r.Count("extracted_bytes", int64(len(got)))
				if inOther {
					r.Count("extracted_exact_with_competing_bundle", 1)
				}
			}
			if q.GOOS != "windows" && st.Mode().Perm()&0o100 == 0 {
				r.Violation(sig("not-executable"), fmt.Sprintf("extracted agent for %q has mode %v", name, st.Mode()), wit)
			}
			if li < 2 && qi < 2 {
				r.Sample(map[string]any{"layout": plan.kind, "request": q, "path": rep.Path, "bytes": len(got), "mode": st.Mode().String(), "from": deciding.Location})
			}
			os.Remove(rep.Path)
		}
		// temporary files not handed to the caller (recorded only)
		if left, _ := os.ReadDir(tmp); len(left) > 0 {
			r.Count("temporary_files_left_behind", int64(len(left)))
		}
	})
	os.Remove(master)
	r.Finish("one evaluation = one agent.ExecutableForPlatform call in a copy of the monitor placed in <layout>/bin with bundles in {exe dir, libexec, both, neither}; distinct = (layout, whether the entry is in the deciding bundle / only in the later bundle / in both / nowhere, explicit output path, Windows target)", r.Pick(8, 10))
}
