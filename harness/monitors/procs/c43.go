package main

// C43 — housekeeping removes only stale artifacts (DESIGN §5 C43, I3).
//
// A scratch data directory is populated with agent installations (judged by the
// access time of agents/<version>/mutagen-agent, 30 days), caches (modification
// time of caches/<name>, 7 days) and staging roots (modification time of
// staging/<name>, 7 days) whose times are set with utimensat to threshold ± {1 h,
// 1 d, 10 d}; with symbolic links in those directories that point into a canary
// tree outside the data directory; and with unrelated files. The real
// housekeeping.Housekeep() runs in a child process. Afterwards: stale artifacts
// are gone, everything younger is intact, unrelated data is intact, the canary
// tree and a sibling directory are unchanged (lstat + content snapshot, and an
// inotify watch that must stay silent).
//
// Nothing is read between setting the times and Housekeep(): with relatime a
// read would refresh an old access time.

import (
	"fmt"
	"io/fs"
	"math/rand"
	"os"
	"os/exec"
	"path/filepath"
	"sort"
	"strings"
	"time"
	"unsafe"

	"golang.org/x/sys/unix"

	"github.com/mutagen-io/mutagen/pkg/housekeeping"

	"verif/internal/vk"
)

func housekeeperMain() {
	housekeeping.Housekeep()
	os.Stdout.WriteString("HOUSEKEPT\n")
	os.Exit(0)
}

const (
	day           = 24 * time.Hour
	agentIdle     = 30 * day
	cacheMaxAge   = 7 * day
	stagingMaxAge = 7 * day
)

type c43Item struct {
	Kind    string   `json:"kind"`   // agent | cache | staging | link-* | unrelated | odd
	Rel     string   `json:"path"`   // relative to the data directory
	AgeDesc string   `json:"age"`    // e.g. "threshold+1h"
	Expect  string   `json:"expect"` // removed | kept | either
	probe   []string // relative paths (files) whose presence is checked
}

type snapEntry struct {
	Mode   fs.FileMode
	Size   int64
	Mtime  int64
	Ino    uint64
	Target string
	Sha1   string // filled only after Housekeep
}

func setTimes(path string, atime, mtime time.Time) {
	ts := []unix.Timespec{unix.NsecToTimespec(atime.UnixNano()), unix.NsecToTimespec(mtime.UnixNano())}
	must(unix.UtimesNanoAt(unix.AT_FDCWD, path, ts, unix.AT_SYMLINK_NOFOLLOW))
}

// snapshot lstat-walks root without reading any file content.
func snapshot(root string) map[string]snapEntry {
	out := map[string]snapEntry{}
	filepath.WalkDir(root, func(p string, d fs.DirEntry, err error) error {
		if err != nil {
			return nil
		}
		var st unix.Stat_t
		if unix.Lstat(p, &st) != nil {
			return nil
		}
		rel, _ := filepath.Rel(root, p)
		e := snapEntry{Mode: fs.FileMode(st.Mode), Size: st.Size, Mtime: st.Mtim.Nano(), Ino: st.Ino}
		if st.Mode&unix.S_IFMT == unix.S_IFLNK {
			e.Target, _ = os.Readlink(p)
		}
		if st.Mode&unix.S_IFMT == unix.S_IFDIR {
			e.Size = 0
		}
		out[rel] = e
		return nil
	})
	return out
}

func diffSnap(before, after map[string]snapEntry) []string {
	var out []string
	for p, b := range before {
		a, ok := after[p]
		switch {
		case !ok:
			out = append(out, "removed: "+p)
		case a.Mode != b.Mode || a.Size != b.Size || a.Mtime != b.Mtime || a.Ino != b.Ino || a.Target != b.Target:
			out = append(out, "changed: "+p)
		}
	}
	for p := range after {
		if _, ok := before[p]; !ok {
			out = append(out, "created: "+p)
		}
	}
	sort.Strings(out)
	return out
}

type inotifySensor struct {
	fd     int
	wds    map[int32]string
	events []string
}

const c43Mask = unix.IN_MODIFY | unix.IN_ATTRIB | unix.IN_CREATE | unix.IN_DELETE | unix.IN_DELETE_SELF | unix.IN_MOVED_FROM | unix.IN_MOVED_TO | unix.IN_MOVE_SELF

func newSensor(roots ...string) (*inotifySensor, error) {
	fd, err := unix.InotifyInit1(unix.IN_NONBLOCK | unix.IN_CLOEXEC)
	if err != nil {
		return nil, err
	}
	s := &inotifySensor{fd: fd, wds: map[int32]string{}}
	for _, root := range roots {
		filepath.WalkDir(root, func(p string, d fs.DirEntry, err error) error {
			if err == nil && d.IsDir() {
				if wd, err := unix.InotifyAddWatch(fd, p, c43Mask|unix.IN_DONT_FOLLOW); err == nil {
					s.wds[int32(wd)] = p
				}
			}
			return nil
		})
	}
	return s, nil
}

func (s *inotifySensor) drain() []string {
	buf := make([]byte, 64*1024)
	for {
		n, err := unix.Read(s.fd, buf)
		if n <= 0 || err != nil {
			break
		}
		for off := 0; off+unix.SizeofInotifyEvent <= n; {
			ev := (*unix.InotifyEvent)(unsafe.Pointer(&buf[off]))
			name := ""
			if ev.Len > 0 {
				name = strings.TrimRight(string(buf[off+unix.SizeofInotifyEvent:off+unix.SizeofInotifyEvent+int(ev.Len)]), "\x00")
			}
			s.events = append(s.events, fmt.Sprintf("%s/%s mask=%#x", s.wds[ev.Wd], name, ev.Mask))
			off += unix.SizeofInotifyEvent + int(ev.Len)
		}
	}
	out := s.events
	s.events = nil
	return out
}

func (s *inotifySensor) close() { unix.Close(s.fd) }

type c43World struct {
	dir      string // case directory
	data     string
	canary   string
	sibling  string
	items    []*c43Item
	contents map[string]string // absolute path -> sha1 of what was written
	now      time.Time
}

func (w *c43World) write(path string, rng *rand.Rand, mode os.FileMode) {
	must(os.MkdirAll(filepath.Dir(path), 0o755))
	b := make([]byte, rng.Intn(3000))
	rng.Read(b)
	must(os.WriteFile(path, b, mode))
	w.contents[path] = sha1hex(b)
}

var ageDeltas = []struct {
	name string
	d    time.Duration
}{{"-45d", -45 * day}, {"-20d", -20 * day}, {"-10d", -10 * day}, {"-1d", -day}, {"-1h", -time.Hour}, {"+1h", time.Hour}, {"+1d", day}, {"+10d", 10 * day}}

func buildWorld(dir string, rng *rand.Rand) *c43World {
	w := &c43World{dir: dir, data: filepath.Join(dir, "mutagen-data"), canary: filepath.Join(dir, "canary"),
		sibling: filepath.Join(dir, "mutagen-data-backup"), contents: map[string]string{}, now: time.Now()}
	type stamp struct {
		path         string
		atime, mtime time.Time
	}
	var stamps []stamp
	old := func(d time.Duration) time.Time { return w.now.Add(-d) }
	randomAge := func() time.Time { return old(time.Duration(rng.Int63n(int64(60 * day)))) }

	// canary tree (outside the data directory), everything in it looks stale
	canaryFiles := []string{"old-cache-file", "old-staging/inner/file.bin", "old-staging/top.bin", "old-agent/mutagen-agent", "old-agent/extra", "keep/precious.txt"}
	for _, f := range canaryFiles {
		p := filepath.Join(w.canary, f)
		w.write(p, rng, 0o644)
	}
	freshCanary := filepath.Join(w.canary, "fresh-cache-file")
	w.write(freshCanary, rng, 0o644)
	// a sibling whose name has the data directory's name as prefix
	for _, f := range []string{"caches/old-one", "staging/old-root/file", "agents/0.1.0/mutagen-agent"} {
		w.write(filepath.Join(w.sibling, f), rng, 0o644)
	}

	add := func(it *c43Item) { w.items = append(w.items, it) }
	// agents: the ACCESS time of the agent executable decides; the modification time is set the other way round
	nAgents := 3 + rng.Intn(6)
	for i := 0; i < nAgents; i++ {
		dl := ageDeltas[rng.Intn(len(ageDeltas))]
		version := fmt.Sprintf("0.%d.%d", 10+i, rng.Intn(9))
		if rng.Intn(4) == 0 {
			version += "-beta" + fmt.Sprint(rng.Intn(3))
		}
		rel := filepath.Join("agents", version)
		exe := filepath.Join(w.data, rel, "mutagen-agent")
		w.write(exe, rng, 0o755)
		probes := []string{filepath.Join(rel, "mutagen-agent")}
		if rng.Intn(2) == 0 {
			w.write(filepath.Join(w.data, rel, "sub", "other-file"), rng, 0o644)
			probes = append(probes, filepath.Join(rel, "sub", "other-file"))
		}
		atime := old(agentIdle + dl.d)
		mtime := old(agentIdle - dl.d) // opposite side of the threshold
		mdesc := ",mtime=30d" + neg(dl.name)
		if rng.Intn(3) == 0 {
			mtime = randomAge()
			mdesc = ",mtime=random"
		}
		stamps = append(stamps, stamp{exe, atime, mtime})
		// the version directory's own times must not matter
		stamps = append(stamps, stamp{filepath.Join(w.data, rel), randomAge(), randomAge()})
		exp := "kept"
		if dl.d > 0 {
			exp = "removed"
		}
		add(&c43Item{Kind: "agent", Rel: rel, AgeDesc: "atime=30d" + dl.name + mdesc, Expect: exp, probe: probes})
	}
	// an agents entry without an agent executable: not an installation; never judged
	w.write(filepath.Join(w.data, "agents", "9.9.9-partial", "README"), rng, 0o644)
	stamps = append(stamps, stamp{filepath.Join(w.data, "agents", "9.9.9-partial", "README"), old(90 * day), old(90 * day)})
	add(&c43Item{Kind: "odd", Rel: "agents/9.9.9-partial", AgeDesc: "no executable", Expect: "either", probe: []string{"agents/9.9.9-partial/README"}})

	// installations in progress: the version directory exists and is fresh, the agent binary has
	// not been renamed into it yet (agent.install copies to a temporary name first)
	for k := 0; k < 1+rng.Intn(2); k++ {
		rel := filepath.Join("agents", fmt.Sprintf("0.%d.0-installing", 90+k))
		probes := []string{}
		must(os.MkdirAll(filepath.Join(w.data, rel), 0o700))
		if rng.Intn(2) == 0 {
			tmpName := filepath.Join(rel, ".mutagen-agent-partial")
			w.write(filepath.Join(w.data, tmpName), rng, 0o600)
			probes = append(probes, tmpName)
		}
		if rng.Intn(3) == 0 {
			// a dangling link where the binary will be: cannot be stat'ed either
			must(os.Symlink("not-there-yet", filepath.Join(w.data, rel, "mutagen-agent")))
		}
		add(&c43Item{Kind: "agent-in-progress", Rel: rel, AgeDesc: "fresh directory, no stat-able executable", Expect: "kept", probe: probes})
	}

	// caches: files, modification time decides; access time is set the other way round
	nCaches := 4 + rng.Intn(8)
	for i := 0; i < nCaches; i++ {
		dl := ageDeltas[rng.Intn(len(ageDeltas))]
		rel := filepath.Join("caches", fmt.Sprintf("sync_%08x_%s", rng.Uint32(), []string{"alpha", "beta"}[i%2]))
		p := filepath.Join(w.data, rel)
		w.write(p, rng, 0o600)
		stamps = append(stamps, stamp{p, old(cacheMaxAge - dl.d), old(cacheMaxAge + dl.d)})
		exp := "kept"
		if dl.d > 0 {
			exp = "removed"
		}
		add(&c43Item{Kind: "cache", Rel: rel, AgeDesc: "mtime=7d" + dl.name + ",atime=7d" + neg(dl.name), Expect: exp, probe: []string{rel}})
	}
	// staging roots: directories, the root's own modification time decides
	nStaging := 3 + rng.Intn(6)
	for i := 0; i < nStaging; i++ {
		dl := ageDeltas[rng.Intn(len(ageDeltas))]
		rel := filepath.Join("staging", fmt.Sprintf("sync_%08x_%s", rng.Uint32(), []string{"alpha", "beta"}[i%2]))
		inner := filepath.Join(rel, "ab", "abcdef0123")
		w.write(filepath.Join(w.data, inner), rng, 0o600)
		// inner content is dated the other way round
		stamps = append(stamps, stamp{filepath.Join(w.data, inner), old(stagingMaxAge - dl.d), old(stagingMaxAge - dl.d)})
		stamps = append(stamps, stamp{filepath.Join(w.data, rel, "ab"), old(stagingMaxAge - dl.d), old(stagingMaxAge - dl.d)})
		stamps = append(stamps, stamp{filepath.Join(w.data, rel), old(stagingMaxAge - dl.d), old(stagingMaxAge + dl.d)})
		exp := "kept"
		if dl.d > 0 {
			exp = "removed"
		}
		add(&c43Item{Kind: "staging", Rel: rel, AgeDesc: "mtime=7d" + dl.name, Expect: exp, probe: []string{inner}})
	}
	// symbolic links into the canary tree
	link := func(rel, target, expect, desc string) {
		p := filepath.Join(w.data, rel)
		must(os.MkdirAll(filepath.Dir(p), 0o755))
		must(os.Symlink(target, p))
		add(&c43Item{Kind: "link", Rel: rel, AgeDesc: desc, Expect: expect})
	}
	link("caches/link-to-old-file", filepath.Join(w.canary, "old-cache-file"), "either", "target stale")
	link("caches/link-to-fresh-file", freshCanary, "kept", "target fresh")
	link("caches/link-to-old-dir", filepath.Join(w.canary, "old-staging"), "either", "target stale directory")
	link("staging/link-to-old-dir", filepath.Join(w.canary, "old-staging"), "either", "target stale directory")
	link("staging/link-to-canary-root", w.canary, "either", "target canary root")
	link("agents/link-to-old-agent", filepath.Join(w.canary, "old-agent"), "either", "target stale agent")
	link("staging/dangling", filepath.Join(w.dir, "does-not-exist"), "either", "dangling")
	if rng.Intn(2) == 0 {
		link("caches/relative-link", "../../canary/old-cache-file", "either", "relative, target stale")
	}
	// unrelated data inside the data directory, all of it old
	for _, rel := range []string{"sessions/sync_0123", "archives/sync_0123_alpha", "daemon/daemon.lock", "forwarding/fwd_99", "old-top-level-file", "licensing/key", "caches-old/x", "staging.bak/y/z"} {
		p := filepath.Join(w.data, rel)
		w.write(p, rng, 0o600)
		stamps = append(stamps, stamp{p, old(400 * day), old(400 * day)})
		add(&c43Item{Kind: "unrelated", Rel: rel, AgeDesc: "400d", Expect: "kept", probe: []string{rel}})
	}
	for _, d := range []string{"sessions", "archives", "daemon", "forwarding", "licensing", "caches-old", "staging.bak", "staging.bak/y"} {
		stamps = append(stamps, stamp{filepath.Join(w.data, d), old(400 * day), old(400 * day)})
	}
	// canary times: stale, except the fresh file
	filepath.WalkDir(w.canary, func(p string, d fs.DirEntry, err error) error {
		if err == nil && p != freshCanary {
			stamps = append(stamps, stamp{p, old(200 * day), old(200 * day)})
		}
		return nil
	})
	filepath.WalkDir(w.sibling, func(p string, d fs.DirEntry, err error) error {
		if err == nil {
			stamps = append(stamps, stamp{p, old(200 * day), old(200 * day)})
		}
		return nil
	})
	// apply deepest first so that creating entries no longer disturbs directory times
	sort.SliceStable(stamps, func(i, j int) bool { return len(stamps[i].path) > len(stamps[j].path) })
	for _, s := range stamps {
		setTimes(s.path, s.atime, s.mtime)
	}
	return w
}

// neg flips the sign of an age delta name ("+1h" -> "-1h").
func neg(name string) string {
	if strings.HasPrefix(name, "+") {
		return "-" + name[1:]
	}
	return "+" + name[1:]
}

func exists(p string) bool {
	_, err := os.Lstat(p)
	return err == nil
}

func c43() {
	r := vk.Start("C43", "exploration")
	n := r.Pick(48, 600)
	scratch := r.Scratch()
	r.Assume("ages are threshold ± {1 h, 1 d, 10 d} plus threshold - {20 d, 45 d} (time stamps in the future, which are more recent than any threshold and must be kept): never closer than one hour, so clock drift during the run is irrelevant")
	r.Assume("symbolic links whose target is stale, dangling links and agent directories without an executable are not judged (either outcome is accepted); only their targets must stay untouched")
	r.Assume("old files elsewhere in the data directory (sessions, archives, daemon, …) are not housekeeping artifacts and must be kept")
	parallel(n, workerCount(), func(i int) {
		rng := r.Rand(fmt.Sprintf("case-%d", i))
		dir := filepath.Join(scratch, fmt.Sprintf("case-%04d", i))
		must(os.MkdirAll(dir, 0o755))
		defer os.RemoveAll(dir)
		w := buildWorld(dir, rng)
		const sidecar = false
		fmt.Printf("case %d: %d items, sidecar=%v\n", i, len(w.items), sidecar)
		outsideBefore := snapshot(w.canary)
		siblingBefore := snapshot(w.sibling)
		sensor, serr := newSensor(w.canary, w.sibling)
		cmd := exec.Command(selfBin())
		env := childEnv(roleEnv+"=housekeeper", "MUTAGEN_DATA_DIRECTORY="+w.data, "HOME="+filepath.Join(dir, "home"))
		env = append(env, "MUTAGEN_SIDECAR=")
		cmd.Env = env
		cmd.Dir = dir
		out, err := cmd.CombinedOutput()
		r.Eval(1)
		var sensed []string
		if serr == nil {
			sensed = sensor.drain() // before this process reads anything below
		}
		if err != nil || !strings.Contains(string(out), "HOUSEKEPT") {
			if strings.Contains(string(out), "panic:") && strings.Contains(string(out), "mutagen-io/mutagen/pkg") {
				r.Violation(map[string]string{"rule": "panic"}, "Housekeep() panicked", map[string]any{"output": string(out)})
			} else {
				r.Inconclusive("housekeeper child failed")
				fmt.Printf("case %d: housekeeper failed: %v %s\n", i, err, out)
			}
			return
		}
		wit := func(it *c43Item) map[string]any {
			return map[string]any{"case": i, "item": it, "sidecar": sidecar, "all_items": w.items}
		}
		removed, kept := 0, 0
		for _, it := range w.items {
			expect := it.Expect
			if sidecar && it.Kind == "agent" {
				expect = "kept"
			}
			full := filepath.Join(w.data, it.Rel)
			present := exists(full)
			intact := present
			for _, p := range it.probe {
				fp := filepath.Join(w.data, p)
				data, err := os.ReadFile(fp)
				if err != nil || sha1hex(data) != w.contents[fp] {
					intact = false
				}
			}
			switch expect {
			case "removed":
				if present {
					r.Violation(map[string]string{"rule": "stale-artifact-kept", "kind": it.Kind}, fmt.Sprintf("%s %s (%s) is older than its threshold but is still there after Housekeep()", it.Kind, it.Rel, it.AgeDesc), wit(it))
				} else {
					removed++
				}
			case "kept":
				if !intact {
					rule := "recent-artifact-removed"
					if it.Kind == "unrelated" {
						rule = "unrelated-data-removed"
					} else if it.Kind == "link" {
						rule = "recent-link-removed"
					}
					r.Violation(map[string]string{"rule": rule, "kind": it.Kind}, fmt.Sprintf("%s %s (%s) must survive Housekeep() but is missing or damaged", it.Kind, it.Rel, it.AgeDesc), wit(it))
				} else {
					kept++
				}
			default:
				if present {
					r.Count("unjudged_kept:"+it.Rel[:strings.IndexByte(it.Rel, '/')], 1)
				} else {
					r.Count("unjudged_removed:"+it.Rel[:strings.IndexByte(it.Rel, '/')], 1)
				}
			}
			r.Distinct(fmt.Sprintf("%s|%s|%s|%v", it.Kind, it.AgeDesc, expect, sidecar && it.Kind == "agent"))
		}
		r.Count("artifacts_removed_as_expected", int64(removed))
		r.Count("artifacts_kept_as_expected", int64(kept))
		// outside the data directory: metadata, then content
		for _, pair := range []struct {
			name   string
			root   string
			before map[string]snapEntry
		}{{"canary", w.canary, outsideBefore}, {"sibling", w.sibling, siblingBefore}} {
			if d := diffSnap(pair.before, snapshot(pair.root)); len(d) > 0 {
				r.Violation(map[string]string{"rule": "outside-data-directory-touched", "where": pair.name}, fmt.Sprintf("Housekeep() changed the %s tree outside the data directory: %v", pair.name, d), map[string]any{"case": i, "diff": d, "items": w.items})
			}
			for p, want := range w.contents {
				if strings.HasPrefix(p, pair.root+"/") {
					if data, err := os.ReadFile(p); err == nil && sha1hex(data) != want {
						r.Violation(map[string]string{"rule": "outside-data-directory-touched", "where": pair.name}, "content of "+p+" changed", map[string]any{"case": i})
					}
				}
			}
		}
		if serr == nil {
			if ev := sensed; len(ev) > 0 {
				r.Violation(map[string]string{"rule": "outside-data-directory-touched", "where": "inotify"}, fmt.Sprintf("inotify saw %d modifying events outside the data directory during Housekeep(): %v", len(ev), ev[:minInt(len(ev), 6)]), map[string]any{"case": i, "events": ev})
			}
			sensor.drain()
			// liveness control of the sensor
			os.Chmod(filepath.Join(w.canary, "keep", "precious.txt"), 0o600)
			if ev := sensor.drain(); len(ev) > 0 {
				r.Count("inotify_control_events", int64(len(ev)))
			} else {
				r.Inconclusive("inotify control produced no event")
			}
			sensor.close()
		} else {
			r.Count("inotify_unavailable", 1)
		}
		if i < 3 {
			r.Sample(map[string]any{"case": i, "sidecar": sidecar, "items": w.items, "removed": removed, "kept": kept})
		}
	})
	if r.Counter("artifacts_removed_as_expected") == 0 && r.Violations() == 0 {
		r.Inconclusive("nothing was ever removed")
	}
	r.Finish("one case = one populated data directory (agents by atime around 30 d, caches and staging roots by mtime around 7 d, links into a canary tree, unrelated old data) given to the real Housekeep() in a child process; distinct = (artifact kind, age relative to its threshold, expected outcome)", r.Pick(12, 14))
}

func minInt(a, b int) int {
	if a < b {
		return a
	}
	return b
}
