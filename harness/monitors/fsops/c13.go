package main

import (
	"fmt"
	"math/rand"
	"os"
	"path/filepath"
	"sort"
	"strings"
	"syscall"

	"golang.org/x/sys/unix"
	"google.golang.org/protobuf/proto"

	"github.com/mutagen-io/mutagen/pkg/synchronization/core"

	"verif/internal/fsx"
	"verif/internal/vk"
)

// C13: histories tree0, E1, E2 … ; after each step the accelerated scan
// (previous accelerated snapshot + caches, recheck = every created, deleted or
// modified path) must equal a cold scan.
//
// How recheck paths are reported. The local endpoint inserts the
// root-relative event paths of the recursive watcher verbatim into
// recheckPaths ("" for the root itself), drops paths whose first or last
// component starts with the temporary prefix, and adds the transition roots
// after a transition; core.Scan itself closes the set over all ancestors. The
// property's precondition is "every created, deleted or modified path is
// reported", so the harness reports exactly the paths whose existence, type,
// identity, size, mtime, mode or link target changed in some edit of the step
// (measured by an lstat listing before and after every single edit, united
// with the paths the edit script names) plus each such path's parent directory
// (the path a fanotify watcher reports for create/delete/rename). Nothing
// below or beside them is reported unless the step is an "extra paths" step.

type diskSig struct {
	kind   uint32
	ino    uint64
	size   int64
	mtime  int64
	mode   uint32
	target string
}

func listing(root string) map[string]diskSig {
	out := map[string]diskSig{}
	var rec func(full, rel string)
	rec = func(full, rel string) {
		ents, err := os.ReadDir(full)
		if err != nil {
			return
		}
		for _, e := range ents {
			cf := filepath.Join(full, e.Name())
			cr := join(rel, e.Name())
			var st syscall.Stat_t
			if syscall.Lstat(cf, &st) != nil {
				continue
			}
			s := diskSig{kind: st.Mode & syscall.S_IFMT, ino: st.Ino}
			switch s.kind {
			case syscall.S_IFDIR:
				// a directory changes when it is another directory (or another kind)
			case syscall.S_IFLNK:
				s.target, _ = os.Readlink(cf)
			default:
				s.size, s.mtime, s.mode = st.Size, st.Mtim.Sec*1e9+st.Mtim.Nsec, st.Mode&0o7777
			}
			out[cr] = s
			if s.kind == syscall.S_IFDIR {
				rec(cf, cr)
			}
		}
	}
	rec(root, "")
	return out
}

// fileDigests returns the sha1 of every regular file of a listing.
func fileDigests(root string, l map[string]diskSig) map[string]string {
	out := map[string]string{}
	for p, s := range l {
		if s.kind == syscall.S_IFREG {
			if data, err := os.ReadFile(fullPath(root, p)); err == nil {
				out[p] = string(fsx.Sha1(data))
			}
		}
	}
	return out
}

func diffListing(a, b map[string]diskSig, into map[string]bool) {
	for p, s := range a {
		if t, ok := b[p]; !ok || t != s {
			into[p] = true
		}
	}
	for p := range b {
		if _, ok := a[p]; !ok {
			into[p] = true
		}
	}
}

type c13Config struct {
	Docker   bool     `json:"docker_syntax"`
	Patterns []string `json:"patterns"`
	Symlinks string   `json:"symlinks"`
	Perms    string   `json:"permissions"`
}

var c13MutagenPatterns = [][]string{
	nil,
	{"*.o"},
	{"node_modules", "*.o", "!keep*"},
	{"/sub", "data/"},
	{"build/", "!build/keep"},
	{"**/dir*/**"},
}
var c13DockerPatterns = [][]string{
	nil,
	{"*.o"},
	{"build", "!build/keep*"},
	{"**/node_modules", "!**/node_modules/keep"},
	{"sub/*", "!sub/data"},
	{"*", "!a*", "!dir*"},
	{"**/*.txt", "!README"},
	{"build/cache", "!build/cache/keep"},
	{"build/cache", "!build/cache/keep", "pkg/scan/vendor", "!pkg/scan/vendor/keep.go"},
}

type c13Step struct {
	Step    int        `json:"step"`
	Edits   []fsx.Edit `json:"edits"`
	Recheck []string   `json:"recheck"`
	Extras  int        `json:"extra_paths"`
}

func c13() {
	r := vk.Start("C13", "exploration")
	scratch := r.Scratch()
	histories := r.Pick(240, 2500)
	steps := r.Pick(5, 12)
	workers := workerCount()
	parallel(workers, func(w int) {
		for h := w; h < histories; h += workers {
			rng := r.Rand(fmt.Sprintf("c13-%d", h))
			dir := filepath.Join(scratch, fmt.Sprintf("h%d", h))
			c13History(r, rng, h, steps, filepath.Join(dir, "root"))
			forceRemove(dir)
		}
	})
	c13HasherFaults(r, scratch)
	c13RootOnly(r, scratch)
	r.Assume("every created, deleted or modified path of a step is reported (lstat listing before/after each edit united with the edit script's own paths), plus its parent directory; core.Scan closes the set over ancestors itself")
	r.Assume("every content change alters size, mtime (>= 1 s bump), inode or type by construction of the edit script")
	r.Assume("the cold reference scan is tied to the filesystem by C12")
	if r.Counter("steps_reusing_baseline_directories") == 0 {
		r.Inconclusive("no accelerated scan re-used a baseline directory")
	}
	r.Finish("random disk trees followed by histories of edit steps (create, mkdir, in-place edit, chmod, delete, rename, replace by new inode, single-attribute content changes (only inode / only mtime / only size differs), file<->directory, in-place edit two or more levels below a directory that is reported too, directory removed and re-created with the same layout and sizes but new content, a change inside a directory reported together with a changed sibling named like the directory plus ' ', '+', '-' or '.', changes directly beside Docker-syntax phantom directories, symlink create/retarget, empty-directory replacement, add child; 1..30 edits per step, also inside ignored directories) under both ignore syntaxes; after every step core.Scan(baseline = previous accelerated snapshot, recheck = changed paths [+ random extra paths], previous digest and ignore caches) must succeed and be proto.Equal to a cold scan; accelerated outputs feed the next step; plus single-file roots (edit, same-size edit, chmod, replacement by rename) and directory roots (root-level creation/deletion) rescanned with the recheck set {\"\"}; plus histories with ONE hasher object shared by all scans in which a scan is cancelled while hashing a 40 MiB file or a file grows while it is hashed, after which the accelerated scan with that hasher must equal a cold scan with a fresh one; non-trivial = step with at least one effective edit; distinct = (syntax, sorted edit operations of the step, baseline directories re-used or not, extras)", 60)
}

func c13History(r *vk.Run, rng *rand.Rand, h, steps int, root string) {
	cfg := c13Config{Docker: rng.Intn(2) == 0}
	if cfg.Docker {
		cfg.Patterns = c13DockerPatterns[rng.Intn(len(c13DockerPatterns))]
		if rng.Intn(2) == 0 {
			cfg.Patterns = c13DockerPatterns[len(c13DockerPatterns)-1-rng.Intn(2)]
		}
	} else {
		cfg.Patterns = c13MutagenPatterns[rng.Intn(len(c13MutagenPatterns))]
	}
	sl := symlinkModes[rng.Intn(len(symlinkModes))]
	pm := permModes[rng.Intn(len(permModes))]
	cfg.Symlinks, cfg.Perms = slName(sl), pmName(pm)
	scfg := fsx.ScanConfig{Patterns: cfg.Patterns, Docker: cfg.Docker, IgnoreVCS: rng.Intn(4) == 0,
		ProbeMode: probeModes[rng.Intn(2)], SymbolicLinkMode: sl, PermissionsMode: pm}
	if _, err := scfg.NewIgnorer(); err != nil {
		fmt.Printf("ERROR: C13 pattern list %v rejected: %v\n", cfg.Patterns, err)
		r.Inconclusive("pattern list rejected")
		return
	}
	tree := fsx.RandomTree(rng, fsx.TreeConfig{MaxEntries: 10 + rng.Intn(50), MaxDepth: 2 + rng.Intn(3), MaxFileSize: 16 << 10,
		Links: true, Fifos: rng.Intn(2) == 0, NonUTF8: rng.Intn(3) == 0, Temporaries: rng.Intn(3) == 0})
	c13AddNest(rng, tree)
	c13AddStructures(rng, tree)
	fmt.Printf("C13 history %d config=%s entries=%d\n", h, vk.JSON(cfg), len(tree))
	if err := fsx.Materialize(root, tree); err != nil {
		r.Inconclusive("tree could not be materialized")
		return
	}
	var prev *fsx.ScanState
	var journal []c13Step
	witness := func() map[string]any {
		return map[string]any{"history": h, "config": cfg, "ignore_vcs": scfg.IgnoreVCS, "initial_tree": describeTree(tree), "steps": journal}
	}
	guard(r, map[string]any{"history": h, "config": cfg}, func() {
		var err error
		prev, err = fsx.Cold(root, scfg)
		if err != nil {
			r.Violation(map[string]string{"rule": "cold-scan-error"}, "cold scan of the initial tree failed: "+err.Error(), witness())
			prev = nil
		}
	})
	if prev == nil {
		return
	}
	for s := 1; s <= steps; s++ {
		// one step of edits, measuring what changed
		nEdits := 1 + rng.Intn(6)
		if rng.Intn(8) == 0 {
			nEdits = 1 + rng.Intn(30)
		}
		changed := map[string]bool{}
		step := c13Step{Step: s}
		before := listing(root)
		atScan, shaAtScan := before, fileDigests(root, before)
		var forced []string // directories reported in addition to a deep descendant
		exactOnly := false  // report the changed paths only (no parents) in this step
		for e := 0; e < nEdits; e++ {
			var ed fsx.Edit
			var paths []string
			var err error
			switch roll := rng.Intn(16); {
			case roll < 4:
				ed, paths = c13SingleAttributeEdit(rng, root)
			case roll == 4:
				var D string
				ed, paths, D = c13DeepEdit(rng, root, prev.Snapshot.Content)
				if D != "" {
					forced = append(forced, D)
				}
			case roll == 5:
				ed, paths = c13RecreateDirectory(rng, root)
			case roll == 6:
				// a change inside a directory together with a changed sibling
				// whose name is the directory's name plus a byte below '/'
				var more fsx.Edit
				ed, more, paths = c13PrefixSiblingEdit(rng, root, prev.Snapshot.Content)
				if more.Op != "" {
					step.Edits = append(step.Edits, more)
					exactOnly = true
				}
			case roll == 7:
				ed, paths = c13EditBesidePhantom(rng, root, prev.Snapshot.Content)
			default:
				ed, paths, err = fsx.RandomEdit(rng, root)
			}
			if err != nil {
				r.Inconclusive("edit script failed")
				return
			}
			if ed.Op == "none" {
				continue
			}
			step.Edits = append(step.Edits, ed)
			for _, p := range paths {
				changed[p] = true
			}
			after := listing(root)
			diffListing(before, after, changed)
			before = after
		}
		// The property's precondition, enforced rather than assumed: a file that
		// looks the same as at the previous scan (kind, inode, size, mtime) must
		// have the same content. Edits within one step can defeat the
		// per-edit guarantees (ext4 hands a just-freed inode number straight
		// back), so such a file gets its mtime bumped here.
		for p, d := range fileDigests(root, before) {
			now := before[p]
			// permission bits are not part of what the digest cache is keyed on
			if was, ok := atScan[p]; ok && was.kind == now.kind && was.ino == now.ino && was.size == now.size && was.mtime == now.mtime && shaAtScan[p] != d {
				fsx.BumpMtime(fullPath(root, p))
				changed[p] = true
				r.Count("precondition_repaired_by_mtime_bump", 1)
			}
		}
		// Parents are what a fanotify watcher names for create/delete/rename;
		// core.Scan closes the set over ancestors itself, so adding them or not
		// must make no difference. Half of the steps report the changed paths only.
		withParents := rng.Intn(2) == 0 && !exactOnly
		recheck := map[string]bool{}
		for p := range changed {
			// the endpoint drops watcher events for temporary names
			if strings.HasPrefix(p, tempPrefix) || strings.HasPrefix(leafOf(p), tempPrefix) {
				continue
			}
			recheck[p] = true
			if withParents {
				recheck[parentOf(p)] = true
			}
		}
		for _, D := range forced {
			// only meaningful while the deep path is still there and reported
			recheck[D] = true
			r.Count("steps_reporting_directory_and_deep_descendant", 1)
		}
		// optional extra paths: existing ones, vanished ones, nonsense
		if rng.Intn(3) == 0 {
			var all []string
			for p := range before {
				all = append(all, p)
			}
			sort.Strings(all)
			for k := rng.Intn(4); k >= 0; k-- {
				var x string
				switch rng.Intn(4) {
				case 0:
					x = ""
				case 1:
					x = fmt.Sprintf("ghost%d/x/y", rng.Intn(9))
				default:
					if len(all) > 0 {
						x = all[rng.Intn(len(all))]
						if rng.Intn(4) == 0 {
							x += "/below"
						}
					}
				}
				if !recheck[x] {
					recheck[x] = true
					step.Extras++
				}
			}
		}
		for p := range recheck {
			step.Recheck = append(step.Recheck, p)
		}
		sort.Strings(step.Recheck)
		journal = append(journal, step)
		fmt.Printf("C13 history %d step %d edits=%s recheck=%q\n", h, s, vk.JSON(step.Edits), step.Recheck)

		var acc, cold *fsx.ScanState
		ok := false
		guard(r, witness(), func() {
			r.Eval(1)
			var err error
			acc, err = fsx.Accelerated(root, scfg, prev, recheck)
			if err != nil {
				r.Violation(map[string]string{"rule": "accelerated-scan-error", "docker": fmt.Sprint(cfg.Docker)},
					"accelerated scan failed although every changed path was reported: "+err.Error(), witness())
				return
			}
			cold, err = fsx.Cold(root, scfg)
			if err != nil {
				r.Violation(map[string]string{"rule": "cold-scan-error"}, "cold scan failed: "+err.Error(), witness())
				return
			}
			ok = true
		})
		if !ok {
			return
		}
		if !proto.Equal(acc.Snapshot, cold.Snapshot) {
			what := "accelerated snapshot differs from the cold snapshot"
			rule := "snapshot-differs"
			if same, where := fsx.EqualLoose(cold.Snapshot.Content, acc.Snapshot.Content); !same {
				what += fmt.Sprintf(" at %q: cold=%s accelerated=%s", where, descAt(cold.Snapshot.Content, where), descAt(acc.Snapshot.Content, where))
				rule = "content-differs"
			} else if acc.Snapshot.Directories != cold.Snapshot.Directories || acc.Snapshot.Files != cold.Snapshot.Files ||
				acc.Snapshot.SymbolicLinks != cold.Snapshot.SymbolicLinks || acc.Snapshot.TotalFileSize != cold.Snapshot.TotalFileSize {
				what += fmt.Sprintf(": counters accelerated=(%d dirs %d files %d links %d bytes) cold=(%d dirs %d files %d links %d bytes)",
					acc.Snapshot.Directories, acc.Snapshot.Files, acc.Snapshot.SymbolicLinks, acc.Snapshot.TotalFileSize,
					cold.Snapshot.Directories, cold.Snapshot.Files, cold.Snapshot.SymbolicLinks, cold.Snapshot.TotalFileSize)
				rule = "counters-differ"
			} else if acc.Snapshot.PreservesExecutability != cold.Snapshot.PreservesExecutability || acc.Snapshot.DecomposesUnicode != cold.Snapshot.DecomposesUnicode {
				rule = "flags-differ"
			}
			r.Violation(map[string]string{"rule": rule, "docker": fmt.Sprint(cfg.Docker)}, what, witness())
			return
		}
		// Not a verdict (the property speaks about the snapshot): note when the
		// digest cache of the accelerated scan is not the cold scan's.
		if !acc.Cache.Equal(cold.Cache) {
			r.Count("steps_with_digest_cache_unlike_cold", 1)
		}
		// non-vacuity: how much of the baseline was really re-used (re-used
		// directories are the very same Entry objects)
		reused := countReused(prev.Snapshot.Content, acc.Snapshot.Content)
		phantoms := 0
		walkEntry("", acc.Snapshot.Content, func(_ string, e *core.Entry) {
			if e.Kind == core.EntryKind_PhantomDirectory {
				phantoms++
			}
		})
		if phantoms > 0 {
			r.Count("steps_with_phantom_directories", 1)
			if reused > 0 {
				r.Count("steps_with_phantom_directories_and_baseline_reuse", 1)
			}
		}
		if reused > 0 {
			r.Count("steps_reusing_baseline_directories", 1)
			r.Count("baseline_directories_reused", int64(reused))
		}
		r.Count("recheck_paths", int64(len(recheck)))
		if len(step.Edits) > 0 {
			ops := make([]string, 0, len(step.Edits))
			for _, e := range step.Edits {
				ops = append(ops, e.Op)
			}
			sort.Strings(ops)
			r.Distinct(fmt.Sprintf("%v|%s|%v|%v", cfg.Docker, strings.Join(ops, ","), reused > 0, step.Extras > 0))
			r.Count("edits_applied", int64(len(step.Edits)))
		}
		if h%23 == 5 && s == 2 && len(tree) <= 30 {
			r.Sample(map[string]any{"history": h, "config": cfg, "step": step, "baseline_directories_reused": reused})
		}
		prev = acc
	}
}

// c13SingleAttributeEdit changes the content of a random file such that
// exactly one of the attributes the digest cache is keyed on tells: the inode
// (replacement by a new file of identical size, mtime and mode), the mtime
// (in-place rewrite of identical size) or the size (in-place rewrite with the
// old mtime restored).
func c13SingleAttributeEdit(rng *rand.Rand, root string) (fsx.Edit, []string) {
	var files []string
	for p, s := range listing(root) {
		if s.kind == syscall.S_IFREG && s.size > 0 {
			files = append(files, p)
		}
	}
	if len(files) == 0 {
		return fsx.Edit{Op: "none"}, nil
	}
	sort.Strings(files)
	p := files[rng.Intn(len(files))]
	full := fullPath(root, p)
	var st syscall.Stat_t
	if syscall.Lstat(full, &st) != nil {
		return fsx.Edit{Op: "none"}, nil
	}
	restore := func(path string) {
		ts := []unix.Timespec{{Sec: st.Atim.Sec, Nsec: st.Atim.Nsec}, {Sec: st.Mtim.Sec, Nsec: st.Mtim.Nsec}}
		unix.UtimesNanoAt(unix.AT_FDCWD, path, ts, unix.AT_SYMLINK_NOFOLLOW)
	}
	switch rng.Intn(3) {
	case 0:
		tmp := full + ".verif-twin"
		if os.WriteFile(tmp, exactBytes(rng, int(st.Size)), 0o600) != nil {
			return fsx.Edit{Op: "none"}, nil
		}
		os.Chmod(tmp, os.FileMode(st.Mode&0o7777))
		restore(tmp)
		if fsx.Inode(tmp) == st.Ino || os.Rename(tmp, full) != nil {
			os.Remove(tmp)
			return fsx.Edit{Op: "none"}, nil
		}
		return fsx.Edit{Op: "replace-only-inode-differs", Path: p}, []string{p}
	case 1:
		if os.WriteFile(full, exactBytes(rng, int(st.Size)), 0) != nil {
			return fsx.Edit{Op: "none"}, nil
		}
		fsx.BumpMtime(full)
		return fsx.Edit{Op: "edit-only-mtime-differs", Path: p}, []string{p}
	default:
		if os.WriteFile(full, exactBytes(rng, int(st.Size)+1+rng.Intn(9)), 0) != nil {
			return fsx.Edit{Op: "none"}, nil
		}
		restore(full)
		return fsx.Edit{Op: "edit-only-size-differs", Path: p}, []string{p}
	}
}

// countReused counts directory entries of cur that are the same objects as in
// base (pointer identity): those were taken from the baseline unscanned.
func countReused(base, cur *core.Entry) int {
	if base == nil || cur == nil {
		return 0
	}
	seen := map[*core.Entry]bool{}
	walkEntry("", base, func(_ string, e *core.Entry) {
		if e.Kind == core.EntryKind_Directory {
			seen[e] = true
		}
	})
	n := 0
	var rec func(e *core.Entry)
	rec = func(e *core.Entry) {
		if e == nil {
			return
		}
		if seen[e] {
			n++
			return
		}
		for _, c := range e.Contents {
			rec(c)
		}
	}
	rec(cur)
	return n
}
