// Monitor group fsops: the filesystem-facing operations of the
// synchronization core, driven on real disk trees.
//
//	C08  transitions never destroy content changed after the scan
//	C12  a scan describes the filesystem exactly
//	C13  accelerated scans equal full scans
//	C17  no access outside the root through in-root symbolic links
//
// The same binary re-executes itself (VERIF_BIN) in child roles for the
// unprivileged (uid 65534) parts of C08 and C12; a child reports through
// "@@VK " JSON lines on stdout which the parent replays into its vk.Run.
package main

import (
	"bufio"
	"crypto/sha1"
	"encoding/hex"
	"encoding/json"
	"fmt"
	"io"
	"os"
	"os/exec"
	"path/filepath"
	"runtime"
	"runtime/debug"
	"sort"
	"strings"
	"sync"
	"sync/atomic"
	"syscall"

	"golang.org/x/sys/unix"

	"github.com/mutagen-io/mutagen/pkg/synchronization/core"

	"verif/internal/vk"
)

func main() {
	if role := os.Getenv("VERIF_ROLE"); role != "" {
		childMain(role)
		return
	}
	vk.Main("fsops", map[string]func(){
		"C08": c08,
		"C12": c12,
		"C13": c13,
		"C17": c17,
	})
}

// ------------------------------------------------------------ recording

// rec is what a case runner needs from the verdict kit. *vk.Run satisfies it
// in the parent; childRec satisfies it in a child role.
type rec interface {
	Eval(n int)
	Distinct(sig string)
	Sample(v any)
	Count(key string, n int64)
	Inconclusive(reason string)
	Violation(sig map[string]string, what string, witness any) bool
}

type childMsg struct {
	T       string            `json:"t"`
	N       int64             `json:"n,omitempty"`
	S       string            `json:"s,omitempty"`
	Sig     map[string]string `json:"sig,omitempty"`
	What    string            `json:"what,omitempty"`
	Witness json.RawMessage   `json:"witness,omitempty"`
}

const childPrefix = "@@VK "

type childRec struct {
	mu sync.Mutex
	w  *bufio.Writer
}

func (c *childRec) emit(m childMsg) {
	b, _ := json.Marshal(m)
	c.mu.Lock()
	c.w.WriteString(childPrefix)
	c.w.Write(b)
	c.w.WriteByte('\n')
	c.w.Flush()
	c.mu.Unlock()
}
func raw(v any) json.RawMessage {
	b, err := json.Marshal(v)
	if err != nil {
		b, _ = json.Marshal(fmt.Sprintf("%+v", v))
	}
	return b
}
func (c *childRec) Eval(n int)                 { c.emit(childMsg{T: "eval", N: int64(n)}) }
func (c *childRec) Distinct(sig string)        { c.emit(childMsg{T: "distinct", S: sig}) }
func (c *childRec) Sample(v any)               { c.emit(childMsg{T: "sample", Witness: raw(v)}) }
func (c *childRec) Count(key string, n int64)  { c.emit(childMsg{T: "count", S: key, N: n}) }
func (c *childRec) Inconclusive(reason string) { c.emit(childMsg{T: "inconclusive", S: reason}) }
func (c *childRec) Violation(sig map[string]string, what string, witness any) bool {
	c.emit(childMsg{T: "violation", Sig: sig, What: what, Witness: raw(witness)})
	return true
}

// guard converts a panic of the code under test into a violation.
func guard(r rec, caseDesc any, f func()) {
	defer func() {
		if p := recover(); p != nil {
			r.Violation(map[string]string{"kind": "panic", "panic": fmt.Sprint(p)},
				fmt.Sprintf("panic in code under test: %v", p),
				map[string]any{"case": caseDesc, "stack": string(debug.Stack())})
		}
	}()
	f()
}

func childMain(role string) {
	out := &childRec{w: bufio.NewWriter(os.Stdout)}
	prop := os.Getenv("VERIF_CHILD_PROP")
	run := vk.Start(prop, "exploration") // only for Rand/Pick; never finished here
	dir := os.Getenv("VERIF_CHILD_DIR")
	switch role {
	case "c12-unpriv":
		c12Cases(out, run, dir, true)
	case "c08-unpriv":
		c08Cases(out, run, dir, os.Getenv("VERIF_CHILD_SHM"), true)
	default:
		fmt.Printf("ERROR: unknown child role %q\n", role)
		os.Exit(3)
	}
	out.emit(childMsg{T: "done"})
	os.Exit(0)
}

const unprivID = 65534

// runUnprivChild re-executes the monitor as uid/gid 65534 in the given role
// and replays its records into r. dirs are made accessible to that uid. It
// returns false (and records an inconclusive case) if the child could not run
// to completion.
func runUnprivChild(r *vk.Run, role string, env map[string]string, dirs ...string) bool {
	bin := os.Getenv("VERIF_BIN")
	if bin == "" {
		if exe, err := os.Executable(); err == nil {
			bin = exe
		}
	}
	if os.Geteuid() != 0 {
		r.Inconclusive("not running as root: unprivileged child not started")
		return false
	}
	for _, d := range dirs {
		if d == "" {
			continue
		}
		os.MkdirAll(d, 0o755)
		if err := os.Chown(d, unprivID, unprivID); err != nil {
			r.Inconclusive("cannot chown scratch for unprivileged child")
			return false
		}
	}
	cmd := exec.Command(bin, "-prop", r.Prop)
	cmd.Env = append(os.Environ(), "VERIF_ROLE="+role, "VERIF_CHILD_PROP="+r.Prop, "HOME="+dirs[0])
	for k, v := range env {
		cmd.Env = append(cmd.Env, k+"="+v)
	}
	cmd.Dir = dirs[0]
	cmd.Stderr = os.Stdout
	cmd.SysProcAttr = &syscall.SysProcAttr{Credential: &syscall.Credential{Uid: unprivID, Gid: unprivID, Groups: []uint32{unprivID}}}
	pipe, err := cmd.StdoutPipe()
	if err != nil {
		r.Inconclusive("pipe for unprivileged child failed")
		return false
	}
	fmt.Printf("child: starting role %s as uid %d in %s\n", role, unprivID, dirs[0])
	if err := cmd.Start(); err != nil {
		fmt.Printf("child: start failed: %v\n", err)
		r.Inconclusive("unprivileged child could not be started")
		return false
	}
	done := false
	sc := bufio.NewReader(pipe)
	for {
		line, err := sc.ReadString('\n')
		if strings.HasPrefix(line, childPrefix) {
			var m childMsg
			if json.Unmarshal([]byte(strings.TrimSpace(line[len(childPrefix):])), &m) == nil {
				switch m.T {
				case "eval":
					r.Eval(int(m.N))
				case "distinct":
					r.Distinct(m.S)
				case "sample":
					r.Sample(m.Witness)
				case "count":
					r.Count(m.S, m.N)
				case "inconclusive":
					r.Inconclusive(m.S)
				case "violation":
					r.Violation(m.Sig, m.What, m.Witness)
				case "done":
					done = true
				}
			}
		} else if line != "" {
			os.Stdout.WriteString(line)
		}
		if err != nil {
			break
		}
	}
	werr := cmd.Wait()
	if werr != nil || !done {
		fmt.Printf("child: role %s ended abnormally: %v (done=%v)\n", role, werr, done)
		r.Inconclusive("unprivileged child ended abnormally")
		return false
	}
	return true
}

// ------------------------------------------------------------ parallel driver

func workerCount() int {
	n := runtime.NumCPU()
	if n > 8 {
		n = 8
	}
	if n < 1 {
		n = 1
	}
	return n
}

// parallel runs f(worker) on `workers` goroutines.
func parallel(workers int, f func(w int)) {
	var wg sync.WaitGroup
	for w := 0; w < workers; w++ {
		wg.Add(1)
		go func(w int) {
			defer wg.Done()
			f(w)
		}(w)
	}
	wg.Wait()
}

// ------------------------------------------------------------ path relations

func atOrBelow(q, p string) bool { // q at or below p
	return p == "" || q == p || strings.HasPrefix(q, p+"/")
}
func related(p, q string) bool { return atOrBelow(p, q) || atOrBelow(q, p) }
func join(p, n string) string {
	if p == "" {
		return n
	}
	return p + "/" + n
}
func parentOf(p string) string {
	i := strings.LastIndex(p, "/")
	if i < 0 {
		return ""
	}
	return p[:i]
}
func fullPath(root, rel string) string {
	if rel == "" {
		return root
	}
	return filepath.Join(root, filepath.FromSlash(rel))
}

// ------------------------------------------------------------ disk observation

// obs is what the harness records about one disk object (never following links).
type obs struct {
	Kind     string          `json:"kind"` // file dir link other absent
	Mode     uint32          `json:"mode,omitempty"`
	Size     int64           `json:"size,omitempty"`
	MtimeNs  int64           `json:"mtime_ns,omitempty"`
	Ino      uint64          `json:"ino,omitempty"`
	Uid      uint32          `json:"uid"`
	Gid      uint32          `json:"gid"`
	Sha      string          `json:"sha1,omitempty"`
	Target   string          `json:"target,omitempty"`
	Children map[string]*obs `json:"children,omitempty"`
}

func observe(full string) *obs {
	var st syscall.Stat_t
	if err := syscall.Lstat(full, &st); err != nil {
		return &obs{Kind: "absent"}
	}
	o := &obs{Mode: st.Mode & 0o7777, Ino: st.Ino, Uid: st.Uid, Gid: st.Gid}
	switch st.Mode & syscall.S_IFMT {
	case syscall.S_IFREG:
		o.Kind = "file"
		o.Size = st.Size
		o.MtimeNs = st.Mtim.Sec*1e9 + st.Mtim.Nsec
		if data, err := os.ReadFile(full); err == nil {
			s := sha1.Sum(data)
			o.Sha = hex.EncodeToString(s[:])
		} else {
			o.Sha = "unreadable"
		}
	case syscall.S_IFDIR:
		o.Kind = "dir"
		ents, _ := os.ReadDir(full)
		if len(ents) > 0 {
			o.Children = map[string]*obs{}
		}
		for _, e := range ents {
			o.Children[e.Name()] = observe(filepath.Join(full, e.Name()))
		}
	case syscall.S_IFLNK:
		o.Kind = "link"
		o.Mode = 0
		o.Target, _ = os.Readlink(full)
	default:
		o.Kind = "other"
	}
	return o
}

// equalObs compares two observations; the first difference is described.
func equalObs(a, b *obs) (bool, string) {
	if a.Kind != b.Kind {
		return false, fmt.Sprintf("kind %s -> %s", a.Kind, b.Kind)
	}
	if a.Ino != b.Ino {
		return false, fmt.Sprintf("inode %d -> %d", a.Ino, b.Ino)
	}
	if a.Mode != b.Mode {
		return false, fmt.Sprintf("mode %o -> %o", a.Mode, b.Mode)
	}
	if a.Uid != b.Uid || a.Gid != b.Gid {
		return false, fmt.Sprintf("owner %d:%d -> %d:%d", a.Uid, a.Gid, b.Uid, b.Gid)
	}
	switch a.Kind {
	case "file":
		if a.Size != b.Size || a.MtimeNs != b.MtimeNs || a.Sha != b.Sha {
			return false, fmt.Sprintf("file (size %d mtime %d sha %s) -> (size %d mtime %d sha %s)", a.Size, a.MtimeNs, a.Sha, b.Size, b.MtimeNs, b.Sha)
		}
	case "link":
		if a.Target != b.Target {
			return false, fmt.Sprintf("target %q -> %q", a.Target, b.Target)
		}
	case "dir":
		if len(a.Children) != len(b.Children) {
			return false, fmt.Sprintf("directory has %d children, had %d", len(b.Children), len(a.Children))
		}
		for n, c := range a.Children {
			d, ok := b.Children[n]
			if !ok {
				return false, "child " + n + " gone"
			}
			if ok2, why := equalObs(c, d); !ok2 {
				return false, n + ": " + why
			}
		}
	}
	return true, ""
}

// ------------------------------------------------------------ entry helpers

// syncFilter returns a deep copy of e without unsynchronizable content (what a
// plan built from reconciled, synchronizable trees knows about).
func syncFilter(e *core.Entry) *core.Entry {
	if e == nil {
		return nil
	}
	switch e.Kind {
	case core.EntryKind_File:
		return &core.Entry{Kind: e.Kind, Digest: append([]byte(nil), e.Digest...), Executable: e.Executable}
	case core.EntryKind_SymbolicLink:
		return &core.Entry{Kind: e.Kind, Target: e.Target}
	case core.EntryKind_Directory:
		out := &core.Entry{Kind: e.Kind}
		for n, c := range e.Contents {
			if f := syncFilter(c); f != nil {
				if out.Contents == nil {
					out.Contents = map[string]*core.Entry{}
				}
				out.Contents[n] = f
			}
		}
		return out
	default:
		return nil
	}
}

// walkEntry visits e and its descendants (parents first, sorted names).
func walkEntry(path string, e *core.Entry, f func(path string, e *core.Entry)) {
	if e == nil {
		return
	}
	f(path, e)
	names := make([]string, 0, len(e.Contents))
	for n := range e.Contents {
		names = append(names, n)
	}
	sort.Strings(names)
	for _, n := range names {
		walkEntry(join(path, n), e.Contents[n], f)
	}
}

func entryAt(e *core.Entry, path string) *core.Entry {
	if path == "" {
		return e
	}
	for _, c := range strings.Split(path, "/") {
		if e == nil {
			return nil
		}
		e = e.Contents[c]
	}
	return e
}

func kindName(e *core.Entry) string {
	if e == nil {
		return "nil"
	}
	switch e.Kind {
	case core.EntryKind_Directory:
		return "dir"
	case core.EntryKind_File:
		return "file"
	case core.EntryKind_SymbolicLink:
		return "link"
	case core.EntryKind_Untracked:
		return "untracked"
	case core.EntryKind_Problematic:
		return "problematic"
	case core.EntryKind_PhantomDirectory:
		return "phantom"
	}
	return "?"
}

func describeProblems(ps []*core.Problem) []string {
	out := make([]string, 0, len(ps))
	for _, p := range ps {
		out = append(out, fmt.Sprintf("%q: %s", p.Path, p.Error))
	}
	sort.Strings(out)
	return out
}

// forceRemove removes a scratch tree regardless of permission bits.
func forceRemove(dir string) {
	filepath.Walk(dir, func(p string, fi os.FileInfo, err error) error {
		if err == nil && fi.IsDir() {
			os.Chmod(p, 0o700)
		}
		return nil
	})
	os.RemoveAll(dir)
}

func copyFile(dst, src string) error {
	in, err := os.Open(src)
	if err != nil {
		return err
	}
	defer in.Close()
	out, err := os.Create(dst)
	if err != nil {
		return err
	}
	_, err = io.Copy(out, in)
	if cerr := out.Close(); err == nil {
		err = cerr
	}
	return err
}

// replaceSameMeta replaces the regular file at full by a NEW inode (create
// under another name, then rename over) that has the same size, the same
// nanosecond mtime and the same mode but different content. It reports
// whether exactly that happened (the inode number is asserted to differ).
// started tells whether the disk was modified at all.
func replaceSameMeta(full string) (ok bool, started bool) {
	var st syscall.Stat_t
	if syscall.Lstat(full, &st) != nil || st.Mode&syscall.S_IFMT != syscall.S_IFREG || st.Size == 0 {
		return false, false
	}
	data, err := os.ReadFile(full)
	if err != nil || int64(len(data)) != st.Size {
		return false, false
	}
	for i := range data { // different content, same length
		data[i] ^= 0x55
	}
	tmp := filepath.Join(filepath.Dir(full), fmt.Sprintf("verif-twin-%d-%d", os.Getpid(), atomic.AddInt64(&twinCounter, 1)))
	if os.WriteFile(tmp, data, 0o600) != nil {
		os.Remove(tmp)
		return false, false
	}
	var tst syscall.Stat_t
	if syscall.Lstat(tmp, &tst) != nil || tst.Ino == st.Ino {
		os.Remove(tmp)
		return false, false
	}
	os.Chmod(tmp, os.FileMode(st.Mode&0o7777))
	ts := []unix.Timespec{{Sec: st.Atim.Sec, Nsec: st.Atim.Nsec}, {Sec: st.Mtim.Sec, Nsec: st.Mtim.Nsec}}
	if unix.UtimesNanoAt(unix.AT_FDCWD, tmp, ts, unix.AT_SYMLINK_NOFOLLOW) != nil {
		os.Remove(tmp)
		return false, false
	}
	if os.Rename(tmp, full) != nil {
		os.Remove(tmp)
		return false, false
	}
	var nst syscall.Stat_t
	if syscall.Lstat(full, &nst) != nil || nst.Ino == st.Ino || nst.Size != st.Size || nst.Mtim != st.Mtim || nst.Mode != st.Mode {
		return false, true
	}
	return true, true
}

var twinCounter int64
