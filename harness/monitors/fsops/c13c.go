package main

import (
	"fmt"
	"math/rand"
	"os"
	"path/filepath"

	"google.golang.org/protobuf/proto"

	"verif/internal/fsx"
	"verif/internal/vk"
)

// C13, root-only recheck sets: the watcher reports the root itself ("") when
// a single-file root changes, and (fanotify) when something is created or
// deleted directly in a directory root. A recheck set of exactly {""} must
// make the accelerated scan equal a cold scan.

func c13RootOnly(r *vk.Run, scratch string) {
	n := r.Pick(32, 600)
	steps := r.Pick(5, 10)
	parallel(workerCount(), func(w int) {
		for i := w; i < n; i += workerCount() {
			rng := r.Rand(fmt.Sprintf("c13-root-only-%d", i))
			dir := filepath.Join(scratch, fmt.Sprintf("ro%d", i))
			os.MkdirAll(dir, 0o755)
			c13RootOnlyHistory(r, rng, i, steps, filepath.Join(dir, "root"))
			forceRemove(dir)
		}
	})
}

func c13RootOnlyHistory(r *vk.Run, rng *rand.Rand, index, steps int, root string) {
	fileRoot := index%2 == 0
	scfg := fsx.ScanConfig{ProbeMode: probeModes[rng.Intn(2)], SymbolicLinkMode: symlinkModes[rng.Intn(3)], PermissionsMode: permModes[rng.Intn(2)], Docker: rng.Intn(2) == 0}
	kind := "directory-root"
	if fileRoot {
		kind = "file-root"
		if os.WriteFile(root, fsx.UniqueToken(rng, 50+rng.Intn(5000)), []os.FileMode{0o644, 0o755, 0o600}[rng.Intn(3)]) != nil {
			r.Inconclusive("file root could not be created")
			return
		}
	} else {
		tree := fsx.RandomTree(rng, fsx.TreeConfig{MaxEntries: 4 + rng.Intn(12), MaxDepth: 2, MaxFileSize: 4096, Links: true})
		if fsx.Materialize(root, tree) != nil {
			r.Inconclusive("tree could not be materialized")
			return
		}
	}
	var journal []string
	c := map[string]any{"root_only_history": index, "root": kind, "symlinks": slName(scfg.SymbolicLinkMode), "permissions": pmName(scfg.PermissionsMode)}
	fmt.Printf("C13 root-only history %d %s\n", index, kind)
	var prev *fsx.ScanState
	guard(r, c, func() {
		var err error
		if prev, err = fsx.Cold(root, scfg); err != nil {
			r.Violation(map[string]string{"rule": "cold-scan-error"}, "cold scan failed: "+err.Error(), c)
			prev = nil
		}
	})
	if prev == nil {
		return
	}
	for s := 1; s <= steps; s++ {
		op := ""
		if fileRoot {
			fi, err := os.Lstat(root)
			if err != nil || !fi.Mode().IsRegular() {
				return
			}
			switch rng.Intn(5) {
			case 0:
				op = "edit in place (unique token, mtime bump)"
				os.WriteFile(root, fsx.UniqueToken(rng, 50+rng.Intn(5000)), 0)
				fsx.BumpMtime(root)
			case 1:
				op = "edit in place, same size (mtime bump)"
				os.WriteFile(root, exactBytes(rng, int(fi.Size())), 0)
				fsx.BumpMtime(root)
			case 2:
				op = "chmod"
				os.Chmod(root, fi.Mode().Perm()^[]os.FileMode{0o100, 0o010, 0o001, 0o044}[rng.Intn(4)]|0o600)
			case 3:
				op = "replace by rename (new inode, new content)"
				tmp := root + ".new"
				old := fsx.Inode(root)
				if os.WriteFile(tmp, fsx.UniqueToken(rng, 50+rng.Intn(5000)), fi.Mode().Perm()) != nil || fsx.Inode(tmp) == old || os.Rename(tmp, root) != nil {
					os.Remove(tmp)
					continue
				}
				fsx.BumpMtime(root)
			default:
				op = "replace by rename (new inode of identical size, mtime and mode)"
				if ok, _ := replaceSameMeta(root); !ok {
					continue
				}
			}
		} else {
			ents, _ := os.ReadDir(root)
			if len(ents) > 0 && rng.Intn(2) == 0 {
				e := ents[rng.Intn(len(ents))]
				op = fmt.Sprintf("delete root-level %q", e.Name())
				os.RemoveAll(filepath.Join(root, e.Name()))
			} else {
				name := fmt.Sprintf("rootlevel-%d-%d", s, rng.Intn(1000))
				switch rng.Intn(3) {
				case 0:
					op = "create root-level directory with content " + name
					os.Mkdir(filepath.Join(root, name), 0o755)
					os.WriteFile(filepath.Join(root, name, "inner"), fsx.UniqueToken(rng, 100), 0o644)
				case 1:
					op = "create root-level link " + name
					os.Symlink("a", filepath.Join(root, name))
				default:
					op = "create root-level file " + name
					os.WriteFile(filepath.Join(root, name), fsx.UniqueToken(rng, 10+rng.Intn(3000)), []os.FileMode{0o644, 0o755}[rng.Intn(2)])
				}
			}
		}
		journal = append(journal, fmt.Sprintf("step %d: %s", s, op))
		c["steps"] = journal
		fmt.Printf("C13 root-only history %d step %d: %s; recheck={\"\"}\n", index, s, op)
		ok := false
		guard(r, c, func() {
			r.Eval(1)
			acc, err := fsx.Accelerated(root, scfg, prev, map[string]bool{"": true})
			if err != nil {
				r.Violation(map[string]string{"rule": "accelerated-scan-error", "root_only": kind}, "accelerated scan with recheck {\"\"} failed: "+err.Error(), c)
				return
			}
			cold, err := fsx.Cold(root, scfg)
			if err != nil {
				r.Violation(map[string]string{"rule": "cold-scan-error"}, "cold scan failed: "+err.Error(), c)
				return
			}
			if !proto.Equal(acc.Snapshot, cold.Snapshot) {
				_, where := fsx.EqualLoose(cold.Snapshot.Content, acc.Snapshot.Content)
				r.Violation(map[string]string{"rule": "content-differs", "root_only": kind},
					fmt.Sprintf("%s, recheck set {\"\"}: accelerated snapshot differs from the cold snapshot at %q: cold=%s accelerated=%s (counters %d/%d/%d/%d vs %d/%d/%d/%d)", kind, where,
						descAt(cold.Snapshot.Content, where), descAt(acc.Snapshot.Content, where),
						cold.Snapshot.Directories, cold.Snapshot.Files, cold.Snapshot.SymbolicLinks, cold.Snapshot.TotalFileSize,
						acc.Snapshot.Directories, acc.Snapshot.Files, acc.Snapshot.SymbolicLinks, acc.Snapshot.TotalFileSize), c)
				return
			}
			prev = acc
			ok = true
		})
		if !ok {
			return
		}
		r.Count("root_only_steps:"+kind, 1)
		r.Distinct(fmt.Sprintf("root-only|%s|%.20s", kind, op))
	}
	if index < 2 {
		r.Sample(c)
	}
}
