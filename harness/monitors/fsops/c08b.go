package main

import (
	"context"
	"fmt"
	"io"
	"math/rand"
	"os"
	"path/filepath"
	"sort"
	"strings"
	"sync"
	"time"

	"github.com/mutagen-io/mutagen/pkg/logging"
	"github.com/mutagen-io/mutagen/pkg/synchronization"
	"github.com/mutagen-io/mutagen/pkg/synchronization/core"
	"github.com/mutagen-io/mutagen/pkg/synchronization/endpoint/local"
	"github.com/mutagen-io/mutagen/pkg/synchronization/rsync"

	"verif/internal/fsx"
	"verif/internal/vk"
)

// C08 at the endpoint level. A real local endpoint with poll-based watching
// (1 s interval) keeps rescanning in the background. The cycle is the
// controller's: Scan -> plan from the returned snapshot -> Stage (+ rsync
// transfer of new content) -> [interference, and the watcher rescans] ->
// Transition. The just-in-time checks must be made against what the RETURNED
// scan recorded, not against what the watcher saw later.

const c08PollInterval = 1 // seconds

type heartbeat struct {
	stop   chan struct{}
	done   chan struct{}
	maxGap time.Duration
}

func startHeartbeat() *heartbeat {
	h := &heartbeat{stop: make(chan struct{}), done: make(chan struct{})}
	go func() {
		defer close(h.done)
		last := time.Now()
		t := time.NewTicker(20 * time.Millisecond)
		defer t.Stop()
		for {
			select {
			case <-h.stop:
				return
			case <-t.C:
				now := time.Now()
				if g := now.Sub(last); g > h.maxGap {
					h.maxGap = g
				}
				last = now
			}
		}
	}()
	return h
}
func (h *heartbeat) end() time.Duration { close(h.stop); <-h.done; return h.maxGap }

func c08Endpoint(r *vk.Run, scratch string) {
	if os.Getenv("MUTAGEN_DATA_DIRECTORY") == "" {
		os.Setenv("MUTAGEN_DATA_DIRECTORY", filepath.Join(scratch, "mutagen-data"))
	}
	n := r.Pick(32, 480)
	workers := 16 // the cases mostly wait for the polling interval
	var wg sync.WaitGroup
	ch := make(chan int, n)
	for i := 0; i < n; i++ {
		ch <- i
	}
	close(ch)
	for w := 0; w < workers; w++ {
		wg.Add(1)
		go func() {
			defer wg.Done()
			for i := range ch {
				base := filepath.Join(scratch, fmt.Sprintf("ep%d", i))
				c08EndpointCase(r, r.Rand(fmt.Sprintf("c08-endpoint-%d", i)), i, base)
				forceRemove(base)
			}
		}()
	}
	wg.Wait()
}

func c08EndpointCase(r *vk.Run, rng *rand.Rand, index int, base string) {
	root, src := filepath.Join(base, "root"), filepath.Join(base, "src")
	accelerated := index%2 == 0
	tree := fsx.RandomTree(rng, fsx.TreeConfig{MaxEntries: 6 + rng.Intn(14), MaxDepth: 2, MaxFileSize: 4096, Links: true})
	for p := range tree {
		if related(p, "plan") || strings.Contains(p, "é") {
			delete(tree, p)
		}
	}
	for _, f := range []string{"plan/f1", "plan/f2", "plan/f3", "plan/f4", "plan/f5", "plan/d1/x", "plan/d1/y", "plan/d1/sub/z", "plan/d2/only"} {
		tree[f] = &fsx.Node{Kind: fsx.KFile, Mode: []os.FileMode{0o644, 0o755, 0o600}[rng.Intn(3)], Content: fsx.UniqueToken(rng, 100+rng.Intn(3000))}
	}
	if err := fsx.Materialize(root, tree); err != nil {
		r.Inconclusive("tree could not be materialized")
		return
	}
	c := map[string]any{"endpoint_case": index, "watch_mode": "force-poll", "polling_interval_s": c08PollInterval, "accelerated_scanning": accelerated, "tree": describeTree(tree)}
	cfg := &synchronization.Configuration{
		WatchMode:            synchronization.WatchMode_WatchModeForcePoll,
		WatchPollingInterval: c08PollInterval,
		ScanMode:             synchronization.ScanMode_ScanModeFull,
		StageMode:            synchronization.StageMode_StageModeMutagen,
		SymbolicLinkMode:     core.SymbolicLinkMode_SymbolicLinkModePOSIXRaw,
	}
	if accelerated {
		cfg.ScanMode = synchronization.ScanMode_ScanModeAccelerated
	}
	ep, err := local.NewEndpoint(logging.NewLogger(logging.LevelDisabled, io.Discard), root,
		fmt.Sprintf("sync_verifC08x%dx%dx%d", os.Getpid(), r.Seed, index), synchronization.Version_Version1, cfg, false)
	if err != nil {
		fmt.Printf("C08 endpoint case %d: %v\n", index, err)
		r.Inconclusive("local endpoint could not be created")
		return
	}
	defer ep.Shutdown()
	bg := context.Background()

	// ---- the controller's scan
	var snap *core.Snapshot
	for try := 0; try < 5 && snap == nil; try++ {
		s, serr, _ := ep.Scan(bg, nil, false)
		if serr == nil {
			snap = s
		}
	}
	if snap == nil || snap.Content == nil {
		r.Inconclusive("endpoint scan failed")
		return
	}
	content := snap.Content

	// ---- plan from the returned snapshot
	var plan []*plannedTransition
	newContent := map[string][]byte{}
	newFile := func(path string) *core.Entry {
		data := fsx.UniqueToken(rng, 50+rng.Intn(2000))
		newContent[path] = data
		return &core.Entry{Kind: core.EntryKind_File, Digest: fsx.Sha1(data), Executable: rng.Intn(3) == 0}
	}
	files := []string{"plan/f1", "plan/f2", "plan/f3", "plan/f4", "plan/f5"}
	rng.Shuffle(len(files), func(i, j int) { files[i], files[j] = files[j], files[i] })
	for i, p := range files[:3+rng.Intn(3)] {
		old := syncFilter(entryAt(content, p))
		if old == nil {
			continue
		}
		if i%2 == 0 {
			plan = append(plan, &plannedTransition{Kind: "remove-file", Path: p, change: &core.Change{Path: p, Old: old}})
		} else {
			plan = append(plan, &plannedTransition{Kind: "swap-file", Path: p, change: &core.Change{Path: p, Old: old, New: newFile(p)}})
		}
	}
	for _, d := range []string{"plan/d1", "plan/d2"} {
		if old := syncFilter(entryAt(content, d)); old != nil && rng.Intn(3) != 0 {
			if rng.Intn(3) == 0 {
				plan = append(plan, &plannedTransition{Kind: "directory-to-file", Path: d, change: &core.Change{Path: d, Old: old, New: newFile(d)}})
			} else {
				plan = append(plan, &plannedTransition{Kind: "remove-directory", Path: d, change: &core.Change{Path: d, Old: old}})
			}
		}
	}
	if rng.Intn(2) == 0 {
		plan = append(plan, &plannedTransition{Kind: "create-file", Path: "plan/created", change: &core.Change{Path: "plan/created", New: newFile("plan/created")}})
	}
	for _, t := range plan {
		t.Old, t.New = kindName(t.change.Old), kindName(t.change.New)
	}

	// ---- staging: the endpoint's Stage, new content supplied over rsync
	var stagePaths []string
	for p := range newContent {
		stagePaths = append(stagePaths, p)
	}
	sort.Strings(stagePaths)
	if len(stagePaths) > 0 {
		digests := make([][]byte, len(stagePaths))
		for i, p := range stagePaths {
			digests[i] = fsx.Sha1(newContent[p])
			mustWrite(fullPath(src, p), newContent[p], 0o644)
		}
		need, sigs, receiver, serr := ep.Stage(append([]string{}, stagePaths...), digests)
		if serr != nil {
			r.Inconclusive("endpoint staging failed")
			return
		}
		if receiver != nil {
			if terr := rsync.Transmit(src, need, sigs, receiver); terr != nil {
				r.Inconclusive("rsync transfer into the stager failed")
				return
			}
		}
	}

	// drain poll signals raised so far
	for {
		ctx, cancel := context.WithTimeout(bg, 30*time.Millisecond)
		ep.Poll(ctx)
		expired := ctx.Err() != nil
		cancel()
		if expired {
			break
		}
	}

	// ---- interference after the controller's scan
	used := map[string]bool{}
	nInterf := 1 + rng.Intn(3)
	if index%6 == 5 {
		nInterf = 0
	}
	for _, ti := range rng.Perm(len(plan)) {
		if nInterf == 0 {
			break
		}
		if it := c08Interfere(rng, root, content, plan[ti], used, false); it != nil {
			plan[ti].Interf = append(plan[ti].Interf, *it)
			nInterf--
			r.Count("endpoint_interference:"+it.Kind, 1)
		}
	}
	// a marker outside the plan, written last: a rescan that lists it started
	// after every interference
	mustWrite(filepath.Join(root, fmt.Sprintf("verif-poll-marker-%d", index)), fsx.UniqueToken(rng, 30), 0o644)
	c["plan"] = plan
	fmt.Printf("C08 endpoint case %d %s\n", index, vk.JSON(c))

	// ---- wait until the watcher has rescanned: its poll signal must arrive,
	// then two more polling intervals pass under a healthy scheduler
	hb := startHeartbeat()
	signalled := false
	for try := 0; try < 6 && !signalled; try++ {
		if try > 0 {
			// the watcher's very first scan (whose differences it does not
			// signal) may have come after the marker: modify once more
			mustWrite(filepath.Join(root, fmt.Sprintf("verif-poll-marker-%d-%d", index, try)), fsx.UniqueToken(rng, 30), 0o644)
			r.Count("endpoint_extra_markers_needed", 1)
		}
		pctx, pcancel := context.WithTimeout(bg, 4*time.Second)
		ep.Poll(pctx)
		signalled = pctx.Err() == nil
		pcancel()
	}
	time.Sleep(time.Duration(c08PollInterval)*2*time.Second + 300*time.Millisecond)
	gap := hb.end()
	if !signalled {
		r.Inconclusive("endpoint: the poll watcher never signalled the modification")
		return
	}
	if gap >= time.Second {
		r.Inconclusive("endpoint: scheduler unhealthy while waiting for the watcher")
		return
	}

	// ---- the transition, with the plan made from the RETURNED snapshot
	changes := make([]*core.Change, len(plan))
	for i, t := range plan {
		changes[i] = t.change
	}
	var results []*core.Entry
	var problems []*core.Problem
	ran := false
	guard(r, c, func() {
		var terr error
		results, problems, _, terr = ep.Transition(bg, changes)
		if terr != nil {
			fmt.Printf("C08 endpoint case %d: transition refused: %v\n", index, terr)
			r.Inconclusive("endpoint refused the transition")
			return
		}
		ran = true
	})
	r.Eval(1)
	if !ran || len(results) != len(changes) {
		return
	}
	witness := func(extra map[string]any) map[string]any {
		w := map[string]any{"case": c, "problems": describeProblems(problems)}
		for k, v := range extra {
			w[k] = v
		}
		return w
	}
	for i, t := range plan {
		for _, it := range t.Interf {
			r.Count("interferences_checked", 1)
			r.Count("endpoint_interferences_checked", 1)
			now := observe(fullPath(root, it.Path))
			r.Distinct(fmt.Sprintf("endpoint|%v|%s|%s", accelerated, t.Kind, it.Kind))
			if same, why := equalObs(it.After, now); !same {
				r.Violation(map[string]string{"rule": "interfered-object-destroyed", "interference": it.Kind, "transition": t.Kind, "level": "endpoint-with-poll-watcher"},
					fmt.Sprintf("local endpoint with poll watcher: %s at %q (inside transition %s of %q), made after the returned scan, was not left as the interference left it: %s", it.Kind, it.Path, t.Kind, t.Path, why),
					witness(map[string]any{"path": it.Path, "now": now}))
				continue
			}
			reported := false
			for _, p := range problems {
				if atOrBelow(it.Path, p.Path) && atOrBelow(p.Path, t.Path) {
					reported = true
				}
			}
			if !reported {
				r.Violation(map[string]string{"rule": "interference-not-reported", "interference": it.Kind, "transition": t.Kind, "level": "endpoint-with-poll-watcher"},
					fmt.Sprintf("local endpoint with poll watcher: %s at %q survived, but no problem names it or an ancestor inside transition %s of %q", it.Kind, it.Path, t.Kind, t.Path),
					witness(map[string]any{"path": it.Path}))
			}
		}
		if len(t.Interf) == 0 && !t.touched {
			var mine []string
			for _, p := range problems {
				if related(p.Path, t.Path) {
					mine = append(mine, p.Path+": "+p.Error)
				}
			}
			onDisk, _, werr := fsx.Walk(fullPath(root, t.Path), fsx.WalkOptions{SymbolicLinkMode: core.SymbolicLinkMode_SymbolicLinkModePOSIXRaw, PermissionsMode: core.PermissionsMode_PermissionsModePortable})
			same, where := fsx.EqualLoose(t.change.New, onDisk)
			if len(mine) > 0 || werr != nil || !same || !results[i].Equal(t.change.New, true) {
				r.Violation(map[string]string{"rule": "clean-transition-not-done", "transition": t.Kind, "level": "endpoint-with-poll-watcher"},
					fmt.Sprintf("local endpoint with poll watcher: transition %s of %q had no interference but was not carried out (problems %v, disk differs from target at %q: %s)", t.Kind, t.Path, mine, where, descAt(onDisk, where)),
					witness(nil))
			} else {
				r.Count("clean_transitions_verified_done", 1)
				r.Count("endpoint_clean_transitions_verified_done", 1)
				r.Distinct(fmt.Sprintf("endpoint|%v|%s|clean", accelerated, t.Kind))
			}
		}
	}
	r.Count("endpoint_cases_watcher_rescanned_before_transition", 1)
	if index < 2 {
		r.Sample(map[string]any{"case": c, "problems": describeProblems(problems)})
	}
}
