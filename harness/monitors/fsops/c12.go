package main

import (
	"bytes"
	"fmt"
	"math/rand"
	"os"
	"path/filepath"
	"sort"
	"strings"
	"syscall"
	"unicode/utf8"

	"github.com/mutagen-io/mutagen/pkg/filesystem/behavior"
	"github.com/mutagen-io/mutagen/pkg/synchronization/core"

	"verif/internal/fsx"
	"verif/internal/vk"
)

// C12: a cold core.Scan equals the independent walker (G3) on random disk
// trees, under every symlink / permissions / probe mode, as root and as an
// unprivileged user.

const tempPrefix = ".mutagen-temporary-"

// refPattern is an ignore pattern of a restricted shape together with an
// independent predicate for it (no glob library involved).
type refPattern struct {
	Text  string
	Match func(path string, dir bool) bool
}

func leafOf(p string) string {
	if i := strings.LastIndex(p, "/"); i >= 0 {
		return p[i+1:]
	}
	return p
}

var refPatterns = []refPattern{
	{"*.o", func(p string, d bool) bool { return strings.HasSuffix(leafOf(p), ".o") }},
	{"build/", func(p string, d bool) bool { return d && leafOf(p) == "build" }},
	{"/node_modules", func(p string, d bool) bool { return p == "node_modules" }},
	{"keep", func(p string, d bool) bool { return leafOf(p) == "keep" }},
	{"sub/data", func(p string, d bool) bool { return p == "sub/data" }},
	{".git", func(p string, d bool) bool { return leafOf(p) == ".git" }},
}

var symlinkModes = []core.SymbolicLinkMode{
	core.SymbolicLinkMode_SymbolicLinkModePortable,
	core.SymbolicLinkMode_SymbolicLinkModeIgnore,
	core.SymbolicLinkMode_SymbolicLinkModePOSIXRaw,
}
var permModes = []core.PermissionsMode{
	core.PermissionsMode_PermissionsModePortable,
	core.PermissionsMode_PermissionsModeManual,
}
var probeModes = []behavior.ProbeMode{
	behavior.ProbeMode_ProbeModeProbe,
	behavior.ProbeMode_ProbeModeAssume,
}

func slName(m core.SymbolicLinkMode) string {
	switch m {
	case core.SymbolicLinkMode_SymbolicLinkModePortable:
		return "portable"
	case core.SymbolicLinkMode_SymbolicLinkModeIgnore:
		return "ignore"
	case core.SymbolicLinkMode_SymbolicLinkModePOSIXRaw:
		return "posix-raw"
	}
	return "?"
}
func pmName(m core.PermissionsMode) string {
	if m == core.PermissionsMode_PermissionsModeManual {
		return "manual"
	}
	return "portable"
}
func prName(m behavior.ProbeMode) string {
	if m == behavior.ProbeMode_ProbeModeAssume {
		return "assume"
	}
	return "probe"
}

type c12Case struct {
	Index      int      `json:"case"`
	Unpriv     bool     `json:"unprivileged"`
	RootKind   string   `json:"root_kind"`
	Patterns   []string `json:"patterns"`
	Unreadable []string `json:"mode_000_paths"`
	Entries    int      `json:"tree_entries"`
	Extras     []string `json:"extra_objects,omitempty"`
	Paths      []string `json:"tree,omitempty"`
}

func describeTree(t fsx.Tree) []string {
	var out []string
	for _, p := range t.SortedPaths() {
		n := t[p]
		switch n.Kind {
		case fsx.KDir:
			out = append(out, fmt.Sprintf("%q dir", p))
		case fsx.KFile:
			out = append(out, fmt.Sprintf("%q file %o %dB", p, n.Mode, len(n.Content)))
		case fsx.KLink:
			t := n.Target
			if len(t) > 40 {
				t = t[:40] + "…"
			}
			out = append(out, fmt.Sprintf("%q link->%q", p, t))
		case fsx.KFifo:
			out = append(out, fmt.Sprintf("%q fifo", p))
		}
	}
	return out
}

func c12() {
	r := vk.Start("C12", "exploration")
	scratch := r.Scratch()
	c12Cases(r, r, filepath.Join(scratch, "priv"), false)
	udir := filepath.Join(scratch, "unpriv")
	runUnprivChild(r, "c12-unpriv", map[string]string{"VERIF_CHILD_DIR": udir}, udir)
	forceRemove(udir)
	c12InterruptedHashing(r, filepath.Join(scratch, "interrupted"))

	r.Assume("the scratch filesystem (ext4) preserves executability and does not decompose Unicode; the two other behaviour values are not reachable in the sandbox")
	r.Assume("ignore patterns in this check are restricted to six simple non-negated Mutagen-syntax shapes with an independent predicate each; pattern semantics in general belong to C14/C15")
	r.Assume("trees are static while scanned, except in the interrupted-hashing cases, where exactly one file is appended to / truncated (or the scan is cancelled) from inside the hasher while that file is in flight; an interference that was not observed (no problem at that path, no cancelled scan) is a skipped case")
	if r.Counter("unpriv_unreadable_seen_problematic") == 0 {
		r.Inconclusive("no unreadable object was observed as problematic in the unprivileged child")
	}
	r.Finish("random disk trees (files 0..200KiB around rsync block sizes, modes, portable/escaping/absolute/overlong links, FIFOs, non-UTF-8 names, .mutagen-temporary-* names (also non-UTF-8 ones), link targets of 127..513 bytes, ignored names, mode-000 files and directories; directory, file and absent roots) scanned cold by the real core.Scan under 3 symlink x 2 permissions x 2 probe modes as root and as uid 65534, compared with an independent lstat/readlink/sha1 walker, with the snapshot's own counts, with the digest cache and lstat; one warm rescan per tree, and two scans given the previous digest cache (without / with baseline) after files were replaced by new inodes of identical size, ns-mtime and mode; plus interrupted-hashing cases (one counting sha1 wrapper shared by two scans; a marked large file is appended to or truncated after its 1st..3rd Write, or the scan is cancelled while a 34 MiB file is hashed; the same scan's other paths and a following full scan with the same hasher and the kept cache must equal the walker); non-trivial = tree with at least one entry; distinct = (uid, modes, feature set of the tree)", 40)
}

// c12Cases runs the C12 workload into dir.
func c12Cases(out rec, run *vk.Run, dir string, unpriv bool) {
	n := run.Pick(200, 6000)
	workers := workerCount()
	if unpriv {
		n = run.Pick(60, 1000)
		if workers > 4 {
			workers = 4
		}
	}
	os.MkdirAll(dir, 0o755)
	parallel(workers, func(w int) {
		for i := w; i < n; i += workers {
			rng := run.Rand(fmt.Sprintf("c12-%v-%d", unpriv, i))
			root := filepath.Join(dir, fmt.Sprintf("t%d", i), "root")
			c12One(out, run, rng, i, root, unpriv)
			forceRemove(filepath.Dir(root))
		}
	})
}

func c12One(out rec, run *vk.Run, rng *rand.Rand, index int, root string, unpriv bool) {
	maxEntries := 60
	if !run.Quick() && rng.Intn(40) == 0 {
		maxEntries = 2000
	}
	maxSize := 8 << 10
	if rng.Intn(6) == 0 {
		maxSize = 200 << 10
	}
	cfg := fsx.TreeConfig{MaxEntries: maxEntries, MaxDepth: 1 + rng.Intn(4), MaxFileSize: maxSize,
		Links: rng.Intn(5) != 0, Fifos: rng.Intn(3) != 0, NonUTF8: rng.Intn(3) != 0, Temporaries: rng.Intn(3) != 0}
	tree := fsx.RandomTree(rng, cfg)

	// ignore patterns (restricted shapes with independent predicates)
	var pats []refPattern
	for _, p := range refPatterns {
		if rng.Intn(3) == 0 {
			pats = append(pats, p)
		}
	}
	var patTexts []string
	for _, p := range pats {
		patTexts = append(patTexts, p.Text)
	}
	ignored := func(path string, d bool) bool {
		for _, p := range pats {
			if p.Match(path, d) {
				return true
			}
		}
		return false
	}

	c := c12Case{Index: index, Unpriv: unpriv, RootKind: "directory", Patterns: patTexts}
	extraFeat := map[string]bool{}
	switch rng.Intn(40) {
	case 0:
		c.RootKind = "file"
	case 1:
		c.RootKind = "absent"
	}

	os.MkdirAll(filepath.Dir(root), 0o755)
	switch c.RootKind {
	case "directory":
		if err := fsx.Materialize(root, tree); err != nil {
			out.Inconclusive("tree could not be materialized")
			fmt.Printf("C12 case %d: materialize: %v\n", index, err)
			return
		}
		// mode-000 objects
		var cands []string
		for _, p := range tree.SortedPaths() {
			nd := tree[p]
			if (nd.Kind == fsx.KFile || nd.Kind == fsx.KDir) && utf8.ValidString(p) && !strings.Contains(p, tempPrefix) {
				cands = append(cands, p)
			}
		}
		for k := rng.Intn(4); k > 0 && len(cands) > 0; k-- {
			c.Unreadable = append(c.Unreadable, cands[rng.Intn(len(cands))])
		}
		// names that are temporary AND not valid UTF-8 (must be omitted like
		// any temporary), and long link targets around the readlink buffer
		// sizes (128, 256, 512) and the portable limit (247)
		var dirNodes []string
		dirNodes = append(dirNodes, "")
		for _, p := range cands {
			if tree[p].Kind == fsx.KDir {
				dirNodes = append(dirNodes, p)
			}
		}
		for k := rng.Intn(3); k > 0; k-- {
			d := dirNodes[rng.Intn(len(dirNodes))]
			name := tempPrefix + "bad\xff\xfe" + fmt.Sprint(k)
			if rng.Intn(2) == 0 {
				name = tempPrefix + "\xc3(" + fmt.Sprint(k)
			}
			if os.WriteFile(filepath.Join(fullPath(root, d), name), fsx.UniqueToken(rng, 40), 0o644) == nil {
				c.Extras = append(c.Extras, fmt.Sprintf("%q temporary+non-UTF-8 file", join(d, name)))
				extraFeat["temp-nonutf8"] = true
			}
		}
		for k := rng.Intn(4); k > 0; k-- {
			d := dirNodes[rng.Intn(len(dirNodes))]
			L := []int{127, 128, 129, 130, 200, 246, 247, 248, 255, 256, 257, 400, 511, 512, 513}[rng.Intn(15)]
			target := strings.Repeat("n/", (L-1)/2) + "n"
			for len(target) < L {
				target += "n"
			}
			name := fmt.Sprintf("longlink%d", k)
			if os.Symlink(target, filepath.Join(fullPath(root, d), name)) == nil {
				c.Extras = append(c.Extras, fmt.Sprintf("%q link with %d-byte target", join(d, name), L))
				if L <= 247 {
					extraFeat["link-long-ok"] = true
				} else {
					extraFeat["link-too-long"] = true
				}
			}
		}
		// executability carried by group/other bits only
		for _, p := range cands {
			if tree[p].Kind == fsx.KFile && rng.Intn(6) == 0 {
				os.Chmod(fullPath(root, p), []os.FileMode{0o610, 0o601, 0o654, 0o645, 0o611}[rng.Intn(5)])
			}
		}
		sort.Sort(sort.Reverse(sort.StringSlice(c.Unreadable)))
		for _, p := range c.Unreadable {
			os.Chmod(fullPath(root, p), 0)
		}
	case "file":
		os.WriteFile(root, fsx.UniqueToken(rng, 10+rng.Intn(5000)), []os.FileMode{0o644, 0o755}[rng.Intn(2)])
		tree = fsx.Tree{}
	case "absent":
		tree = fsx.Tree{}
	}
	c.Entries = len(tree)
	if len(tree) <= 40 {
		c.Paths = describeTree(tree)
	}
	fmt.Printf("C12 case %d unpriv=%v root=%s entries=%d patterns=%v mode000=%v extras=%q\n", index, unpriv, c.RootKind, c.Entries, patTexts, c.Unreadable, c.Extras)

	// feature set for the distinct signature
	feat := map[string]bool{}
	for p, nd := range tree {
		switch nd.Kind {
		case fsx.KLink:
			if fsx.PortableOK(p, nd.Target) {
				feat["link-ok"] = true
			} else {
				feat["link-bad"] = true
			}
		case fsx.KFifo:
			feat["fifo"] = true
		case fsx.KFile:
			if nd.Mode&0o111 != 0 {
				feat["exec"] = true
			}
			if len(nd.Content) == 0 {
				feat["empty"] = true
			}
			if len(nd.Content) > 65536 {
				feat["big"] = true
			}
		}
		if !utf8.ValidString(p) {
			feat["nonutf8"] = true
		}
		if strings.Contains(p, tempPrefix) {
			feat["temp"] = true
		}
		if ignored(p, nd.Kind == fsx.KDir) {
			feat["ignored"] = true
		}
	}
	if len(c.Unreadable) > 0 {
		feat["mode000"] = true
	}
	for f := range extraFeat {
		feat[f] = true
		out.Count("trees_with:"+f, 1)
	}
	var feats []string
	for f := range feat {
		feats = append(feats, f)
	}
	sort.Strings(feats)

	combo := 0
	for _, sl := range symlinkModes {
		for _, pm := range permModes {
			wopts := fsx.WalkOptions{SymbolicLinkMode: sl, PermissionsMode: pm, Ignored: ignored}
			want, wstats, werr := fsx.Walk(root, wopts)
			if werr != nil {
				out.Inconclusive("independent walker failed")
				fmt.Printf("C12 case %d: walker: %v\n", index, werr)
				return
			}
			for _, pr := range probeModes {
				scfg := fsx.ScanConfig{Patterns: patTexts, ProbeMode: pr, SymbolicLinkMode: sl, PermissionsMode: pm}
				modes := map[string]string{"symlinks": slName(sl), "permissions": pmName(pm), "probe": prName(pr)}
				warm := combo == index%12
				combo++
				guard(out, map[string]any{"case": c, "modes": modes}, func() {
					c12Check(out, c, root, scfg, modes, want, wstats, unpriv, warm)
				})
				if len(tree) > 0 || c.RootKind != "directory" {
					out.Distinct(fmt.Sprintf("%v|%s|%s|%s|%s|%s", unpriv, c.RootKind, modes["symlinks"], modes["permissions"], modes["probe"], strings.Join(feats, ",")))
				}
			}
		}
	}
	if index%37 == 3 && len(tree) > 0 && len(tree) <= 25 {
		out.Sample(c)
	}
	if c.RootKind == "directory" {
		c12IdentityOnly(out, rng, c, tree, root, patTexts, ignored, index, unpriv)
	}
}

// c12IdentityOnly: after a cold scan some files are replaced by NEW inodes of
// identical size, nanosecond mtime and mode but different content; a scan that
// is handed the previous digest cache (without a baseline, and with the
// baseline plus the replaced paths as recheck paths) must still describe the
// disk exactly.
func c12IdentityOnly(out rec, rng *rand.Rand, c c12Case, tree fsx.Tree, root string, patTexts []string, ignored func(string, bool) bool, index int, unpriv bool) {
	sl, pm, pr := symlinkModes[index%3], permModes[(index/3)%2], probeModes[(index/6)%2]
	scfg := fsx.ScanConfig{Patterns: patTexts, ProbeMode: pr, SymbolicLinkMode: sl, PermissionsMode: pm}
	modes := map[string]string{"symlinks": slName(sl), "permissions": pmName(pm), "probe": prName(pr)}
	guard(out, map[string]any{"case": c, "modes": modes, "phase": "identity-only replacement"}, func() {
		st, err := fsx.Cold(root, scfg)
		if err != nil {
			c12Violation(out, "scan-error", modes, c, "cold scan of a static tree failed: "+err.Error(), nil)
			return
		}
		var files []string
		for p, e := range st.Cache.Entries {
			if p != "" && e.Size > 0 {
				files = append(files, p)
			}
		}
		sort.Strings(files)
		rng.Shuffle(len(files), func(i, j int) { files[i], files[j] = files[j], files[i] })
		var replaced []string
		for _, p := range files {
			if len(replaced) >= 3 {
				break
			}
			if ok, _ := replaceSameMeta(fullPath(root, p)); ok {
				replaced = append(replaced, p)
			}
		}
		if len(replaced) == 0 {
			return
		}
		sort.Strings(replaced)
		fmt.Printf("C12 case %d unpriv=%v: replaced by new inodes of identical size/mtime/mode: %q\n", index, unpriv, replaced)
		want, wstats, werr := fsx.Walk(root, fsx.WalkOptions{SymbolicLinkMode: sl, PermissionsMode: pm, Ignored: ignored})
		if werr != nil {
			out.Inconclusive("independent walker failed")
			return
		}
		c2 := c
		c2.Extras = append(append([]string{}, c.Extras...), fmt.Sprintf("after the first scan replaced by new inodes with identical size, mtime and mode: %q", replaced))
		// (a) previous digest cache, no baseline
		out.Eval(1)
		warm, err := fsx.Accelerated(root, scfg, &fsx.ScanState{Cache: st.Cache, IgnoreCache: st.IgnoreCache}, nil)
		if err != nil {
			c12Violation(out, "warm-identity-scan-error", modes, c2, "warm scan failed: "+err.Error(), nil)
		} else {
			c12Compare(out, "warm-identity-", c2, root, warm, modes, want, wstats, unpriv)
		}
		// (b) baseline + cache, the replaced paths reported
		out.Eval(1)
		recheck := map[string]bool{}
		for _, p := range replaced {
			recheck[p] = true
		}
		acc, err := fsx.Accelerated(root, scfg, st, recheck)
		if err != nil {
			c12Violation(out, "baseline-identity-scan-error", modes, c2, "scan with baseline failed: "+err.Error(), nil)
		} else {
			c12Compare(out, "baseline-identity-", c2, root, acc, modes, want, wstats, unpriv)
		}
		out.Count("files_replaced_identity_only", int64(len(replaced)))
		out.Count("warm_scans_after_identity_only_replacement", 2)
		out.Distinct(fmt.Sprintf("%v|identity-only|%s|%s|%s|%d", unpriv, modes["symlinks"], modes["permissions"], modes["probe"], len(replaced)))
	})
}

func c12Violation(out rec, rule string, modes map[string]string, c c12Case, what string, extra map[string]any) {
	sig := map[string]string{"rule": rule, "symlinks": modes["symlinks"], "permissions": modes["permissions"]}
	if c.Unpriv {
		sig["uid"] = "65534"
	} else {
		sig["uid"] = "0"
	}
	w := map[string]any{"case": c, "modes": modes}
	for k, v := range extra {
		w[k] = v
	}
	out.Violation(sig, what, w)
}

func c12Check(out rec, c c12Case, root string, scfg fsx.ScanConfig, modes map[string]string, want *core.Entry, wstats fsx.Stats, unpriv bool, warm bool) {
	out.Eval(1)
	st, err := fsx.Cold(root, scfg)
	if err != nil {
		c12Violation(out, "scan-error", modes, c, "cold scan of a static tree failed: "+err.Error(), nil)
		return
	}
	c12Compare(out, "", c, root, st, modes, want, wstats, unpriv)
	if warm {
		// Warm rescan: no baseline, previous digest cache. Must describe the
		// same (unchanged) tree.
		out.Eval(1)
		st2, err := fsx.Accelerated(root, scfg, &fsx.ScanState{Cache: st.Cache, IgnoreCache: st.IgnoreCache}, nil)
		if err != nil {
			c12Violation(out, "warm-scan-error", modes, c, "warm scan of a static tree failed: "+err.Error(), nil)
			return
		}
		c12Compare(out, "warm-", c, root, st2, modes, want, wstats, unpriv)
		out.Count("warm_rescans", 1)
	}
}

func c12Compare(out rec, prefix string, c c12Case, root string, st *fsx.ScanState, modes map[string]string, want *core.Entry, wstats fsx.Stats, unpriv bool) {
	snap := st.Snapshot
	if snap == nil {
		c12Violation(out, prefix+"nil-snapshot", modes, c, "scan returned a nil snapshot without an error", nil)
		return
	}
	if err := snap.EnsureValid(); err != nil {
		c12Violation(out, prefix+"snapshot-invalid", modes, c, "snapshot fails its own validation: "+err.Error(), nil)
	}
	if snap.Content != nil && (!snap.PreservesExecutability || snap.DecomposesUnicode) {
		out.Inconclusive("scratch filesystem behaviour differs from ext4 expectations")
		return
	}
	// (1) content equals the walker's expectation
	if ok, where := fsx.EqualLoose(want, snap.Content); !ok {
		c12Violation(out, prefix+"content-differs", modes, c,
			fmt.Sprintf("snapshot differs from the independent walk at %q: walker=%s scan=%s", where, descAt(want, where), descAt(snap.Content, where)),
			map[string]any{"path": where})
	}
	// (2) the four counters equal the walker's totals
	got := fsx.Stats{Directories: snap.Directories, Files: snap.Files, SymbolicLinks: snap.SymbolicLinks, TotalFileSize: snap.TotalFileSize}
	if got != wstats {
		c12Violation(out, prefix+"counters-differ-from-disk", modes, c, fmt.Sprintf("snapshot counters %+v differ from the walker's %+v", got, wstats), nil)
	}
	// (3) the counters equal the counts of the snapshot's own content
	var own fsx.Stats
	files := map[string]*core.Entry{}
	walkEntry("", snap.Content, func(p string, e *core.Entry) {
		switch e.Kind {
		case core.EntryKind_Directory, core.EntryKind_PhantomDirectory:
			own.Directories++
		case core.EntryKind_File:
			own.Files++
			files[p] = e
		case core.EntryKind_SymbolicLink:
			own.SymbolicLinks++
		}
		// (4) temporary names are never listed
		if strings.HasPrefix(leafOf(p), tempPrefix) {
			c12Violation(out, prefix+"temporary-listed", modes, c, fmt.Sprintf("snapshot lists the temporary name %q", p), nil)
		}
	})
	if own.Directories != got.Directories || own.Files != got.Files || own.SymbolicLinks != got.SymbolicLinks {
		c12Violation(out, prefix+"counters-differ-from-content", modes, c, fmt.Sprintf("snapshot counters %+v differ from the counts of its own content %+v", got, own), nil)
	}
	// (5) digest cache: exactly the files of the snapshot, with their digest
	// and the metadata lstat reports
	var cacheSize uint64
	if st.Cache == nil {
		c12Violation(out, prefix+"cache-nil", modes, c, "scan returned a nil digest cache", nil)
	} else {
		for p, ce := range st.Cache.Entries {
			e, ok := files[p]
			if !ok {
				c12Violation(out, prefix+"cache-extra-entry", modes, c, fmt.Sprintf("digest cache has an entry for %q which is not a file of the snapshot", p), nil)
				continue
			}
			cacheSize += ce.Size
			if !bytes.Equal(ce.Digest, e.Digest) {
				c12Violation(out, prefix+"cache-digest-differs", modes, c, fmt.Sprintf("digest cache and snapshot disagree on the digest of %q", p), nil)
			}
			var lst syscall.Stat_t
			if syscall.Lstat(fullPath(root, p), &lst) == nil {
				mt := ce.ModificationTime.AsTime()
				if ce.Mode != lst.Mode || ce.Size != uint64(lst.Size) || ce.FileID != lst.Ino || mt.Unix() != lst.Mtim.Sec || int64(mt.Nanosecond()) != lst.Mtim.Nsec {
					c12Violation(out, prefix+"cache-metadata-differs", modes, c,
						fmt.Sprintf("digest cache metadata of %q (mode %o size %d id %d mtime %v) differs from lstat (mode %o size %d ino %d mtime %d.%09d)", p, ce.Mode, ce.Size, ce.FileID, mt, lst.Mode, lst.Size, lst.Ino, lst.Mtim.Sec, lst.Mtim.Nsec), nil)
				}
			}
		}
		for p := range files {
			if _, ok := st.Cache.Entries[p]; !ok {
				c12Violation(out, prefix+"cache-missing-entry", modes, c, fmt.Sprintf("digest cache has no entry for the snapshot's file %q", p), nil)
			}
		}
		if cacheSize != got.TotalFileSize {
			c12Violation(out, prefix+"total-size-differs-from-cache", modes, c, fmt.Sprintf("TotalFileSize %d differs from the sum of cached sizes %d", got.TotalFileSize, cacheSize), nil)
		}
	}
	// (6) mode-000 objects: problematic for an unprivileged scanner, ordinary
	// content for root
	for _, p := range c.Unreadable {
		e := entryAt(snap.Content, p)
		if e == nil || e.Kind == core.EntryKind_Untracked {
			continue // hidden below an unreadable or ignored ancestor
		}
		if unpriv {
			if e.Kind != core.EntryKind_Problematic || e.Problem == "" {
				c12Violation(out, prefix+"unreadable-not-problematic", modes, c, fmt.Sprintf("mode-000 object %q scanned by uid 65534 is reported as %s", p, kindName(e)), nil)
			} else {
				out.Count("unpriv_unreadable_seen_problematic", 1)
			}
		} else {
			if e.Kind != core.EntryKind_File && e.Kind != core.EntryKind_Directory {
				c12Violation(out, prefix+"root-readable-not-content", modes, c, fmt.Sprintf("mode-000 object %q scanned by root is reported as %s", p, kindName(e)), nil)
			} else {
				out.Count("root_mode000_seen_as_content", 1)
			}
		}
	}
	out.Count("entries_compared", int64(own.Directories+own.Files+own.SymbolicLinks))
	out.Count("bytes_hashed", int64(got.TotalFileSize))
}

func descAt(e *core.Entry, path string) string {
	x := entryAt(e, path)
	if x == nil {
		return "absent"
	}
	s := kindName(x)
	switch x.Kind {
	case core.EntryKind_File:
		s += fmt.Sprintf("(x=%v,%x)", x.Executable, x.Digest)
	case core.EntryKind_SymbolicLink:
		t := x.Target
		if len(t) > 60 {
			t = t[:60] + "…"
		}
		s += fmt.Sprintf("(%q)", t)
	case core.EntryKind_Problematic:
		s += fmt.Sprintf("(%s)", x.Problem)
	case core.EntryKind_Directory:
		s += fmt.Sprintf("(%d children)", len(x.Contents))
	}
	return s
}
