package main

import (
	"bytes"
	"context"
	"fmt"
	"io"
	"math/rand"
	"os"
	"path/filepath"
	"sort"
	"strings"
	"sync"
	"sync/atomic"
	"syscall"
	"time"

	"golang.org/x/sys/unix"
	"google.golang.org/protobuf/types/known/timestamppb"

	"github.com/mutagen-io/mutagen/pkg/filesystem"
	"github.com/mutagen-io/mutagen/pkg/logging"
	"github.com/mutagen-io/mutagen/pkg/synchronization"
	"github.com/mutagen-io/mutagen/pkg/synchronization/core"
	"github.com/mutagen-io/mutagen/pkg/synchronization/endpoint/local"
	"github.com/mutagen-io/mutagen/pkg/synchronization/rsync"

	"verif/internal/fsx"
	"verif/internal/vk"
)

// C17: a canary tree outside the root is watched with inotify; roots contain
// links into it and directories that are replaced by such links after the
// scan. No operation may cause a single event on the canary, the canary must
// be unchanged, and the operation must report the crossing path as failed.

// ---- rsync plumbing

type memSinker struct {
	mu    sync.Mutex
	calls []string
	data  map[string]*bytes.Buffer
}
type memSink struct{ buf *bytes.Buffer }

func (m memSink) Write(p []byte) (int, error) { return m.buf.Write(p) }
func (m memSink) Close() error                { return nil }
func (s *memSinker) Sink(path string) (io.WriteCloser, error) {
	s.mu.Lock()
	defer s.mu.Unlock()
	if s.data == nil {
		s.data = map[string]*bytes.Buffer{}
	}
	s.calls = append(s.calls, path)
	b := &bytes.Buffer{}
	s.data[path] = b
	return memSink{b}, nil
}
func (s *memSinker) called(path string) bool {
	for _, c := range s.calls {
		if c == path {
			return true
		}
	}
	return false
}
func (s *memSinker) bytes(path string) []byte {
	if b := s.data[path]; b != nil {
		return b.Bytes()
	}
	return nil
}

// spyReceiver records the per-file outcome of a transmission stream and
// forwards everything to the real receiver (whose unexported finalize method
// is promoted through the embedded interface).
type spyReceiver struct {
	rsync.Receiver
	paths  []string
	index  int
	errors map[string]string
	ops    map[string]int
}

func (s *spyReceiver) Receive(t *rsync.Transmission) error {
	if s.index < len(s.paths) {
		p := s.paths[s.index]
		if t.Done {
			if t.Error != "" {
				s.errors[p] = t.Error
			}
			s.index++
		} else {
			s.ops[p]++
		}
	}
	return s.Receiver.Receive(t)
}

// ---- the case

type c17Case struct {
	Index    int    `json:"case"`
	Layout   string `json:"layout"`
	Prefix   string `json:"prefix"`
	Relative bool   `json:"relative_target"`
	LinkAt   string `json:"link_at"`
	Target   string `json:"link_target"`
}

type c17Env struct {
	r      *vk.Run
	c      c17Case
	base   string
	root   string
	canary string
	s      *sensor
	before *obs
	D      string // root-relative path of the directory that is / becomes a link
	cross  []string
	fData  []byte // content of D/f (and of its twin in the canary)
	inData []byte // content of D/sub/inner.txt
	ctlF   []byte
	ctlG   []byte
}

func c17() {
	r := vk.Start("C17", "exploration")
	scratch := r.Scratch()
	if os.Getenv("MUTAGEN_DATA_DIRECTORY") == "" {
		os.Setenv("MUTAGEN_DATA_DIRECTORY", filepath.Join(scratch, "mutagen-data"))
	}
	// concurrent replacement while scanning
	workers := workerCount()
	rounds := r.Pick(8, 200)
	parallel(workers, func(w int) {
		for i := w; i < rounds; i += workers {
			base := filepath.Join(scratch, fmt.Sprintf("flip%d", i))
			c17Flip(r, r.Rand(fmt.Sprintf("c17-flip-%d", i)), i, base, r.Pick(150, 400))
			forceRemove(base)
		}
	})
	cases := r.Pick(300, 8000)
	parallel(workers, func(w int) {
		for i := w; i < cases; i += workers {
			rng := r.Rand(fmt.Sprintf("c17-%d", i))
			base := filepath.Join(scratch, fmt.Sprintf("k%d", i))
			c17One(r, rng, i, base)
			forceRemove(base)
		}
	})
	mids := r.Pick(96, 2400)
	parallel(workers, func(w int) {
		for i := w; i < mids; i += workers {
			rng := r.Rand(fmt.Sprintf("c17-mid-%d", i))
			base := filepath.Join(scratch, fmt.Sprintf("m%d", i))
			c17Mid(r, rng, i, base)
			forceRemove(base)
		}
	})
	r.Assume("access = anything inotify reports for a watched directory or its children (open, read, write, attribute change, create, delete, rename); stat/lstat/readlink of the link itself produce no event and are not in the property's verb list")
	r.Assume("inotify queues an event inside the system call causing it, so a drain after the operation returned is complete; every operation also touches a watched control directory inside the root and is discarded as inconclusive when that produced no event")
	if r.Counter("operations_checked") == 0 {
		r.Inconclusive("no operation was checked")
	}
	r.Finish("roots holding a link (absolute or relative, direct or chained) to a watched canary directory outside the root, or a directory / file that is replaced by such a link after the scan (replaced by a twin with identical names, content, size, mtime and mode; or the directory itself moved into the canary so that inodes match the digest cache); operations: core.Scan in 3 link modes and accelerated, core.Transition plans beneath/at the link (create file/dir/link, remove file/dir, swap file) with a forged or real digest cache, rsync.Transmit reading beneath the link, the rsync receiver opening bases beneath it, the local endpoint's Scan/Stage/Transition; plus scans racing a goroutine that exchanges the directory and the link; the same replacement INSIDE one rsync.Transmit / one receiver stream (after the first file, so that parent handles are cached) and inside one core.Transition call (triggered from the Provider, or carried out by the plan itself); transitions creating links to canary objects with a default owner and group configured (canary uid/gid compared); verdict = inotify events on the canary, canary re-observation, crossing path reported as failed; distinct = (layout, operation, depth, relative)", 30)
}

func mustWrite(path string, data []byte, mode os.FileMode) {
	os.MkdirAll(filepath.Dir(path), 0o755)
	if err := os.WriteFile(path, data, mode); err != nil {
		panic("harness: " + err.Error())
	}
	os.Chmod(path, mode)
}

// twin makes dst carry the mode and times of src.
func twin(dst, src string) {
	var st syscall.Stat_t
	if syscall.Lstat(src, &st) != nil {
		return
	}
	os.Chmod(dst, os.FileMode(st.Mode&0o7777))
	ts := []unix.Timespec{{Sec: st.Atim.Sec, Nsec: st.Atim.Nsec}, {Sec: st.Mtim.Sec, Nsec: st.Mtim.Nsec}}
	unix.UtimesNanoAt(unix.AT_FDCWD, dst, ts, unix.AT_SYMLINK_NOFOLLOW)
}

var c17Layouts = []string{"static-dir-link", "chain", "swap-dir-to-link", "move-dir-out", "swap-file-to-link"}

func c17One(r *vk.Run, rng *rand.Rand, index int, base string) {
	e := &c17Env{r: r, base: base, root: filepath.Join(base, "root"), canary: filepath.Join(base, "canary")}
	c := c17Case{Index: index, Layout: c17Layouts[index%len(c17Layouts)], Prefix: []string{"", "a", "a/b"}[rng.Intn(3)], Relative: rng.Intn(2) == 0}
	e.D = join(c.Prefix, "d")
	hostile := c.Layout == "swap-dir-to-link" || c.Layout == "move-dir-out" || c.Layout == "swap-file-to-link"

	// ---- content
	e.fData = fsx.UniqueToken(rng, 200+rng.Intn(5000))
	e.inData = fsx.UniqueToken(rng, 100+rng.Intn(3000))
	e.ctlF = fsx.UniqueToken(rng, 100+rng.Intn(3000))
	e.ctlG = fsx.UniqueToken(rng, 100+rng.Intn(300))
	secret := fsx.UniqueToken(rng, 300)
	cdir := filepath.Join(e.canary, "c")
	mustWrite(filepath.Join(cdir, "f"), e.fData, 0o644)
	mustWrite(filepath.Join(cdir, "secret.txt"), secret, 0o600)
	mustWrite(filepath.Join(cdir, "sub", "inner.txt"), e.inData, 0o644)
	os.MkdirAll(filepath.Join(cdir, "sub2"), 0o755)
	mustWrite(filepath.Join(e.canary, "top.txt"), fsx.UniqueToken(rng, 50), 0o644)

	filler := fsx.RandomTree(rng, fsx.TreeConfig{MaxEntries: 8, MaxDepth: 2, MaxFileSize: 2048})
	for p := range filler {
		if related(p, "ctl") || related(p, e.D) || related(p, "a") {
			delete(filler, p)
		}
	}
	if err := fsx.Materialize(e.root, filler); err != nil {
		r.Inconclusive("root could not be materialized")
		return
	}
	mustWrite(filepath.Join(e.root, "ctl", "f"), e.ctlF, 0o644)
	mustWrite(filepath.Join(e.root, "ctl", "sub", "g"), e.ctlG, 0o644)
	dFull := fullPath(e.root, e.D)
	os.MkdirAll(filepath.Dir(dFull), 0o755)

	// the link target as spelled in the link
	targetDir := cdir
	if c.Layout == "move-dir-out" {
		targetDir = filepath.Join(e.canary, "moved")
	}
	spell := func(abs string, linkRel string) string {
		if !c.Relative {
			return abs
		}
		rel, _ := filepath.Rel(filepath.Join(e.root, filepath.Dir(filepath.FromSlash(linkRel))), abs)
		return rel
	}

	makeRealD := func() {
		mustWrite(filepath.Join(dFull, "f"), e.fData, 0o644)
		mustWrite(filepath.Join(dFull, "sub", "inner.txt"), e.inData, 0o644)
		os.MkdirAll(filepath.Join(dFull, "sub2"), 0o755)
		// the canary twin is indistinguishable by name, content, size, mtime, mode
		twin(filepath.Join(cdir, "f"), filepath.Join(dFull, "f"))
		twin(filepath.Join(cdir, "sub", "inner.txt"), filepath.Join(dFull, "sub", "inner.txt"))
	}
	switch c.Layout {
	case "static-dir-link":
		c.LinkAt, c.Target = e.D, spell(targetDir, e.D)
		os.Symlink(c.Target, dFull)
	case "chain":
		hop := join(c.Prefix, "hop")
		c.LinkAt, c.Target = e.D, "hop"
		os.Symlink(spell(targetDir, hop), fullPath(e.root, hop))
		os.Symlink("hop", dFull)
	default:
		makeRealD()
	}
	e.cross = []string{e.D}
	if c.Layout == "swap-file-to-link" {
		e.cross = []string{join(e.D, "f")}
	}

	// ---- sensor
	s, err := newSensor()
	if err != nil {
		r.Inconclusive("inotify not available")
		return
	}
	defer s.close()
	e.s = s
	if s.watchTree(e.canary, "canary") != nil || s.watchTree(filepath.Join(e.root, "ctl"), "control") != nil {
		r.Inconclusive("inotify watches could not be placed")
		return
	}

	// ---- scan before the hostile change (snapshot + cache of the honest state)
	scfg := fsx.ScanConfig{ProbeMode: probeModes[rng.Intn(2)], SymbolicLinkMode: core.SymbolicLinkMode_SymbolicLinkModePOSIXRaw, PermissionsMode: core.PermissionsMode_PermissionsModePortable}
	pre, err := fsx.Cold(e.root, scfg)
	if err != nil {
		r.Inconclusive("scan before the hostile change failed")
		return
	}
	// the local endpoint performs its own scan of the honest state
	var ep synchronization.Endpoint
	if hostile {
		cfg := &synchronization.Configuration{
			WatchMode:        synchronization.WatchMode_WatchModeNoWatch,
			ScanMode:         synchronization.ScanMode_ScanModeFull,
			StageMode:        synchronization.StageMode_StageModeMutagen,
			SymbolicLinkMode: core.SymbolicLinkMode_SymbolicLinkModePOSIXRaw,
		}
		ep, err = local.NewEndpoint(logging.NewLogger(logging.LevelDisabled, io.Discard), e.root,
			fmt.Sprintf("sync_verifC17x%dx%dx%d", os.Getpid(), r.Seed, index), synchronization.Version_Version1, cfg, false)
		if err != nil {
			fmt.Printf("C17 case %d: endpoint: %v\n", index, err)
			r.Count("endpoint_unavailable", 1)
			ep = nil
		} else {
			defer ep.Shutdown()
			if _, serr, _ := ep.Scan(context.Background(), nil, true); serr != nil {
				r.Count("endpoint_unavailable", 1)
				ep = nil
			}
		}
	}

	// ---- the hostile change
	switch c.Layout {
	case "swap-dir-to-link":
		os.MkdirAll(filepath.Join(base, "trash"), 0o755)
		if os.Rename(dFull, filepath.Join(base, "trash", "d-old")) != nil {
			r.Inconclusive("hostile change could not be applied")
			return
		}
		c.LinkAt, c.Target = e.D, spell(targetDir, e.D)
		os.Symlink(c.Target, dFull)
	case "move-dir-out":
		if os.Rename(dFull, targetDir) != nil {
			r.Inconclusive("hostile change could not be applied")
			return
		}
		c.LinkAt, c.Target = e.D, spell(targetDir, e.D)
		os.Symlink(c.Target, dFull)
		if s.watchTree(targetDir, "canary") != nil {
			r.Inconclusive("inotify watches could not be placed")
			return
		}
	case "swap-file-to-link":
		lf := join(e.D, "f")
		os.Remove(fullPath(e.root, lf))
		c.LinkAt, c.Target = lf, spell(filepath.Join(cdir, "f"), lf)
		os.Symlink(c.Target, fullPath(e.root, lf))
	}
	e.c = c
	fmt.Printf("C17 case %d %s\n", index, vk.JSON(c))

	// cache handed to Transition: the honest scan's; for links that were there
	// from the start, forged entries describing the canary objects exactly
	cache := &core.Cache{Entries: map[string]*core.CacheEntry{}}
	for k, v := range pre.Cache.Entries {
		cache.Entries[k] = v
	}
	if !hostile {
		for rel, data := range map[string][]byte{"f": e.fData, "sub/inner.txt": e.inData} {
			var st syscall.Stat_t
			if syscall.Lstat(filepath.Join(targetDir, rel), &st) == nil {
				cache.Entries[join(e.D, rel)] = &core.CacheEntry{Mode: st.Mode, ModificationTime: timestamppb.New(time.Unix(st.Mtim.Sec, st.Mtim.Nsec)),
					Size: uint64(st.Size), FileID: st.Ino, Digest: fsx.Sha1(data)}
			}
		}
	}

	e.before = observe(e.canary)
	e.s.drain()

	// ---- operations
	for _, sl := range symlinkModes {
		sl := sl
		e.probe("scan-"+slName(sl), func() (bool, any) {
			cfg := scfg
			cfg.SymbolicLinkMode = sl
			st, err := fsx.Cold(e.root, cfg)
			if err != nil {
				return true, "scan failed: " + err.Error()
			}
			for _, x := range e.cross {
				en := entryAt(st.Snapshot.Content, x)
				if en != nil && (en.Kind == core.EntryKind_Directory || en.Kind == core.EntryKind_File || len(en.Contents) > 0) {
					return false, fmt.Sprintf("snapshot describes %q as %s", x, descAt(st.Snapshot.Content, x))
				}
			}
			return true, nil
		})
	}
	e.probe("scan-accelerated", func() (bool, any) {
		recheck := map[string]bool{}
		for _, x := range e.cross {
			recheck[x] = true
		}
		recheck["ctl"] = true
		_, err := fsx.Accelerated(e.root, scfg, pre, recheck)
		_ = err
		return true, nil
	})
	e.transmitOp()
	e.receiveOp(rng)
	e.transitionOp(rng, cache)
	if ep != nil {
		e.endpointOps(rng, ep)
	}
	e.ownerOp(rng, cache)
}

// probe arms the sensor, runs one operation and judges it.
func (e *c17Env) probe(op string, f func() (reported bool, detail any)) {
	e.s.drain()
	var reported bool
	var detail any
	ran := false
	guard(e.r, map[string]any{"case": e.c, "operation": op}, func() {
		reported, detail = f()
		ran = true
	})
	evs, overflow := e.s.drain()
	canaryEvents, controlEvents := splitEvents(evs)
	e.r.Eval(1)
	if !ran {
		return
	}
	sig := map[string]string{"operation": op, "layout": e.c.Layout}
	w := func(extra map[string]any) map[string]any {
		m := map[string]any{"case": e.c, "operation": op, "detail": detail}
		for k, v := range extra {
			m[k] = v
		}
		return m
	}
	if len(canaryEvents) > 0 {
		sig["rule"] = "canary-accessed"
		if len(canaryEvents) > 12 {
			canaryEvents = canaryEvents[:12]
		}
		e.r.Violation(sig, fmt.Sprintf("%s on layout %s caused %d inotify event(s) outside the root, first: %s %s/%s", op, e.c.Layout, len(canaryEvents), canaryEvents[0].What, canaryEvents[0].Dir, canaryEvents[0].Name),
			w(map[string]any{"events": canaryEvents}))
	}
	now := observe(e.canary)
	e.s.drain() // the observation itself reads the canary
	if same, why := equalObs(e.before, now); !same {
		sig["rule"] = "canary-modified"
		e.r.Violation(sig, fmt.Sprintf("%s on layout %s changed the tree outside the root: %s", op, e.c.Layout, why), w(nil))
		e.before = now
	}
	if overflow || len(controlEvents) == 0 {
		e.r.Inconclusive("sensor liveness: no event on the in-root control directory")
		return
	}
	if !reported {
		sig["rule"] = "crossing-not-reported"
		e.r.Violation(sig, fmt.Sprintf("%s on layout %s did not report the crossing path as failed: %v", op, e.c.Layout, detail), w(nil))
	}
	e.r.Count("operations_checked", 1)
	e.r.Count("control_events", int64(len(controlEvents)))
	e.r.Count("op:"+op, 1)
	e.r.Distinct(fmt.Sprintf("%s|%s|%d|%v", e.c.Layout, op, strings.Count(e.D, "/"), e.c.Relative))
	if e.c.Index%29 == 4 && op == "transition" {
		e.r.Sample(map[string]any{"case": e.c, "operation": op, "canary_events": len(canaryEvents), "control_events": len(controlEvents), "detail": detail})
	}
}

func (e *c17Env) crossing(p string) bool {
	for _, x := range e.cross {
		if atOrBelow(p, x) {
			return true
		}
	}
	return false
}

// transmitOp: rsync.Transmit reads files beneath the link.
func (e *c17Env) transmitOp() {
	paths := []string{"ctl/f", join(e.D, "f"), join(e.D, "sub/inner.txt")}
	sort.Strings(paths)
	e.probe("rsync-transmit", func() (bool, any) {
		sigs := make([]*rsync.Signature, len(paths))
		for i := range sigs {
			sigs[i] = &rsync.Signature{}
		}
		sink := &memSinker{}
		recvRoot := filepath.Join(e.base, "recvroot")
		os.MkdirAll(recvRoot, 0o755)
		inner, err := rsync.NewReceiver(recvRoot, paths, sigs, sink)
		if err != nil {
			return true, err.Error()
		}
		spy := &spyReceiver{Receiver: inner, paths: paths, errors: map[string]string{}, ops: map[string]int{}}
		terr := rsync.Transmit(e.root, paths, sigs, spy)
		var bad []string
		for _, p := range paths {
			if e.crossing(p) {
				if spy.errors[p] == "" || len(sink.bytes(p)) > 0 {
					bad = append(bad, fmt.Sprintf("%s: error=%q delivered=%dB", p, spy.errors[p], len(sink.bytes(p))))
				}
			}
		}
		if !bytes.Equal(sink.bytes("ctl/f"), e.ctlF) {
			bad = append(bad, "control file ctl/f was not delivered")
		}
		detail := map[string]any{"transmit_error": fmt.Sprint(terr), "file_errors": spy.errors, "problems": bad}
		return len(bad) == 0, detail
	})
}

// receiveOp: the receiver opens base files beneath the link.
func (e *c17Env) receiveOp(rng *rand.Rand) {
	paths := []string{"ctl/f", join(e.D, "f"), join(e.D, "sub/inner.txt")}
	sort.Strings(paths)
	src := filepath.Join(e.base, "src")
	newData := map[string][]byte{}
	baseData := map[string][]byte{"ctl/f": e.ctlF, join(e.D, "f"): e.fData, join(e.D, "sub/inner.txt"): e.inData}
	for _, p := range paths {
		// mostly the old content, so that a base would really be used
		old := baseData[p]
		nd := append(append([]byte{}, old...), fsx.UniqueToken(rng, 64)...)
		newData[p] = nd
		mustWrite(fullPath(src, p), nd, 0o644)
	}
	e.probe("rsync-receive", func() (bool, any) {
		engine := rsync.NewEngine()
		sigs := make([]*rsync.Signature, len(paths))
		for i, p := range paths {
			sigs[i] = engine.BytesSignature(baseData[p], 0)
		}
		sink := &memSinker{}
		inner, err := rsync.NewReceiver(e.root, paths, sigs, sink)
		if err != nil {
			return true, err.Error()
		}
		spy := &spyReceiver{Receiver: inner, paths: paths, errors: map[string]string{}, ops: map[string]int{}}
		terr := rsync.Transmit(src, paths, sigs, spy)
		var bad []string
		for _, p := range paths {
			if e.crossing(p) {
				if sink.called(p) || len(sink.bytes(p)) > 0 {
					bad = append(bad, fmt.Sprintf("%s: a file was produced (%d bytes) although its base lies beyond the link", p, len(sink.bytes(p))))
				}
			}
		}
		if !bytes.Equal(sink.bytes("ctl/f"), newData["ctl/f"]) {
			bad = append(bad, "control file ctl/f was not reconstructed")
		}
		return len(bad) == 0, map[string]any{"transmit_error": fmt.Sprint(terr), "sink_calls": sink.calls, "problems": bad}
	})
}

// transitionOp: a plan whose paths lie beneath (or at) the link.
func (e *c17Env) transitionOp(rng *rand.Rand, cache *core.Cache) {
	staging := filepath.Join(e.base, "staging")
	os.MkdirAll(staging, 0o700)
	prov := &stagingProvider{dir: staging}
	file := func(path string) *core.Entry {
		d, _ := prov.stage(path, fsx.UniqueToken(rng, 50+rng.Intn(500)))
		return &core.Entry{Kind: core.EntryKind_File, Digest: d}
	}
	oldF := &core.Entry{Kind: core.EntryKind_File, Digest: fsx.Sha1(e.fData)}
	oldIn := &core.Entry{Kind: core.EntryKind_File, Digest: fsx.Sha1(e.inData)}
	D := e.D
	var changes []*core.Change
	var kinds []string
	add := func(kind string, ch *core.Change) { changes = append(changes, ch); kinds = append(kinds, kind) }
	if e.c.Layout == "swap-file-to-link" {
		if rng.Intn(2) == 0 {
			add("remove-file", &core.Change{Path: join(D, "f"), Old: oldF})
		} else {
			add("swap-file", &core.Change{Path: join(D, "f"), Old: oldF, New: file(join(D, "f"))})
		}
	} else if rng.Intn(5) == 0 {
		add("remove-directory-at-link", &core.Change{Path: D, Old: &core.Entry{Kind: core.EntryKind_Directory, Contents: map[string]*core.Entry{
			"f": oldF, "sub": {Kind: core.EntryKind_Directory, Contents: map[string]*core.Entry{"inner.txt": oldIn}}, "sub2": {Kind: core.EntryKind_Directory}}}})
	} else {
		for len(changes) == 0 {
			if rng.Intn(2) == 0 {
				add("create-file", &core.Change{Path: join(D, "new.txt"), New: file(join(D, "new.txt"))})
			}
			if rng.Intn(3) == 0 {
				add("create-directory", &core.Change{Path: join(D, "newdir"), New: &core.Entry{Kind: core.EntryKind_Directory, Contents: map[string]*core.Entry{"x": file(join(D, "newdir/x"))}}})
			}
			if rng.Intn(3) == 0 {
				add("create-link", &core.Change{Path: join(D, "newlink"), New: &core.Entry{Kind: core.EntryKind_SymbolicLink, Target: "f"}})
			}
			switch rng.Intn(4) {
			case 0:
				add("remove-file", &core.Change{Path: join(D, "f"), Old: oldF})
			case 1:
				add("swap-file", &core.Change{Path: join(D, "f"), Old: oldF, New: file(join(D, "f"))})
			}
			switch rng.Intn(4) {
			case 0:
				add("remove-directory", &core.Change{Path: join(D, "sub"), Old: &core.Entry{Kind: core.EntryKind_Directory, Contents: map[string]*core.Entry{"inner.txt": oldIn}}})
			case 1:
				add("remove-file-deep", &core.Change{Path: join(D, "sub/inner.txt"), Old: oldIn})
			}
			if rng.Intn(4) == 0 {
				add("remove-empty-directory", &core.Change{Path: join(D, "sub2"), Old: &core.Entry{Kind: core.EntryKind_Directory}})
			}
		}
	}
	// control: an honest swap inside the root
	newCtl := file("ctl/f")
	add("control-swap", &core.Change{Path: "ctl/f", Old: &core.Entry{Kind: core.EntryKind_File, Digest: fsx.Sha1(e.ctlF)}, New: newCtl})
	e.probe("transition", func() (bool, any) {
		ownership, _ := filesystem.NewOwnershipSpecification("", "")
		ctx, cancel := context.WithTimeout(context.Background(), 5*time.Minute)
		defer cancel()
		results, problems, _ := core.Transition(ctx, e.root, changes, cache, core.SymbolicLinkMode_SymbolicLinkModePOSIXRaw, 0o600, 0o700, ownership, false, prov)
		var bad []string
		for i, ch := range changes {
			if !e.crossing(ch.Path) {
				if i < len(results) && !results[i].Equal(ch.New, true) {
					bad = append(bad, "control transition at "+ch.Path+" failed")
				}
				continue
			}
			named := false
			for _, p := range problems {
				if related(p.Path, ch.Path) {
					named = true
				}
			}
			if !named {
				bad = append(bad, fmt.Sprintf("%s at %q: no problem reported", kinds[i], ch.Path))
			}
			if i < len(results) && results[i].Equal(ch.New, true) {
				bad = append(bad, fmt.Sprintf("%s at %q: reported as carried out", kinds[i], ch.Path))
			}
		}
		return len(bad) == 0, map[string]any{"plan": kinds, "problems": describeProblems(problems), "complaints": bad}
	})
	// keep the harness's idea of ctl/f current
	if data, err := os.ReadFile(filepath.Join(e.root, "ctl", "f")); err == nil {
		e.ctlF = data
	}
}

// endpointOps: the local endpoint's Stage (staging from the root by reverse
// digest lookup) and Transition after the hostile change.
func (e *c17Env) endpointOps(rng *rand.Rand, ep synchronization.Endpoint) {
	D := e.D
	stagePaths := []string{"ctl/copy", join(D, "copy")}
	// the endpoint's own scan saw ctl/f as it was then; its content may since
	// have been swapped by transitionOp, so look the digest up from ctl/sub/g
	digests := [][]byte{fsx.Sha1(e.ctlG), fsx.Sha1(e.fData)}
	e.probe("endpoint-stage", func() (bool, any) {
		filtered, _, receiver, err := ep.Stage(append([]string{}, stagePaths...), digests)
		if err != nil {
			return true, "stage failed: " + err.Error()
		}
		_ = receiver
		need := map[string]bool{}
		for _, p := range filtered {
			need[p] = true
		}
		var bad []string
		if !need[join(D, "copy")] {
			bad = append(bad, "content whose only source lies beyond the link was staged from the root")
		}
		if need["ctl/copy"] {
			bad = append(bad, "control content was not staged from the root")
		}
		return len(bad) == 0, map[string]any{"still_needed": filtered, "complaints": bad}
	})
	oldF := &core.Entry{Kind: core.EntryKind_File, Digest: fsx.Sha1(e.fData)}
	oldIn := &core.Entry{Kind: core.EntryKind_File, Digest: fsx.Sha1(e.inData)}
	var changes []*core.Change
	if e.c.Layout == "swap-file-to-link" {
		changes = append(changes, &core.Change{Path: join(D, "f"), Old: oldF})
	} else {
		switch rng.Intn(3) {
		case 0:
			changes = append(changes, &core.Change{Path: join(D, "f"), Old: oldF})
		case 1:
			changes = append(changes, &core.Change{Path: join(D, "sub"), Old: &core.Entry{Kind: core.EntryKind_Directory, Contents: map[string]*core.Entry{"inner.txt": oldIn}}})
		default:
			changes = append(changes, &core.Change{Path: join(D, "newdir"), New: &core.Entry{Kind: core.EntryKind_Directory, Contents: map[string]*core.Entry{"l": {Kind: core.EntryKind_SymbolicLink, Target: "x"}}}})
		}
		if rng.Intn(2) == 0 {
			changes = append(changes, &core.Change{Path: join(D, "newlink"), New: &core.Entry{Kind: core.EntryKind_SymbolicLink, Target: "f"}})
		}
	}
	changes = append(changes, &core.Change{Path: "ctl/sub/g", Old: &core.Entry{Kind: core.EntryKind_File, Digest: fsx.Sha1(e.ctlG)}})
	e.probe("endpoint-transition", func() (bool, any) {
		results, problems, _, err := ep.Transition(context.Background(), changes)
		if err != nil {
			return true, "transition refused: " + err.Error()
		}
		var bad []string
		for i, ch := range changes {
			if !e.crossing(ch.Path) {
				if !results[i].Equal(ch.New, true) {
					bad = append(bad, "control transition at "+ch.Path+" failed")
				}
				continue
			}
			named := false
			for _, p := range problems {
				if related(p.Path, ch.Path) {
					named = true
				}
			}
			if !named || results[i].Equal(ch.New, true) {
				bad = append(bad, fmt.Sprintf("transition at %q not reported as failed", ch.Path))
			}
		}
		return len(bad) == 0, map[string]any{"problems": describeProblems(problems), "complaints": bad}
	})
}

// c17Flip: scans race with a goroutine that atomically exchanges a real
// directory inside the root with a link to the canary.
func c17Flip(r *vk.Run, rng *rand.Rand, index int, base string, scans int) {
	root, canary, aux := filepath.Join(base, "root"), filepath.Join(base, "canary"), filepath.Join(base, "aux")
	for i := 0; i < 6; i++ {
		mustWrite(filepath.Join(canary, "c", fmt.Sprintf("f%d", i)), fsx.UniqueToken(rng, 200), 0o644)
		mustWrite(filepath.Join(root, "p", "d", fmt.Sprintf("f%d", i)), fsx.UniqueToken(rng, 200), 0o644)
		mustWrite(filepath.Join(root, "ctl", fmt.Sprintf("g%d", i)), fsx.UniqueToken(rng, 200), 0o644)
	}
	mustWrite(filepath.Join(canary, "c", "sub", "x"), fsx.UniqueToken(rng, 100), 0o644)
	mustWrite(filepath.Join(root, "p", "d", "sub", "x"), fsx.UniqueToken(rng, 100), 0o644)
	os.MkdirAll(aux, 0o755)
	link := filepath.Join(aux, "dl")
	if os.Symlink(filepath.Join(canary, "c"), link) != nil {
		r.Inconclusive("flip layout could not be built")
		return
	}
	s, err := newSensor()
	if err != nil {
		r.Inconclusive("inotify not available")
		return
	}
	defer s.close()
	if s.watchTree(canary, "canary") != nil || s.watchTree(filepath.Join(root, "ctl"), "control") != nil {
		r.Inconclusive("inotify watches could not be placed")
		return
	}
	before := observe(canary)
	s.drain()
	fmt.Printf("C17 flip round %d: %d scans racing directory<->link exchanges\n", index, scans)
	var stop int32
	var flips int64
	var wg sync.WaitGroup
	wg.Add(1)
	go func() {
		defer wg.Done()
		d := filepath.Join(root, "p", "d")
		for atomic.LoadInt32(&stop) == 0 {
			if unix.Renameat2(unix.AT_FDCWD, d, unix.AT_FDCWD, link, unix.RENAME_EXCHANGE) == nil {
				flips++
			}
		}
		// leave the real directory inside the root
		if fi, err := os.Lstat(d); err == nil && fi.Mode()&os.ModeSymlink != 0 {
			unix.Renameat2(unix.AT_FDCWD, d, unix.AT_FDCWD, link, unix.RENAME_EXCHANGE)
		}
	}()
	sawLink, sawDir := 0, 0
	guard(r, map[string]any{"flip_round": index}, func() {
		for i := 0; i < scans; i++ {
			cfg := fsx.ScanConfig{ProbeMode: probeModes[i%2], SymbolicLinkMode: symlinkModes[i%3], PermissionsMode: core.PermissionsMode_PermissionsModePortable}
			st, err := fsx.Cold(root, cfg)
			if err != nil {
				continue // a scan may fail while the tree changes under it
			}
			if en := entryAt(st.Snapshot.Content, "p/d"); en != nil {
				if en.Kind == core.EntryKind_Directory {
					sawDir++
				} else {
					sawLink++
				}
			}
		}
	})
	atomic.StoreInt32(&stop, 1)
	wg.Wait()
	evs, overflow := s.drain()
	canaryEvents, controlEvents := splitEvents(evs)
	r.Eval(scans)
	c := map[string]any{"flip_round": index, "scans": scans, "exchanges": flips, "scans_seeing_directory": sawDir, "scans_seeing_link": sawLink}
	if len(canaryEvents) > 0 {
		n := len(canaryEvents)
		if n > 12 {
			canaryEvents = canaryEvents[:12]
		}
		r.Violation(map[string]string{"rule": "canary-accessed", "operation": "scan-racing-exchange", "layout": "flip"},
			fmt.Sprintf("scans racing a directory<->link exchange caused %d inotify event(s) outside the root, first: %s %s/%s", n, canaryEvents[0].What, canaryEvents[0].Dir, canaryEvents[0].Name),
			map[string]any{"case": c, "events": canaryEvents})
	}
	now := observe(canary)
	if same, why := equalObs(before, now); !same {
		r.Violation(map[string]string{"rule": "canary-modified", "operation": "scan-racing-exchange", "layout": "flip"}, "scans racing an exchange changed the tree outside the root: "+why, c)
	}
	if len(controlEvents) == 0 && !overflow {
		r.Inconclusive("sensor liveness: no event on the in-root control directory")
		return
	}
	r.Count("flip_exchanges", flips)
	r.Count("flip_scans_seeing_link", int64(sawLink))
	r.Count("flip_scans_seeing_directory", int64(sawDir))
	if sawLink > 0 && sawDir > 0 {
		r.Count("operations_checked", 1)
		r.Distinct(fmt.Sprintf("flip|both-states-seen|%d", index%4))
	}
	if index == 0 {
		r.Sample(c)
	}
}
