package main

import (
	"bytes"
	"context"
	"fmt"
	"math/rand"
	"os"
	"path/filepath"
	"syscall"
	"time"

	"github.com/mutagen-io/mutagen/pkg/filesystem"
	"github.com/mutagen-io/mutagen/pkg/synchronization/core"
	"github.com/mutagen-io/mutagen/pkg/synchronization/rsync"

	"verif/internal/fsx"
	"verif/internal/vk"
)

// C17, part two: the directory becomes a link INSIDE one operation (one
// Transmit / one receiver stream / one Transition call), and symbolic links
// created with a default owner must not pass the ownership on to their
// targets.

// hookReceiver forwards to the real receiver and runs a hook right after the
// "done" message of the file with the given index was processed.
type hookReceiver struct {
	rsync.Receiver
	paths  []string
	index  int
	after  int
	hook   func()
	errors map[string]string
}

func (h *hookReceiver) Receive(t *rsync.Transmission) error {
	done := t.Done
	if done && h.index < len(h.paths) && t.Error != "" {
		h.errors[h.paths[h.index]] = t.Error
	}
	err := h.Receiver.Receive(t)
	if done {
		if h.index == h.after && h.hook != nil {
			h.hook()
			h.hook = nil
		}
		h.index++
	}
	return err
}

// hookProvider is a staging provider that runs a hook when the staged file of
// one particular path is asked for.
type hookProvider struct {
	*stagingProvider
	at   string
	hook func()
}

func (p *hookProvider) Provide(path string, digest []byte) (string, error) {
	if path == p.at && p.hook != nil {
		h := p.hook
		p.hook = nil
		h()
	}
	return p.stagingProvider.Provide(path, digest)
}

var c17MidLayouts = []string{"mid-transmit", "mid-receive", "mid-transition-provider", "mid-transition-plan-replaces-parent"}

// c17Mid builds root/<pre>/a/b/{f1,f2,g,old} and canary/c2/b/{f1,f2,g,old}
// (twins), scans, and runs ONE operation during which <pre>/a is replaced by a
// link to canary/c2.
func c17Mid(r *vk.Run, rng *rand.Rand, index int, base string) {
	layout := c17MidLayouts[index%len(c17MidLayouts)]
	e := &c17Env{r: r, base: base, root: filepath.Join(base, "root"), canary: filepath.Join(base, "canary")}
	pre := []string{"", "p", "p/q"}[rng.Intn(3)]
	A := join(pre, "a")
	B := join(A, "b")
	c := c17Case{Index: index, Layout: layout, Prefix: pre, Relative: rng.Intn(2) == 0, LinkAt: A}
	howOldGoes := []string{"deleted", "moved-to-trash"}[rng.Intn(2)]
	if layout == "mid-transition-plan-replaces-parent" {
		howOldGoes = "removed-by-the-plan"
	}
	e.D = A
	e.cross = []string{A}
	names := []string{"f1", "f2", "g", "old"}
	content := map[string][]byte{}
	target := filepath.Join(e.canary, "c2")
	for _, n := range names {
		content[n] = fsx.UniqueToken(rng, 300+rng.Intn(3000))
		mustWrite(filepath.Join(fullPath(e.root, B), n), content[n], 0o644)
		mustWrite(filepath.Join(target, "b", n), content[n], 0o644)
		twin(filepath.Join(target, "b", n), filepath.Join(fullPath(e.root, B), n))
	}
	mustWrite(filepath.Join(e.canary, "top.txt"), fsx.UniqueToken(rng, 40), 0o600)
	e.ctlF = fsx.UniqueToken(rng, 500)
	mustWrite(filepath.Join(e.root, "ctl", "f"), e.ctlF, 0o644)
	c.Target = target
	if c.Relative {
		c.Target, _ = filepath.Rel(filepath.Join(e.root, filepath.FromSlash(pre)), target)
	}
	c.Layout = layout + "/old-directory-" + howOldGoes
	e.c = c

	s, err := newSensor()
	if err != nil {
		r.Inconclusive("inotify not available")
		return
	}
	defer s.close()
	e.s = s
	if s.watchTree(e.canary, "canary") != nil || s.watchTree(filepath.Join(e.root, "ctl"), "control") != nil {
		r.Inconclusive("inotify watches could not be placed")
		return
	}
	scfg := fsx.ScanConfig{ProbeMode: probeModes[rng.Intn(2)], SymbolicLinkMode: core.SymbolicLinkMode_SymbolicLinkModePOSIXRaw, PermissionsMode: core.PermissionsMode_PermissionsModePortable}
	pre0, err := fsx.Cold(e.root, scfg)
	if err != nil {
		r.Inconclusive("scan before the operation failed")
		return
	}
	fmt.Printf("C17 case %d %s\n", index, vk.JSON(c))
	swapped := false
	swap := func() {
		aFull := fullPath(e.root, A)
		switch howOldGoes {
		case "deleted":
			os.RemoveAll(aFull)
		default:
			os.MkdirAll(filepath.Join(base, "trash"), 0o755)
			os.Rename(aFull, filepath.Join(base, "trash", "a-old"))
		}
		if os.Symlink(c.Target, aFull) == nil {
			swapped = true
		}
	}
	e.before = observe(e.canary)
	e.s.drain()

	pathsOf := func(ns ...string) []string {
		var out []string
		for _, n := range ns {
			out = append(out, join(B, n))
		}
		return out
	}
	switch layout {
	case "mid-transmit":
		// one Transmit, one Opener: B/f1 is served (the handles of a and a/b
		// are cached), then a becomes a link, then B/f2 is requested
		paths := append(pathsOf("f1", "f2", "g"), "ctl/f")
		e.probe("rsync-transmit-swap-inside", func() (bool, any) {
			sigs := make([]*rsync.Signature, len(paths))
			for i := range sigs {
				sigs[i] = &rsync.Signature{}
			}
			sink := &memSinker{}
			recvRoot := filepath.Join(base, "recvroot")
			os.MkdirAll(recvRoot, 0o755)
			inner, err := rsync.NewReceiver(recvRoot, paths, sigs, sink)
			if err != nil {
				return true, err.Error()
			}
			hr := &hookReceiver{Receiver: inner, paths: paths, after: 0, hook: swap, errors: map[string]string{}}
			terr := rsync.Transmit(e.root, paths, sigs, hr)
			var bad []string
			if !swapped {
				return true, "swap did not happen"
			}
			if !bytes.Equal(sink.bytes(paths[0]), content["f1"]) {
				bad = append(bad, "the file requested before the swap was not delivered")
			}
			for _, p := range paths[1:3] {
				if howOldGoes == "deleted" && (hr.errors[p] == "" || len(sink.bytes(p)) > 0) {
					bad = append(bad, fmt.Sprintf("%s: error=%q delivered=%dB although its directory is gone and the path now crosses a link", p, hr.errors[p], len(sink.bytes(p))))
				}
			}
			if !bytes.Equal(sink.bytes("ctl/f"), e.ctlF) {
				bad = append(bad, "control file ctl/f was not delivered")
			}
			return len(bad) == 0, map[string]any{"transmit_error": fmt.Sprint(terr), "file_errors": hr.errors, "complaints": bad}
		})
	case "mid-receive":
		// one receiver stream: the base of B/f1 is opened (handles cached),
		// then a becomes a link, then the base of B/f2 is needed
		paths := append(pathsOf("f1", "f2", "g"), "ctl/f")
		src := filepath.Join(base, "src")
		newData := map[string][]byte{}
		baseData := map[string][]byte{paths[0]: content["f1"], paths[1]: content["f2"], paths[2]: content["g"], "ctl/f": e.ctlF}
		for _, p := range paths {
			newData[p] = append(append([]byte{}, baseData[p]...), fsx.UniqueToken(rng, 64)...)
			mustWrite(fullPath(src, p), newData[p], 0o644)
		}
		e.probe("rsync-receive-swap-inside", func() (bool, any) {
			engine := rsync.NewEngine()
			sigs := make([]*rsync.Signature, len(paths))
			for i, p := range paths {
				sigs[i] = engine.BytesSignature(baseData[p], 0)
			}
			sink := &memSinker{}
			inner, err := rsync.NewReceiver(e.root, paths, sigs, sink)
			if err != nil {
				return true, err.Error()
			}
			hr := &hookReceiver{Receiver: inner, paths: paths, after: 0, hook: swap, errors: map[string]string{}}
			terr := rsync.Transmit(src, paths, sigs, hr)
			var bad []string
			if !swapped {
				return true, "swap did not happen"
			}
			if !bytes.Equal(sink.bytes(paths[0]), newData[paths[0]]) {
				bad = append(bad, "the file received before the swap was not reconstructed")
			}
			for _, p := range paths[1:3] {
				if howOldGoes == "deleted" && (sink.called(p) || len(sink.bytes(p)) > 0) {
					bad = append(bad, fmt.Sprintf("%s: a file was produced (%d bytes) although its base directory is gone and the path now crosses a link", p, len(sink.bytes(p))))
				}
			}
			if !bytes.Equal(sink.bytes("ctl/f"), newData["ctl/f"]) {
				bad = append(bad, "control file ctl/f was not reconstructed")
			}
			return len(bad) == 0, map[string]any{"transmit_error": fmt.Sprint(terr), "sink_calls": sink.calls, "complaints": bad}
		})
	default:
		staging := filepath.Join(base, "staging")
		os.MkdirAll(staging, 0o700)
		sp := &stagingProvider{dir: staging}
		file := func(path string) *core.Entry {
			d, _ := sp.stage(path, fsx.UniqueToken(rng, 50+rng.Intn(500)))
			return &core.Entry{Kind: core.EntryKind_File, Digest: d}
		}
		old := func(n string) *core.Entry {
			return &core.Entry{Kind: core.EntryKind_File, Digest: fsx.Sha1(content[n])}
		}
		var changes []*core.Change
		var kinds []string
		var mustFail []bool
		add := func(kind string, ch *core.Change, fail bool) {
			changes, kinds, mustFail = append(changes, ch), append(kinds, kind), append(mustFail, fail)
		}
		var prov core.Provider = sp
		if layout == "mid-transition-provider" {
			// x1 is created first; the swap happens while the staged file of
			// the trigger path is looked up (its parent handle is already
			// open); everything after it walks down from the root again
			add("create-file-before", &core.Change{Path: join(B, "x1"), New: file(join(B, "x1"))}, false)
			trigger := join(B, "x2")
			add("create-file-during", &core.Change{Path: trigger, New: file(trigger)}, false)
			prov = &hookProvider{stagingProvider: sp, at: trigger, hook: swap}
		} else {
			// the plan itself turns a into a link: remove one file below a/b,
			// then replace directory a (as the scan saw it, minus that file) by
			// a link to the canary directory
			add("remove-file-before", &core.Change{Path: join(B, "g"), Old: old("g")}, false)
			oldA := &core.Entry{Kind: core.EntryKind_Directory, Contents: map[string]*core.Entry{"b": {Kind: core.EntryKind_Directory, Contents: map[string]*core.Entry{
				"f1": old("f1"), "f2": old("f2"), "old": old("old")}}}}
			add("directory-to-link", &core.Change{Path: A, Old: oldA, New: &core.Entry{Kind: core.EntryKind_SymbolicLink, Target: c.Target}}, false)
		}
		// changes after the swap: all cross the link and must fail
		add("create-file-after", &core.Change{Path: join(B, "x3"), New: file(join(B, "x3"))}, true)
		if rng.Intn(2) == 0 {
			add("create-directory-after", &core.Change{Path: join(B, "nd"), New: &core.Entry{Kind: core.EntryKind_Directory, Contents: map[string]*core.Entry{"y": file(join(B, "nd/y"))}}}, true)
		}
		if rng.Intn(2) == 0 {
			add("remove-file-after", &core.Change{Path: join(B, "old"), Old: old("old")}, true)
		}
		if rng.Intn(2) == 0 {
			add("swap-file-after", &core.Change{Path: join(B, "f2"), Old: old("f2"), New: file(join(B, "f2"))}, true)
		}
		if rng.Intn(2) == 0 {
			add("create-link-after", &core.Change{Path: join(B, "nl"), New: &core.Entry{Kind: core.EntryKind_SymbolicLink, Target: "f1"}}, true)
		}
		add("control-swap", &core.Change{Path: "ctl/f", Old: &core.Entry{Kind: core.EntryKind_File, Digest: fsx.Sha1(e.ctlF)}, New: file("ctl/f")}, false)
		e.probe("transition-swap-inside", func() (bool, any) {
			ownership, _ := filesystem.NewOwnershipSpecification("", "")
			ctx, cancel := context.WithTimeout(context.Background(), 5*time.Minute)
			defer cancel()
			results, problems, _ := core.Transition(ctx, e.root, changes, pre0.Cache, core.SymbolicLinkMode_SymbolicLinkModePOSIXRaw, 0o600, 0o700, ownership, false, prov)
			var bad []string
			isLink := false
			if fi, err := os.Lstat(fullPath(e.root, A)); err == nil && fi.Mode()&os.ModeSymlink != 0 {
				isLink = true
			}
			if isLink {
				e.r.Count("operations_with_swap_inside", 1)
			}
			if !isLink {
				return true, map[string]any{"note": "the directory did not become a link inside the call", "problems": describeProblems(problems)}
			}
			for i, ch := range changes {
				if ch.Path == "ctl/f" {
					if !results[i].Equal(ch.New, true) {
						bad = append(bad, "control transition at ctl/f failed")
					}
					continue
				}
				if !mustFail[i] {
					continue
				}
				named := false
				for _, p := range problems {
					if related(p.Path, ch.Path) {
						named = true
					}
				}
				if !named {
					bad = append(bad, fmt.Sprintf("%s at %q: no problem reported", kinds[i], ch.Path))
				}
				if results[i].Equal(ch.New, true) {
					bad = append(bad, fmt.Sprintf("%s at %q: reported as carried out", kinds[i], ch.Path))
				}
			}
			return len(bad) == 0, map[string]any{"plan": kinds, "problems": describeProblems(problems), "complaints": bad}
		})
	}
	if swapped && (layout == "mid-transmit" || layout == "mid-receive") {
		r.Count("operations_with_swap_inside", 1)
	}
}

// ownerOp: a transition creates symbolic links whose targets are canary
// objects while a default owner and group are configured. The links must be
// owned as configured; the canary objects must keep their owner (the canary
// observation compares uid and gid, and a chown raises IN_ATTRIB).
func (e *c17Env) ownerOp(rng *rand.Rand, cache *core.Cache) {
	if os.Geteuid() != 0 {
		return
	}
	cdir := filepath.Join(e.canary, "c")
	staging := filepath.Join(e.base, "staging-owner")
	os.MkdirAll(staging, 0o700)
	sp := &stagingProvider{dir: staging}
	fileDigest, _ := sp.stage("ctl/owned/file", fsx.UniqueToken(rng, 100))
	spell := func(abs, linkRel string) string {
		if rng.Intn(2) == 0 {
			return abs
		}
		rel, _ := filepath.Rel(filepath.Join(e.root, filepath.Dir(filepath.FromSlash(linkRel))), abs)
		return rel
	}
	links := map[string]string{
		"ctl/to-canary-file": spell(filepath.Join(cdir, "secret.txt"), "ctl/to-canary-file"),
		"ctl/to-canary-dir":  spell(cdir, "ctl/to-canary-dir"),
	}
	changes := []*core.Change{
		{Path: "ctl/to-canary-file", New: &core.Entry{Kind: core.EntryKind_SymbolicLink, Target: links["ctl/to-canary-file"]}},
		{Path: "ctl/to-canary-dir", New: &core.Entry{Kind: core.EntryKind_SymbolicLink, Target: links["ctl/to-canary-dir"]}},
		{Path: "ctl/owned", New: &core.Entry{Kind: core.EntryKind_Directory, Contents: map[string]*core.Entry{
			"file": {Kind: core.EntryKind_File, Digest: fileDigest},
			"deep": {Kind: core.EntryKind_SymbolicLink, Target: spell(filepath.Join(cdir, "sub"), "ctl/owned/deep")},
		}}},
	}
	uid, gid := 4242+rng.Intn(5), 4243+rng.Intn(5)
	e.probe("transition-create-links-with-owner", func() (bool, any) {
		ownership, err := filesystem.NewOwnershipSpecification(fmt.Sprintf("id:%d", uid), fmt.Sprintf("id:%d", gid))
		if err != nil {
			return true, "ownership specification rejected: " + err.Error()
		}
		ctx, cancel := context.WithTimeout(context.Background(), 5*time.Minute)
		defer cancel()
		results, problems, _ := core.Transition(ctx, e.root, changes, cache, core.SymbolicLinkMode_SymbolicLinkModePOSIXRaw, 0o600, 0o700, ownership, false, sp)
		owners := map[string]string{}
		for _, p := range []string{"ctl/to-canary-file", "ctl/to-canary-dir", "ctl/owned", "ctl/owned/file", "ctl/owned/deep"} {
			var st syscall.Stat_t
			if syscall.Lstat(fullPath(e.root, p), &st) == nil {
				owners[p] = fmt.Sprintf("%d:%d", st.Uid, st.Gid)
			} else {
				owners[p] = "absent"
			}
		}
		created := 0
		for i := range changes {
			if results[i] != nil {
				created++
			}
		}
		if created > 0 {
			e.r.Count("links_created_with_owner", int64(created))
		}
		// nothing here crosses a link; the verdict is the canary's ownership,
		// attributes and events, which probe() judges
		return true, map[string]any{"owner": fmt.Sprintf("%d:%d", uid, gid), "owners_in_root": owners, "problems": describeProblems(problems)}
	})
}
