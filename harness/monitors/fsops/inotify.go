package main

import (
	"fmt"
	"os"
	"path/filepath"
	"sort"
	"strings"
	"unsafe"

	"golang.org/x/sys/unix"
)

// I3: inotify access sensor. Watches are placed on every directory of a tree
// (never following links); events on a watched directory cover the directory
// itself and its direct children. inotify queues an event inside the system
// call that causes it, so after an operation has returned a non-blocking drain
// sees everything the operation did.

const sensorMask = unix.IN_OPEN | unix.IN_ACCESS | unix.IN_MODIFY | unix.IN_ATTRIB |
	unix.IN_CREATE | unix.IN_DELETE | unix.IN_MOVED_FROM | unix.IN_MOVED_TO |
	unix.IN_DONT_FOLLOW | unix.IN_ONLYDIR

type sensorEvent struct {
	Tag  string `json:"tag"`
	Dir  string `json:"dir"`
	Name string `json:"name,omitempty"`
	What string `json:"what"`
}

type sensor struct {
	fd   int
	dirs map[int32]string
	tags map[int32]string
}

func newSensor() (*sensor, error) {
	fd, err := unix.InotifyInit1(unix.IN_NONBLOCK | unix.IN_CLOEXEC)
	if err != nil {
		return nil, err
	}
	return &sensor{fd: fd, dirs: map[int32]string{}, tags: map[int32]string{}}, nil
}

func (s *sensor) close() { unix.Close(s.fd) }

// watchTree adds watches on dir and every directory below it.
func (s *sensor) watchTree(dir, tag string) error {
	return filepath.Walk(dir, func(p string, fi os.FileInfo, err error) error {
		if err != nil {
			return err
		}
		if !fi.IsDir() {
			return nil
		}
		wd, err := unix.InotifyAddWatch(s.fd, p, sensorMask)
		if err != nil {
			return fmt.Errorf("inotify_add_watch %s: %w", p, err)
		}
		s.dirs[int32(wd)] = p
		s.tags[int32(wd)] = tag
		return nil
	})
}

func maskNames(m uint32) string {
	var out []string
	for _, x := range []struct {
		bit  uint32
		name string
	}{{unix.IN_OPEN, "OPEN"}, {unix.IN_ACCESS, "ACCESS"}, {unix.IN_MODIFY, "MODIFY"}, {unix.IN_ATTRIB, "ATTRIB"},
		{unix.IN_CREATE, "CREATE"}, {unix.IN_DELETE, "DELETE"}, {unix.IN_MOVED_FROM, "MOVED_FROM"}, {unix.IN_MOVED_TO, "MOVED_TO"},
		{unix.IN_ISDIR, "ISDIR"}, {unix.IN_Q_OVERFLOW, "OVERFLOW"}, {unix.IN_IGNORED, "IGNORED"}} {
		if m&x.bit != 0 {
			out = append(out, x.name)
		}
	}
	sort.Strings(out)
	return strings.Join(out, "|")
}

// drain returns every queued event. overflow reports a lost-event condition.
func (s *sensor) drain() (events []sensorEvent, overflow bool) {
	buf := make([]byte, 64<<10)
	for {
		n, err := unix.Read(s.fd, buf)
		if err == unix.EINTR {
			continue
		}
		if err != nil || n <= 0 {
			return
		}
		for off := 0; off+unix.SizeofInotifyEvent <= n; {
			raw := (*unix.InotifyEvent)(unsafe.Pointer(&buf[off]))
			name := ""
			if raw.Len > 0 {
				b := buf[off+unix.SizeofInotifyEvent : off+unix.SizeofInotifyEvent+int(raw.Len)]
				name = strings.TrimRight(string(b), "\x00")
			}
			off += unix.SizeofInotifyEvent + int(raw.Len)
			if raw.Mask&unix.IN_Q_OVERFLOW != 0 {
				overflow = true
				continue
			}
			if raw.Mask&unix.IN_IGNORED != 0 {
				continue
			}
			events = append(events, sensorEvent{Tag: s.tags[raw.Wd], Dir: s.dirs[raw.Wd], Name: name, What: maskNames(raw.Mask)})
		}
	}
}

func splitEvents(evs []sensorEvent) (canary, control []sensorEvent) {
	for _, e := range evs {
		if e.Tag == "canary" {
			canary = append(canary, e)
		} else {
			control = append(control, e)
		}
	}
	return
}
