package main

import (
	"context"
	"crypto/sha1"
	"fmt"
	"hash"
	"math/rand"
	"os"
	"path/filepath"
	"strings"

	"google.golang.org/protobuf/proto"

	"github.com/mutagen-io/mutagen/pkg/synchronization/core"

	"verif/internal/fsx"
	"verif/internal/vk"
)

// C12 sub-workload "interrupted hashing". The hasher handed to core.Scan is a
// counting wrapper around sha1. While a chosen large file is in flight (after
// its m-th Write) the wrapper interferes once: it appends to or truncates that
// very file (so that the copied size differs from the stat size) or cancels
// the scan's context. Then, with the SAME hasher object, (a) the rest of that
// scan's snapshot and (a, b) a following full scan of the now quiet tree must
// describe the disk exactly as the independent walker does.

const bigHeaderPrefix = "VERIF-BIG-"

// countingHasher counts calls and fires one action while a file is in flight.
type countingHasher struct {
	hash.Hash
	writes, sums, resets int64
	sinceSum             int64  // Write calls since the last Sum or Reset
	current              string // header of the file in flight, if it is a marked large file
	bigSeen              int    // marked large files seen since arming
	targetIndex          int    // fire at the targetIndex-th marked large file ...
	targetWrite          int64  // ... right after its targetWrite-th Write
	action               func(header string)
	fired                bool
	inFlightAtFire       int64
}

func (h *countingHasher) Reset() { h.resets++; h.sinceSum = 0; h.current = ""; h.Hash.Reset() }
func (h *countingHasher) Sum(b []byte) []byte {
	h.sums++
	h.sinceSum = 0
	h.current = ""
	return h.Hash.Sum(b)
}
func (h *countingHasher) Write(p []byte) (int, error) {
	h.writes++
	h.sinceSum++
	if strings.HasPrefix(string(p[:min(len(p), len(bigHeaderPrefix))]), bigHeaderPrefix) {
		// first bytes of a marked large file
		if i := strings.IndexByte(string(p[:min(len(p), 64)]), '|'); i > 0 {
			h.current = string(p[:i])
			h.sinceSum = 1
			if h.action != nil {
				h.bigSeen++
			}
		}
	}
	n, err := h.Hash.Write(p)
	if h.action != nil && h.current != "" && h.bigSeen == h.targetIndex && h.sinceSum == h.targetWrite {
		a := h.action
		h.action = nil
		h.fired = true
		h.inFlightAtFire = h.sinceSum
		a(h.current)
	}
	return n, err
}

func c12InterruptedHashing(r *vk.Run, scratch string) {
	n := r.Pick(40, 600)
	parallel(workerCount(), func(w int) {
		for i := w; i < n; i += workerCount() {
			rng := r.Rand(fmt.Sprintf("c12-interrupted-%d", i))
			dir := filepath.Join(scratch, fmt.Sprintf("ih%d", i))
			c12InterruptedCase(r, rng, i, filepath.Join(dir, "root"))
			forceRemove(dir)
		}
	})
}

// withoutPath returns a deep copy of e in which path is absent.
func withoutPath(e *core.Entry, path string) *core.Entry {
	if e == nil {
		return nil
	}
	c := proto.Clone(e).(*core.Entry)
	parent := entryAt(c, parentOf(path))
	if parent != nil && parent.Contents != nil {
		delete(parent.Contents, leafOf(path))
	}
	return c
}

func c12InterruptedCase(r *vk.Run, rng *rand.Rand, index int, root string) {
	variant := []string{"append-while-hashed", "truncate-while-hashed", "append-while-hashed", "truncate-while-hashed", "cancel-while-hashing"}[index%5]
	sl, pm := symlinkModes[index%3], permModes[(index/3)%2]
	scfg := fsx.ScanConfig{ProbeMode: probeModes[rng.Intn(2)], SymbolicLinkMode: sl, PermissionsMode: pm}
	modes := map[string]string{"symlinks": slName(sl), "permissions": pmName(pm), "probe": prName(scfg.ProbeMode)}
	tree := fsx.RandomTree(rng, fsx.TreeConfig{MaxEntries: 6 + rng.Intn(20), MaxDepth: 2, MaxFileSize: 8 << 10, Links: true})
	for p := range tree {
		if related(p, "bigs") {
			delete(tree, p)
		}
	}
	if err := fsx.Materialize(root, tree); err != nil {
		r.Inconclusive("tree could not be materialized")
		return
	}
	// marked large files: several Write calls each (the scanner copies 32 KiB at a time)
	nBig := 3 + rng.Intn(3)
	headerToPath := map[string]string{}
	sizes := map[string]int64{}
	for k := 0; k < nBig; k++ {
		p := fmt.Sprintf("bigs/big%d.bin", k)
		if k%2 == 1 {
			p = fmt.Sprintf("bigs/sub/big%d.bin", k)
		}
		header := fmt.Sprintf("%s%d-%d", bigHeaderPrefix, k, rng.Int63())
		size := int64(160<<10 + rng.Intn(240<<10))
		if variant == "cancel-while-hashing" {
			size = 34 << 20 // beyond the scanner's 1024 x 32 KiB preemption interval; sparse
		}
		full := fullPath(root, p)
		os.MkdirAll(filepath.Dir(full), 0o755)
		f, err := os.Create(full)
		if err != nil {
			r.Inconclusive("large file could not be created")
			return
		}
		f.WriteString(header + "|")
		if variant != "cancel-while-hashing" {
			f.Write(exactBytes(rng, int(size)-len(header)-1))
		}
		f.Truncate(size)
		f.Close()
		headerToPath[header] = p
		sizes[p] = size
		if variant == "cancel-while-hashing" && k >= 1 {
			nBig = k + 1
			break // two sparse giants are enough
		}
	}
	for k := 0; k < 3; k++ {
		os.WriteFile(fullPath(root, fmt.Sprintf("bigs/small%d", k)), fsx.UniqueToken(rng, 100+rng.Intn(2000)), 0o644)
	}
	c := c12Case{Index: index, RootKind: "directory", Entries: len(tree) + nBig + 3, Extras: []string{"interrupted hashing: " + variant}}
	if len(tree) <= 30 {
		c.Paths = describeTree(tree)
	}

	H := &countingHasher{Hash: sha1.New()}
	H.targetIndex = 1 + rng.Intn(nBig)
	H.targetWrite = int64(1 + rng.Intn(3))
	interfered := ""
	ctx, cancel := context.WithCancel(context.Background())
	defer cancel()
	H.action = func(header string) {
		p := headerToPath[header]
		interfered = p
		full := fullPath(root, p)
		switch variant {
		case "append-while-hashed":
			if f, err := os.OpenFile(full, os.O_WRONLY|os.O_APPEND, 0); err == nil {
				f.Write(exactBytes(rng, 1+rng.Intn(5000)))
				f.Close()
			}
		case "truncate-while-hashed":
			os.Truncate(full, int64(rng.Intn(int(sizes[p]/2))))
		default:
			cancel()
		}
	}
	fmt.Printf("C12 interrupted-hashing case %d %s: at Write %d of the %d. marked large file (of %d)\n", index, variant, H.targetWrite, H.targetIndex, nBig)

	wopts := fsx.WalkOptions{SymbolicLinkMode: sl, PermissionsMode: pm}
	witness := func(extra map[string]any) map[string]any {
		w := map[string]any{"case": c, "modes": modes, "variant": variant, "interfered_path": interfered,
			"hasher_calls": map[string]int64{"write": H.writes, "sum": H.sums, "reset": H.resets, "in_flight_writes_at_interference": H.inFlightAtFire}}
		for k, v := range extra {
			w[k] = v
		}
		return w
	}
	guard(r, witness(nil), func() {
		// ---- the scan during which hashing is interrupted (everything is hashed: no cache yet)
		st1, err1 := directScan(ctx, root, scfg, H, nil, nil)
		H.action = nil
		if !H.fired || interfered == "" {
			r.Count("interrupted_hashing_skipped:interference-point-not-reached", 1)
			return
		}
		var keep *fsx.ScanState // what the endpoint would keep for the next scan
		switch variant {
		case "cancel-while-hashing":
			if err1 == nil || H.inFlightAtFire < 1 {
				r.Count("interrupted_hashing_skipped:cancellation-not-observed", 1)
				return
			}
			c.Extras = append(c.Extras, "interrupted scan: "+err1.Error())
		default:
			if err1 != nil {
				r.Count("interrupted_hashing_skipped:scan-failed", 1)
				fmt.Printf("C12 interrupted-hashing case %d: scan failed: %v\n", index, err1)
				return
			}
			e := entryAt(st1.Snapshot.Content, interfered)
			if e == nil || e.Kind != core.EntryKind_Problematic {
				r.Count("interrupted_hashing_skipped:size-mismatch-not-observed", 1)
				return
			}
			c.Extras = append(c.Extras, fmt.Sprintf("interrupted file %q reported as: %s", interfered, e.Problem))
			// (a) the rest of THIS scan's snapshot describes the disk
			r.Eval(1)
			want, _, werr := fsx.Walk(root, wopts)
			if werr != nil {
				r.Inconclusive("independent walker failed")
				return
			}
			if ok, where := fsx.EqualLoose(withoutPath(want, interfered), withoutPath(st1.Snapshot.Content, interfered)); !ok {
				c12Violation(r, "interrupted-hashing:"+variant+":same-scan-content-differs", modes, c,
					fmt.Sprintf("hashing of %q was interrupted (%s); in the same scan the snapshot differs from the independent walk at %q: walker=%s scan=%s", interfered, variant, where, descAt(want, where), descAt(st1.Snapshot.Content, where)),
					witness(map[string]any{"path": where}))
			}
			keep = &fsx.ScanState{Cache: st1.Cache, IgnoreCache: st1.IgnoreCache}
		}
		r.Count("interrupted_hashing_observed:"+variant, 1)
		// ---- the tree is quiet now: a full scan with the SAME hasher object and
		// the caches the endpoint would hold must describe the disk everywhere
		r.Eval(1)
		st2, err := directScan(context.Background(), root, scfg, H, keep, nil)
		if err != nil {
			c12Violation(r, "interrupted-hashing:"+variant+":next-scan-error", modes, c, "full scan after an interrupted hashing failed: "+err.Error(), witness(nil))
			return
		}
		want, wstats, werr := fsx.Walk(root, wopts)
		if werr != nil {
			r.Inconclusive("independent walker failed")
			return
		}
		c12Compare(r, "interrupted-hashing:"+variant+":next-scan-", c, root, st2, modes, want, wstats, false)
		r.Distinct(fmt.Sprintf("interrupted-hashing|%s|write%d|%s|%s", variant, H.targetWrite, modes["symlinks"], modes["permissions"]))
		if index < 5 {
			r.Sample(witness(nil))
		}
	})
}
