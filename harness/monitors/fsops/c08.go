package main

import (
	"context"
	"crypto/sha1"
	"encoding/hex"
	"fmt"
	"math/rand"
	"os"
	"path/filepath"
	"sort"
	"strings"
	"sync/atomic"
	"syscall"
	"time"
	"unicode/utf8"

	"golang.org/x/sys/unix"

	"github.com/mutagen-io/mutagen/pkg/filesystem"
	"github.com/mutagen-io/mutagen/pkg/synchronization/core"

	"verif/internal/fsx"
	"verif/internal/vk"
)

// C08: tree -> real scan -> plan from the snapshot -> interference on planned
// paths -> real core.Transition. Every interfered object must be exactly as the
// interference left it and a problem must name it or an ancestor inside the
// same transition.

// stagingProvider implements core.Provider over a directory of staged files.
type stagingProvider struct {
	dir   string
	calls int64
}

func (p *stagingProvider) name(path string, digest []byte) string {
	h := sha1.Sum([]byte(path))
	return filepath.Join(p.dir, hex.EncodeToString(h[:8])+"_"+hex.EncodeToString(digest))
}
func (p *stagingProvider) Provide(path string, digest []byte) (string, error) {
	atomic.AddInt64(&p.calls, 1)
	return p.name(path, digest), nil
}
func (p *stagingProvider) stage(path string, content []byte) ([]byte, error) {
	d := fsx.Sha1(content)
	return d, os.WriteFile(p.name(path, d), content, 0o600)
}

type interference struct {
	Kind  string `json:"kind"`
	Path  string `json:"path"`
	After *obs   `json:"left_as"`
}

type plannedTransition struct {
	Kind   string         `json:"kind"`
	Path   string         `json:"path"`
	Old    string         `json:"old"`
	New    string         `json:"new"`
	Interf []interference `json:"interference,omitempty"`
	change *core.Change
	// touched: the harness modified (or could not map) something inside this
	// transition without recording a judged interference; such a transition is
	// exempt from the "clean transitions are carried out" sanity check.
	touched bool
}

type c08Case struct {
	Index       int                  `json:"case"`
	Unpriv      bool                 `json:"unprivileged"`
	Symlinks    string               `json:"symlinks"`
	Patterns    []string             `json:"patterns"`
	CrossDevice bool                 `json:"staging_on_other_device"`
	TwoScans    string               `json:"second_scan,omitempty"`
	ChmodBefore map[string]string    `json:"chmod_between_first_and_second_scan,omitempty"`
	Tree        []string             `json:"tree,omitempty"`
	Plan        []*plannedTransition `json:"plan"`
	Obstacles   []string             `json:"read_only_directories,omitempty"`
}

func c08() {
	r := vk.Start("C08", "exploration")
	scratch := r.Scratch()
	shm := os.Getenv("VERIF_SHM")
	if shm == "" {
		shm = fmt.Sprintf("/dev/shm/verif-fsops-%d", os.Getpid())
	}
	shm = filepath.Join(shm, "C08")
	os.MkdirAll(shm, 0o755)
	defer forceRemove(shm)
	c08Cases(r, r, filepath.Join(scratch, "priv"), filepath.Join(shm, "priv"), false)
	udir, ushm := filepath.Join(scratch, "unpriv"), filepath.Join(shm, "unpriv")
	runUnprivChild(r, "c08-unpriv", map[string]string{"VERIF_CHILD_DIR": udir, "VERIF_CHILD_SHM": ushm}, udir, ushm)
	forceRemove(udir)
	forceRemove(shm)
	c08Endpoint(r, filepath.Join(scratch, "endpoint"))

	r.Assume("interference happens strictly between the scan and the transition (the documented check-to-unlink race windows are not attacked)")
	r.Assume("every interference changes at least one of type, permission bits, size, mtime, inode or link target (replacement by a new inode is asserted to have changed the inode number)")
	r.Assume("plans are built from the scan's synchronizable content (what reconciliation hands to Transition); unsynchronizable content on disk counts as content the plan does not know about")
	r.Assume("endpoint level: the background poll watcher has rescanned after the interference when its poll signal arrived and two more polling intervals passed while a 20 ms heartbeat showed no gap of 1 s or more; otherwise the case is inconclusive")
	if r.Counter("interferences_checked") == 0 {
		r.Inconclusive("no interference was applied")
	}
	if r.Counter("clean_transitions_verified_done") == 0 {
		r.Inconclusive("no non-interfered transition was verified (sanity)")
	}
	r.Finish("random disk trees scanned by the real core.Scan; plans of 1..6 disjoint transitions built from the snapshot (remove file/link/directory, swap file content or executability with staged content from a harness Provider on the same or another device, kind changes, creations); 0..3 interferences between scan and transition (in-place edit with unique token and mtime bump, same-size edit, same-size edit whose mtime differs only in the nanoseconds, chmod, replacement by a new inode of identical size/mtime/mode, link retarget (also of links with 129..247-byte targets to a target sharing the first 128 bytes), new child (also with a .mutagen-temporary- name) in a directory scheduled for removal, chmod back to the mode an earlier scan saw (scan1; chmod; scan2 re-using scan1's cache; plan from scan2; chmod back), file replaced by directory, object appearing at a planned creation path) plus pre-existing unsynchronizable or unlisted (temporary-named) content; real core.Transition as root and as uid 65534 (there with read-only directories); afterwards each interfered object is re-observed (lstat, sha1, readlink, recursive listing) and the problems are searched for its path; transitions without interference must report and reach their target (root runs); plus the same cycle through a real local endpoint with poll-based watching at a 1 s interval, accelerated scanning on and off (Scan, plan from the returned snapshot, Stage with rsync transfer, interference, the watcher's poll signal plus two further polling intervals, Transition); distinct = (uid, transition kind, interference kind, depth below the transition root, staging device)", 40)
}

func c08Cases(out rec, run *vk.Run, dir, shm string, unpriv bool) {
	n := run.Pick(600, 30000)
	workers := workerCount()
	if unpriv {
		n = run.Pick(200, 6000)
		if workers > 4 {
			workers = 4
		}
	}
	os.MkdirAll(dir, 0o755)
	os.MkdirAll(shm, 0o755)
	parallel(workers, func(w int) {
		for i := w; i < n; i += workers {
			rng := run.Rand(fmt.Sprintf("c08-%v-%d", unpriv, i))
			base := filepath.Join(dir, fmt.Sprintf("t%d", i))
			sbase := filepath.Join(shm, fmt.Sprintf("t%d", i))
			c08One(out, rng, i, base, sbase, unpriv)
			forceRemove(base)
			forceRemove(sbase)
		}
	})
}

var c08Counter int64

func uniq() int64 { return atomic.AddInt64(&c08Counter, 1) }

func c08One(out rec, rng *rand.Rand, index int, base, sbase string, unpriv bool) {
	root := filepath.Join(base, "root")
	c := &c08Case{Index: index, Unpriv: unpriv}
	sl := core.SymbolicLinkMode_SymbolicLinkModePortable
	if rng.Intn(2) == 0 {
		sl = core.SymbolicLinkMode_SymbolicLinkModePOSIXRaw
	}
	c.Symlinks = slName(sl)
	if rng.Intn(3) == 0 {
		c.Patterns = []string{"*.o"}
	}
	c.CrossDevice = rng.Intn(2) == 0
	stagingDir := filepath.Join(base, "staging")
	if c.CrossDevice {
		stagingDir = filepath.Join(sbase, "staging")
	}
	if err := os.MkdirAll(stagingDir, 0o700); err != nil {
		out.Inconclusive("staging directory could not be created")
		return
	}
	prov := &stagingProvider{dir: stagingDir}

	tree := fsx.RandomTree(rng, fsx.TreeConfig{MaxEntries: 8 + rng.Intn(40), MaxDepth: 1 + rng.Intn(4), MaxFileSize: 8 << 10,
		Links: true, Fifos: rng.Intn(2) == 0, NonUTF8: rng.Intn(4) == 0, Temporaries: rng.Intn(3) == 0})
	if err := fsx.Materialize(root, tree); err != nil {
		out.Inconclusive("tree could not be materialized")
		return
	}
	c.Tree = describeTree(tree)
	// links whose targets are longer than the 128-byte initial readlink buffer
	// (and valid in portable mode: at most 247 bytes, staying inside the root)
	var longLinks []string
	if rng.Intn(2) == 0 {
		ldirs := []string{""}
		for p, nd := range tree {
			if nd.Kind == fsx.KDir && utf8.ValidString(p) {
				ldirs = append(ldirs, p)
			}
		}
		sort.Strings(ldirs)
		for k := 1 + rng.Intn(3); k > 0; k-- {
			d := ldirs[rng.Intn(len(ldirs))]
			L := 129 + rng.Intn(119)
			target := strings.Repeat("n/", (L-1)/2) + "n"
			for len(target) < L {
				target += "n"
			}
			p := join(d, fmt.Sprintf("longlink%d", k))
			if os.Symlink(target, fullPath(root, p)) == nil {
				longLinks = append(longLinks, p)
				c.Tree = append(c.Tree, fmt.Sprintf("%q link with %d-byte target", p, L))
			}
		}
	}
	scfg := fsx.ScanConfig{Patterns: c.Patterns, ProbeMode: probeModes[rng.Intn(2)], SymbolicLinkMode: sl, PermissionsMode: core.PermissionsMode_PermissionsModePortable}
	st, err := fsx.Cold(root, scfg)
	if err != nil || st.Snapshot.Content == nil || st.Snapshot.Content.Kind != core.EntryKind_Directory {
		out.Inconclusive("scan before the plan failed")
		return
	}
	// Multi-scan sequence: scan1 (above); chmod some files without touching
	// their content; scan2 re-using scan1's digest cache (and possibly scan1 as
	// baseline). The plan is built from scan2. Later the files are chmod-ed
	// back, so they differ from what scan2 recorded but equal what scan1 did.
	modeBefore := map[string]uint32{}
	if rng.Intn(3) == 0 {
		var files []string
		for p, e := range st.Cache.Entries {
			if p != "" && e != nil {
				files = append(files, p)
			}
		}
		sort.Strings(files)
		rng.Shuffle(len(files), func(i, j int) { files[i], files[j] = files[j], files[i] })
		recheck := map[string]bool{}
		for _, p := range files {
			if len(modeBefore) >= 5 {
				break
			}
			var lst syscall.Stat_t
			if syscall.Lstat(fullPath(root, p), &lst) != nil {
				continue
			}
			bit := []uint32{0o100, 0o010, 0o001, 0o020, 0o002, 0o040, 0o004}[rng.Intn(7)]
			if os.Chmod(fullPath(root, p), os.FileMode((lst.Mode&0o777)^bit)) == nil {
				modeBefore[p] = lst.Mode & 0o777
				recheck[p] = true
			}
		}
		if len(modeBefore) > 0 {
			c.ChmodBefore = map[string]string{}
			for p, m := range modeBefore {
				c.ChmodBefore[p] = fmt.Sprintf("%o at scan1, one bit flipped before scan2", m)
			}
			prev := &fsx.ScanState{Cache: st.Cache, IgnoreCache: st.IgnoreCache}
			c.TwoScans = "scan2 with scan1's digest cache, no baseline"
			if rng.Intn(2) == 0 {
				prev.Snapshot = st.Snapshot
				c.TwoScans = "scan2 with scan1 as baseline and its digest cache, chmod-ed paths as recheck paths"
			}
			st2, err := fsx.Accelerated(root, scfg, prev, recheck)
			if err != nil || st2.Snapshot.Content == nil || st2.Snapshot.Content.Kind != core.EntryKind_Directory {
				out.Inconclusive("second scan before the plan failed")
				return
			}
			st = st2
		}
	}
	snap := st.Snapshot.Content

	// ---- plan
	type cand struct {
		path string
		e    *core.Entry
	}
	var cands []cand
	var dirs []string
	walkEntry("", snap, func(p string, e *core.Entry) {
		if e.Kind == core.EntryKind_Directory {
			dirs = append(dirs, p)
		}
		if p == "" {
			return
		}
		switch e.Kind {
		case core.EntryKind_File, core.EntryKind_SymbolicLink, core.EntryKind_Directory:
			cands = append(cands, cand{p, e})
		}
	})
	rng.Shuffle(len(cands), func(i, j int) { cands[i], cands[j] = cands[j], cands[i] })
	if len(modeBefore) > 0 { // candidates that contain a chmod-ed file go first
		sort.SliceStable(cands, func(i, j int) bool {
			has := func(c cand) bool {
				for p := range modeBefore {
					if atOrBelow(p, c.path) {
						return true
					}
				}
				return false
			}
			return has(cands[i]) && !has(cands[j])
		})
	}
	want := 1 + rng.Intn(6)
	var plan []*plannedTransition
	disjoint := func(p string) bool {
		for _, t := range plan {
			if related(t.Path, p) {
				return false
			}
		}
		return true
	}
	newFile := func(path string) *core.Entry {
		content := fsx.UniqueToken(rng, 1+rng.Intn(3000))
		d, err := prov.stage(path, content)
		if err != nil {
			return nil
		}
		return &core.Entry{Kind: core.EntryKind_File, Digest: d, Executable: rng.Intn(3) == 0}
	}
	newLink := func() *core.Entry {
		return &core.Entry{Kind: core.EntryKind_SymbolicLink, Target: []string{"a", "file.txt", "sub/x", "b"}[rng.Intn(4)]}
	}
	var newDir func(path string, depth int) *core.Entry
	newDir = func(path string, depth int) *core.Entry {
		e := &core.Entry{Kind: core.EntryKind_Directory}
		for k := rng.Intn(4); k > 0; k-- {
			name := fmt.Sprintf("n%d", k)
			if e.Contents == nil {
				e.Contents = map[string]*core.Entry{}
			}
			switch rng.Intn(4) {
			case 0:
				if depth < 2 {
					e.Contents[name] = newDir(path+"/"+name, depth+1)
					continue
				}
				fallthrough
			case 1:
				e.Contents[name] = newLink()
			default:
				if f := newFile(path + "/" + name); f != nil {
					e.Contents[name] = f
				}
			}
		}
		return e
	}
	for _, cd := range cands {
		if len(plan) >= want {
			break
		}
		if !disjoint(cd.path) {
			continue
		}
		t := &plannedTransition{Path: cd.path}
		old := syncFilter(cd.e)
		switch cd.e.Kind {
		case core.EntryKind_File:
			switch rng.Intn(6) {
			case 0, 1:
				t.Kind, t.change = "remove-file", &core.Change{Path: cd.path, Old: old}
			case 2, 3:
				nf := newFile(cd.path)
				if nf == nil {
					continue
				}
				t.Kind, t.change = "swap-file", &core.Change{Path: cd.path, Old: old, New: nf}
			case 4:
				t.Kind, t.change = "swap-executability", &core.Change{Path: cd.path, Old: old,
					New: &core.Entry{Kind: core.EntryKind_File, Digest: old.Digest, Executable: !old.Executable}}
			default:
				if rng.Intn(2) == 0 {
					t.Kind, t.change = "file-to-directory", &core.Change{Path: cd.path, Old: old, New: newDir(cd.path, 0)}
				} else {
					t.Kind, t.change = "file-to-link", &core.Change{Path: cd.path, Old: old, New: newLink()}
				}
			}
		case core.EntryKind_SymbolicLink:
			if rng.Intn(3) == 0 {
				nf := newFile(cd.path)
				if nf == nil {
					continue
				}
				t.Kind, t.change = "link-to-file", &core.Change{Path: cd.path, Old: old, New: nf}
			} else {
				t.Kind, t.change = "remove-link", &core.Change{Path: cd.path, Old: old}
			}
		case core.EntryKind_Directory:
			if rng.Intn(4) == 0 {
				nf := newFile(cd.path)
				if nf == nil {
					continue
				}
				t.Kind, t.change = "directory-to-file", &core.Change{Path: cd.path, Old: old, New: nf}
			} else {
				t.Kind, t.change = "remove-directory", &core.Change{Path: cd.path, Old: old}
			}
		}
		plan = append(plan, t)
	}
	// long links that no planned transition covers get a removal of their own
	for _, p := range longLinks {
		e := entryAt(snap, p)
		if e == nil || e.Kind != core.EntryKind_SymbolicLink || !disjoint(p) {
			continue
		}
		plan = append(plan, &plannedTransition{Kind: "remove-link", Path: p, change: &core.Change{Path: p, Old: syncFilter(e)}})
	}
	// creations at fresh paths
	for k := rng.Intn(3); k > 0 && len(dirs) > 0; k-- {
		d := dirs[rng.Intn(len(dirs))]
		p := join(d, fmt.Sprintf("created%d", k))
		if !disjoint(p) || entryAt(snap, p) != nil {
			continue
		}
		t := &plannedTransition{Path: p}
		switch rng.Intn(3) {
		case 0:
			nf := newFile(p)
			if nf == nil {
				continue
			}
			t.Kind, t.change = "create-file", &core.Change{Path: p, New: nf}
		case 1:
			t.Kind, t.change = "create-directory", &core.Change{Path: p, New: newDir(p, 0)}
		default:
			t.Kind, t.change = "create-link", &core.Change{Path: p, New: newLink()}
		}
		plan = append(plan, t)
	}
	if len(plan) == 0 {
		out.Count("cases_without_plan", 1)
		return
	}
	for _, t := range plan {
		t.Old, t.New = kindName(t.change.Old), kindName(t.change.New)
	}
	c.Plan = plan

	// ---- interference between scan and transition
	used := map[string]bool{}
	{
		var ps []string
		for p := range modeBefore {
			ps = append(ps, p)
		}
		sort.Strings(ps)
		for _, p := range ps {
			e := entryAt(snap, p)
			if e == nil || e.Kind != core.EntryKind_File {
				continue
			}
			for _, t := range plan {
				if t.change.Old != nil && atOrBelow(p, t.Path) {
					t.touched = true
					if os.Chmod(fullPath(root, p), os.FileMode(modeBefore[p])) == nil {
						used[p] = true
						t.Interf = append(t.Interf, interference{Kind: "chmod-back-to-mode-of-earlier-scan", Path: p, After: observe(fullPath(root, p))})
						out.Count("interference:chmod-back-to-mode-of-earlier-scan", 1)
					}
				}
			}
		}
	}
	for _, p := range longLinks {
		e := entryAt(snap, p)
		if e == nil || e.Kind != core.EntryKind_SymbolicLink || used[p] || rng.Intn(4) == 0 {
			continue
		}
		for _, t := range plan {
			if t.change.Old == nil || !atOrBelow(p, t.Path) {
				continue
			}
			full := fullPath(root, p)
			cur, err := os.Readlink(full)
			if err != nil || len(cur) <= 128 {
				continue
			}
			// same first 128 bytes (and same length), different afterwards
			retargeted := cur[:len(cur)-1] + "m"
			t.touched = true
			if os.Remove(full) != nil || os.Symlink(retargeted, full) != nil {
				continue
			}
			used[p] = true
			t.Interf = append(t.Interf, interference{Kind: "retarget-link-sharing-first-128-bytes", Path: p, After: observe(full)})
			out.Count("interference:retarget-link-sharing-first-128-bytes|"+c.Symlinks, 1)
		}
	}
	if index%5 != 0 {
		for _, t := range plan {
			if t.change.Old != nil && t.change.Old.Kind == core.EntryKind_Directory && rng.Intn(3) == 0 {
				if it := c08TemporaryChild(rng, root, snap, t, used); it != nil {
					t.Interf = append(t.Interf, *it)
					out.Count("interference:"+it.Kind, 1)
				}
			}
		}
	}
	nInterf := rng.Intn(4)
	if index%5 == 0 {
		nInterf = 0 // keep a share of completely clean plans for the sanity check
	}
	order := rng.Perm(len(plan))
	for _, ti := range order {
		if nInterf == 0 {
			break
		}
		t := plan[ti]
		for k := 1 + rng.Intn(2); k > 0 && nInterf > 0; k-- {
			if it := c08Interfere(rng, root, snap, t, used, unpriv); it != nil {
				t.Interf = append(t.Interf, *it)
				nInterf--
				out.Count("interference:"+it.Kind, 1)
				if it.Kind == "retarget-link" {
					out.Count("interference:retarget-link|"+c.Symlinks, 1)
				}
			}
		}
	}
	// content on disk that the plan does not know about (untracked, problematic)
	for _, t := range plan {
		if t.change.Old == nil || t.change.Old.Kind != core.EntryKind_Directory {
			continue
		}
		walkEntry(t.Path, entryAt(snap, t.Path), func(p string, e *core.Entry) {
			if (e.Kind == core.EntryKind_Untracked || e.Kind == core.EntryKind_Problematic) && !used[p] {
				full := c08DiskPath(root, p)
				if full == "" {
					t.touched = true
					return
				}
				for q := range used {
					if atOrBelow(p, q) {
						return // lives inside something an interference replaced
					}
				}
				used[p] = true
				t.Interf = append(t.Interf, interference{Kind: "pre-existing-" + kindName(e), Path: p, After: observe(full)})
				out.Count("interference:pre-existing-"+kindName(e), 1)
			}
		})
	}
	// disk objects below a directory transition that the snapshot does not
	// list at all: names with the temporary prefix (scans skip them, so no plan
	// can know them) and the raw spelling of non-UTF-8 names
	for _, t := range plan {
		if t.change.Old == nil || t.change.Old.Kind != core.EntryKind_Directory {
			continue
		}
		var rec func(rel string)
		rec = func(rel string) {
			ents, err := os.ReadDir(fullPath(root, rel))
			if err != nil {
				return
			}
			for _, de := range ents {
				p := join(rel, de.Name())
				skip := false
				for q := range used {
					if atOrBelow(p, q) {
						skip = true
					}
				}
				if skip {
					continue
				}
				e := entryAt(snap, p)
				if e == nil {
					kind := "pre-existing-unlisted"
					if strings.HasPrefix(de.Name(), tempPrefix) {
						kind = "pre-existing-temporary-name"
					}
					used[p] = true
					t.Interf = append(t.Interf, interference{Kind: kind, Path: p, After: observe(fullPath(root, p))})
					out.Count("interference:"+kind, 1)
					continue
				}
				if e.Kind == core.EntryKind_Directory && de.IsDir() {
					rec(p)
				}
			}
		}
		rec(t.Path)
	}
	// unprivileged runs: some directories become read-only so that genuine
	// permission failures occur as well
	if unpriv && rng.Intn(2) == 0 {
		for k := 1 + rng.Intn(2); k > 0 && len(dirs) > 0; k-- {
			d := dirs[rng.Intn(len(dirs))]
			if fi, err := os.Lstat(fullPath(root, d)); err == nil && fi.IsDir() {
				if os.Chmod(fullPath(root, d), 0o555) == nil {
					c.Obstacles = append(c.Obstacles, d)
				}
			}
		}
		// re-observe interfered directories whose mode this may have changed
		for _, t := range plan {
			for i := range t.Interf {
				t.Interf[i].After = observe(c08Full(root, t.Interf[i].Path))
			}
		}
	}

	fmt.Printf("C08 case %d unpriv=%v %s\n", index, unpriv, vk.JSON(c))

	// ---- the real transition
	changes := make([]*core.Change, len(plan))
	for i, t := range plan {
		changes[i] = t.change
	}
	ownership, _ := filesystem.NewOwnershipSpecification("", "")
	var results []*core.Entry
	var problems []*core.Problem
	ran := false
	guard(out, c, func() {
		ctx, cancel := context.WithTimeout(context.Background(), 10*time.Minute)
		defer cancel()
		results, problems, _ = core.Transition(ctx, root, changes, st.Cache, sl, 0o600, 0o700, ownership, st.Snapshot.DecomposesUnicode, prov)
		ran = true
	})
	out.Eval(1)
	if !ran {
		return
	}
	// make everything observable again
	for _, d := range c.Obstacles {
		os.Chmod(fullPath(root, d), 0o755)
	}
	witness := func(extra map[string]any) map[string]any {
		w := map[string]any{"case": c, "problems": describeProblems(problems)}
		for k, v := range extra {
			w[k] = v
		}
		return w
	}
	if len(results) != len(changes) {
		out.Violation(map[string]string{"rule": "result-count"}, fmt.Sprintf("%d results for %d transitions", len(results), len(changes)), witness(nil))
		return
	}
	uid := "0"
	if unpriv {
		uid = "65534"
	}
	out.Count("cases_uid_"+uid, 1)
	if len(c.Obstacles) > 0 {
		out.Count("cases_with_read_only_directories", 1)
	}
	for _, p := range problems {
		if unpriv && strings.Contains(p.Error, "permission denied") {
			out.Count("unprivileged_permission_denied_problems", 1)
		}
	}
	for i, t := range plan {
		// ---- the property: interfered objects survive and are reported
		for _, it := range t.Interf {
			out.Count("interferences_checked", 1)
			now := observe(c08Full(root, it.Path))
			if len(c.Obstacles) > 0 {
				// obstacle chmod was reverted above; compare modulo directory mode
				stripDirModes(now)
				stripDirModes(it.After)
			}
			depth := strings.Count(it.Path, "/") - strings.Count(t.Path, "/")
			out.Distinct(fmt.Sprintf("%s|%s|%s|%d|%v", uid, t.Kind, it.Kind, depth, c.CrossDevice))
			if same, why := equalObs(it.After, now); !same {
				out.Violation(map[string]string{"rule": "interfered-object-destroyed", "interference": it.Kind, "transition": t.Kind, "uid": uid},
					fmt.Sprintf("%s at %q (inside transition %s of %q) was not left as the interference left it: %s", it.Kind, it.Path, t.Kind, t.Path, why),
					witness(map[string]any{"path": it.Path, "now": now}))
				continue
			}
			// a problem may spell a non-UTF-8 name in a valid-UTF-8 form (raw
			// bytes cannot travel in the problem list)
			reported := false
			for _, p := range problems {
				for _, spelled := range pathSpellings(it.Path) {
					if atOrBelow(spelled, p.Path) && atOrBelow(p.Path, t.Path) {
						reported = true
					}
				}
			}
			if !reported {
				out.Violation(map[string]string{"rule": "interference-not-reported", "interference": it.Kind, "transition": t.Kind, "uid": uid},
					fmt.Sprintf("%s at %q survived, but no problem names it or an ancestor inside transition %s of %q", it.Kind, it.Path, t.Kind, t.Path),
					witness(map[string]any{"path": it.Path}))
			}
		}
		// ---- sanity: transitions without interference are done and say so
		if len(t.Interf) == 0 && !t.touched && len(c.Obstacles) == 0 {
			var mine []string
			for _, p := range problems {
				if related(p.Path, t.Path) {
					mine = append(mine, p.Path+": "+p.Error)
				}
			}
			onDisk, _, werr := fsx.Walk(c08Full(root, t.Path), fsx.WalkOptions{SymbolicLinkMode: core.SymbolicLinkMode_SymbolicLinkModePOSIXRaw, PermissionsMode: core.PermissionsMode_PermissionsModePortable})
			same, where := fsx.EqualLoose(t.change.New, onDisk)
			if len(mine) > 0 || werr != nil || !same || !results[i].Equal(t.change.New, true) {
				out.Violation(map[string]string{"rule": "clean-transition-not-done", "transition": t.Kind, "uid": uid},
					fmt.Sprintf("transition %s of %q had no interference but was not carried out (problems %v, disk differs from target at %q: %s, result=%s)", t.Kind, t.Path, mine, where, descAt(onDisk, where), kindName(results[i])),
					witness(nil))
			} else {
				out.Count("clean_transitions_verified_done", 1)
				out.Distinct(fmt.Sprintf("%s|%s|clean|%v", uid, t.Kind, c.CrossDevice))
			}
		}
	}
	out.Count("provider_calls", atomic.LoadInt64(&prov.calls))
	out.Count("problems_reported", int64(len(problems)))
	if index%41 == 7 && len(tree) <= 25 {
		out.Sample(map[string]any{"case": c, "problems": describeProblems(problems)})
	}
}

// pathSpellings returns the ways a disk path may legitimately be spelled in a
// problem: as it is, with invalid bytes replaced by U+FFFD, or with the
// snapshot's escaped name for non-UTF-8 components.
func pathSpellings(p string) []string {
	if utf8.ValidString(p) {
		return []string{p}
	}
	comps := strings.Split(p, "/")
	for i, c := range comps {
		if !utf8.ValidString(c) {
			comps[i] = fsx.EscapeName(c)
		}
	}
	return []string{p, strings.ToValidUTF8(p, "\uFFFD"), strings.Join(comps, "/")}
}

func stripDirModes(o *obs) {
	if o == nil {
		return
	}
	if o.Kind == "dir" {
		o.Mode = 0
	}
	for _, c := range o.Children {
		stripDirModes(c)
	}
}

func c08Full(root, p string) string { return fullPath(root, p) }

// c08DiskPath returns the disk path of snapshot path p, or "" if one of its
// components is an escaped (non-UTF-8) name that cannot be mapped back.
func c08DiskPath(root string, p string) string {
	if strings.Contains(p, " (non-UTF-8)") {
		return ""
	}
	return fullPath(root, p)
}

// c08TemporaryChild makes a child with a Mutagen temporary name appear in the
// directory of transition t or one level deeper. Scans never list such names,
// so no plan can know them. The families are the ones mutagen itself creates
// (cross-device rename temporaries of Transition, atomic-write temporaries,
// staging roots, behaviour probe files) plus a generic one.
func c08TemporaryChild(rng *rand.Rand, root string, snap *core.Entry, t *plannedTransition, used map[string]bool) *interference {
	top := entryAt(snap, t.Path)
	if t.change.Old == nil || top == nil || top.Kind != core.EntryKind_Directory {
		return nil
	}
	usable := func(p string) bool {
		for q := range used {
			if atOrBelow(p, q) {
				return false
			}
		}
		fi, err := os.Lstat(fullPath(root, p))
		return err == nil && fi.IsDir()
	}
	dirPath := t.Path
	if rng.Intn(2) == 0 {
		var deeper []string
		for n, e := range top.Contents {
			if e.Kind == core.EntryKind_Directory && utf8.ValidString(n) && usable(join(t.Path, n)) {
				deeper = append(deeper, join(t.Path, n))
			}
		}
		sort.Strings(deeper)
		if len(deeper) > 0 {
			dirPath = deeper[rng.Intn(len(deeper))]
		}
	}
	if !usable(dirPath) {
		return nil
	}
	families := []struct{ label, name string }{
		{"cross-device-rename", fmt.Sprintf("%scross-device-rename%d", tempPrefix, rng.Int63())},
		{"atomic-write", fmt.Sprintf("%satomic-write%d", tempPrefix, rng.Int31())},
		{"staging", fmt.Sprintf("%sstaging-sync_%d-%s", tempPrefix, uniq(), []string{"alpha", "beta"}[rng.Intn(2)])},
		{"executability-test", fmt.Sprintf("%sexecutability-test%d", tempPrefix, rng.Int31())},
		{"unicode-test", fmt.Sprintf("%sunicode-test-\xc3\xa9ntry%d", tempPrefix, rng.Int31())},
		{"generic", fmt.Sprintf("%sverif-%d", tempPrefix, uniq())},
	}
	fam := families[rng.Intn(len(families))]
	where := "top"
	if dirPath != t.Path {
		where = "deeper"
	}
	cf, p := filepath.Join(fullPath(root, dirPath), fam.name), join(dirPath, fam.name)
	t.touched = true
	kind := "new-child-temporary-file:" + fam.label + ":" + where
	if fam.label == "staging" && rng.Intn(2) == 0 {
		// a staging root is a directory holding staged files
		if os.Mkdir(cf, 0o700) != nil {
			return nil
		}
		os.WriteFile(filepath.Join(cf, "staged"), fsx.UniqueToken(rng, 30), 0o600)
		kind = "new-child-temporary-directory:staging:" + where
	} else if os.WriteFile(cf, fsx.UniqueToken(rng, 30), 0o600) != nil {
		return nil
	}
	used[p] = true
	return &interference{Kind: kind, Path: p, After: observe(cf)}
}

// exactBytes returns exactly n pseudo-random letters.
func exactBytes(rng *rand.Rand, n int) []byte {
	b := make([]byte, n)
	for i := range b {
		b[i] = byte('A' + rng.Intn(26))
	}
	return b
}

// c08Interfere applies one interference inside transition t and returns it.
// Whenever it starts modifying the disk it marks t as touched; an interference
// is recorded (and judged) only if it was applied completely.
func c08Interfere(rng *rand.Rand, root string, snap *core.Entry, t *plannedTransition, used map[string]bool, unpriv bool) *interference {
	free := func(p string) bool {
		for q := range used {
			if related(p, q) {
				return false
			}
		}
		return true
	}
	done := func(kind, path, full string) *interference {
		used[path] = true
		return &interference{Kind: kind, Path: path, After: observe(full)}
	}
	// creation: something appears at the planned path
	if t.change.Old == nil {
		if !free(t.Path) {
			return nil
		}
		full := fullPath(root, t.Path)
		t.touched = true
		switch rng.Intn(3) {
		case 0:
			if os.Mkdir(full, 0o755) != nil {
				return nil
			}
			os.WriteFile(filepath.Join(full, "inner"), fsx.UniqueToken(rng, 40), 0o644)
			return done("appeared-directory", t.Path, full)
		case 1:
			if os.Symlink("appeared-target", full) != nil {
				return nil
			}
			return done("appeared-link", t.Path, full)
		default:
			if os.WriteFile(full, fsx.UniqueToken(rng, 10+rng.Intn(500)), 0o644) != nil {
				return nil
			}
			return done("appeared-file", t.Path, full)
		}
	}
	// pick the object: the transition root or something below it
	type option struct {
		kind string
		path string
	}
	var opts []option
	walkEntry(t.Path, entryAt(snap, t.Path), func(p string, e *core.Entry) {
		if strings.Contains(p, " (non-UTF-8)") {
			return
		}
		switch e.Kind {
		case core.EntryKind_File:
			if free(p) {
				opts = append(opts, option{"file", p})
			}
		case core.EntryKind_SymbolicLink:
			if free(p) {
				opts = append(opts, option{"link", p})
			}
		case core.EntryKind_Directory:
			// a new child may be added unless the directory lies inside
			// something an interference replaced
			ok := true
			for q := range used {
				if atOrBelow(p, q) {
					ok = false
				}
			}
			if ok {
				opts = append(opts, option{"dir", p})
			}
		}
	})
	if len(opts) == 0 {
		return nil
	}
	o := opts[rng.Intn(len(opts))]
	full := fullPath(root, o.path)
	switch o.kind {
	case "link":
		t.touched = true
		if os.Remove(full) != nil {
			return nil
		}
		if os.Symlink(fmt.Sprintf([]string{"retarget-%d", "/abs/retarget-%d", "../../../../up-%d", "a/../b/%d"}[rng.Intn(4)], uniq()), full) != nil {
			return nil
		}
		return done("retarget-link", o.path, full)
	case "dir":
		name := fmt.Sprintf("verif-unknown-%d", uniq())
		cf := filepath.Join(full, name)
		p := join(o.path, name)
		t.touched = true
		switch rng.Intn(4) {
		case 3:
			return c08TemporaryChild(rng, root, snap, t, used)
		case 0:
			if os.Mkdir(cf, 0o755) != nil {
				return nil
			}
			return done("new-child-directory", p, cf)
		case 1:
			if os.Symlink("x", cf) != nil {
				return nil
			}
			return done("new-child-link", p, cf)
		default:
			if os.WriteFile(cf, fsx.UniqueToken(rng, 30), 0o644) != nil {
				return nil
			}
			return done("new-child-file", p, cf)
		}
	}
	// file
	var st syscall.Stat_t
	if syscall.Lstat(full, &st) != nil || st.Mode&syscall.S_IFMT != syscall.S_IFREG {
		return nil
	}
	perm := os.FileMode(st.Mode & 0o777)
	switch rng.Intn(6) {
	case 5: // in-place rewrite, same size and mode, mtime in the SAME second with other nanoseconds
		if st.Size == 0 {
			return nil
		}
		t.touched = true
		os.Chmod(full, perm|0o200)
		if os.WriteFile(full, exactBytes(rng, int(st.Size)), 0) != nil {
			return nil
		}
		os.Chmod(full, perm)
		nsec := (st.Mtim.Nsec + 1 + rng.Int63n(999_999_998)) % 1_000_000_000
		ts := []unix.Timespec{{Sec: st.Atim.Sec, Nsec: st.Atim.Nsec}, {Sec: st.Mtim.Sec, Nsec: nsec}}
		if nsec == st.Mtim.Nsec || unix.UtimesNanoAt(unix.AT_FDCWD, full, ts, unix.AT_SYMLINK_NOFOLLOW) != nil {
			return nil
		}
		var nst syscall.Stat_t
		if syscall.Lstat(full, &nst) != nil || nst.Mtim.Sec != st.Mtim.Sec || nst.Mtim.Nsec == st.Mtim.Nsec || nst.Size != st.Size || nst.Mode != st.Mode || nst.Ino != st.Ino {
			return nil
		}
		return done("edit-same-second-other-nanoseconds", o.path, full)
	case 0: // in-place edit, other size, mtime bumped
		t.touched = true
		os.Chmod(full, perm|0o200)
		if os.WriteFile(full, exactBytes(rng, int(st.Size)+1+rng.Intn(50)), 0) != nil {
			return nil
		}
		os.Chmod(full, perm)
		if fsx.BumpMtime(full) != nil {
			return nil
		}
		return done("edit", o.path, full)
	case 1: // in-place edit of identical size: only the mtime tells
		if st.Size == 0 {
			return nil
		}
		t.touched = true
		os.Chmod(full, perm|0o200)
		if os.WriteFile(full, exactBytes(rng, int(st.Size)), 0) != nil {
			return nil
		}
		os.Chmod(full, perm)
		if fsx.BumpMtime(full) != nil {
			return nil
		}
		return done("edit-same-size", o.path, full)
	case 2: // chmod (owner read is kept so that the object stays observable)
		bit := []uint32{0o100, 0o010, 0o001, 0o020, 0o002, 0o040, 0o004}[rng.Intn(7)]
		t.touched = true
		if os.Chmod(full, os.FileMode((st.Mode&0o777)^bit)) != nil {
			return nil
		}
		return done("chmod", o.path, full)
	case 3: // replacement by a new inode with identical size, mtime and mode
		tmp := filepath.Join(filepath.Dir(full), fmt.Sprintf("verif-swap-%d", uniq()))
		if os.WriteFile(tmp, exactBytes(rng, int(st.Size)), 0o600) != nil {
			return nil
		}
		var tst syscall.Stat_t
		if syscall.Lstat(tmp, &tst) != nil || tst.Ino == st.Ino || tst.Size != st.Size {
			os.Remove(tmp)
			return nil
		}
		os.Chmod(tmp, os.FileMode(st.Mode&0o7777))
		ts := []unix.Timespec{{Sec: st.Atim.Sec, Nsec: st.Atim.Nsec}, {Sec: st.Mtim.Sec, Nsec: st.Mtim.Nsec}}
		if unix.UtimesNanoAt(unix.AT_FDCWD, tmp, ts, unix.AT_SYMLINK_NOFOLLOW) != nil {
			os.Remove(tmp)
			return nil
		}
		t.touched = true
		if os.Rename(tmp, full) != nil {
			os.Remove(tmp)
			return nil
		}
		var nst syscall.Stat_t
		if syscall.Lstat(full, &nst) != nil || nst.Ino == st.Ino || nst.Size != st.Size || nst.Mtim != st.Mtim || nst.Mode != st.Mode {
			return nil // not the interference intended: left unjudged
		}
		return done("new-inode-same-size-mtime", o.path, full)
	default: // file replaced by a directory
		t.touched = true
		if os.Remove(full) != nil {
			return nil
		}
		if os.Mkdir(full, 0o755) != nil {
			return nil
		}
		if rng.Intn(2) == 0 {
			os.WriteFile(filepath.Join(full, "inner"), fsx.UniqueToken(rng, 64), 0o644)
		}
		return done("file-replaced-by-directory", o.path, full)
	}
}

var _ = sort.Strings
