package main

import (
	"context"
	"crypto/sha1"
	"fmt"
	"hash"
	"math/rand"
	"os"
	"path/filepath"
	"sort"
	"strings"
	"syscall"
	"time"

	"google.golang.org/protobuf/proto"

	"github.com/mutagen-io/mutagen/pkg/synchronization/core"
	"github.com/mutagen-io/mutagen/pkg/synchronization/core/ignore"

	"verif/internal/fsx"
	"verif/internal/vk"
)

// ---------------------------------------------------------------- structured edits

// c13AddNest adds a four-level nest to a tree so that "a directory and a path
// two or more levels below it" always exists.
func c13AddNest(rng *rand.Rand, t fsx.Tree) {
	for k := 0; k < 1+rng.Intn(2); k++ {
		b := fmt.Sprintf("nest%d", k)
		t[b] = &fsx.Node{Kind: fsx.KDir, Mode: 0o755}
		t[b+"/mid"] = &fsx.Node{Kind: fsx.KDir, Mode: 0o755}
		t[b+"/mid/leaf"] = &fsx.Node{Kind: fsx.KDir, Mode: 0o755}
		for _, f := range []string{"/h", "/mid/g", "/mid/leaf/f1", "/mid/leaf/f2"} {
			t[b+f] = &fsx.Node{Kind: fsx.KFile, Mode: 0o644, Content: fsx.UniqueToken(rng, 50+rng.Intn(2000))}
		}
	}
}

// c13AddStructures adds (a) directories with siblings whose names are the
// directory's name followed by a byte that sorts before '/', and (b) the
// build/cache layout that Docker-syntax lists turn into a phantom directory.
func c13AddStructures(rng *rand.Rand, t fsx.Tree) {
	file := func(p string) {
		t[p] = &fsx.Node{Kind: fsx.KFile, Mode: 0o644, Content: fsx.UniqueToken(rng, 40+rng.Intn(1500))}
	}
	dir := func(p string) { t[p] = &fsx.Node{Kind: fsx.KDir, Mode: 0o755} }
	dir("pkg")
	dir("pkg/scan")
	dir("pkg/scan/deep")
	dir("pkg/scan/vendor")
	for _, f := range []string{"pkg/scan/walk.go", "pkg/scan/deep/x.go", "pkg/scan/deep/y.go", "pkg/scan/vendor/keep.go", "pkg/scan/vendor/junk.go",
		"pkg/scan.go", "pkg/scan-old", "pkg/scan+x", "pkg/scan x", "pkg/other.go"} {
		file(f)
	}
	if rng.Intn(2) == 0 {
		dir("pkg/scan.d")
		file("pkg/scan.d/inner")
	}
	for _, b := range []string{"nest0"} {
		if _, ok := t[b]; ok {
			file(b + ".bak")
			file(b + "-old")
			file(b + "/mid.txt")
			file(b + "/mid-2")
		}
	}
	dir("build")
	dir("build/cache")
	dir("build/cache/sub")
	for _, f := range []string{"build/top.txt", "build/cache/keep", "build/cache/junk1", "build/cache/sub/junk2", "build/other/o1"} {
		file(f)
	}
}

var prefixSuffixes = []string{" ", "+", "-", ".", ".go", "-old", "+x", " x", "!", "#1", ",v"}

// c13PrefixSiblingEdit edits a file somewhere inside a non-empty baseline
// directory D and, in the same step, changes (edits, creates or deletes) a
// sibling of D whose name is D's name plus a suffix starting with a byte below
// '/'. Only these two paths are reported for it.
func c13PrefixSiblingEdit(rng *rand.Rand, root string, baseline *core.Entry) (fsx.Edit, fsx.Edit, []string) {
	none := fsx.Edit{Op: "none"}
	l := listing(root)
	var inner []string
	for p, s := range l {
		if s.kind != syscall.S_IFREG || strings.Count(p, "/") < 1 || strings.Contains(p, tempPrefix) {
			continue
		}
		ok := true
		for q := parentOf(p); q != ""; q = parentOf(q) {
			if e := entryAt(baseline, q); e == nil || e.Kind != core.EntryKind_Directory || len(e.Contents) == 0 {
				ok = false
			}
		}
		if ok {
			inner = append(inner, p)
		}
	}
	if len(inner) == 0 {
		return none, fsx.Edit{}, nil
	}
	sort.Strings(inner)
	f := inner[rng.Intn(len(inner))]
	// D: any directory above the file
	comps := strings.Split(f, "/")
	D := strings.Join(comps[:1+rng.Intn(len(comps)-1)], "/")
	// the sibling: an existing one if there is, otherwise a new one
	var sib string
	var existing []string
	for p := range l {
		if strings.HasPrefix(p, D) && len(p) > len(D) && p[len(D)] < '/' && !strings.Contains(p[len(D):], "/") {
			existing = append(existing, p)
		}
	}
	sort.Strings(existing)
	if len(existing) > 0 && rng.Intn(3) != 0 {
		sib = existing[rng.Intn(len(existing))]
	} else {
		sib = D + prefixSuffixes[rng.Intn(len(prefixSuffixes))]
	}
	// edit inside D
	full := fullPath(root, f)
	fi, err := os.Lstat(full)
	if err != nil {
		return none, fsx.Edit{}, nil
	}
	os.Chmod(full, fi.Mode().Perm()|0o200)
	if os.WriteFile(full, exactBytes(rng, int(fi.Size())+1+rng.Intn(30)), 0) != nil {
		return none, fsx.Edit{}, nil
	}
	os.Chmod(full, fi.Mode().Perm())
	fsx.BumpMtime(full)
	// change the sibling
	sfull := fullPath(root, sib)
	op := "create"
	if sfi, err := os.Lstat(sfull); err == nil {
		if sfi.Mode().IsRegular() && rng.Intn(3) != 0 {
			op = "edit"
			os.WriteFile(sfull, exactBytes(rng, int(sfi.Size())+1+rng.Intn(30)), 0)
			fsx.BumpMtime(sfull)
		} else {
			op = "delete"
			os.RemoveAll(sfull)
		}
	} else {
		os.WriteFile(sfull, fsx.UniqueToken(rng, 60), 0o644)
	}
	return fsx.Edit{Op: "edit-inside-directory", Path: f, Path2: D}, fsx.Edit{Op: "prefix-sibling-" + op, Path: sib, Path2: D}, []string{f, sib}
}

// c13EditBesidePhantom changes something directly inside a directory that
// holds a phantom directory (Docker syntax: ignored, but traversed because of
// an exception below it) in the baseline.
func c13EditBesidePhantom(rng *rand.Rand, root string, baseline *core.Entry) (fsx.Edit, []string) {
	var parents []string
	walkEntry("", baseline, func(p string, e *core.Entry) {
		if e.Kind != core.EntryKind_Directory {
			return
		}
		for _, c := range e.Contents {
			if c.Kind == core.EntryKind_PhantomDirectory {
				parents = append(parents, p)
				return
			}
		}
	})
	if len(parents) == 0 {
		return fsx.Edit{Op: "none"}, nil
	}
	d := parents[rng.Intn(len(parents))]
	if fi, err := os.Lstat(fullPath(root, d)); err != nil || !fi.IsDir() {
		return fsx.Edit{Op: "none"}, nil
	}
	p := join(d, fmt.Sprintf("beside-phantom-%d", rng.Intn(4)))
	full := fullPath(root, p)
	if fi, err := os.Lstat(full); err == nil && fi.Mode().IsRegular() && rng.Intn(3) == 0 {
		os.Remove(full)
		return fsx.Edit{Op: "delete-beside-phantom", Path: p}, []string{p}
	}
	os.RemoveAll(full)
	if os.WriteFile(full, fsx.UniqueToken(rng, 80), 0o644) != nil {
		return fsx.Edit{Op: "none"}, nil
	}
	fsx.BumpMtime(full)
	return fsx.Edit{Op: "write-beside-phantom", Path: p}, []string{p}
}

// c13DeepEdit rewrites a file that lies at least two directory levels below
// some directory D and returns D as well: the recheck set of the step will
// hold both D and the file (the directories between them exist, non-empty, in
// the baseline).
func c13DeepEdit(rng *rand.Rand, root string, baseline *core.Entry) (fsx.Edit, []string, string) {
	var files []string
	for p, s := range listing(root) {
		if s.kind == syscall.S_IFREG && strings.Count(p, "/") >= 2 && !strings.Contains(p, tempPrefix) {
			// every directory above the file must be a directory of the baseline
			ok := true
			for q := parentOf(p); q != ""; q = parentOf(q) {
				if e := entryAt(baseline, q); e == nil || e.Kind != core.EntryKind_Directory || len(e.Contents) == 0 {
					ok = false
				}
			}
			if ok {
				files = append(files, p)
			}
		}
	}
	if len(files) == 0 {
		return fsx.Edit{Op: "none"}, nil, ""
	}
	sort.Strings(files)
	p := files[rng.Intn(len(files))]
	comps := strings.Split(p, "/")
	// D is at least two levels above the file's own name
	k := 1 + rng.Intn(len(comps)-2)
	D := strings.Join(comps[:k], "/")
	full := fullPath(root, p)
	fi, err := os.Lstat(full)
	if err != nil {
		return fsx.Edit{Op: "none"}, nil, ""
	}
	os.Chmod(full, fi.Mode().Perm()|0o200)
	if os.WriteFile(full, exactBytes(rng, int(fi.Size())+1+rng.Intn(40)), 0) != nil {
		return fsx.Edit{Op: "none"}, nil, ""
	}
	os.Chmod(full, fi.Mode().Perm())
	fsx.BumpMtime(full)
	return fsx.Edit{Op: "deep-edit-with-ancestor-reported", Path: p, Path2: D}, []string{p}, D
}

type layoutNode struct {
	rel    string
	kind   uint32
	mode   uint32
	size   int64
	target string
}

// c13RecreateDirectory removes a populated directory and creates it again
// with the same names, kinds, modes, sizes and link targets but new file
// content, quickly (so that inode numbers tend to be handed back and only the
// nanosecond mtime tells).
func c13RecreateDirectory(rng *rand.Rand, root string) (fsx.Edit, []string) {
	l := listing(root)
	var dirs []string
	for p, s := range l {
		if s.kind == syscall.S_IFDIR {
			n := 0
			for q := range l {
				if strings.HasPrefix(q, p+"/") {
					n++
				}
			}
			if n >= 1 && n <= 40 {
				dirs = append(dirs, p)
			}
		}
	}
	if len(dirs) == 0 {
		return fsx.Edit{Op: "none"}, nil
	}
	sort.Strings(dirs)
	X := dirs[rng.Intn(len(dirs))]
	var nodes []layoutNode
	var xmode uint32 = 0o755
	if fi, err := os.Lstat(fullPath(root, X)); err == nil {
		xmode = uint32(fi.Mode().Perm())
	}
	for q := range l {
		if strings.HasPrefix(q, X+"/") {
			var st syscall.Stat_t
			if syscall.Lstat(fullPath(root, q), &st) != nil {
				return fsx.Edit{Op: "none"}, nil
			}
			n := layoutNode{rel: q, kind: st.Mode & syscall.S_IFMT, mode: st.Mode & 0o7777, size: st.Size}
			if n.kind == syscall.S_IFLNK {
				n.target, _ = os.Readlink(fullPath(root, q))
			}
			nodes = append(nodes, n)
		}
	}
	sort.Slice(nodes, func(i, j int) bool { return nodes[i].rel < nodes[j].rel })
	if os.RemoveAll(fullPath(root, X)) != nil {
		return fsx.Edit{Op: "none"}, nil
	}
	os.Mkdir(fullPath(root, X), 0o755)
	for _, n := range nodes {
		full := fullPath(root, n.rel)
		switch n.kind {
		case syscall.S_IFDIR:
			os.Mkdir(full, 0o755)
		case syscall.S_IFREG:
			os.WriteFile(full, exactBytes(rng, int(n.size)), 0o600)
			os.Chmod(full, os.FileMode(n.mode))
		case syscall.S_IFLNK:
			os.Symlink(n.target, full)
		case syscall.S_IFIFO:
			syscall.Mkfifo(full, n.mode)
		}
	}
	for i := len(nodes) - 1; i >= 0; i-- {
		if nodes[i].kind == syscall.S_IFDIR {
			os.Chmod(fullPath(root, nodes[i].rel), os.FileMode(nodes[i].mode))
		}
	}
	os.Chmod(fullPath(root, X), os.FileMode(xmode))
	// every path of the old and the new directory changed; the caller's
	// listing comparison adds whatever differs, these are named explicitly
	paths := []string{X}
	for _, n := range nodes {
		paths = append(paths, n.rel)
	}
	return fsx.Edit{Op: "recreate-directory-same-layout", Path: X}, paths
}

// ---------------------------------------------------------------- shared hasher faults

// faultHasher is ONE hasher object shared by all scans of a history (as the
// local endpoint does). When armed it runs an action once the data written
// since the last Reset passes a threshold, i.e. in the middle of hashing a
// large file.
type faultHasher struct {
	hash.Hash
	since     int64
	threshold int64
	action    func()
}

func (f *faultHasher) Reset() { f.since = 0; f.Hash.Reset() }
func (f *faultHasher) Write(p []byte) (int, error) {
	f.since += int64(len(p))
	if f.action != nil && f.since >= f.threshold {
		a := f.action
		f.action = nil
		a()
	}
	return f.Hash.Write(p)
}

func directScan(ctx context.Context, root string, c fsx.ScanConfig, h hash.Hash, prev *fsx.ScanState, recheck map[string]bool) (*fsx.ScanState, error) {
	ig, err := c.NewIgnorer()
	if err != nil {
		return nil, err
	}
	var baseline *core.Snapshot
	var cache *core.Cache
	var icache ignore.IgnoreCache
	if prev != nil {
		baseline, cache, icache = prev.Snapshot, prev.Cache, prev.IgnoreCache
	}
	snap, nc, ni, err := core.Scan(ctx, root, baseline, recheck, h, cache, ig, icache, c.ProbeMode, c.SymbolicLinkMode, c.PermissionsMode)
	if err != nil {
		return nil, err
	}
	return &fsx.ScanState{Snapshot: snap, Cache: nc, IgnoreCache: ni}, nil
}

func c13HasherFaults(r *vk.Run, scratch string) {
	n := r.Pick(16, 240)
	workers := workerCount()
	parallel(workers, func(w int) {
		for i := w; i < n; i += workers {
			rng := r.Rand(fmt.Sprintf("c13-hasher-%d", i))
			dir := filepath.Join(scratch, fmt.Sprintf("hf%d", i))
			c13HasherFaultCase(r, rng, i, filepath.Join(dir, "root"))
			forceRemove(dir)
		}
	})
}

func c13HasherFaultCase(r *vk.Run, rng *rand.Rand, index int, root string) {
	variant := []string{"cancel-while-hashing", "file-grows-while-hashed"}[index%2]
	sl := symlinkModes[rng.Intn(3)]
	scfg := fsx.ScanConfig{ProbeMode: probeModes[rng.Intn(2)], SymbolicLinkMode: sl, PermissionsMode: permModes[rng.Intn(2)], Docker: rng.Intn(2) == 0}
	tree := fsx.RandomTree(rng, fsx.TreeConfig{MaxEntries: 5 + rng.Intn(20), MaxDepth: 3, MaxFileSize: 8 << 10, Links: true})
	for p := range tree {
		if related(p, "bigdir") {
			delete(tree, p)
		}
	}
	if err := fsx.Materialize(root, tree); err != nil {
		r.Inconclusive("tree could not be materialized")
		return
	}
	big := "bigdir/big.bin"
	bigFull := fullPath(root, big)
	os.MkdirAll(filepath.Dir(bigFull), 0o755)
	os.WriteFile(fullPath(root, "bigdir/small"), fsx.UniqueToken(rng, 300), 0o644)
	bigSize := int64(300 << 10)
	if variant == "cancel-while-hashing" {
		bigSize = 40 << 20 // beyond the scanner's 1024 x 32 KiB preemption interval; sparse
	}
	writeHeader := func() bool {
		f, err := os.OpenFile(bigFull, os.O_CREATE|os.O_WRONLY, 0o644)
		if err != nil {
			return false
		}
		defer f.Close()
		if _, err := f.WriteAt(fsx.UniqueToken(rng, 4096), 0); err != nil {
			return false
		}
		return f.Truncate(bigSize) == nil
	}
	if !writeHeader() {
		r.Inconclusive("large file could not be created")
		return
	}
	c := map[string]any{"hasher_fault_case": index, "variant": variant, "symlinks": slName(sl), "docker_syntax": scfg.Docker, "large_file": big, "large_file_size": bigSize, "tree": describeTree(tree)}
	fmt.Printf("C13 hasher-fault case %d %s size=%d\n", index, variant, bigSize)
	H := &faultHasher{Hash: sha1.New()}
	guard(r, c, func() {
		state0, err := directScan(context.Background(), root, scfg, H, nil, nil)
		if err != nil {
			r.Violation(map[string]string{"rule": "cold-scan-error"}, "first scan failed: "+err.Error(), c)
			return
		}
		// edits before the faulty scan: the large file (so that it must be
		// hashed again) and a few random ones
		changed := map[string]bool{}
		before := listing(root)
		if !writeHeader() || fsx.BumpMtime(bigFull) != nil {
			r.Inconclusive("large file could not be edited")
			return
		}
		for k := rng.Intn(3); k > 0; k-- {
			if _, paths, err := fsx.RandomEdit(rng, root); err == nil {
				for _, p := range paths {
					changed[p] = true
				}
			}
		}
		if fi, err := os.Lstat(bigFull); err != nil || !fi.Mode().IsRegular() || fi.Size() != bigSize {
			r.Count("hasher_fault_cases_large_file_lost_to_random_edit", 1)
			return
		}
		diffListing(before, listing(root), changed)
		recheck := map[string]bool{big: true}
		for p := range changed {
			recheck[p] = true
		}
		// the faulty scan, same hasher
		prev := state0
		switch variant {
		case "cancel-while-hashing":
			ctx, cancel := context.WithCancel(context.Background())
			H.threshold, H.action = 2<<20, cancel
			_, err := directScan(ctx, root, scfg, H, state0, recheck)
			H.action = nil
			cancel()
			if err == nil {
				r.Inconclusive("hasher fault: cancellation did not interrupt the scan")
				return
			}
			c["faulty_scan"] = "error: " + err.Error()
			// the endpoint keeps its previous snapshot, caches and recheck paths
		case "file-grows-while-hashed":
			H.threshold = 64 << 10
			H.action = func() {
				if f, err := os.OpenFile(bigFull, os.O_WRONLY|os.O_APPEND, 0); err == nil {
					f.Write(fsx.UniqueToken(rng, 1000))
					f.Close()
				}
			}
			state1, err := directScan(context.Background(), root, scfg, H, state0, recheck)
			fired := H.action == nil
			H.action = nil
			if err != nil {
				r.Violation(map[string]string{"rule": "accelerated-scan-error", "hasher_fault": variant}, "scan during which a file grew failed instead of reporting the file: "+err.Error(), c)
				return
			}
			e := entryAt(state1.Snapshot.Content, big)
			if !fired || e == nil || e.Kind != core.EntryKind_Problematic {
				r.Inconclusive("hasher fault: growing file was not noticed while hashing")
				return
			}
			c["faulty_scan"] = "entry: " + descAt(state1.Snapshot.Content, big)
			prev = state1
			recheck = map[string]bool{big: true} // it changed again, during the scan
			bigSize += 1000
		}
		r.Count("hasher_faults_hit:"+variant, 1)
		// the tree is quiet now: same hasher object, accelerated; fresh hasher, cold
		r.Eval(1)
		ctx, cancel := context.WithTimeout(context.Background(), 5*time.Minute)
		defer cancel()
		acc, err := directScan(ctx, root, scfg, H, prev, recheck)
		if err != nil {
			r.Violation(map[string]string{"rule": "accelerated-scan-error", "hasher_fault": variant}, "accelerated scan after a hashing fault failed: "+err.Error(), c)
			return
		}
		cold, err := fsx.Cold(root, scfg)
		if err != nil {
			r.Violation(map[string]string{"rule": "cold-scan-error"}, "cold scan failed: "+err.Error(), c)
			return
		}
		if !proto.Equal(acc.Snapshot, cold.Snapshot) {
			_, where := fsx.EqualLoose(cold.Snapshot.Content, acc.Snapshot.Content)
			r.Violation(map[string]string{"rule": "content-differs", "hasher_fault": variant},
				fmt.Sprintf("after a hashing fault (%s) the accelerated scan with the same hasher object differs from a cold scan with a fresh hasher at %q: cold=%s accelerated=%s", variant, where, descAt(cold.Snapshot.Content, where), descAt(acc.Snapshot.Content, where)), c)
			return
		}
		r.Distinct(fmt.Sprintf("hasher-fault|%s|%s|%v", variant, slName(sl), scfg.Docker))
		if index < 2 {
			r.Sample(c)
		}
	})
}
