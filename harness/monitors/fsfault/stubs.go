package main

func c09() {}
func c10() {}
func c41() {}
func c42() {}
