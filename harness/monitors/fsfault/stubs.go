package main

func c10() {}
func c41() {}
func c42() {}
